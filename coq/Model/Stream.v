(* Model of one TCP/TLS connection's byte-stream servicing:
   hio.core.tcp.clienting.{Client,ClientTls} and hio.core.tcp.serving.{Remoter,RemoterTls}
   (tx / send / serviceSends / receive / serviceReceives / serviceReceiveOnce / clearRxbs /
   Client.service) with an attached hio.core.wiring.WireLog.

   The kernel (or OpenSSL) is an oracle: every servicing op carries the answers the
   socket gives when it is asked (a send is answered by "accepted n bytes" or by an
   OSError whose args[0] is e; a recv by a chunk, b'' = orderly EOF, or an OSError).
   Error numbers are the Linux errno values / OpenSSL SSL_ERROR_* codes, i.e. exactly
   the integers the code compares ex.args[0] against.

   Ghost fields (not in the Python objects, observed by the harness on the fake
   socket and the log buffers): k_sent = bytes the kernel accepted, in order;
   k_recvd = bytes the kernel delivered, in order; taken = bytes the application
   removed from rxbs with clearRxbs; wlog = WireLog write records in order. *)
From Hio Require Import Base.Prelude.

Inductive kind := KClient | KClientTls | KRemoter | KRemoterTls.
Inductive dir := DTx | DRx.

Definition is_tls (k : kind) : bool :=
  match k with KClientTls | KRemoterTls => true | _ => false end.
Definition is_client (k : kind) : bool :=
  match k with KClient | KClientTls => true | _ => false end.

(* ---- error numbers (Linux) and OpenSSL codes ---- *)
Definition EAGAIN : N := 11.        Definition EWOULDBLOCK : N := 11.
Definition EPIPE : N := 32.         Definition ENETDOWN : N := 100.
Definition ENETUNREACH : N := 101.  Definition ENETRESET : N := 102.
Definition ECONNABORTED : N := 103. Definition ECONNRESET : N := 104.
Definition ETIMEDOUT : N := 110.    Definition ECONNREFUSED : N := 111.
Definition EHOSTDOWN : N := 112.    Definition EHOSTUNREACH : N := 113.
Definition SSL_WANT_READ : N := 2.  Definition SSL_WANT_WRITE : N := 3.
Definition SSL_ZERO_RETURN : N := 6. Definition SSL_EOF : N := 8.

Definition memN (e : N) (l : list N) : bool := existsb (N.eqb e) l.

Inductive fclass := WouldBlock | CutOff | Raise.

(* The two tuples tested at each of the eight send/receive sites, as written there. *)
Definition block_list (k : kind) (d : dir) : list N :=
  match k, d with
  | KClient, DRx => [EAGAIN; EWOULDBLOCK]
  | KClient, DTx => [EAGAIN; EWOULDBLOCK]
  | KRemoter, DRx => [EAGAIN; EWOULDBLOCK]
  | KRemoter, DTx => [EAGAIN; EWOULDBLOCK]
  | KClientTls, DRx => [SSL_WANT_READ; SSL_WANT_WRITE]
  | KClientTls, DTx => [SSL_WANT_READ; SSL_WANT_WRITE]
  | KRemoterTls, DRx => [SSL_WANT_READ; SSL_WANT_WRITE]
  | KRemoterTls, DTx => [SSL_WANT_READ; SSL_WANT_WRITE]
  end.

(* EPIPE is in none of them (open finding D5: the tree's own test pins
   BrokenPipeError escaping Remoter.send, so it was not repaired). *)
Definition plain_cut : list N :=
  [ECONNRESET; ENETRESET; ENETUNREACH; EHOSTUNREACH; ENETDOWN; EHOSTDOWN;
   ETIMEDOUT; ECONNREFUSED].
Definition tls_cut : list N := plain_cut ++ [SSL_EOF; SSL_ZERO_RETURN].

Definition cut_list (k : kind) (d : dir) : list N :=
  match k, d with
  | KClient, DRx => plain_cut
  | KClient, DTx => plain_cut
  | KRemoter, DRx => plain_cut
  | KRemoter, DTx => plain_cut
  | KClientTls, DRx => tls_cut
  | KClientTls, DTx => tls_cut
  | KRemoterTls, DRx => tls_cut
  | KRemoterTls, DTx => tls_cut
  end.

Definition classify (k : kind) (d : dir) (e : N) : fclass :=
  if memN e (block_list k d) then WouldBlock
  else if memN e (cut_list k d) then CutOff
  else Raise.

(* ---- state ---- *)
Record cfg := { kd : kind; wl_tx : bool; wl_rx : bool }.   (* wl_*: a WireLog with txed / rxed is attached *)

Record conn := {
  connected : bool;
  cutoff : bool;
  txbs : bytes;
  rxbs : bytes;
  k_sent : bytes;
  k_recvd : bytes;
  taken : bytes;
  wlog : list (dir * bytes);
  wl_now : option (bool * bool);   (* Some (txed, rxed) once the attached WireLog was reconfigured / closed *)
  lg_tx : bytes;                   (* ghost: bytes sent while tx logging was enabled *)
  lg_rx : bytes }.                 (* ghost: bytes received while rx logging was enabled *)

Definition init (conn0 : bool) : conn :=
  {| connected := conn0; cutoff := false; txbs := []; rxbs := [];
     k_sent := []; k_recvd := []; taken := []; wlog := []; wl_now := None; lg_tx := []; lg_rx := [] |}.

Definition set_connected (s : conn) (b c : bool) : conn :=
  {| connected := b; cutoff := c; txbs := txbs s; rxbs := rxbs s;
     k_sent := k_sent s; k_recvd := k_recvd s; taken := taken s; wlog := wlog s;
     wl_now := wl_now s; lg_tx := lg_tx s; lg_rx := lg_rx s |}.
Definition cut (s : conn) : conn := set_connected s (connected s) true.
Definition set_txbs (s : conn) (b : bytes) : conn :=
  {| connected := connected s; cutoff := cutoff s; txbs := b; rxbs := rxbs s;
     k_sent := k_sent s; k_recvd := k_recvd s; taken := taken s; wlog := wlog s;
     wl_now := wl_now s; lg_tx := lg_tx s; lg_rx := lg_rx s |}.
Definition set_rx (s : conn) (b t : bytes) : conn :=
  {| connected := connected s; cutoff := cutoff s; txbs := txbs s; rxbs := b;
     k_sent := k_sent s; k_recvd := k_recvd s; taken := t; wlog := wlog s;
     wl_now := wl_now s; lg_tx := lg_tx s; lg_rx := lg_rx s |}.
(* WireLog.close() (both off) / .reopen(rxed=, txed=, samed=) while attached *)
Definition set_wl (s : conn) (t r : bool) : conn :=
  {| connected := connected s; cutoff := cutoff s; txbs := txbs s; rxbs := rxbs s;
     k_sent := k_sent s; k_recvd := k_recvd s; taken := taken s; wlog := wlog s;
     wl_now := Some (t, r); lg_tx := lg_tx s; lg_rx := lg_rx s |}.
(* is direction d logged right now *)
Definition log_on (c : cfg) (s : conn) (d : dir) : bool :=
  match wl_now s, d with
  | Some (t, _), DTx => t
  | Some (_, r), DRx => r
  | None, DTx => wl_tx c
  | None, DRx => wl_rx c
  end.
(* the kernel moved chunk b in direction d: ghost stream and (if enabled) wire log record *)
Definition moved (c : cfg) (d : dir) (b : bytes) (s : conn) : conn :=
  {| connected := connected s; cutoff := cutoff s; txbs := txbs s; rxbs := rxbs s;
     k_sent := match d with DTx => k_sent s ++ b | DRx => k_sent s end;
     k_recvd := match d with DRx => k_recvd s ++ b | DTx => k_recvd s end;
     taken := taken s;
     wlog := if log_on c s d then wlog s ++ [(d, b)] else wlog s;
     wl_now := wl_now s;
     lg_tx := match d with DTx => if log_on c s DTx then lg_tx s ++ b else lg_tx s | DRx => lg_tx s end;
     lg_rx := match d with DRx => if log_on c s DRx then lg_rx s ++ b else lg_rx s | DTx => lg_rx s end |}.

(* ---- kernel answers ---- *)
Inductive sres := SAccept (n : nat) | SFail (e : N).
Inductive rres := RData (d : bytes) | RFail (e : N).

Definition is_nil {A} (l : list A) : bool := match l with [] => true | _ => false end.

(* serviceSends/serviceReceives loop guard: clients also require .connected *)
Definition gate (c : cfg) (s : conn) : bool :=
  (if is_client (kd c) then connected s else true) && negb (cutoff s).

(* X.send(self.txbs): returns count *)
Definition send (c : cfg) (s : conn) (k : sres) : conn * res nat :=
  match k with
  | SAccept O => (s, Ok O)
  | SAccept n => (moved c DTx (firstn n (txbs s)) s, Ok n)
  | SFail e =>
    match classify (kd c) DTx e with
    | WouldBlock => (s, Ok O)
    | CutOff => (cut s, Ok O)
    | Raise => (s, Exc OSErr)
    end
  end.

(* every servicing function returns (state, result, number of socket calls made) *)
Definition service_sends (c : cfg) (s : conn) (k : sres) : conn * res unit * nat :=
  if negb (is_nil (txbs s)) && gate c s then
    match send c s k with
    | (s', Ok n) => (set_txbs s' (skipn n (txbs s')), Ok tt, 1)
    | (s', Exc e) => (s', Exc e, 1)
    end
  else (s, Ok tt, 0).

(* X.receive(): None (would block) | b'' (closed or cut) | data *)
Definition receive (c : cfg) (s : conn) (k : rres) : conn * res (option bytes) :=
  match k with
  | RFail e =>
    match classify (kd c) DRx e with
    | WouldBlock => (s, Ok None)
    | CutOff => (cut s, Ok (Some []))
    | Raise => (s, Exc OSErr)
    end
  | RData [] => (cut s, Ok (Some []))
  | RData d => (moved c DRx d s, Ok (Some d))
  end.

Definition rx_extend (s : conn) (d : bytes) : conn := set_rx s (rxbs s ++ d) (taken s).

(* an exhausted answer list means the socket would block *)
Fixpoint service_receives (c : cfg) (s : conn) (ks : list rres) : conn * res unit * nat :=
  if gate c s then
    match ks with
    | [] => (s, Ok tt, 1)
    | k :: ks' =>
      match receive c s k with
      | (s', Exc e) => (s', Exc e, 1)
      | (s', Ok None) => (s', Ok tt, 1)
      | (s', Ok (Some [])) => (s', Ok tt, 1)
      | (s', Ok (Some d)) =>
        let '(s'', r, n) := service_receives c (rx_extend s' d) ks' in (s'', r, S n)
      end
    end
  else (s, Ok tt, 0).

Definition service_receive_once (c : cfg) (s : conn) (k : rres) : conn * res unit * nat :=
  if gate c s then
    match receive c s k with
    | (s', Exc e) => (s', Exc e, 1)
    | (s', Ok None) => (s', Ok tt, 1)
    | (s', Ok (Some [])) => (s', Ok tt, 1)
    | (s', Ok (Some d)) => (rx_extend s' d, Ok tt, 1)
    end
  else (s, Ok tt, 0).

Inductive op :=
| Tx (d : bytes)                         (* .tx(d) *)
| SvcSends (k : sres)                    (* .serviceSends() *)
| SvcRecvs (ks : list rres)              (* .serviceReceives() *)
| SvcRecvOnce (k : rres)                 (* .serviceReceiveOnce() *)
| Service (k : sres) (ks : list rres)    (* Client.service(): sends then receives; remoters: receives then sends as Server.service does *)
| TakeRx                                 (* application consumes: .clearRxbs() *)
| WlSet (t r : bool)                     (* the attached WireLog is closed (false false) or reopened with txed=t rxed=r *)
| Connect.                               (* client: serviceConnect() with a succeeding connect (and handshake) *)

Definition step (c : cfg) (s : conn) (o : op) : conn * res unit * nat :=
  match o with
  | Tx d => (set_txbs s (txbs s ++ d), Ok tt, 0)
  | SvcSends k => service_sends c s k
  | SvcRecvs ks => service_receives c s ks
  | SvcRecvOnce k => service_receive_once c s k
  | Service k ks =>
    if is_client (kd c) then
      match service_sends c s k with
      | (s', Ok _, n) => let '(s'', r, m) := service_receives c s' ks in (s'', r, n + m)
      | x => x
      end
    else
      match service_receives c s ks with
      | (s', Ok _, n) => let '(s'', r, m) := service_sends c s' k in (s'', r, n + m)
      | x => x
      end
  | TakeRx => (set_rx s [] (taken s ++ rxbs s), Ok tt, 0)
  | WlSet t r => (set_wl s t r, Ok tt, 0)
  | Connect =>
    if is_client (kd c) && negb (connected s) then (set_connected s true false, Ok tt, 0)
    else (s, Ok tt, 0)
  end.

Definition st (x : conn * res unit * nat) : conn := fst (fst x).

Fixpoint exec (c : cfg) (s : conn) (ops : list op) : conn :=
  match ops with
  | [] => s
  | o :: ops' => exec c (st (step c s o)) ops'
  end.

(* all payloads handed to .tx, in order *)
Fixpoint all_tx (ops : list op) : bytes :=
  match ops with
  | [] => []
  | Tx d :: ops' => d ++ all_tx ops'
  | _ :: ops' => all_tx ops'
  end.

Definition log_of (d : dir) (l : list (dir * bytes)) : bytes :=
  concat (map snd (filter (fun r => match fst r, d with DTx, DTx | DRx, DRx => true | _, _ => false end) l)).

(* ---- correspondence ---- *)
Record snap := { sn_res : res unit; sn_calls : nat; sn_tx : N; sn_rx : N; sn_cut : bool }.

Definition lenN {A} (l : list A) : N := N.of_nat (length l).

Fixpoint trace (c : cfg) (s : conn) (ops : list op) : list snap :=
  match ops with
  | [] => []
  | o :: ops' =>
    let x := step c s o in
    {| sn_res := snd (fst x); sn_calls := snd x; sn_tx := lenN (txbs (st x));
       sn_rx := lenN (rxbs (st x)); sn_cut := cutoff (st x) |} :: trace c (st x) ops'
  end.

Record case := {
  c_cfg : cfg; c_conn0 : bool; c_ops : list op;
  c_snaps : list snap;
  c_connected : bool; c_cutoff : bool;
  c_txbs : bytes; c_rxbs : bytes;
  c_ksent : bytes; c_krecvd : bytes; c_taken : bytes;
  c_wlog : list (dir * bytes) }.

Definition unit_eqb (_ _ : unit) : bool := true.
Definition dir_eqb (a b : dir) : bool :=
  match a, b with DTx, DTx | DRx, DRx => true | _, _ => false end.
Definition snap_eqb (a b : snap) : bool :=
  res_eqb unit_eqb (sn_res a) (sn_res b) && Nat.eqb (sn_calls a) (sn_calls b) &&
  N.eqb (sn_tx a) (sn_tx b) && N.eqb (sn_rx a) (sn_rx b) && Bool.eqb (sn_cut a) (sn_cut b).

Definition check_case (x : case) : bool :=
  let s0 := init (c_conn0 x) in
  let s := exec (c_cfg x) s0 (c_ops x) in
  list_eqb snap_eqb (trace (c_cfg x) s0 (c_ops x)) (c_snaps x) &&
  Bool.eqb (connected s) (c_connected x) && Bool.eqb (cutoff s) (c_cutoff x) &&
  bytes_eqb (txbs s) (c_txbs x) && bytes_eqb (rxbs s) (c_rxbs x) &&
  bytes_eqb (k_sent s) (c_ksent x) && bytes_eqb (k_recvd s) (c_krecvd x) &&
  bytes_eqb (taken s) (c_taken x) &&
  list_eqb (pair_eqb dir_eqb bytes_eqb) (wlog s) (c_wlog x).

(* ---- branch classifier (generator coverage) ---- *)
Definition send_branch (c : cfg) (s : conn) (k : sres) : nat :=
  if is_nil (txbs s) then 1 else if negb (gate c s) then 2 else
  match k with
  | SAccept O => 3
  | SAccept n => if Nat.ltb n (length (txbs s)) then 4 else 5
  | SFail e => match classify (kd c) DTx e with WouldBlock => 6 | CutOff => 7 | Raise => 8 end
  end.

(* how a serviceReceives ended, given it was entered with the gate open *)
Fixpoint recv_end (c : cfg) (ks : list rres) : nat :=
  match ks with
  | [] => 10
  | RFail e :: _ => match classify (kd c) DRx e with WouldBlock => 11 | CutOff => 12 | Raise => 13 end
  | RData [] :: _ => 14
  | RData _ :: ks' => recv_end c ks'
  end.

Definition branch_of (c : cfg) (s : conn) (o : op) : list nat :=
  match o with
  | Tx [] => [0]
  | Tx _ => [15]
  | SvcSends k => [send_branch c s k]
  | SvcRecvs ks => if gate c s then [recv_end c ks] else [9]
  | SvcRecvOnce k => if gate c s then [16; recv_end c [k]] else [9]
  | Service k ks => [17; send_branch c s k]
  | TakeRx => [18]
  | WlSet _ _ => [21]
  | Connect => if is_client (kd c) && negb (connected s) then [19] else [20]
  end.

Fixpoint branches (c : cfg) (s : conn) (ops : list op) : list nat :=
  match ops with
  | [] => []
  | o :: ops' => branch_of c s o ++ branches c (st (step c s o)) ops'
  end.
Definition n_branches : nat := 22.
Definition case_branches (x : case) : list nat :=
  branches (c_cfg x) (init (c_conn0 x)) (c_ops x).
