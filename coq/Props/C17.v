(* C17 — Chunked transfer coding decodes exactly and rejects invalid chunk
   sizes.  Statements only; proofs in Proofs/ChunkProofs.v, ChunkRoundtrip.v. *)
From Coq Require Import Init.Byte.
From Hio Require Import Base.Prelude Model.HttpLine Model.Chunk Model.HttpMsg
  Proofs.HttpLineProofs Proofs.ChunkProofs Proofs.ChunkRoundtrip Proofs.HttpMsgProofs Proofs.HttpMsgClosed Proofs.HttpMsgIndep.

(* Strictness.  A chunk-size line whose size field (the text before the first
   ';', blanks and tabs around it removed) is not 1*HEXDIG makes parseChunk
   raise InvalidChunk, an HTTPException, whatever follows; no chunk is
   delivered for it (Fail carries no output) ... *)
Theorem C17_strict : forall line rest,
  ~ In CRb line -> (lenN line <= max_line)%N ->
  plain_hex (size_field line) = false ->
  chunk_stage CSize (line ++ CRLFb ++ rest) = Fail HTTPExc.
Proof. exact chunk_strict. Qed.
Print Assumptions C17_strict.

(* ... and a size line is never read as any size other than the positional
   value of its hex digits: whenever the size stage accepts, the field was
   plain hex and the decoder waits for exactly that many bytes (or, for 0,
   goes on to the trailer). *)
Theorem C17_never_reinterpreted : forall b s' r o,
  chunk_stage CSize b = Step s' r o ->
  exists line p, line_stage ECrlf false b = Step false r line /\
    plain_hex (size_field line) = true /\ o = None /\
    let n := hex_value (strip ws_sptab (size_field line)) in
    (n = 0%N /\ s' = CTrail p [] \/ n <> 0%N /\ s' = CData n p).
Proof. exact chunk_size_exact. Qed.
Print Assumptions C17_never_reinterpreted.

(* The decoder's result (body, extension parameters, trailers, error, bytes
   left over) does not depend on how the encoded bytes are split into reads. *)
Theorem C17_fragmentation : forall reads, decode_reads reads = decode (concat reads).
Proof. exact decode_reads_concat. Qed.
Print Assumptions C17_fragmentation.

(* Round trip.  For every list of chunks (non-empty data; the size written in
   ANY hex spelling of the data length: case, leading zeros; any extension
   text that is empty or starts with ';' and has no CR), any spelling 1*"0" of
   the last-chunk, any last-chunk extension text, up to 100 trailers (name
   without ':' or LF, value without LF), and any bytes following the message:
   decoding yields exactly that body, those extension parameters, those
   trailers, and leaves exactly the following bytes. *)
Theorem C17_roundtrip : forall cs zeros lastext trs tail,
  Forall wf_chunk cs -> zeros_ok zeros -> ext_text_ok lastext ->
  (lenN (zeros ++ lastext) <= max_line)%N ->
  Forall wf_trailer trs -> length trs <= max_headers ->
  decode (encode_chunked cs zeros lastext trs ++ tail) =
  DOk {| d_body := concat (map e_data cs);
         d_parms := parms_of (sent_chunks cs lastext trs);
         d_trails := trails_fold [] trs;
         d_rest := tail |}.
Proof. exact decode_encoded. Qed.
Print Assumptions C17_roundtrip.

(* "those extensions": the parameters of a chunk whose extension text was
   rendered from a list of (name, optional value) tokens are that list read
   as a dict (sent_chunks uses ext_parms of the text). *)
Theorem C17_extensions : forall l, Forall wf_extnv l ->
  ext_text_ok (render_exts l) /\
  ext_parms (render_exts l) = fold_left (fun p nv => dset p (fst nv) (snd nv)) l [].
Proof. intros l H. split; [apply render_exts_ok; exact H|apply ext_parms_render; exact H]. Qed.
Print Assumptions C17_extensions.

(* ... and in any fragmentation (with C17_fragmentation). *)
Theorem C17_roundtrip_any_reads : forall reads cs zeros lastext trs tail,
  Forall wf_chunk cs -> zeros_ok zeros -> ext_text_ok lastext ->
  (lenN (zeros ++ lastext) <= max_line)%N ->
  Forall wf_trailer trs -> length trs <= max_headers ->
  concat reads = encode_chunked cs zeros lastext trs ++ tail ->
  decode_reads reads =
  DOk {| d_body := concat (map e_data cs);
         d_parms := parms_of (sent_chunks cs lastext trs);
         d_trails := trails_fold [] trs;
         d_rest := tail |}.
Proof.
  intros reads cs zeros lastext trs tail H1 H2 H3 H4 H5 H6 E.
  rewrite decode_reads_concat, E. apply decode_encoded; assumption.
Qed.
Print Assumptions C17_roundtrip_any_reads.

(* hio's own sender: packChunk ("%x" CRLF data CRLF) for every sequence of
   non-empty messages shorter than 65536 bytes each (the "%x" rendering is
   checked for every such length by computation), then b"0\r\n\r\n". *)
Theorem C17_packchunk : forall msgs tail,
  Forall (fun m => m <> [] /\ (lenN m < 65536)%N) msgs ->
  decode (concat (map pack_chunk msgs) ++ last_chunk_plain ++ tail) =
  DOk {| d_body := concat msgs; d_parms := []; d_trails := []; d_rest := tail |}.
Proof. exact decode_packed. Qed.
Print Assumptions C17_packchunk.

(* Non-vacuity of the round trip: two chunks, sizes spelled "5" and "00A",
   extensions ;a=b;n and none, last-chunk "0;z=1", trailers X-T: v, x-t: w,
   Y: (empty), pipelined tail "zz". *)
Example C17_roundtrip_example :
  let c1 := {| e_hex := of_bytes [x35]; e_ext := render_exts [(of_bytes [x61], Some (of_bytes [x62])); (of_bytes [x6e], None)];
               e_data := of_bytes [x68;x65;x0d;x0a;x6c] |} in
  let c2 := {| e_hex := of_bytes [x30;x30;x41]; e_ext := []; e_data := of_bytes [x30;x31;x32;x33;x34;x35;x36;x37;x38;x39] |} in
  let trs := [(of_bytes [x58;x2d;x54], of_bytes [x76]); (of_bytes [x78;x2d;x74], of_bytes [x77]); (of_bytes [x59], [])] in
  decode (encode_chunked [c1; c2] (of_bytes [x30]) (render_exts [(of_bytes [x7a], Some (of_bytes [x31]))]) trs ++ of_bytes [x7a;x7a])
  = DOk {| d_body := of_bytes [x68;x65;x0d;x0a;x6c;x30;x31;x32;x33;x34;x35;x36;x37;x38;x39];
           d_parms := [(of_bytes [x61], Some (of_bytes [x62])); (of_bytes [x6e], None); (of_bytes [x7a], Some (of_bytes [x31]))];
           d_trails := [(of_bytes [x78;x2d;x74], of_bytes [x77]); (of_bytes [x79], [])];
           d_rest := of_bytes [x7a;x7a] |}.
Proof. vm_compute. reflexivity. Qed.

(* Closure.  Inside the message parsers (Requestant and Respondent) the chunk
   decoder runs with a .closed flag.  If the bytes already buffered hold the
   rest of the chunked message -- i.e. the parser with .closed False completes
   the message from them -- then the parser with .closed True decodes exactly
   the same message (body, parameters, trailers, persistence) and leaves the
   same bytes behind.  Closure only shows once the buffer has run dry before
   the last-chunk. *)
Theorem C17_closed_irrelevant_while_data : forall k f s b x,
  chunk_phase s ->
  run_to_msg (msg_stage k) f s b = Some x ->
  run_to_msg (msg_stage_closed k) f s b = Some x.
Proof. exact closed_irrelevant_while_data. Qed.
Print Assumptions C17_closed_irrelevant_while_data.

(* Reused parsers.  Server and Client keep ONE Requestant / Respondent per
   connection (makeParser between messages).  For any list of byte strings each
   of which is a complete message sequence (a fresh parser fed it ends between
   messages): parsed back to back on one parser they give, message by message,
   exactly what fresh parsers give -- body, chunk parameters, trailers,
   headers, persistence.  Nothing of an earlier message (its body, its
   trailers) shows in a later one. *)
Theorem C17_per_message_independent : forall k ws,
  Forall (fun w => between_messages (fst (feed (msg_stage k) init_state w))) ws ->
  snd (feed (msg_stage k) init_state (concat ws)) =
  concat (map (fun w => snd (feed (msg_stage k) init_state w)) ws).
Proof. exact message_list_independent. Qed.
Print Assumptions C17_per_message_independent.

(* Precedence.  Transfer-Encoding: chunked overrides Content-Length: when the
   completed header block says chunked, the body goes to the chunk decoder
   whatever Content-Length says (any value, either header order), in requests
   and responses, and the Content-Length value influences nothing else either
   (not .length, hence not the persistence decision). *)
Theorem C17_chunked_overrides_length : forall k sl h cy b h' r,
  leader_step h b = LDone h' r -> te_chunked h' = true ->
  msg_stage k {| m_phase := PLeader sl h; m_carry := cy |} b =
  Step {| m_phase := PChunk {| hd_start := sl; hd_headers := h'; hd_chunked := true;
                               hd_persisted := head_persisted k sl h' (head_length k sl h') |} CSize [] [];
          m_carry := init_carry |} r None
  /\ head_length k sl h' =
     match k with
     | Req => None
     | Resp head =>
       let st := sl_status sl in
       if N.eqb st 204 || N.eqb st 304 || (N.leb 100 st && N.ltb st 200) || head then Some 0%N else None
     end.
Proof.
  intros k sl h cy b h' r Hl Hc. split.
  - exact (chunked_overrides_length k sl h cy b h' r Hl Hc).
  - exact (chunked_length_ignored k sl h' Hc).
Qed.
Print Assumptions C17_chunked_overrides_length.

(* The coding name.  Whether a message is chunked depends only on the header
   name up to case and on the value up to case and surrounding blanks:
   "Transfer-Encoding: chunked", "TRANSFER-ENCODING:  Chunked ", ... all select
   the chunk decoder (with C17_chunked_overrides_length). *)
Theorem C17_coding_name_folded : forall h name value,
  lowerk name = s_te -> value <> [] ->
  te_chunked (hset h name value) = bytes_eqb (lowerk (strip ws_l1 value)) s_chunked.
Proof. exact chunked_name_value_folded. Qed.
Print Assumptions C17_coding_name_folded.

Example C17_coding_name_examples :
  map (fun nv => te_chunked (hset [] (of_bytes (fst nv)) (of_bytes (snd nv))))
    [ ([x54;x72;x61;x6e;x73;x66;x65;x72;x2d;x45;x6e;x63;x6f;x64;x69;x6e;x67], [x43;x68;x75;x6e;x6b;x65;x64]);
      ([x54;x52;x41;x4e;x53;x46;x45;x52;x2d;x45;x4e;x43;x4f;x44;x49;x4e;x47], [x20;x43;x48;x55;x4e;x4b;x45;x44;x09]);
      ([x74;x72;x61;x6e;x73;x66;x65;x72;x2d;x65;x6e;x63;x6f;x64;x69;x6e;x67], [x67;x7a;x69;x70]) ]
  = [true; true; false].
Proof. vm_compute. reflexivity. Qed.

(* The length limit.  The verdict on a chunk-size line (any CRLF-terminated
   line) depends on its length only -- at most MAX_LINE_SIZE = 65536 bytes:
   delivered; longer: LineTooLong -- and not on where the reads cut the stream,
   in particular not on a cut between the CR and the LF that end the line. *)
Theorem C17_size_line_limit_cut_independent : forall reads line rest,
  ~ In CRb line -> concat reads = line ++ CRLFb ++ rest ->
  ((lenN line <= max_line)%N ->
     exists p os, feeds (line_stage ECrlf) (Live false []) reads = (p, line :: os)) /\
  ((max_line < lenN line)%N ->
     feeds (line_stage ECrlf) (Live false []) reads = (Dead HTTPExc, [])).
Proof. exact crlf_line_limit_cut_independent. Qed.
Print Assumptions C17_size_line_limit_cut_independent.

(* Non-vacuity: a response whose head and first bytes were parsed, then the
   rest (two chunks, last-chunk, trailer) arrives together with the closure. *)
Example C17_closed_example :
  let head := of_bytes [x48;x54;x54;x50;x2f;x31;x2e;x31;x20;x32;x30;x30;x20;x4f;x4b;x0d;x0a;
     x54;x72;x61;x6e;x73;x66;x65;x72;x2d;x45;x6e;x63;x6f;x64;x69;x6e;x67;x3a;x20;x63;x68;x75;x6e;x6b;x65;x64;x0d;x0a;x0d;x0a;
     x33;x0d;x0a;x61;x62] in
  let rest := of_bytes [x63;x0d;x0a;x34;x0d;x0a;x64;x65;x66;x67;x0d;x0a;x30;x0d;x0a;x54;x3a;x20;x31;x0d;x0a;x0d;x0a] in
  let h := run_ops (Resp false) [OData head; OParse; OData rest; OClose; OParse] in
  map g_body (somes (hs_out h)) = [of_bytes [x61;x62;x63;x64;x65;x66;x67]] /\
  map g_trails (somes (hs_out h)) = [Some [(of_bytes [x74], of_bytes [x31])]] /\
  hs_p h = Live (start_state {| cy_parms := Some []; cy_trails := Some [(of_bytes [x74], of_bytes [x31])] |}) [].
Proof. vm_compute. repeat split. Qed.

(* Non-vacuity: the sizes the unfixed code accepted (D16) are rejected, plain
   ones are read exactly. *)
Example C17_strict_examples :
  map (fun f => plain_hex (of_bytes f))
      [[x2b;x35]; [x2d;x35]; [x30;x78;x35]; [x31;x5f;x30]; [x35;x20;x35]; []; [x20;x35;x09]; [x30;x41;x66]]
  = [false; false; false; false; false; false; true; true].
Proof. vm_compute. reflexivity. Qed.
