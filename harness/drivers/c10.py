"""C10 — connection-level socket faults never escape servicing; the connection is marked
cutoff/aborted; other connections of the same server keep being serviced.

Scenes (all drive the real hio classes over the scripted fake socket of c09.py):
  {"scene": "stream", "stream": <C09 case>}          fault injected into one connection's op sequence
  {"scene": "handshake", "client": bool, "h": ["done"] | ["err", flavor, code]}
  {"scene": "connect", "code": r}                    Client.serviceConnect with connect_ex -> r
  {"scene": "server", "tls": bool, "ix0": [id..], "cx0": [id..],
   "passes": [{"tx": [[id, hex]], "hs": [[id, h]], "io": [[id, {"recvs": [rres..], "send": sres}]]}]}
       a real Server/ServerTls (listen socket faked, nothing to accept) whose .ixes/.cxes hold real
       Remoter/RemoterTls objects over fake sockets; every pass = transmitIx calls then server.service()
"""
import errno, ssl

from harness.core import coq_N, coq_list, coq_bool, coq_res, coq_bytes, coq_nat, exn_kind
from harness.drivers import c09

PROP = "C10"
COQ_REQUIRES = ["Hio.Model.Stream", "Hio.Model.TcpFault"]
COQ_CHECK = "TcpFault.check_case"
COQ_CASE_TYPE = "TcpFault.case"
COQ_BRANCHES = ("TcpFault.case_branches", "TcpFault.n_branches")
SHARD = 150
RULE = ("every connection-level fault (ECONNRESET EPIPE ENETRESET ENETUNREACH EHOSTUNREACH ENETDOWN EHOSTDOWN ETIMEDOUT "
        "ECONNREFUSED; SSLEOFError/SSLZeroReturnError on TLS; ECONNABORTED at handshakes) injected at every send, "
        "receive (first call and after data chunks; serviceReceives and serviceReceiveOnce), handshake and connect "
        "site of Client/ClientTls/Remoter/RemoterTls with data pending (directed, exhaustive over the table), plus "
        "unlisted codes and would-block; server scenes: 1..5 connections (and pending TLS handshakes) over 1..3 "
        "service passes with faults on some connections and healthy partial traffic on the others; a case is "
        "non-trivial when a fault was actually raised by the fake socket while data was pending (txbs non-empty or a "
        "chunk received in the same call) or, for server scenes, when >= 1 connection faulted and >= 1 sibling moved data")
MODELLED = c09.MODELLED + ["dict iteration order of Server.ixes/.cxes (association list in insertion order)",
                           "the listen socket (faked: accept always would-block)",
                           "ssl.SSLContext.wrap_socket (fake context returns the scripted socket)"]

DOMAIN_OS = c09.CONN_ERRNOS
DOMAIN_HS_OS = [errno.ECONNABORTED] + c09.CONN_ERRNOS
DOMAIN_SSL = c09.TLS_EOF
KINDS = c09.KINDS


def in_domain(site, kind, fl, code):
    """Is (flavor, code) a connection-level fault of the property's domain at this site?"""
    if site in ("send", "recv"):
        return (fl == "os" and code in DOMAIN_OS) or (fl == "ssl" and c09.is_tls(kind) and code in DOMAIN_SSL)
    if site == "handshake":
        return (fl == "os" and code in DOMAIN_HS_OS) or (fl == "ssl" and code in DOMAIN_SSL)
    if site == "connect":
        return code in DOMAIN_OS
    return False


def is_block(kind, fl, code):
    return code in (c09.TLS_BLOCK if c09.is_tls(kind) else c09.PLAIN_BLOCK)


# ----------------------------------------------------------------------------- implementation

class FakeListen:
    """Listening socket: accept() hands out the queued (socket, address) pairs, then would block."""
    def __init__(self):
        self.queue = []

    def accept(self):
        if self.queue:
            return self.queue.pop(0)
        raise OSError(errno.EAGAIN, "nothing to accept")

    def shutdown(self, how):
        pass

    def close(self):
        pass


def ca_of(i):
    return ("127.0.0.1", 40000 + i)


def run_server(case):
    from hio.base import tyming
    from hio.core.tcp import serving
    tymists = {"a": tyming.Tymist(tyme=1.0), "b": tyming.Tymist(tyme=500.0)}
    tymth = None if case.get("tymth") == "none" else tymists["a"].tymen()     # server (and its remoters) wound at birth or not
    tls = case["tls"]
    records, wl = [], None
    if case.get("wl"):
        wl = c09.make_wl({"mode": 2, "rxed": True, "txed": True}, records)    # real WireLog, one shared memory buffer
    if tls:
        sv = serving.ServerTls(context=c09.FakeCtx(), ha=c09.HA, tymth=tymth, bs=16, tymeout=3.5, wl=wl)
    else:
        sv = serving.Server(ha=c09.HA, tymth=tymth, bs=16, tymeout=3.5, wl=wl)
    sv.ss = FakeListen()
    socks, closed = {}, []

    def mk(i):
        sock = c09.FakeSock(False, ca_of(i), c09.HA)
        sock.ident = i
        sock.on_close = lambda s: closed.append(s.ident)
        socks[i] = sock
        if tls:
            return serving.RemoterTls(context=c09.FakeCtx(), ha=c09.HA, ca=ca_of(i), cs=sock, bs=16, tymth=tymth, wl=wl, tymeout=3.5)
        return serving.Remoter(ha=c09.HA, ca=ca_of(i), cs=sock, bs=16, tymth=tymth, wl=wl, tymeout=3.5)

    config = []
    if case.get("accept"):
        # the connections come out of the server's own accept servicing (serviceAccepts / serviceAxes / serviceCxes):
        # plain ones land in .ixes, TLS ones in .cxes with their handshake pending (do_handshake wants to read)
        for i in case["ix0"] + case["cx0"]:
            sock = c09.FakeSock(False, ca_of(i), c09.HA)
            sock.ident = i
            sock.on_close = lambda s: closed.append(s.ident)
            sock.handshake = ("ssl", int(ssl.SSL_ERROR_WANT_READ))
            socks[i] = sock
            sv.ss.queue.append((sock, ca_of(i)))
        sv.serviceConnects()
        where = sv.cxes if tls else sv.ixes
        if list(where) != [ca_of(i) for i in case["ix0"] + case["cx0"]] or (tls and sv.ixes):
            config.append("accepted connections are not where accept servicing should put them")
        for ca, r in where.items():
            for name, got, want in (("wl", r.wl, sv.wl), ("bs", r.bs, sv.bs), ("tymeout", r.tymeout, sv.tymeout),
                                    ("tymer.duration", r.tymer.duration, sv.tymeout), ("ha", r.ha, c09.HA), ("ca", r.ca, ca),
                                    ("tymth", r.tymth, sv.tymth), ("cs", r.cs, socks[ca[1] - 40000])):
                if got is not want and got != want:
                    show = lambda v: v if isinstance(v, (int, float, str, tuple, type(None))) else type(v).__name__
                    config.append(f"connection {ca[1] - 40000}: .{name} is {show(got)!r}, the server's is {show(want)!r}")
            if tls:
                for name in ("context", "version", "certify", "keypath", "certpath", "cafilepath"):
                    if name == "context":
                        if r.context is not sv.context:
                            config.append(f"connection {ca[1] - 40000}: .context is not the server's")
    else:
        for i in case["ix0"]:
            r = mk(i)
            if tls:
                r.connected = True
            sv.ixes[ca_of(i)] = r
        for i in case["cx0"]:
            sv.cxes[ca_of(i)] = mk(i)
    every = {i: [s] for i, s in socks.items()}      # all sockets ever created per address id, in creation order
    out = []
    for p in case["passes"]:
        repl = []
        for i, dead in p.get("acc", []):              # connections the listen socket hands out during this pass
            sock = c09.FakeSock(False, ca_of(i), c09.HA)
            sock.ident = i
            sock.on_close = lambda s: closed.append(s.ident)
            sock.dead = dead if dead else False       # gone before it is accepted: getpeername() raises ENOTCONN (True) or the given errno
            old = [o for o in every.get(i, []) if not o.closed]
            every.setdefault(i, []).append(sock)
            socks[i] = sock
            sv.ss.queue.append((sock, ca_of(i)))
            repl.append([i, bool(dead), old, sock])
        for group in every.values():
            for s in group:
                s.sends, s.recvs, s.n_send, s.n_recv = [["acc", 0]], [], 0, 0
                s.handshake = ("ssl", int(ssl.SSL_ERROR_WANT_READ))
        for i, h in p.get("hs", []):
            for s in every.get(i, []):
                s.handshake = None if h[0] == "done" else (h[1], h[2])
        for i, sc in p.get("io", []):
            for s in every.get(i, []):
                s.sends, s.recvs = [sc["send"]], list(sc["recvs"])
        if wl is not None and p.get("wlop"):          # the server's WireLog is closed / reconfigured between passes
            if p["wlop"][0] == "close":
                wl.close()
            else:
                wl.reopen(**p["wlop"][1])
                c09.wrap_wl(wl, records)
        for i, hx in p.get("tx", []):
            if ca_of(i) in sv.ixes:
                sv.transmitIx(bytes.fromhex(hx), ca_of(i))
        for t in tymists.values():
            t.tick(0.25)
        res = ["ok", None]
        try:
            # post-fault housekeeping by the application (oracle-only scenes, see extra): close the connections that
            # were marked cut off but leave them registered; close the whole server and open it again (what
            # ServerDoer.exit()/enter() do) once every registered connection is cut off
            if p.get("closecut"):
                for ca, r in list(sv.ixes.items()):
                    if r.cutoff and r.cs is not None:
                        sv.closeIx(ca)
            if p.get("restart") and all(r.cutoff for r in sv.ixes.values()):
                sv.close()
                sv.ss = FakeListen()        # reopen(): a new listen socket; nothing else changes
            if p.get("wind"):            # the server is (re)wound while connections exist: directly or through its doer
                how, which = p["wind"]
                if how == "doer":
                    serving.ServerDoer(server=sv).wind(tymists[which].tymen())
                else:
                    sv.wind(tymists[which].tymen())
            if case.get("single"):      # same pass through the per-connection entry point serviceReceivesIx
                sv.serviceConnects()
                for ca in list(sv.ixes):
                    sv.serviceReceivesIx(ca)
                sv.serviceSendsAllIx()
            else:
                sv.service()
        except Exception as ex:
            res = ["exc", exn_kind(ex)]
        ident = lambda ca: ca[1] - 40000
        reg = {}
        for ca, r in list(sv.ixes.items()) + list(getattr(sv, "cxes", {}).items()):
            reg.setdefault(ident(ca), []).append(r.cs)
        out.append({"res": res,
                    "ixes": [[ident(ca), bool(r.cutoff), len(r.txbs), len(r.rxbs)] for ca, r in sv.ixes.items()],
                    "cxes": [ident(ca) for ca in getattr(sv, "cxes", {})],
                    "closed": list(closed),
                    "calls": {str(i): [sum(s.n_recv for s in g), sum(s.n_send for s in g)] for i, g in every.items()},
                    "repl": [[i, dead, len(old), all(o.closed for o in old), new.closed, any(c is new for c in reg.get(i, []))]
                             for i, dead, old, new in repl],
                    "nosock": sorted(ident(ca) for ca, r in sv.ixes.items() if r.cs is None and not r.cutoff),
                    "nrec": len(records),
                    "moved": {str(i): [sum(len(s.delivered) for s in g), sum(len(s.accepted) for s in g)] for i, g in every.items()}})
    for g in every.values():
        for s in g:
            if s.misuse:
                raise AssertionError("fake socket misuse: %s" % s.misuse)
    obs = {"passes": out}
    if case.get("accept"):
        obs["config"] = config
    if wl is not None:
        log = []
        for _, b in records:
            rec = ["bad", b.hex()]
            for i in every:
                for r in c09.parse_records({"mode": 2}, [("shared", b)], str(ca_of(i)).encode()):
                    if r[0] != "bad":
                        rec = [r[0], i, r[1]]
            log.append(rec)
        obs["wlog"] = log
        obs["moved"] = {str(i): [b"".join(bytes(s.delivered) for s in g).hex(), b"".join(bytes(s.accepted) for s in g).hex()]
                        for i, g in every.items()}
        wl.close()
    return obs


def run_handshake(case):
    from hio.base import tyming
    tymist = tyming.Tymist()
    kind = "clienttls" if case["client"] else "remotertls"
    c, sock, _ = c09.build(kind, False, 16, None, tymth=tymist.tymen())
    h = case["h"]
    sock.handshake = None if h[0] == "done" else (h[1], h[2])
    raised = None
    try:
        if case["client"]:
            sock.connect_result = 0        # TCP connect completes, then the TLS handshake is attempted
            c.serviceConnect()
        else:
            c.handshake()
    except OSError as ex:
        raised = exn_kind(ex)
    if raised:
        out = "raised"
    elif c.connected:
        out = "connected"
    elif not case["client"] and c.aborted:
        out = "aborted"
    else:
        out = "pending"
    return {"out": out, "closed": sock.closed, "cutoff": bool(c.cutoff), "accepted": bool(getattr(c, "accepted", True))}


def run_connect(case):
    from hio.base import tyming
    tymist = tyming.Tymist()
    c, sock, _ = c09.build("client", False, 16, None, tymth=tymist.tymen())
    sock.connect_result = case["code"]
    raised = None
    try:
        c.serviceConnect()
    except OSError as ex:
        raised = exn_kind(ex)
    reopened = sock.closed and c.cs is not sock
    connected = bool(c.connected)
    if c.cs is not sock:
        c.close()        # the reopened real (unconnected) socket
    return {"raised": raised, "connected": connected, "reopened": bool(reopened)}


def run_impl(case):
    sc = case["scene"]
    if sc == "stream":
        return c09.run_impl(case["stream"])
    if sc == "handshake":
        return run_handshake(case)
    if sc == "connect":
        return run_connect(case)
    return run_server(case)


# ----------------------------------------------------------------------------- oracle

def first_stop(recvs):
    """index of the first answer that ends a serviceReceives loop (error or EOF), or None"""
    for j, a in enumerate(recvs):
        if a[0] == "err" or a[1] == "":
            return j
    return None


def failures(case, obs):
    """List of (tag, site, flavor, code, text).  Empty = the property holds on this observation."""
    out = []
    sc = case["scene"]
    if sc == "stream":
        st = case["stream"]
        kind = st["kind"]
        prev = {"tx": 0, "rx": 0, "cut": False}
        for op, sn in zip(st["ops"], obs["snaps"]):
            k = op[0]
            fault = None
            if k == "sends" and op[1][0] == "err" and sn["calls"] == 1:
                fault = ("send", op[1][1], op[1][2], 0)
            elif k == "once" and op[1][0] == "err" and sn["calls"] == 1:
                fault = ("recv", op[1][1], op[1][2], 0)
            elif k == "recvs":
                j = first_stop(op[1])
                if j is not None and op[1][j][0] == "err" and sn["calls"] >= j + 1:
                    got = sum(len(a[1]) // 2 for a in op[1][:j])
                    fault = ("recv", op[1][j][1], op[1][j][2], got)
            answers = c09.op_answers(op)
            if answers and all(c09.benign(kind, a) for a in answers) and sn["res"][0] != "ok":
                out.append(("escape", "health", "-", 0, f"{kind}.{k}: only data / accept / would-block answers, yet {sn['res'][1]} escaped"))
            if fault and prev["cut"] and sn["res"][0] != "ok":
                # servicing a connection already marked cutoff must not touch its socket at all
                out.append(("after-cutoff", fault[0] + "-after-cutoff", fault[1], fault[2],
                            f"{kind}.{k}: socket {fault[0]} attempted on a connection already marked cutoff"
                            + ("" if sn["res"][0] == "ok" else f"; {sn['res'][1]} escaped")))
            elif fault and in_domain(fault[0], kind, fault[1], fault[2]):
                site, fl, code, got = fault
                if sn["res"][0] != "ok":
                    out.append(("escape", site, fl, code, f"{kind}.{k}: fault {fl}:{code} at {site} escaped as {sn['res'][1]}"))
                elif not sn["cut"]:
                    out.append(("unmarked", site, fl, code, f"{kind}.{k}: fault {fl}:{code} at {site} did not set cutoff"))
                if sn["tx"] != prev["tx"] or sn["rx"] != prev["rx"] + got:
                    out.append(("buffers", site, fl, code, f"{kind}.{k}: fault {fl}:{code} changed buffers other than by the data received before it"))
            prev = sn
        return out
    if sc == "handshake":
        h = case["h"]
        if h[0] == "err" and in_domain("handshake", None, h[1], h[2]):
            who = "ClientTls" if case["client"] else "RemoterTls"
            if obs["out"] == "raised":
                out.append(("escape", "handshake-client" if case["client"] else "handshake-remoter", h[1], h[2],
                            f"{who}.handshake: fault {h[1]}:{h[2]} escaped"))
            elif case["client"]:
                if not (obs["closed"] or obs["cutoff"]):
                    out.append(("unmarked", "handshake-client", h[1], h[2], f"{who}: failed handshake left the connection unmarked"))
            elif obs["out"] != "aborted" or not obs["closed"]:
                out.append(("unmarked", "handshake-remoter", h[1], h[2], f"{who}: fault {h[1]}:{h[2]} did not abort and close"))
        return out
    if sc == "connect":
        if case["code"] in DOMAIN_OS:
            if obs["raised"]:
                out.append(("escape", "connect", "os", case["code"], "Client.serviceConnect raised"))
            elif obs["connected"]:
                out.append(("unmarked", "connect", "os", case["code"], "client connected although connect_ex failed"))
        return out
    # server
    kind = "remotertls" if case["tls"] else "remoter"
    any_raise = False
    reaccepted = set()
    before = {i: [False, 0, 0] for i in case["ix0"]}
    for p, po in zip(case["passes"], obs["passes"]):
        io = {i: s for i, s in p.get("io", [])}
        hs = {i: h for i, h in p.get("hs", [])}
        now = {e[0]: e[1:] for e in po["ixes"]}
        accepted_now = {i for i, dead in p.get("acc", []) if not dead}
        reaccepted |= accepted_now
        # accept servicing: a repeated address closes the old connection and installs the new one; a connection that
        # was already reset when accepted is closed and skipped; nothing of that may escape
        if p.get("acc") and po["res"][0] != "ok" and all(c == [0, 0] for c in po["calls"].values()):
            any_raise = True
            out.append(("escape", "accept", "-", 0, f"Server.service raised {po['res'][1]} while accepting {p['acc']}: nobody was serviced"))
        elif po["res"][0] == "ok":
            for i, dead, n_old, old_closed, new_closed, new_reg in po.get("repl", []):
                quiet = i not in hs or hs[i][0] == "done" or hs[i][2] in (2, 3)
                scr = io.get(i)
                quiet = quiet and (not scr or (first_stop(scr["recvs"]) is None and scr["send"][0] == "acc"))
                if dead and (new_reg or not new_closed):
                    out.append(("accept", "accept", "-", 0, f"connection {i} was already reset when accepted but was kept / not closed"))
                if not dead and n_old and not old_closed and not case["tls"]:
                    out.append(("accept", "accept", "-", 0, f"address {i} connected again: the old connection's socket was not closed"))
                if not dead and quiet and (new_closed or not new_reg):
                    out.append(("accept", "accept", "-", 0, f"address {i} connected again: the new connection is closed or not registered"))
            if po.get("nosock"):
                out.append(("accept", "accept", "-", 0, f"connections {po['nosock']} are in .ixes without a socket and not cut off"))
        def cut_before_send(i):
            """connection i was marked cutoff before this pass, or its receive phase in this pass met EOF / a
            handled connection-level fault"""
            if before.get(i, [False])[0] and not (i in accepted_now and not case["tls"]):
                return True
            scr = io.get(i)
            if not scr:
                return False
            j = first_stop(scr["recvs"])
            if j is None or po["calls"].get(str(i), [0, 0])[0] < j + 1:
                return False
            a = scr["recvs"][j]
            return a[0] == "data" or (in_domain("recv", kind, a[1], a[2]) and not (a[1] == "os" and a[2] == errno.EPIPE))

        if po["res"][0] != "ok" and po["res"][1] != "OSErr":
            any_raise = True
            out.append(("escape", "?", "?", 0, f"Server.service raised a non-OSError exception ({po['res'][1]})"))
        elif po["res"][0] != "ok":
            any_raise = True
            # the culprit is the last connection whose send was attempted in this pass
            tried = [e[0] for e in po["ixes"] if po["calls"][str(e[0])][1] == 1]
            cul = tried[-1] if tried else None
            a = io.get(cul, {}).get("send") if cul is not None else None
            if cul is None:
                # nothing was sent: the receive phase raised; the culprit is the last connection that was read
                readers = [e[0] for e in po["ixes"] if po["calls"][str(e[0])][0] > 0]
                rc = readers[-1] if readers else None
                scr = io.get(rc) if rc is not None else None
                j = first_stop(scr["recvs"]) if scr else None
                if scr and j is not None and scr["recvs"][j][0] == "err" and po["calls"].get(str(rc), [0, 0])[0] >= j + 1:
                    b = scr["recvs"][j]
                    if in_domain("recv", kind, b[1], b[2]):
                        out.append(("escape", "recv", b[1], b[2], f"Server.service raised {po['res'][1]} on receive fault {b[1]}:{b[2]} of connection {rc}"))
                        continue
                    a = b        # an unlisted code: outside the domain
            if a and a[0] == "err" and cut_before_send(cul):
                pending = [e[0] for e in po["ixes"] if e[0] != cul and e[2] > 0 and po["calls"][str(e[0])][1] == 0]
                out.append(("escape", "send-after-cutoff", a[1], a[2],
                            f"Server.service raised {po['res'][1]}: connection {cul} was already cut off, yet a send was attempted "
                            f"and failed with {a[1]}:{a[2]}; connections {pending} with queued data were not serviced"))
            elif a and a[0] == "err" and in_domain("send", kind, a[1], a[2]):
                out.append(("escape", "send", a[1], a[2], f"Server.service raised {po['res'][1]} on fault {a[1]}:{a[2]} of connection {cul}"))
            elif a and a[0] == "err":
                pass        # an unlisted error code is outside the property's fault domain
            else:
                out.append(("escape", "?", "?", 0, "Server.service raised without a scripted fault"))
        for i, scr in io.items():
            nr, ns = po["calls"].get(str(i), [0, 0])
            j = first_stop(scr["recvs"])
            flt = None
            if j is not None and scr["recvs"][j][0] == "err" and nr >= j + 1:
                flt = ("recv", scr["recvs"][j][1], scr["recvs"][j][2])
            elif scr["send"][0] == "err" and ns == 1 and not cut_before_send(i):
                flt = ("send", scr["send"][1], scr["send"][2])
            if flt and in_domain(flt[0], kind, flt[1], flt[2]):
                if i not in now:
                    out.append(("unmarked", flt[0], flt[1], flt[2], f"connection {i}: fault {flt[1]}:{flt[2]} at {flt[0]} got it removed, not marked cutoff"))
                elif not now[i][0] and po["res"][0] == "ok":
                    out.append(("unmarked", flt[0], flt[1], flt[2], f"connection {i}: fault {flt[1]}:{flt[2]} at {flt[0]} did not set cutoff"))
        for i, h in hs.items():
            pending = set(before.get("_cx", case["cx0"])) | (accepted_now if case["tls"] else set())
            if h[0] == "err" and in_domain("handshake", None, h[1], h[2]) and i in pending:
                if i in po["cxes"] or po["closed"].count(i) <= before.get("_closed", []).count(i):
                    out.append(("unmarked", "handshake-remoter", h[1], h[2], f"pending connection {i}: fault {h[1]}:{h[2]} did not abort it"))
        for i, b in before.items():
            if isinstance(i, int) and b[0] and i in now and not now[i][0] and i not in reaccepted:
                out.append(("reverted", "cutoff", "-", 0, f"connection {i} was marked cut off and is not any more (still registered, never replaced)"))
        before = dict(now)
        before["_cx"] = list(po["cxes"])
        before["_closed"] = list(po["closed"])
    for c in obs.get("config", []):
        out.append(("config", "accept", "-", 0, "accept servicing did not hand the server's configuration down: " + c))
    if "wlog" in obs:
        if any(r[0] == "bad" for r in obs["wlog"]):
            out.append(("wirelog", "wl", "-", 0, "wire log record not of the form Rx/Tx <connection address ca>"))
        txed = rxed = True
        p_n, p_moved = 0, {i: [0, 0] for i in obs["moved"]}
        for n, (p, po) in enumerate(zip(case["passes"], obs["passes"])):
            if p.get("wlop"):
                if p["wlop"][0] == "close":
                    opened = False
                else:
                    opened = True
                    txed = p["wlop"][1].get("txed", txed)
                    rxed = p["wlop"][1].get("rxed", rxed)
            elif n == 0:
                opened = True
            new = obs["wlog"][p_n:po["nrec"]]
            for i, (rx, tx) in obs["moved"].items():
                lrx = "".join(r[2] for r in new if r[0] == "rx" and str(r[1]) == i)
                ltx = "".join(r[2] for r in new if r[0] == "tx" and str(r[1]) == i)
                a0, a1 = p_moved.get(i, [0, 0]), po["moved"].get(i, [0, 0])
                want_rx = rx[2 * a0[0]:2 * a1[0]] if (opened and rxed) else ""
                want_tx = tx[2 * a0[1]:2 * a1[1]] if (opened and txed) else ""
                if lrx != want_rx or ltx != want_tx:
                    out.append(("wirelog", "wl", "-", 0, f"pass {n}, connection {i}: wire log differs from the bytes actually "
                                f"received/sent while logging was enabled (rx {opened and rxed}, tx {opened and txed})"))
            p_n, p_moved = po["nrec"], po["moved"]
    # isolation: every connection evolves exactly as if it were the only one
    repeats = any(p.get("acc") for p in case["passes"])     # with accepts the histories of one address are not independent runs
    if not any_raise and not out and not repeats and len(case["ix0"]) + len(case["cx0"]) > 1:
        for i in case["ix0"] + case["cx0"]:
            sub = {"scene": "server", "tls": case["tls"], "single": case.get("single", False), "wl": case.get("wl", False),
                   "accept": case.get("accept", False), "tymth": case.get("tymth"),
                   "ix0": [i] if i in case["ix0"] else [], "cx0": [i] if i in case["cx0"] else [],
                   "passes": [{"tx": [t for t in p.get("tx", []) if t[0] == i], "hs": [h for h in p.get("hs", []) if h[0] == i],
                               "io": [s for s in p.get("io", []) if s[0] == i], "wlop": p.get("wlop"), "wind": p.get("wind")} for p in case["passes"]]}
            so = run_server(sub)
            for n, (po, spo) in enumerate(zip(obs["passes"], so["passes"])):
                mine = [e for e in po["ixes"] if e[0] == i]
                if mine != spo["ixes"] or (i in po["cxes"]) != (i in spo["cxes"]) or (i in po["closed"]) != (i in spo["closed"]):
                    out.append(("isolation", "server", "-", 0, f"pass {n}: connection {i} evolved differently from being served alone: {mine} vs {spo['ixes']}"))
                    break
    return out


def oracle(case, obs):
    f = failures(case, obs)
    return None if not f else " | ".join(x[4] for x in f)


def classify(case, obs, why):
    f = failures(case, obs)
    if not f:
        return None
    ids = set()
    for tag, site, fl, code, _ in f:
        if site in ("send", "recv") and fl == "os" and code == errno.EPIPE and tag in ("escape", "unmarked"):
            ids.add("D5")
        elif site == "handshake-client" and tag == "escape":
            ids.add("D9")
        else:
            return None
    return sorted(ids)[0] if len(ids) == 1 else None


# ----------------------------------------------------------------------------- Gallina

def _fl(f):
    return "TcpFault.FSsl" if f == "ssl" else "TcpFault.FOs"


def _h(h):
    return "TcpFault.HDone" if h[0] == "done" else f"(TcpFault.HFail {_fl(h[1])} {coq_N(h[2])})"


def _script(sc):
    return "{| TcpFault.sc_recvs := %s; TcpFault.sc_send := %s |}" % (
        coq_list([c09._rres(a) for a in sc["recvs"]], "Stream.rres"), c09._sres(sc["send"]))


def _pass(p):
    return "{| TcpFault.p_tx := %s; TcpFault.p_acc := %s; TcpFault.p_hs := %s; TcpFault.p_io := %s |}" % (
        coq_list([f"({coq_N(i)}, {coq_bytes(bytes.fromhex(hx))})" for i, hx in p.get("tx", [])], "N * bytes"),
        coq_list([f"({coq_N(i)}, {coq_bool(bool(d))})" for i, d in p.get("acc", [])], "N * bool"),
        coq_list([f"({coq_N(i)}, {_h(h)})" for i, h in p.get("hs", [])], "N * TcpFault.hres"),
        coq_list([f"({coq_N(i)}, {_script(sc)})" for i, sc in p.get("io", [])], "N * TcpFault.script"))


def _psnap(po):
    ix = coq_list(["{| TcpFault.is_ca := %s; TcpFault.is_cut := %s; TcpFault.is_tx := %s; TcpFault.is_rx := %s |}" % (
        coq_N(e[0]), coq_bool(e[1]), coq_N(e[2]), coq_N(e[3])) for e in po["ixes"]], "TcpFault.ixsnap")
    return "{| TcpFault.ps_res := %s; TcpFault.ps_ixes := %s; TcpFault.ps_cxes := %s; TcpFault.ps_closed := %s |}" % (
        coq_res(po["res"], c09._unit), ix, coq_list([coq_N(i) for i in po["cxes"]], "N"),
        coq_list([coq_N(i) for i in po["closed"]], "N"))


def to_coq(case, obs):
    sc = case["scene"]
    if sc == "stream":
        return f"(TcpFault.CStream {c09.to_coq(case['stream'], obs)})"
    if sc == "handshake":
        o = {"raised": "TcpFault.HsRaised", "connected": "TcpFault.HsConnected", "aborted": "TcpFault.HsAborted",
             "pending": "TcpFault.HsPending"}[obs["out"]]
        return f"(TcpFault.CHandshake {coq_bool(case['client'])} {_h(case['h'])} {o})"
    if sc == "connect":
        o = "TcpFault.AccConnected" if obs["connected"] else ("TcpFault.AccReopenRetry" if obs["reopened"] else "TcpFault.AccRetry")
        if obs["raised"]:
            o = "TcpFault.AccConnected" if not obs["connected"] else "TcpFault.AccRetry"   # never agrees with the model
        return f"(TcpFault.CConnect {coq_N(case['code'])} {o})"
    return "(TcpFault.CServer %s %s %s %s %s)" % (
        coq_bool(case["tls"]), coq_list([coq_N(i) for i in case["ix0"]], "N"), coq_list([coq_N(i) for i in case["cx0"]], "N"),
        coq_list([_pass(p) for p in case["passes"]], "TcpFault.pass"),
        coq_list([_psnap(po) for po in obs["passes"]], "TcpFault.psnap"))


# ----------------------------------------------------------------------------- generators

ALL_OS = sorted(set(DOMAIN_HS_OS + c09.OTHER_ERRNOS + [errno.EAGAIN, 2, 3, 6, 8]))
ALL_SSL = sorted(set(DOMAIN_SSL + [1, 2, 3, 5]))
P1 = b"HTTP/1.1 200 OK\r\n\r\nhello".hex()


def codes_for(kind):
    out = [("os", c) for c in ALL_OS]
    if c09.is_tls(kind):
        out += [("ssl", c) for c in ALL_SSL]
    return out


def stream_case(kind, site, fl, code, wl=None):
    a = ["err", fl, code]
    if site == "send":
        ops = [["tx", P1], ["sends", ["acc", 5]], ["sends", a], ["sends", ["acc", 3]], ["recvs", [["data", "0a0b"]]]]
    elif site == "recv":
        ops = [["tx", P1], ["recvs", [["data", "01"], ["data", "0203"], a, ["data", "04"]]], ["sends", ["acc", 3]],
               ["recvs", [["data", "05"]]]]
    elif site == "recvdead":
        ops = [["tx", P1], ["recvs", [["data", "01"], ["data", "0203", "dead"], a, ["data", "04"]]], ["sends", ["acc", 3]]]
    elif site == "recv0":
        ops = [["tx", P1], ["recvs", [a, ["data", "04"]]], ["sends", ["acc", 3]]]
    else:
        ops = [["tx", P1], ["once", ["data", "0102"]], ["once", a], ["sends", ["acc", 3]], ["once", ["data", "05"]]]
    return {"scene": "stream", "stream": {"kind": kind, "conn0": True, "bs": 16, "wl": wl or c09.WL1, "ops": ops}}


def directed():
    out = []
    # the whole table: every code (in and out of the domain) at every send/receive site of every class
    for kind in KINDS:
        for fl, code in codes_for(kind):
            for site in ("send", "recv", "recv0", "once"):
                out.append(stream_case(kind, site, fl, code))
            if (fl, code) in [("os", errno.ECONNRESET), ("os", errno.ETIMEDOUT), ("os", errno.EAGAIN), ("ssl", 2), ("ssl", 8)]:
                out.append(stream_case(kind, "recvdead", fl, code, wl=c09.WL2))
    for client in (False, True):
        out.append({"scene": "handshake", "client": client, "h": ["done"]})
        for fl, code in codes_for("remotertls"):
            out.append({"scene": "handshake", "client": client, "h": ["err", fl, code]})
    for r in sorted(set([0, errno.EISCONN, errno.EINPROGRESS, errno.EALREADY, errno.EINVAL] + DOMAIN_HS_OS)):
        out.append({"scene": "connect", "code": r})
    # servers: a fault of every domain code on one connection, healthy traffic on its siblings
    for tls in (False, True):
        kind = "remotertls" if tls else "remoter"
        blk = c09.block_ans(kind)
        dom = [("os", c) for c in DOMAIN_OS] + ([("ssl", c) for c in DOMAIN_SSL] if tls else [])
        for fl, code in dom + [("os", errno.EBADF)]:
            for site in ("send", "recv"):
                bad = {"recvs": [["data", "aa"], ["err", fl, code]], "send": ["acc", 2]} if site == "recv" else \
                      {"recvs": [["data", "aa"], blk], "send": ["err", fl, code]}
                good = {"recvs": [["data", "0102"], ["data", "03"]], "send": ["acc", 4]}
                out.append({"scene": "server", "tls": tls, "ix0": [1, 2, 3], "cx0": [],
                            "passes": [{"tx": [[1, P1], [2, P1], [3, P1]], "io": [[1, good], [2, bad], [3, good]]},
                                       {"tx": [[3, "ff"]], "io": [[1, good], [2, good], [3, good]]}]})
    for tls in (False, True):
        good = {"recvs": [["data", "0102"], ["data", "03"]], "send": ["acc", 4]}
        for single in (False, True):
            for tail in (["err", "os", errno.ECONNRESET], ["data", ""], c09.block_ans("remotertls" if tls else "remoter")):
                bad = {"recvs": [["data", "aa"], ["data", "bbcc", "dead"], tail], "send": ["acc", 2]}
                out.append({"scene": "server", "tls": tls, "wl": True, "single": single, "ix0": [1, 2, 3], "cx0": [],
                            "passes": [{"tx": [[1, P1], [2, P1], [3, P1]], "io": [[1, good], [2, bad], [3, good]]},
                                       {"tx": [[3, "ff"]], "io": [[1, good], [2, {"recvs": [["err", "os", errno.ECONNRESET]], "send": ["acc", 1]}], [3, good]]}]})
        # an accepted address repeats while the earlier connection of that address is still registered: alive, cut
        # off by a reset, or (TLS) still handshaking / established; and a connection already reset when accepted
        for state in ("alive", "cut", "eof"):
            first = {"alive": good, "cut": {"recvs": [["data", "aa"], ["err", "os", errno.ECONNRESET]], "send": ["acc", 1]},
                     "eof": {"recvs": [["data", ""]], "send": ["acc", 1]}}[state]
            for acc2 in ([[2, False]], [[2, False], [4, True]], [[4, True], [2, False], [5, False]]):
                out.append({"scene": "server", "tls": tls, "wl": True, "accept": True,
                            "ix0": [] if tls else [1, 2, 3], "cx0": [1, 2, 3] if tls else [],
                            "passes": [{"hs": [[1, ["done"]], [2, ["done"]], [3, ["done"]]], "io": [[1, good], [2, first], [3, good]]},
                                       {"tx": [[1, P1], [2, "beef"], [3, P1]], "acc": acc2,
                                        "hs": [[2, ["done"]], [5, ["done"]]], "io": [[1, good], [2, good], [3, good], [5, good]]},
                                       {"tx": [[2, "cafe"], [1, "ff"]], "hs": [[2, ["done"]]], "io": [[1, good], [2, good], [3, good], [5, good]]},
                                       {"acc": [[2, False]], "io": [[1, good], [2, good], [3, good]]},
                                       {"hs": [[2, ["done"]]], "tx": [[2, "0102"]], "io": [[1, good], [2, good], [3, good]]}]})
        # a server born without a tymth accepts connections, traffic flows, then it is wound (directly / by its doer),
        # re-wound to another tymist, and traffic continues on the connections accepted before
        for born in ("none", "own"):
            for how in ("server", "doer"):
                for accept in (True, False):
                    ids = [1, 2]
                    out.append({"scene": "server", "tls": tls, "wl": True, "accept": accept, "tymth": born,
                                "ix0": ids if not (tls and accept) else [], "cx0": ids if (tls and accept) else [],
                                "passes": [{"hs": [[1, ["done"]], [2, ["done"]]], "io": [[1, good], [2, good]]},
                                           {"tx": [[1, P1], [2, P1]], "io": [[1, good], [2, good]]},
                                           {"wind": [how, "a"], "tx": [[1, "ff"]], "io": [[1, good], [2, good]]},
                                           {"io": [[1, good], [2, good]]},
                                           {"wind": [how, "b"], "tx": [[2, "ee"]], "io": [[1, good], [2, good]]},
                                           {"io": [[1, good], [2, good]]}]})
        for e in (errno.ENOTCONN, errno.EINVAL, errno.EBADF, errno.ECONNRESET, errno.ECONNABORTED, errno.EPIPE):
            out.append({"scene": "server", "tls": tls, "ix0": [1], "cx0": [],
                        "passes": [{"tx": [[1, P1]], "acc": [[2, e], [3, False]], "hs": [[3, ["done"]]], "io": [[1, good], [3, good]]},
                                   {"acc": [[4, e]], "hs": [[3, ["done"]]], "io": [[1, good], [3, good]]}]})
        # a connection whose peer reset with data still readable is later closed by the server (handler, closeIx,
        # replacement): shutdown() of such a socket raises ENOTCONN, which must stay inside Remoter.shutdown
        for tail in (["data", ""], ["err", "os", errno.ECONNRESET]):
            bad = {"recvs": [["data", "aa"], ["data", "bbcc", "dead"], tail], "send": ["acc", 2]}
            out.append({"scene": "server", "tls": tls, "accept": True, "ix0": [] if tls else [1, 2], "cx0": [1, 2] if tls else [],
                        "passes": [{"hs": [[1, ["done"]], [2, ["done"]]], "io": [[1, good], [2, good]]},
                                   {"tx": [[1, P1]], "io": [[1, good], [2, bad]]},
                                   {"acc": [[2, False]], "hs": [[2, ["done"]]], "io": [[1, good], [2, good]]},
                                   {"hs": [[2, ["done"]]], "io": [[1, good], [2, good]]}]})
        for wlflag in (True, False):
            ids = [1, 2, 3]
            out.append({"scene": "server", "tls": tls, "wl": wlflag, "accept": True,
                        "ix0": [] if tls else ids, "cx0": ids if tls else [],
                        "passes": [{"hs": [[1, ["done"]], [2, ["done"]], [3, ["err", "os", errno.ECONNRESET]]],
                                    "io": [[1, good], [2, good], [3, good]]},
                                   {"tx": [[1, P1], [2, P1]], "io": [[1, good], [2, {"recvs": [["data", "aa"], ["err", "os", errno.ETIMEDOUT]], "send": ["acc", 2]}]]},
                                   {"tx": [[1, "ff"]], "io": [[1, good], [2, good]]}]})
        for wlop in (["close"], ["reopen", {"rxed": False}], ["reopen", {"txed": False}], ["reopen", {"samed": False, "txed": False}]):
            out.append({"scene": "server", "tls": tls, "wl": True, "ix0": [1, 2], "cx0": [],
                        "passes": [{"tx": [[1, P1], [2, P1]], "io": [[1, good], [2, good]]},
                                   {"wlop": wlop, "tx": [[2, "ff"]], "io": [[1, good], [2, good]]},
                                   {"wlop": ["reopen", {"rxed": True, "txed": True}], "io": [[1, good], [2, good]]}]})
        for stop in (["data", ""], ["err", "os", errno.ECONNRESET], ["err", "os", errno.ETIMEDOUT]):
            for late in (["err", "os", errno.EPIPE], ["err", "os", errno.ECONNRESET], ["acc", 3]):
                for pos in (1, 2):
                    others = [i for i in (1, 2, 3) if i != pos]
                    p1 = {"tx": [[1, P1], [2, P1], [3, P1]],
                          "io": [[pos, {"recvs": [["data", "aa"], stop], "send": late}]] + [[i, good] for i in others]}
                    later = {"tx": [[pos, "beef"], [others[-1], "ff"]],
                             "io": [[pos, {"recvs": [["data", "bb"]], "send": late}]] + [[i, good] for i in others]}
                    out.append({"scene": "server", "tls": tls, "ix0": [1, 2, 3], "cx0": [], "passes": [p1, later, later]})
        for fl, code in [("os", errno.EBADF), ("os", errno.ECONNRESET), ("os", errno.EPIPE)]:
            bad = {"recvs": [["data", "aa"], ["err", fl, code]], "send": ["acc", 2]}
            out.append({"scene": "server", "tls": tls, "single": True, "ix0": [1, 2, 3], "cx0": [],
                        "passes": [{"tx": [[1, P1], [2, P1], [3, P1]], "io": [[1, good], [2, bad], [3, good]]},
                                   {"tx": [[3, "ff"]], "io": [[1, good], [2, good], [3, good]]}]})
    # pending TLS handshakes: abort (every handshake-domain code), progress, completion followed by traffic
    for fl, code in [("os", c) for c in DOMAIN_HS_OS] + [("ssl", c) for c in DOMAIN_SSL] + [("ssl", 1)]:
        good = {"recvs": [["data", "0102"]], "send": ["acc", 4]}
        out.append({"scene": "server", "tls": True, "ix0": [1], "cx0": [2, 3, 4],
                    "passes": [{"tx": [[1, P1]], "hs": [[2, ["err", fl, code]], [3, ["err", "ssl", 2]], [4, ["done"]]],
                                "io": [[1, good], [4, good]]},
                               {"tx": [[4, P1]], "hs": [[3, ["done"]]], "io": [[1, good], [4, good], [3, good]]}]})
    return out


def gen_server(rng):
    tls = rng.random() < 0.5
    kind = "remotertls" if tls else "remoter"
    n = rng.choice([1, 2, 3, 4, 5])
    ids = list(range(1, n + 1))
    cx0 = [i for i in ids if tls and rng.random() < 0.3]
    if tls and rng.random() < 0.4:
        cx0 = list(ids)
    ix0 = [i for i in ids if i not in cx0]
    dom = [("os", c) for c in DOMAIN_OS if c != errno.EPIPE or rng.random() < 0.5] + ([("ssl", c) for c in DOMAIN_SSL] if tls else [])
    wild = rng.random() < 0.12        # unlisted codes too
    passes = []
    dead = set()                      # connections whose receive side was scripted to stop (EOF / fault)
    cx0_dyn = set()
    for _ in range(rng.choice([1, 2, 3])):
        tx = [[i, c09.hx(rng, rng.randint(1, 20))] for i in ids if rng.random() < 0.6]
        hs = []
        for i in list(cx0) + sorted(cx0_dyn - set(cx0)):
            r = rng.random()
            if r < 0.35:
                hs.append([i, ["done"]])
            elif r < 0.6:
                hs.append([i, ["err", "ssl", rng.choice([2, 3])]])
            elif r < 0.9:
                fl, code = rng.choice([("os", c) for c in DOMAIN_HS_OS] + [("ssl", c) for c in DOMAIN_SSL])
                hs.append([i, ["err", fl, code]])
        io = []
        for i in ids:
            if i in dead and rng.random() < 0.7:
                if [i] not in [[t[0]] for t in tx]:
                    tx.append([i, c09.hx(rng, rng.randint(1, 20))])
                code = rng.choice([errno.EPIPE, errno.EPIPE, errno.ECONNRESET])
                io.append([i, {"recvs": [["data", "00"]], "send": ["err", "os", code]}])
                continue
            recvs = []
            for _ in range(rng.choice([0, 1, 2, 3])):
                r = rng.random()
                if r < 0.07:
                    recvs.append(["data", c09.hx(rng, rng.randint(1, 16)), "dead"])     # readable although the peer reset ...
                    recvs.append(rng.choice([["err", "os", errno.ECONNRESET], ["data", ""]]))   # ... which the next recv reports
                    break
                elif r < 0.7:
                    recvs.append(["data", c09.hx(rng, rng.randint(1, 16))])
                elif r < 0.8:
                    recvs.append(c09.block_ans(kind, rng.randrange(2)))
                elif r < 0.88:
                    recvs.append(["data", ""])
                else:
                    fl, code = rng.choice(dom) if not wild or rng.random() < 0.5 else ("os", rng.choice(c09.OTHER_ERRNOS))
                    recvs.append(["err", fl, code])
            r = rng.random()
            if r < 0.6:
                send = ["acc", rng.choice([0, 1, 2, 5, 40])]
            elif r < 0.75:
                send = c09.block_ans(kind, rng.randrange(2))
            else:
                fl, code = rng.choice(dom) if not wild or rng.random() < 0.5 else ("os", rng.choice(c09.OTHER_ERRNOS))
                send = ["err", fl, code]
            io.append([i, {"recvs": recvs, "send": send}])
            if any(a[0] == "err" and not is_block(kind, a[1], a[2]) or a == ["data", ""] for a in recvs):
                dead.add(i)
        pas = {"tx": tx, "hs": hs, "io": io}
        if rng.random() < 0.3:
            acc = []
            for _ in range(rng.choice([1, 1, 2])):
                i = rng.choice(ids) if rng.random() < 0.7 else max(ids) + 1
                if i not in ids:
                    ids.append(i)
                if tls and i not in cx0:
                    cx0_dyn.add(i)
                if i not in [a[0] for a in acc]:
                    acc.append([i, rng.choice([True, errno.ENOTCONN, errno.EINVAL, errno.EBADF, errno.ECONNRESET, errno.ECONNABORTED])
                                if rng.random() < 0.25 else False])
            pas["acc"] = acc
        passes.append(pas)
    case = {"scene": "server", "tls": tls, "ix0": ix0, "cx0": cx0, "passes": passes}
    if rng.random() < 0.2:
        case["single"] = True
    if (not tls or not ix0) and rng.random() < 0.6:
        case["accept"] = True        # connections created by the server's own accept servicing
    if rng.random() < 0.5:
        case["tymth"] = "none"            # server created without a tymth ...
    for p in passes:
        if rng.random() < 0.3:            # ... and wound, or re-wound to another tymist, at an arbitrary point
            p["wind"] = [rng.choice(["server", "doer"]), rng.choice(["a", "b"])]
    if rng.random() < 0.5:
        case["wl"] = True
        for p in passes[1:]:
            if rng.random() < 0.4:
                p["wlop"] = rng.choice([["close"], ["reopen", {"rxed": False}], ["reopen", {"txed": False}],
                                        ["reopen", {"samed": False}], ["reopen", {"rxed": True, "txed": True, "samed": True}], ["reopen", {}]])
    return case


def gen_stream(rng):
    kind = rng.choice(KINDS)
    dom = [("os", c) for c in DOMAIN_OS] + ([("ssl", c) for c in DOMAIN_SSL] if c09.is_tls(kind) else [])
    ops = []
    for _ in range(rng.choice([3, 6, 10])):
        r = rng.random()
        if r < 0.3:
            ops.append(["tx", c09.hx(rng, rng.randint(1, 24))])
        elif r < 0.55:
            if rng.random() < 0.4:
                fl, code = rng.choice(dom) if rng.random() < 0.8 else rng.choice(codes_for(kind))
                ops.append(["sends", ["err", fl, code]])
            else:
                ops.append(["sends", ["acc", rng.choice([0, 1, 3, 9, 50])]])
        elif r < 0.85:
            recvs = [["data", c09.hx(rng, rng.randint(1, 16))] + (["dead"] if rng.random() < 0.1 else [])
                     for _ in range(rng.choice([0, 1, 2]))]
            if rng.random() < 0.5:
                fl, code = rng.choice(dom) if rng.random() < 0.8 else rng.choice(codes_for(kind))
                recvs.append(["err", fl, code])
            ops.append(["recvs", recvs])
        elif r < 0.95:
            fl, code = rng.choice(dom)
            ops.append(["once", rng.choice([["data", c09.hx(rng, 3)], ["err", fl, code]])])
        else:
            ops.append(["connect"])
    spec = {"mode": rng.choice([0, 1, 2]), "rxed": True, "txed": True}
    return {"scene": "stream", "stream": {"kind": kind, "conn0": rng.random() < 0.95, "bs": 16, "wl": spec, "ops": ops}}


def generate(rng, tier):
    n = 500 if tier == "quick" else 6000
    out = []
    for _ in range(n):
        out.append(gen_server(rng) if rng.random() < 0.6 else gen_stream(rng))
    return out


def nontrivial(case, obs):
    sc = case["scene"]
    if sc == "stream":
        st = case["stream"]
        prev_tx = 0
        for op, sn in zip(st["ops"], obs["snaps"]):
            if op[0] == "sends" and op[1][0] == "err" and sn["calls"] == 1 and prev_tx > 0:
                return True
            if op[0] == "recvs":
                j = first_stop(op[1])
                if j is not None and op[1][j][0] == "err" and sn["calls"] >= j + 1 and (j > 0 or prev_tx > 0):
                    return True
            if op[0] == "once" and op[1][0] == "err" and sn["calls"] == 1 and prev_tx > 0:
                return True
            prev_tx = sn["tx"]
        return False
    if sc == "handshake":
        return case["h"][0] == "err"
    if sc == "connect":
        return case["code"] not in (0, errno.EISCONN)
    faulted = moved = False
    for p, po in zip(case["passes"], obs["passes"]):
        for i, scr in p.get("io", []):
            nr, ns = po["calls"].get(str(i), [0, 0])
            j = first_stop(scr["recvs"])
            if (j is not None and scr["recvs"][j][0] == "err" and nr >= j + 1) or (scr["send"][0] == "err" and ns == 1):
                faulted = True
            elif nr >= 2 or (ns == 1 and scr["send"][0] == "acc" and scr["send"][1] > 0):
                moved = True
        if any(h[1][0] == "err" and h[1][2] not in (2, 3) for h in p.get("hs", [])):
            faulted = True
    return faulted and moved


def shrink(case):
    if case["scene"] == "stream":
        for c in c09.shrink(case["stream"]):
            yield {"scene": "stream", "stream": c}
    elif case["scene"] == "server":
        ps = case["passes"]
        for k in range(len(ps)):
            if len(ps) > 1:
                yield dict(case, passes=ps[:k] + ps[k + 1:])
        for i in case["ix0"]:
            if len(case["ix0"]) > 1:
                yield dict(case, ix0=[x for x in case["ix0"] if x != i],
                           passes=[{"tx": [t for t in p.get("tx", []) if t[0] != i], "hs": p.get("hs", []),
                                    "io": [s for s in p.get("io", []) if s[0] != i]} for p in ps])


def distribution(cases, obs):
    d = {}
    for c in cases:
        d[c["scene"]] = d.get(c["scene"], 0) + 1
    return d


# ----------------------------------------------------------------------------- real kernel (thorough)

def _abort(sock, action):
    import socket, struct
    if action == "rst":
        sock.setsockopt(socket.SOL_SOCKET, socket.SO_LINGER, struct.pack("ii", 1, 0))
    sock.close()


class Inconclusive(Exception):
    """An awaited real-kernel condition was not reached within its wall-clock cap (or the loopback setup failed):
    nothing can be concluded; recorded in the evidence notes, never a violation."""


CAP = 90.0        # generous wall-clock cap for every awaited condition on real sockets


def _await(cond, what, step=None, cap=CAP):
    """Run step() (if any) and poll cond() until it holds; raise Inconclusive after `cap` seconds."""
    import time
    t0 = time.time()
    while True:
        if step is not None:
            step()
        if cond():
            return
        if time.time() - t0 > cap:
            raise Inconclusive(f"{what} not reached within {cap:.0f} s")
        time.sleep(0.002)


def _tcp_state(sock):
    """Kernel state of a TCP socket (1 = ESTABLISHED, 7 = CLOSE after a reset, 8 = CLOSE_WAIT after the peer's FIN)."""
    import socket, struct
    return struct.unpack("B", sock.getsockopt(socket.IPPROTO_TCP, socket.TCP_INFO, 1))[0]


def real_server_scene(action, point, seed):
    """Real Server on loopback, three raw peers; peer 1 resets (SO_LINGER 0) or closes at `point` of an exchange in
    which every connection gets a 300 kB response through small buffers.  Returns (why | None, exception | None);
    raises Inconclusive when an awaited condition is not reached in time.  Every judgement is made on a state that
    has been awaited: the kernel reports the victim's connection as no longer established, the siblings hold all
    their bytes."""
    import random, socket, time
    from hio.base import tyming
    from hio.core.tcp import serving
    rng = random.Random(seed)
    tymist = tyming.Tymist()
    peers, server = [], None
    try:
        try:
            port = c09._free_port()
            server = serving.Server(ha=("127.0.0.1", port), bs=4096, tymth=tymist.tymen())
            if not server.reopen():
                raise Inconclusive("cannot listen on loopback")
            for i in range(3):
                p = socket.socket(socket.AF_INET, socket.SOCK_STREAM)
                p.setsockopt(socket.SOL_SOCKET, socket.SO_RCVBUF, 4096)
                p.settimeout(CAP)
                p.connect(("127.0.0.1", port))
                p.setblocking(False)
                peers.append(p)
        except OSError as ex:
            raise Inconclusive(f"loopback setup failed: {ex}")
        _await(lambda: len(server.ixes) == 3, "three accepted connections", step=server.serviceConnects)
        rms = [server.ixes[p.getsockname()] for p in peers]
        victim_cs = rms[1].cs
        want = [rng.randbytes(300000) for _ in peers]
        got = [bytearray() for _ in peers]
        alive = [True, True, True]
        failure = []

        def act():
            _abort(peers[1], action)
            alive[1] = False

        def svc():
            if failure:
                return
            try:
                server.service()
            except Exception as ex:
                failure.append(ex)
            for i, p in enumerate(peers):
                if alive[i]:
                    try:
                        got[i].extend(p.recv(65536))
                    except BlockingIOError:
                        pass

        if point == 0:
            act()
        for i, p in enumerate(peers):
            if alive[i]:
                p.send(b"request %d" % i)
        if point == 1:
            act()
        svc()
        for i, rm in enumerate(rms):
            if rm.ca in server.ixes:
                server.transmitIx(want[i], rm.ca)
        svc()
        if point == 2:
            act()
        for n in range(3):
            svc()
        if point == 3:
            act()
        # wait until the kernel itself reports the victim's connection as gone, then give the server passes to notice
        def victim_gone():
            try:
                return victim_cs.fileno() < 0 or _tcp_state(victim_cs) != 1
            except OSError:
                return True
        _await(lambda: failure or victim_gone(), "peer's reset/close visible in the kernel", step=svc)
        for n in range(5):
            svc()
        _await(lambda: failure or all(len(got[i]) >= len(want[i]) and bytes(rms[i].rxbs) == b"request %d" % i for i in (0, 2)),
               "siblings' traffic complete", step=svc)
        if failure:
            return f"Server.service raised {type(failure[0]).__name__}", failure[0]
        for i in (0, 2):
            if bytes(got[i]) != want[i]:
                return f"sibling {i} received wrong bytes after peer 1 {action} at point {point}", None
            if rms[i].cutoff:
                return f"sibling {i} was marked cutoff", None
        if not rms[1].cutoff:
            return f"connection of the peer that did {action} at point {point} is not marked cutoff although the kernel reports it gone (in ixes: {rms[1].ca in server.ixes})", None
        return None, None
    finally:
        for p in peers:
            try:
                p.close()
            except OSError:
                pass
        if server is not None:
            server.close()


def real_client_scene(cls_tls, action, pending, seed):
    """Real Client against a raw listener; the accepted peer resets or closes while the client is idle or has a
    large txbs pending; Client.service() must not raise and, once the kernel reports the connection as no longer
    established, the client must end cutoff."""
    import random, socket, time
    from hio.base import tyming
    from hio.core.tcp import clienting
    rng = random.Random(seed)
    tymist = tyming.Tymist()
    lst = conn = client = None
    try:
        try:
            lst = socket.socket(socket.AF_INET, socket.SOCK_STREAM)
            lst.setsockopt(socket.SOL_SOCKET, socket.SO_RCVBUF, 4096)
            lst.bind(("127.0.0.1", 0))
            lst.listen(5)
            lst.setblocking(False)
            client = clienting.Client(ha=lst.getsockname(), bs=4096, tymth=tymist.tymen())
            client.reopen()
        except OSError as ex:
            raise Inconclusive(f"loopback setup failed: {ex}")
        box = []

        def connect_step():
            client.serviceConnect()
            if not box:
                try:
                    box.append(lst.accept()[0])
                except BlockingIOError:
                    pass
        _await(lambda: box and client.connected, "client connected", step=connect_step)
        conn = box[0]
        cs = client.cs
        failure = []

        def svc():
            if failure:
                return
            try:
                client.service()
            except Exception as ex:
                failure.append(ex)
        if pending:
            client.tx(rng.randbytes(2000000))
            svc()
        _abort(conn, action)
        conn = None

        def gone():
            try:
                return client.cs is not cs or cs.fileno() < 0 or _tcp_state(cs) != 1
            except OSError:
                return True
        _await(lambda: failure or gone(), "peer's reset/close visible in the kernel", step=svc)
        for n in range(5):
            svc()
        if failure:
            return f"Client.service raised {type(failure[0]).__name__}", failure[0]
        if not client.cutoff:
            return f"client not marked cutoff after peer {action} although the kernel reports the connection gone", None
        return None, None
    finally:
        if conn is not None:
            conn.close()
        if lst is not None:
            lst.close()
        if client is not None:
            client.close()


def real_sends_only_probe():
    """Peer closes (FIN); the server then only services sends: once the kernel shows the FIN (CLOSE_WAIT) a first send
    still succeeds and provokes the peer's RST; once that is visible (CLOSE) the next send is EPIPE on Linux.  Returns
    the exception (or None); raises Inconclusive when a state is not reached in time."""
    import socket, time
    from hio.base import tyming
    from hio.core.tcp import serving
    tymist = tyming.Tymist()
    server = None
    p = socket.socket(socket.AF_INET, socket.SOCK_STREAM)
    try:
        try:
            port = c09._free_port()
            server = serving.Server(ha=("127.0.0.1", port), bs=4096, tymth=tymist.tymen())
            if not server.reopen():
                raise Inconclusive("cannot listen on loopback")
            p.settimeout(CAP)
            p.connect(("127.0.0.1", port))
        except OSError as ex:
            raise Inconclusive(f"loopback setup failed: {ex}")
        _await(lambda: len(server.ixes) == 1, "accepted connection", step=server.serviceConnects)
        ca = list(server.ixes)[0]
        cs = server.ixes[ca].cs
        p.close()
        _await(lambda: _tcp_state(cs) != 1, "peer's FIN visible in the kernel")
        for k in range(3):
            server.transmitIx(b"late data %d" % k, ca)
            try:
                server.serviceSendsAllIx()
            except Exception as ex:
                return ex
            if k == 0:
                _await(lambda: _tcp_state(cs) == 7, "peer's RST visible in the kernel", cap=20.0)
        return None
    finally:
        try:
            p.close()
        except OSError:
            pass
        if server is not None:
            server.close()


def gen_post_fault(rng):
    """A connection is cut off by a fault / EOF, then the application closes it (closeIx, still registered) or
    closes and reopens the whole server, then data is queued for it and the server is serviced on."""
    tls = rng.random() < 0.5
    kind = "remotertls" if tls else "remoter"
    ids = list(range(1, rng.choice([1, 2, 3]) + 1))
    good = {"recvs": [["data", "0102"]], "send": ["acc", 3]}
    victims = [i for i in ids if rng.random() < 0.6] or [ids[0]]
    restart = rng.random() < 0.4
    if restart:
        victims = list(ids)            # the server is only restarted once every connection is cut off
    stops = [["data", ""], ["err", "os", errno.ECONNRESET], ["err", "os", errno.ETIMEDOUT]] + ([["err", "ssl", 8]] if tls else [])
    p0 = {"hs": [[i, ["done"]] for i in ids], "io": [[i, good] for i in ids]}
    p1 = {"tx": [[i, P1] for i in ids],
          "io": [[i, {"recvs": [["data", "aa"]] + ([["data", "bb", "dead"]] if rng.random() < 0.5 else []) + [rng.choice(stops)],
                      "send": ["acc", 2]} if i in victims else good] for i in ids]}
    later = lambda: {"tx": [[i, c09.hx(rng, 3)] for i in ids if rng.random() < 0.7],
                     "io": [[i, {"recvs": [["data", "bb"]], "send": rng.choice([["acc", 2], ["err", "os", errno.EPIPE]])}
                             if i in victims else good] for i in ids]}
    passes = [p0, p1]
    for n in range(rng.choice([2, 3, 4])):
        q = later()
        if n == 0 or rng.random() < 0.4:
            q["restart" if restart else "closecut"] = True
        passes.append(q)
    accept = rng.random() < 0.7
    return {"scene": "server", "tls": tls, "wl": rng.random() < 0.5, "accept": accept,
            "ix0": ids if not (tls and accept) else [], "cx0": ids if (tls and accept) else [], "passes": passes}


def post_fault(ctx, n):
    import random
    rng = random.Random(ctx.seed * 104729 + 10)
    bad = 0
    for _ in range(n):
        case = gen_post_fault(rng)
        try:
            obs = run_server(case)
            f = [x for x in failures(case, obs) if x[0] != "isolation"]
            why = " | ".join(x[4] for x in f) or None
        except Exception as ex:
            why = f"harness escape {type(ex).__name__}: {ex}"
        if why and bad < 3:
            ctx.violations.append({"kind": "post-fault", "why": why, "case": case})
        bad += bool(why)
    return {"post_fault_scenes": n, "post_fault_failures": bad}


def extra(tier, ctx):
    rep = post_fault(ctx, 150 if tier != "thorough" else 1500)
    if tier != "thorough":
        return rep
    rep["real_kernel"] = []

    def note(name, why, ex):
        rep["real_kernel"].append({"scene": name, "result": why or "ok"})
        if why is None:
            return
        if isinstance(ex, BrokenPipeError):
            ctx.known_hits["D5"] = ctx.known_hits.get("D5", 0) + 1      # the open EPIPE finding, on a real kernel
        else:
            ctx.violations.append({"kind": "real-kernel", "why": f"{name}: {why}", "case": {"real": name, "seed": ctx.seed}})

    def inconclusive(name, e):
        rep["real_kernel"].append({"scene": name, "result": f"inconclusive: {e}"})
        ctx.notes.append(f"real-kernel scene {name} inconclusive: {e}")

    for action in ("rst", "fin"):
        for point in (0, 1, 2, 3):
            name = f"server/{action}/point{point}"
            try:
                why, ex = real_server_scene(action, point, ctx.seed * 10 + point)
            except Inconclusive as e:
                inconclusive(name, e)
                continue
            except OSError as e:          # the loopback environment, not hio's servicing (that is caught inside the scene)
                inconclusive(name, f"environment: {e}")
                continue
            note(name, why, ex)
        for pending in (False, True):
            name = f"client/{action}/{'pending' if pending else 'idle'}"
            try:
                why, ex = real_client_scene(False, action, pending, ctx.seed)
            except Inconclusive as e:
                inconclusive(name, e)
                continue
            except OSError as e:
                inconclusive(name, f"environment: {e}")
                continue
            note(name, why, ex)
    name = "server/fin/sends-only-twice"
    try:
        ex = real_sends_only_probe()
    except (Inconclusive, OSError) as e:
        inconclusive(name, e)
        return rep
    if ex is None:
        rep["real_kernel"].append({"scene": name, "result": "ok"})
    else:
        note(name, f"serviceSendsAllIx raised {type(ex).__name__}", ex)
    return rep
