(* Shared vocabulary for all models: results with exception kinds, bytes,
   and the case-evaluation helpers used by generated Cases/*.v files.
   No proofs of properties live here. *)
From Coq Require Export List NArith ZArith Bool Lia.
From Coq Require Import Init.Byte Strings.Byte.
Export ListNotations.

(* Exceptions are values. *)
Inductive exn : Type :=
| HTTPExc | MemoErr | NamerErr | HierErr | ValueErr | TypeErr | KeyErr | IndexErr
| UnicodeErr | UnboundErr | RuntimeErr | OSErr | AssertErr | AttrErr | OverflowErr
| StopIter | OtherErr.

Inductive res (A : Type) : Type :=
| Ok (a : A)
| Exc (k : exn).
Arguments Ok {A} a.
Arguments Exc {A} k.

Definition exn_eqb (a b : exn) : bool :=
  match a, b with
  | HTTPExc, HTTPExc | MemoErr, MemoErr | NamerErr, NamerErr | HierErr, HierErr
  | ValueErr, ValueErr | TypeErr, TypeErr | KeyErr, KeyErr | IndexErr, IndexErr
  | UnicodeErr, UnicodeErr | UnboundErr, UnboundErr | RuntimeErr, RuntimeErr
  | OSErr, OSErr | AssertErr, AssertErr | AttrErr, AttrErr | OverflowErr, OverflowErr
  | StopIter, StopIter | OtherErr, OtherErr => true
  | _, _ => false
  end.

Definition res_eqb {A} (eqb : A -> A -> bool) (x y : res A) : bool :=
  match x, y with
  | Ok a, Ok b => eqb a b
  | Exc j, Exc k => exn_eqb j k
  | _, _ => false
  end.

Definition bind {A B} (x : res A) (f : A -> res B) : res B :=
  match x with Ok a => f a | Exc k => Exc k end.

(* Bytes: models use [list N] with every element < 256; case files write
   [list Byte.byte] literals and convert at the boundary. *)
Definition bytes := list N.
Definition of_bytes (l : list Byte.byte) : bytes := map Byte.to_N l.

Fixpoint list_eqb {A} (eqb : A -> A -> bool) (x y : list A) : bool :=
  match x, y with
  | [], [] => true
  | a :: x', b :: y' => eqb a b && list_eqb eqb x' y'
  | _, _ => false
  end.

Definition bytes_eqb : bytes -> bytes -> bool := list_eqb N.eqb.

Definition option_eqb {A} (eqb : A -> A -> bool) (x y : option A) : bool :=
  match x, y with
  | Some a, Some b => eqb a b
  | None, None => true
  | _, _ => false
  end.

Definition pair_eqb {A B} (ea : A -> A -> bool) (eb : B -> B -> bool)
  (x y : A * B) : bool := ea (fst x) (fst y) && eb (snd x) (snd y).

(* Indices (from 0) of the cases on which [check] is false. *)
Fixpoint failing_from {A} (check : A -> bool) (i : nat) (l : list A) : list nat :=
  match l with
  | [] => []
  | a :: l' => if check a then failing_from check (S i) l'
               else i :: failing_from check (S i) l'
  end.
Definition failing {A} (check : A -> bool) (l : list A) : list nat :=
  failing_from check 0 l.

(* Histogram support: count how many cases land in each branch id. *)
Fixpoint count_nat (n : nat) (l : list nat) : nat :=
  match l with [] => 0 | x :: l' => (if Nat.eqb x n then 1 else 0) + count_nat n l' end.
Definition histogram (nb : nat) (l : list nat) : list nat :=
  map (fun b => count_nat b l) (seq 0 nb).
