"""C12 — idle HTTP server connections time out after the configured tymeout of virtual time.

The real hio.core.http.serving.Server (with the tcp.Server / tcp.ServerTls it builds itself from
`tymeout=`) is driven over the fake socket module of the C11 driver and a Tymist whose tyme is set
explicitly.  One connection is accepted in the first service pass; every later pass advances virtual
tyme, lets the client deliver some chunks of an HTTP request (unfinished, completing a persistent
HTTP/1.1 request, or completing a non-persistent `Connection: close` request), fixes how many bytes
the (fake) kernel accepts from one send() in this pass (0 = would block: the peer is not reading) and
runs Server.service().  After each pass the connection's closed flag, the Remoter's tymeout, tymer
and len(txbs) are observed and compared with the model (coq/Model/Idle.v).  "Traffic" is bytes that
actually moved: received chunks and bytes the kernel took; a send attempt that moves nothing is not.
"""
from harness.core import coq_N, coq_Z, coq_list, coq_bool
from harness.drivers import c11 as fk

PROP = "C12"
COQ_REQUIRES = ["Hio.Model.Idle"]
COQ_CHECK = "Idle.check_case"
COQ_CASE_TYPE = "Idle.case"
COQ_BRANCHES = ("Idle.case_branches", "Idle.n_branches")
SHARD = 200
RULE = ("one connection (plain or TLS) to a real http.Server with tymeout T in {-2..12} (given as tymeout= to http.Server or timeout= to http.BareServer (20% of cases, unfinished requests only), which "
        "builds its tcp.Server/ServerTls, or configured on a tcp.Server/ServerTls injected as servant, with or without "
        "the same tymeout= argument) accepted at tyme t0; 2-30 "
        "service passes, each after advancing virtual tyme by 0..2T+2 units, with the client idle, delivering 1-4 "
        "chunks of an unfinished request head, completing a persistent (HTTP/1.1 keep-alive) request or completing a "
        "non-persistent (Connection: close) request whose response is queued in txbs; per pass the fake kernel accepts "
        "0 (would block), 7, 40 or all bytes of the one send attempt; pass times are concentrated within one unit of "
        "the window edge last_bytes_moved+T; tyme unit 1, 1/4, 1/32 or 8 s; a case is non-trivial when T > 0 and "
        "either a pass with traffic falls within one unit of the deadline of that moment or a send attempt with "
        "pending output is blocked or the Responder of a deferring app (X-Defer: 1, 2, 3, 5 or never finishing, half of the "
        "non-persistent requests; the request's HTTP version and Connection header drawn from 12 non-persistent and 8 "
        "persistent spellings: close / Close / 'TE, close' / 'close, TE' / 'keep-alive, close' / 'TE,close' / padded / "
        "repeated lines / HTTP/1.0 with and without keep-alive) is still in progress or the server is wound to a tymist at a different tyme while the connection is open; "
        "with probability 0 / 0.08 / 0.25 per step the server is wound to a new Tymist at tyme 0, earlier, later or equal")
MODELLED = ["virtual tyme as integers (the harness uses tymes that are integer multiples of a unit of 1, 1/4, 1/32 or 8 s, so "
            "float arithmetic is exact; other fractional tymes are not exercised)",
            "HTTP content reduced to: number of received chunks per pass, whether a persistent / non-persistent request "
            "head completes in the pass, how many empty results the WSGI app yields first (one per pass), and the response size R (observed, the same for every request of a case)",
            "the kernel's send behaviour (bytes accepted per send() of a pass, scripted on the fake socket)",
            "sockets (fake socket module shared with C11); the server is wound to a Tymist"]

CA = 0
ALL = 1000000     # cap meaning "the kernel takes everything"
NEVER = 1000000   # number of empty results of an app that never finishes


def directed():
    P = lambda dt, *a, cap=ALL: [dt, list(a), cap]
    return [
        # never used: closes at t0+T exactly, not before
        {"tls": False, "T": 5, "t0": 3, "passes": [P(0, "idle"), P(4, "idle"), P(1, "idle"), P(1, "idle")]},
        # burst of chunks then idle: must close T after the burst (lossless-restart witness)
        {"tls": False, "T": 5, "t0": 0, "passes": [P(0, "idle"), P(1, "rx", 3), P(4, "idle"), P(1, "idle"), P(10, "idle")]},
        # late traffic then idle for exactly T
        {"tls": False, "T": 5, "t0": 0, "passes": [P(0, "idle"), P(4, "rx", 1), P(4, "idle"), P(1, "idle")]},
        # traffic in every window: never closed; traffic arriving at the deadline is too late
        {"tls": False, "T": 4, "t0": 0, "passes": [P(0, "rx", 1), P(3, "rx", 1), P(3, "rx", 2), P(3, "rx", 1), P(3, "idle"),
                                                    P(1, "rx", 1), P(1, "idle")]},
        # persistent request: never times out afterwards
        {"tls": False, "T": 3, "t0": 1, "passes": [P(0, "rx", 1), P(2, "req", 2), P(5, "idle"), P(50, "rx", 1), P(9, "req", 1),
                                                    P(20, "idle")]},
        # tymeout 0 and negative: disabled
        {"tls": False, "T": 0, "t0": 0, "passes": [P(0, "idle"), P(9, "idle"), P(9, "rx", 1)]},
        {"tls": False, "T": -2, "t0": 0, "passes": [P(0, "idle"), P(9, "idle")]},
        # TLS: same
        {"tls": True, "T": 5, "t0": 0, "passes": [P(0, "idle"), P(5, "idle")]},
        {"tls": True, "T": 4, "t0": 0, "passes": [P(0, "idle"), P(3, "rx", 1), P(3, "rx", 1), P(3, "rx", 1), P(4, "idle")]},
        {"tls": True, "T": 4, "t0": 2, "passes": [P(0, "rx", 2), P(3, "req", 1), P(30, "idle")]},
        # default Tymist tock (1/32 s) as the unit
        {"tls": False, "T": 96, "t0": 5, "unit": 0.03125, "passes": [P(0, "idle"), P(95, "rx", 2), P(95, "idle"), P(1, "idle")]},
        # closed: later traffic is ignored
        {"tls": False, "T": 2, "t0": 0, "passes": [P(0, "idle"), P(2, "rx", 1), P(1, "rx", 1), P(1, "req", 1)]},
        # non-persistent request, reader stalled from the start: the blocked send attempts are not traffic,
        # closed T after the request arrived (seeded change C12-1 witness)
        {"tls": False, "T": 4, "t0": 0, "passes": [P(0, "rx", 1), P(1, "reqclose", 1, cap=0), P(1, "idle", cap=0),
                                                    P(1, "idle", cap=0), P(1, "idle", cap=0), P(1, "idle", cap=0),
                                                    P(1, "idle", cap=0)]},
        # reader takes part of the response then stalls: closed T after the last bytes went out
        {"tls": False, "T": 5, "t0": 0, "passes": [P(0, "reqclose", 1, cap=40), P(2, "idle", cap=7), P(2, "idle", cap=0),
                                                    P(2, "idle", cap=0), P(1, "idle", cap=0), P(1, "idle", cap=0)]},
        # the same over TLS (RemoterTls.send)
        {"tls": True, "T": 5, "t0": 0, "passes": [P(0, "reqclose", 1, cap=40), P(2, "idle", cap=7), P(2, "idle", cap=0),
                                                   P(2, "idle", cap=0), P(1, "idle", cap=0), P(1, "idle", cap=0)]},
        # slow but steady reader: bytes move in every window, closed only when the response is out
        {"tls": False, "T": 3, "t0": 0, "passes": [P(0, "reqclose", 2, cap=40)] + [P(2, "idle", cap=40)] * 8},
        {"tls": True, "T": 3, "t0": 0, "passes": [P(0, "reqclose", 2, cap=40)] + [P(2, "idle", cap=40)] * 8},
        # response out at once: closed in the next pass because it is finished, not idle
        {"tls": False, "T": 9, "t0": 0, "passes": [P(0, "reqclose", 1), P(1, "idle"), P(1, "idle")]},
        # persistent response stuck, then a non-persistent request; bytes after the request are ignored by the parser
        {"tls": False, "T": 4, "t0": 0, "passes": [P(0, "req", 1, cap=0), P(9, "idle", cap=7), P(1, "reqclose", 2, cap=0),
                                                    P(20, "req", 1, cap=40), P(1, "rx", 2), P(1, "idle"), P(1, "idle")]},
        # wind to a tymist at an earlier tyme right after the accept: idle connection closed T after the wind, not before
        # (seeded change C12-2 witness: the tymer must restart on the new time base)
        {"tls": False, "T": 5, "t0": 50, "passes": [P(0, "idle"), [0, ["wind"], 0], P(4, "idle"), P(1, "idle"), P(1, "idle")]},
        # wind to a later tyme: a busy connection is not closed at once, an idle one T after the wind
        {"tls": False, "T": 5, "t0": 0, "passes": [P(0, "rx", 1), P(3, "rx", 1), [100, ["wind"], 0], P(0, "idle"), P(3, "rx", 1),
                                                    P(4, "rx", 1), P(4, "idle"), P(1, "idle")]},
        {"tls": True, "T": 4, "t0": 7, "passes": [P(0, "idle"), P(3, "idle"), [2, ["wind"], 0], P(3, "idle"), P(1, "idle")]},
        {"tls": True, "T": 4, "t0": 0, "passes": [P(0, "reqclose", 1, cap=40), [60, ["wind"], 0], P(3, "idle", cap=0),
                                                   P(1, "idle", cap=0), [10, ["wind"], 0], P(3, "idle", cap=7), P(4, "idle", cap=0)]},
        # wind of a persistent and of a closed connection
        {"tls": False, "T": 3, "t0": 0, "passes": [P(0, "req", 1), [40, ["wind"], 0], P(9, "idle"), P(9, "idle")]},
        {"tls": False, "T": 2, "t0": 0, "passes": [P(0, "idle"), P(2, "idle"), [0, ["wind"], 0], P(1, "idle")]},
        # app that never finishes (yields b'' for ever): no byte moves, closed T after the request (seeded change C12-3 witness)
        {"tls": False, "T": 3, "t0": 0, "passes": [P(0, "reqdefer", 1, NEVER), P(1, "idle"), P(1, "idle"), P(1, "idle"), P(1, "idle")]},
        {"tls": True, "T": 3, "t0": 0, "passes": [P(0, "rx", 1), P(2, "reqdefer", 2, NEVER), P(2, "idle"), P(1, "idle"), P(1, "idle")]},
        # app that finishes later than the timeout: the connection is gone by then
        {"tls": False, "T": 2, "t0": 0, "passes": [P(0, "reqdefer", 1, 4), P(1, "idle"), P(1, "idle"), P(1, "idle"), P(1, "idle"),
                                                    P(1, "idle")]},
        # app that finishes in time: response goes out, closed when done; then one that meets a stalled reader
        {"tls": False, "T": 4, "t0": 0, "passes": [P(0, "reqdefer", 1, 2), P(1, "idle"), P(1, "idle"), P(1, "idle"), P(1, "idle")]},
        {"tls": False, "T": 4, "t0": 0, "passes": [P(0, "reqdefer", 1, 2, cap=0), P(1, "idle", cap=0), P(1, "idle", cap=0),
                                                    P(1, "idle", cap=0), P(1, "idle", cap=0), P(1, "idle", cap=7),
                                                    P(3, "idle", cap=0), P(1, "idle", cap=0)]},
        # client keeps talking while the app is not ready: that is traffic; wind while the app is not ready
        {"tls": False, "T": 3, "t0": 0, "passes": [P(0, "reqdefer", 1, NEVER), P(2, "rx", 1), P(2, "rx", 1), P(2, "idle"), P(1, "idle")]},
        {"tls": True, "T": 3, "t0": 9, "passes": [P(0, "reqdefer", 1, NEVER), [0, ["wind"], 0], P(2, "idle"), P(1, "idle")]},
        # the ways a request can ask for a non-persistent connection (seeded change C12-9 witness: `TE, close`): each must
        # still time out when it goes silent with the app not answering; and the ways to keep it alive: never times out
        {"tls": False, "T": 3, "t0": 0, "hdrs": 1, "passes": [P(0, "reqdefer", 1, NEVER), P(2, "idle"), P(1, "idle"), P(1, "idle")]},
        {"tls": False, "T": 3, "t0": 0, "hdrs": 3, "passes": [P(0, "reqdefer", 1, NEVER), P(2, "idle"), P(1, "idle"), P(1, "idle")]},
        {"tls": False, "T": 3, "t0": 0, "hdrs": 5, "passes": [P(0, "reqdefer", 1, NEVER), P(2, "idle"), P(1, "idle"), P(1, "idle")]},
        {"tls": False, "T": 3, "t0": 0, "hdrs": 7, "passes": [P(0, "reqdefer", 1, NEVER), P(2, "idle"), P(1, "idle"), P(1, "idle")]},
        {"tls": False, "T": 3, "t0": 0, "hdrs": 9, "passes": [P(0, "reqdefer", 1, NEVER), P(2, "idle"), P(1, "idle"), P(1, "idle")]},
        {"tls": False, "T": 3, "t0": 0, "hdrs": 11, "passes": [P(0, "reqdefer", 1, NEVER), P(2, "idle"), P(1, "idle"), P(1, "idle")]},
        {"tls": False, "T": 3, "t0": 0, "hdrs": 13, "passes": [P(0, "reqdefer", 1, NEVER), P(2, "idle"), P(1, "idle"), P(1, "idle")]},
        {"tls": False, "T": 3, "t0": 0, "hdrs": 15, "passes": [P(0, "reqdefer", 1, NEVER), P(2, "idle"), P(1, "idle"), P(1, "idle")]},
        {"tls": False, "T": 3, "t0": 0, "hdrs": 17, "passes": [P(0, "reqdefer", 1, NEVER), P(2, "idle"), P(1, "idle"), P(1, "idle")]},
        {"tls": False, "T": 3, "t0": 0, "hdrs": 19, "passes": [P(0, "reqdefer", 1, NEVER), P(2, "idle"), P(1, "idle"), P(1, "idle")]},
        {"tls": False, "T": 3, "t0": 0, "hdrs": 21, "passes": [P(0, "reqdefer", 1, NEVER), P(2, "idle"), P(1, "idle"), P(1, "idle")]},
        {"tls": False, "T": 3, "t0": 0, "hdrs": 23, "passes": [P(0, "reqdefer", 1, NEVER), P(2, "idle"), P(1, "idle"), P(1, "idle")]},
        {"tls": False, "T": 2, "t0": 0, "hdrs": 2, "passes": [P(0, "rx", 1), P(1, "req", 2), P(3, "idle"), P(9, "req", 1), P(9, "idle")]},
        {"tls": False, "T": 2, "t0": 0, "hdrs": 5, "passes": [P(0, "rx", 1), P(1, "req", 2), P(3, "idle"), P(9, "req", 1), P(9, "idle")]},
        {"tls": False, "T": 2, "t0": 0, "hdrs": 9, "passes": [P(0, "rx", 1), P(1, "req", 2), P(3, "idle"), P(9, "req", 1), P(9, "idle")]},
        {"tls": False, "T": 2, "t0": 0, "hdrs": 14, "passes": [P(0, "rx", 1), P(1, "req", 2), P(3, "idle"), P(9, "req", 1), P(9, "idle")]},
        {"tls": False, "T": 2, "t0": 0, "hdrs": 21, "passes": [P(0, "rx", 1), P(1, "req", 2), P(3, "idle"), P(9, "req", 1), P(9, "idle")]},
        # the tymeout configured on an injected servant (no tymeout argument to http.Server) is the one that counts
        # (seeded change C12-10 witness): below, above and equal to the http default 5.0, and disabled
        {"tls": False, "T": 2, "t0": 0, "inject": 1, "passes": [P(0, "idle"), P(1, "idle"), P(1, "idle"), P(3, "idle")]},
        {"tls": True, "T": 2, "t0": 0, "inject": 1, "passes": [P(0, "rx", 1), P(1, "rx", 1), P(2, "idle"), P(3, "idle")]},
        {"tls": False, "T": 9, "t0": 0, "inject": 1, "passes": [P(0, "idle"), P(5, "idle"), P(3, "rx", 1), P(8, "idle"), P(1, "idle")]},
        {"tls": True, "T": 9, "t0": 0, "inject": 1, "passes": [P(0, "idle"), P(5, "idle"), P(3, "idle"), P(1, "idle")]},
        {"tls": False, "T": 0, "t0": 0, "inject": 1, "passes": [P(0, "idle"), P(5, "idle"), P(30, "idle")]},
        {"tls": False, "T": 5, "t0": 0, "inject": 1, "passes": [P(0, "idle"), P(4, "idle"), P(1, "idle")]},
        {"tls": False, "T": 3, "t0": 0, "inject": 2, "passes": [P(0, "idle"), P(2, "idle"), P(1, "idle")]},
        {"tls": True, "T": 8, "t0": 0, "inject": 2, "passes": [P(0, "reqdefer", 1, NEVER), P(5, "idle"), P(2, "idle"), P(1, "idle")]},
        # http.BareServer (parameter `timeout`), own and injected servant, http and https (seeded change C12-11 witness:
        # https with own servant)
        {"tls": True, "cls": "bare", "T": 3, "t0": 0, "passes": [P(0, "idle"), P(1, "idle"), P(1, "idle"), P(1, "idle")]},
        {"tls": True, "cls": "bare", "T": 4, "t0": 0, "passes": [P(0, "rx", 1), P(3, "rx", 1), P(3, "rx", 2), P(3, "idle"), P(1, "idle")]},
        {"tls": True, "cls": "bare", "T": 0, "t0": 0, "passes": [P(0, "idle"), P(1, "idle"), P(9, "idle")]},
        {"tls": False, "cls": "bare", "T": 3, "t0": 0, "passes": [P(0, "idle"), P(2, "rx", 1), P(2, "idle"), P(1, "idle")]},
        {"tls": True, "cls": "bare", "inject": 1, "T": 2, "t0": 0, "passes": [P(0, "idle"), P(1, "idle"), P(1, "idle")]},
        {"tls": False, "cls": "bare", "inject": 2, "T": 7, "t0": 0, "passes": [P(0, "idle"), P(5, "idle"), [0, ["wind"], 0], P(6, "idle"),
                                                                            P(1, "idle")]},
        # the peer reset the idle connection (getpeername/shutdown of the socket raise): still closed at the tymeout, nothing
        # escapes service() (seeded change C12-15 witness)
        {"tls": False, "T": 3, "t0": 0, "peer_reset": True, "passes": [P(0, "idle"), P(2, "idle"), P(1, "idle"), P(1, "idle")]},
        {"tls": True, "T": 2, "t0": 5, "peer_reset": True, "passes": [P(0, "rx", 1), P(1, "idle"), P(1, "idle"), P(1, "idle")]},
        {"tls": False, "T": 3, "t0": 0, "peer_reset": True, "cls": "bare", "passes": [P(0, "idle"), P(3, "idle"), P(1, "idle")]},
        {"tls": False, "T": 2, "t0": 0, "peer_reset": True, "passes": [P(0, "reqdefer", 1, NEVER), P(2, "idle"), P(1, "idle")]},
        # client keeps sending while the response is stuck: that is traffic
        {"tls": False, "T": 3, "t0": 0, "passes": [P(0, "reqclose", 1, cap=0), P(2, "rx", 1, cap=0), P(2, "rx", 1, cap=0),
                                                    P(2, "idle", cap=0), P(1, "idle", cap=0)]},
    ]


def generate(rng, tier):
    n = 500 if tier == "quick" else 9000
    out = []
    for _ in range(n):
        T = rng.choice([1, 2, 3, 4, 5, 5, 7, 12, 0, -2]) if rng.random() < 0.9 else rng.randint(-2, 12)
        t0 = rng.choice([0, 0, 1, 7])
        tls = rng.random() < 0.4
        style = rng.random()           # < 0.45: a non-persistent request early, then mostly send behaviour
        stall = rng.random() < 0.5     # the reader tends to stall
        windy = rng.choice([0, 0, 0.08, 0.25])   # chance per step that the server is wound to another tymist
        def cap():
            if style >= 0.45 and rng.random() < 0.7:
                return ALL
            return rng.choices([0, 7, 40, ALL], [6, 1, 2, 1] if stall else [2, 2, 3, 3])[0]
        first = rng.choice([["idle"], ["idle"], ["rx", 1]] + ([["reqclose", 1]] * 2 if style < 0.3 else []))
        R_EST = 225                    # size of one response (only used to aim pass times; the model uses the observed size)
        c0 = cap()
        passes = [[0, first, c0]]
        last, now, persisted, responding = t0, t0, False, first[0] == "reqclose"
        pend = R_EST if responding else 0
        pend -= min(pend, c0)
        if first[0] != "idle":
            last = now
        for _ in range(rng.choice([2, 4, 6, 10, 16, 30])):
            r = rng.random()
            if T > 0 and r < 0.6:
                target = last + T + rng.choice([-1, -1, 0, 0, 1])
                dt = max(0, target - now)
            elif r < 0.8:
                dt = rng.randint(0, max(1, abs(T)))
            else:
                dt = rng.randint(0, 2 * abs(T) + 2)
            if rng.random() < windy:
                now = rng.choice([0, 0, max(0, now - rng.randint(1, 60)), now + rng.randint(1, 120), now])
                last = now
                passes.append([now, ["wind"], 0])
                continue
            now += dt
            q = rng.random()
            if responding:
                a = ["idle"] if q < 0.85 else (["rx", rng.choice([1, 2])] if q < 0.96 else ["req", 1])
            elif q < 0.35:
                a = ["idle"]
            elif q < 0.75 or (persisted and q < 0.9):
                a = ["rx", rng.choice([1, 1, 2, 3, 4])]
            elif style < 0.45 and not persisted and q < 0.97:
                a = ["reqclose", rng.choice([1, 1, 2])]
            elif q < 0.93:
                a = ["req", rng.choice([1, 1, 2])]
            else:
                a = ["reqclose", rng.choice([1, 2])]
            if a[0] == "reqclose" and rng.random() < 0.5:
                a = ["reqdefer", a[1], rng.choice([1, 2, 3, 5, NEVER, NEVER])]
            if not responding and a[0] in ("req", "reqclose", "reqdefer"):
                pend += R_EST
                persisted = persisted or a[0] == "req"
                responding = a[0] != "req"
                if a[0] == "reqdefer":
                    pend -= R_EST        # (the estimate ignores when, if ever, the deferred response appears)
            c = cap()
            sent = min(c, pend)
            pend -= sent
            if a[0] != "idle" or sent:
                last = now
            passes.append([dt, a, c])
        out.append({"tls": tls, "T": T, "t0": t0, "passes": passes, "unit": rng.choice([1.0, 1.0, 0.25, 0.03125, 8.0]),
                    "hdrs": rng.choice([0] + list(range(1, 61))), "inject": rng.choice([0, 0, 1, 1, 2]),
                    "peer_reset": rng.random() < 0.3})
        if rng.random() < 0.2:      # http.BareServer: its request handling is not modelled, so unfinished requests only
            out[-1]["cls"] = "bare"
            out[-1]["passes"] = [[dt, ["rx", a[1]] if a[0] in ("req", "reqclose", "reqdefer") else a, c]
                                 for dt, a, c in passes]
    return out


# --------------------------------------------------------------------------- implementation driver

# How a request says whether the connection is to be kept: (http version, header lines).  By the documented rule
# an HTTP/1.1 connection is persistent unless its Connection header has a `close` option (comma separated list,
# case-insensitive, blanks around options ignored; of repeated Connection lines the parser keeps the last: merging
# them is the header parser's business, so repeated lines here end with the deciding one); an HTTP/1.0 connection is
# persistent only with a `keep-alive` option.
CLOSE_VARIANTS = [
    (b"1.1", [b"Connection: close"]),
    (b"1.1", [b"Connection: Close"]),
    (b"1.1", [b"Connection: TE, close"]),
    (b"1.1", [b"Connection: close, TE"]),
    (b"1.1", [b"Connection: keep-alive, close"]),
    (b"1.1", [b"Connection: TE,close"]),
    (b"1.1", [b"Connection:  CLOSE "]),
    (b"1.1", [b"Connection: TE", b"Connection: close"]),
    (b"1.1", [b"connection: Upgrade, Close , TE"]),
    (b"1.0", []),
    (b"1.0", [b"Connection: TE"]),
    (b"1.0", [b"Connection: close"]),
]
KEEP_VARIANTS = [
    (b"1.1", []),
    (b"1.1", [b"Connection: keep-alive"]),
    (b"1.1", [b"Connection: TE"]),
    (b"1.1", [b"Connection: Keep-Alive, TE"]),
    (b"1.1", [b"Connection: Upgrade"]),
    (b"1.0", [b"Connection: keep-alive"]),
    (b"1.0", [b"Connection: Keep-Alive"]),
    (b"1.0", [b"Connection: TE, keep-alive"]),
]


class Feeder:
    """Produces the client's byte stream: request line, header lines, blank line, again.  `hdrs` (0 = always
    HTTP/1.1 with `Connection: close` / no Connection header) selects, per request, one of the variants above; the
    HTTP version has to be fixed when the request line goes out, the header lines go out with the end of the head."""

    def __init__(self, hdrs=0):
        self.in_head = False
        self.n = 0
        self.hdrs = hdrs
        self.reqno = 0
        self.version = b"1.1"

    def _start(self):
        self.reqno += 1
        self.in_head = True
        self.version = b"1.0" if self.hdrs and (self.hdrs // 5 + self.reqno) % 3 == 0 else b"1.1"
        return b"GET /idle/%d HTTP/%s\r\n" % (self.n, self.version)

    def partial(self):
        self.n += 1
        if not self.in_head:
            return self._start()
        return b"X-Pad-%d: abc\r\n" % self.n

    def finish(self, close=False, defer=0):
        self.n += 1
        head = b"" if self.in_head else self._start() + b"Host: x\r\n"
        if not self.hdrs:
            lines = [b"Connection: close"] if close else []
        else:
            table = [v for v in (CLOSE_VARIANTS if close else KEEP_VARIANTS) if v[0] == self.version]
            lines = table[(self.hdrs + self.reqno) % len(table)][1]
        if defer:
            lines = [b"X-Defer: %d" % defer] + list(lines)
        self.in_head = False
        return head + b"".join(l + b"\r\n" for l in lines) + b"\r\n"


BODY = b"0123456789abcdef" * 6


def _app(environ, start_response):
    """Answers BODY, after as many empty results ("not ready yet", one per service pass) as X-Defer asks for."""
    start_response("200 OK", [("Content-Type", "text/plain"), ("Content-Length", str(len(BODY)))])
    d = int(environ.get("HTTP_X_DEFER", "0"))
    if not d:
        return [BODY]

    def later():
        for _ in range(d):
            yield b""
        yield BODY
    return later()


def _as_int(x):
    x = float(x)
    if not x.is_integer():
        raise AssertionError(f"non-integer tyme value {x!r}")
    return int(x)


def _norm(p):
    """pass entries are [dt, action] (cap = everything) or [dt, action, cap]"""
    return (p[0], p[1], p[2] if len(p) > 2 else ALL)


def _make_server(case, world, tymeout):
    """The three ways the tymeout of an http Server gets configured: `inject` 0 = http.Server(tymeout=T) building
    its own tcp.Server / ServerTls; 1 = a tcp.Server / ServerTls(tymeout=T) injected as servant, no tymeout argument
    to http.Server (the servant's own tymeout is the configured one); 2 = injected servant and the same tymeout
    argument."""
    from hio.core.http import serving as hserving
    from hio.core.tcp import serving as tserving
    inject = int(case.get("inject", 0))
    bare = case.get("cls", "server") == "bare"      # http.BareServer: same connection handling, parameter `timeout`
    cls = hserving.BareServer if bare else hserving.Server
    tkey = "timeout" if bare else "tymeout"
    base = {} if bare else {"app": _app}
    if not inject:
        kw = dict(base, port=world.port, host="127.0.0.1")
        kw[tkey] = tymeout
        if case["tls"]:
            kw.update(scheme="https", context=fk.FakeContext())
        return cls(**kw)
    if case["tls"]:
        servant = tserving.ServerTls(host="127.0.0.1", port=world.port, tymeout=tymeout, context=fk.FakeContext())
    else:
        servant = tserving.Server(host="127.0.0.1", port=world.port, tymeout=tymeout)
    kw = dict(base, servant=servant)
    if inject == 2:
        kw[tkey] = tymeout
    return cls(**kw)


def run_impl(case):
    from hio.core.http import serving as hserving
    from hio.base import tyming
    world = fk.World()
    u = float(case.get("unit", 1.0))     # seconds per model tyme unit (a power of two: float arithmetic stays exact)
    tymist = tyming.Tymist(tyme=float(case["t0"]) * u, tock=u)
    out = []
    with fk.patched(world):
        srv = _make_server(case, world, float(case["T"]) * u)
        reps = getattr(srv, "reps", {})        # BareServer has stewards instead; the driver sends it no complete request
        if case.get("cls") == "bare" and any(_norm(p)[1][0] in ("req", "reqclose", "reqdefer") for p in case["passes"]):
            raise AssertionError("BareServer cases carry unfinished requests only")
        wind = getattr(srv, "wind", None) or srv.servant.wind     # BareServer has no wind of its own
        wind(tymist.tymen())
        if not srv.reopen():
            raise AssertionError("reopen failed")
        servant = srv.servant
        ca = fk.ca_of(CA)
        feeder, ix, core = Feeder(int(case.get("hdrs", 0))), None, None
        sizes, total_before = [], 0
        for p in case["passes"]:
            dt, a, cap = _norm(p)
            if a[0] == "wind":
                # the server is wound to another Tymist whose tyme is dt (absolute, in model units)
                tymist = tyming.Tymist(tyme=float(dt) * u, tock=u)
                wind(tymist.tymen())
                if core is None:
                    raise AssertionError("wind before the first pass is not supported by the driver")
                closed = core.closes > 0
                out.append({"closed": closed, "tmo": _as_int(ix.tymeout / u), "st": _as_int(ix.tymer._start / u),
                            "sp": _as_int(ix.tymer._stop / u), "pend": 0 if closed else len(ix.txbs),
                            "sent": 0, "now": _as_int(tymist.tyme / u),
                            "inprog": (not closed) and ca in reps and not reps[ca].ended})
                continue
            tymist.tyme = tymist.tyme + float(dt) * u
            world.send_cap = None if cap >= ALL else cap
            chunks = []
            if a[0] == "rx":
                chunks = [feeder.partial() for _ in range(a[1])]
            elif a[0] in ("req", "reqclose", "reqdefer"):
                chunks = [feeder.partial() for _ in range(a[1] - 1)] + [
                    feeder.finish(close=a[0] != "req", defer=a[2] if a[0] == "reqdefer" else 0)]
            if core is None:
                # first pass: the connection is accepted inside this service(); its bytes are already in flight
                servant.ss.core.queue.append([CA, False, ["ok"], chunks])
            elif core.closes == 0:
                core.chunks.extend(chunks)
            sent_before = len(core.sent) if core is not None else 0
            raised = None
            try:
                srv.service()
            except Exception as ex:      # nothing may escape a service pass; reported by the oracle
                raised = f"{type(ex).__name__}: {ex}"
            if core is None:
                ix = servant.ixes.get(ca)
                if ix is None:
                    raise AssertionError("connection was not accepted in the first pass")
                core = ix.cs.core
                if case.get("peer_reset"):
                    # the peer resets the connection while it is idle: from now on getpeername() and shutdown() of the
                    # server side socket raise ENOTCONN / ECONNABORTED (nothing in servicing may depend on them)
                    core.badpeer = "gone"
            closed = core.closes > 0
            if closed != (ca not in servant.ixes):
                raise AssertionError("socket closed but connection still listed (or the reverse)")
            total = len(core.sent) + (0 if closed else len(ix.txbs))
            if not closed and total > total_before:
                sizes.append(total - total_before)      # a response was queued in this pass
            if not closed:
                total_before = total
            out.append({"closed": closed, "tmo": _as_int(ix.tymeout / u), "st": _as_int(ix.tymer._start / u),
                        "sp": _as_int(ix.tymer._stop / u), "pend": 0 if closed else len(ix.txbs),
                        "sent": len(core.sent) - sent_before, "now": _as_int(tymist.tyme / u),
                        "inprog": (not closed) and ca in reps and not reps[ca].ended, "raised": raised})
        world.send_cap = None
        srv.close()
        leaked = world.open_ids()
    if len(set(sizes)) > 1:
        raise AssertionError(f"responses of different sizes {sizes}")
    return {"passes": out, "leaked": leaked, "R": sizes[0] if sizes else 0}


# --------------------------------------------------------------------------- oracle

def _expect(case, obs):
    """The property per pass, from the schedule and the bytes the implementation was seen to move:
    (must_close, may_close, last_moved_before, persistent)."""
    T, now = case["T"], case["t0"]
    last, persisted, responding, closed, pend_prev, inprog_prev = case["t0"], False, False, False, 0, False
    exp = []
    for p, o in zip(case["passes"], obs["passes"]):
        dt, a, cap = _norm(p)
        if a[0] == "wind":          # new time base: idleness is measured from the wind
            now = dt
            exp.append((False, False, last, persisted))
            if not closed:
                last = now
            continue
        now += dt
        before = last
        idle_due = (not closed) and T > 0 and not persisted and now >= last + T
        done_due = (not closed) and responding and not inprog_prev and pend_prev == 0   # response finished and completely out
        exp.append((idle_due, idle_due or done_due, before, persisted))
        if o["closed"]:
            closed = True
        if not closed:
            if a[0] != "idle" or o["sent"] > 0:
                last = now
            if not responding:
                if a[0] == "req":
                    persisted = True
                elif a[0] in ("reqclose", "reqdefer"):
                    responding = True
            pend_prev, inprog_prev = o["pend"], o["inprog"]
    return exp


def oracle(case, obs):
    if obs["leaked"]:
        return f"sockets {obs['leaked']} still open after Server.close()"
    T = case["T"]
    was_closed = False
    for i, ((must, may, last, pers), o) in enumerate(zip(_expect(case, obs), obs["passes"])):
        if o.get("raised"):
            return (f"pass {i} at tyme {o['now']}: Server.service() raised {o['raised']}; the connection is "
                    f"{'closed' if o['closed'] else 'still open'} (bytes last moved at {last}, tymeout {T})")
        if must and not o["closed"]:
            return (f"pass {i} at tyme {o['now']}: non-persistent connection had no bytes moved since {last} "
                    f"(tymeout {T}, {obs['passes'][i - 1]['pend'] if i else 0} bytes pending) but is still open")
        if o["closed"] and not was_closed and not may:
            why = "persistent" if pers else ("tymeout <= 0" if T <= 0 else f"bytes last moved at {last}, tymeout {T}")
            return f"pass {i} at tyme {o['now']}: connection closed for idleness although {why}"
        was_closed = o["closed"]
    return None


def classify(case, obs, why):
    return None


def nontrivial(case, obs):
    T, now, last = case["T"], case["t0"], case["t0"]
    if T <= 0:
        return False
    hit, pend = False, 0
    for p, o in zip(case["passes"], obs["passes"]):
        dt, a, cap = _norm(p)
        if a[0] == "wind":
            if not o["closed"] and dt != now:
                hit = True
            now = last = dt
            continue
        now += dt
        if a[0] != "idle" and abs(now - (last + T)) <= 1:
            hit = True
        if not o["closed"] and o["pend"] > 0 and o["sent"] == 0 and cap == 0:
            hit = True
        if not o["closed"] and o["inprog"]:
            hit = True
        if (a[0] != "idle" or o["sent"] > 0) and not o["closed"]:
            last = now
    return hit


# --------------------------------------------------------------------------- Gallina emitter

def _act(a):
    if a[0] == "idle":
        return "Idle.Quiet"
    if a[0] == "wind":
        return "Idle.Rewind"
    if a[0] == "reqdefer":
        return f"(Idle.ReqDefer {coq_N(a[1])} {coq_N(a[2])})"
    c = {"rx": "Idle.Rx", "req": "Idle.Req", "reqclose": "Idle.ReqClose"}[a[0]]
    return f"({c} {coq_N(a[1])})"


def to_coq(case, obs):
    now, sched = case["t0"], []
    for p in case["passes"]:
        dt, a, cap = _norm(p)
        now = dt if a[0] == "wind" else now + dt
        sched.append(f"({coq_Z(now)}, {_act(a)}, {coq_N(cap)})")
    ob = []
    for o in obs["passes"]:
        op = not o["closed"]
        ob.append("(%s, %s, %s, %s, %s, %s)" % (coq_bool(o["closed"]), coq_Z(o["tmo"]), coq_Z(o["st"] if op else 0),
                                                 coq_Z(o["sp"] if op else 0), coq_N(o["pend"] if op else 0),
                                                 coq_bool(bool(o["inprog"]) and op)))
    return ("{| Idle.k_T := %s; Idle.k_t0 := %s; Idle.k_R := %s; Idle.k_sched := %s; Idle.k_obs := %s |}" % (
        coq_Z(case["T"]), coq_Z(case["t0"]), coq_N(obs["R"]), coq_list(sched, "Idle.step"),
        coq_list(ob, "bool * Z * Z * Z * N * bool")))


def shrink(case):
    ps = [list(_norm(p)) for p in case["passes"]]
    for i in range(1, len(ps)):
        q = [list(p) for p in ps[:i] + ps[i + 1:]]
        if i < len(ps) - 1 and ps[i][1][0] != "wind" and q[i][1][0] != "wind":
            q[i][0] += ps[i][0]
        yield dict(case, passes=q)
    for i, (dt, a, cap) in enumerate(ps):
        if a[0] == "rx" and a[1] > 1:
            yield dict(case, passes=ps[:i] + [[dt, ["rx", a[1] - 1], cap]] + ps[i + 1:])
        if a[0] == "wind":
            continue
        if cap not in (0, ALL):
            yield dict(case, passes=ps[:i] + [[dt, a, ALL]] + ps[i + 1:])


def distribution(cases, obs):
    d = {"tls": sum(1 for c in cases if c["tls"]), "T<=0": sum(1 for c in cases if c["T"] <= 0),
         "closed": 0, "with_nonpersistent_response": 0, "with_blocked_send_while_pending": 0,
         "peer_reset_while_idle": sum(1 for c in cases if c.get("peer_reset")),
         "bare_server": sum(1 for c in cases if c.get("cls") == "bare"),
         "with_injected_servant": sum(1 for c in cases if c.get("inject")),
         "with_header_variants": sum(1 for c in cases if c.get("hdrs")),
         "with_response_in_progress": sum(1 for o in obs if isinstance(o, dict) and any(q.get("inprog") for q in o.get("passes", []))),
         "with_wind": sum(1 for c in cases if any(_norm(p)[1][0] == "wind" for p in c["passes"]))}
    for c, o in zip(cases, obs):
        if isinstance(o, dict) and "passes" in o and o["passes"]:
            d["closed"] += 1 if o["passes"][-1]["closed"] else 0
            d["with_nonpersistent_response"] += 1 if any(_norm(p)[1][0] in ("reqclose", "reqdefer") for p in c["passes"]) else 0
            d["with_blocked_send_while_pending"] += 1 if any(
                (not q["closed"]) and q["pend"] > 0 and q["sent"] == 0 for q in o["passes"]) else 0
    return d


# --------------------------------------------------------------------------- extra sweeps

def _unwound_round(tls):
    """A server that was never wound to a Tymist has no time base: it must neither raise nor time out."""
    from hio.core.http import serving as hserving
    world = fk.World()
    with fk.patched(world):
        kw = dict(port=world.port, host="127.0.0.1", tymeout=3.0, app=_app)
        if tls:
            kw.update(scheme="https", context=fk.FakeContext())
        srv = hserving.Server(**kw)
        srv.reopen()
        feeder = Feeder()
        srv.servant.ss.core.queue.append([CA, False, ["ok"], [feeder.partial()]])
        for i in range(6):
            srv.service()
            ix = srv.servant.ixes.get(fk.ca_of(CA))
            if ix is None:
                return f"unwound server dropped the connection in pass {i}"
            ix.cs.core.chunks.append(feeder.partial())
        srv.close()
    return None


def _two_connections(T, tls):
    """An idle and a busy connection on the same server: only the idle one is closed, at t0 + T."""
    from hio.core.http import serving as hserving
    from hio.base import tyming
    world = fk.World()
    tymist = tyming.Tymist(tyme=0.0, tock=1.0)
    with fk.patched(world):
        kw = dict(port=world.port, host="127.0.0.1", tymeout=float(T), app=_app)
        if tls:
            kw.update(scheme="https", context=fk.FakeContext())
        srv = hserving.Server(**kw)
        srv.wind(tymist.tymen())
        srv.reopen()
        fa, fb = Feeder(), Feeder()
        srv.servant.ss.core.queue.append([0, False, ["ok"], []])
        srv.servant.ss.core.queue.append([1, False, ["ok"], [fb.partial()]])
        srv.service()
        a, b = srv.servant.ixes[fk.ca_of(0)], srv.servant.ixes[fk.ca_of(1)]
        ca, cb = a.cs.core, b.cs.core
        for t in range(1, 3 * T + 1):
            tymist.tyme = float(t)
            cb.chunks.append(fb.partial())
            srv.service()
            if cb.closes:
                return f"busy connection closed at tyme {t} (tymeout {T}, traffic in every pass)"
            if (ca.closes > 0) != (t >= T):
                return f"idle connection accepted at 0 is {'closed' if ca.closes else 'open'} at tyme {t} (tymeout {T})"
        srv.close()
        if world.open_ids():
            return f"sockets {world.open_ids()} open after close"
    return None


def _wound_later(T, tls, busy):
    """Accepted while the server is not wound (tymer started at 0.0), then wound to a tymist at tyme 100:
    a busy connection must survive, an idle one must be closed T after the wind (not at once, not never)."""
    from hio.core.http import serving as hserving
    from hio.base import tyming
    world = fk.World()
    with fk.patched(world):
        kw = dict(port=world.port, host="127.0.0.1", tymeout=float(T), app=_app)
        if tls:
            kw.update(scheme="https", context=fk.FakeContext())
        srv = hserving.Server(**kw)
        srv.reopen()
        f = Feeder()
        srv.servant.ss.core.queue.append([0, False, ["ok"], [f.partial()]])
        srv.service(); srv.service()
        ix = srv.servant.ixes.get(fk.ca_of(0))
        if ix is None:
            return "connection not accepted by the unwound server"
        core = ix.cs.core
        tymist = tyming.Tymist(tyme=100.0, tock=1.0)
        srv.wind(tymist.tymen())
        for t in range(100, 100 + 3 * T + 1):
            tymist.tyme = float(t)
            if busy:
                core.chunks.append(f.partial())
            srv.service()
            if busy and core.closes:
                return f"busy connection closed at tyme {t} after a wind at 100 (tymeout {T})"
            if not busy and (core.closes > 0) != (t >= 100 + T):
                return f"idle connection wound at 100 is {'closed' if core.closes else 'open'} at tyme {t} (tymeout {T})"
        srv.close()
    return None


def _reset_does_not_block_others(T, tls):
    """Two idle connections, the first one reset by its peer (getpeername/shutdown raise): both are closed at their
    tymeout, no exception escapes service()."""
    from hio.core.http import serving as hserving
    from hio.base import tyming
    world = fk.World()
    tymist = tyming.Tymist(tyme=0.0, tock=1.0)
    with fk.patched(world):
        kw = dict(port=world.port, host="127.0.0.1", tymeout=float(T), app=_app)
        if tls:
            kw.update(scheme="https", context=fk.FakeContext())
        srv = hserving.Server(**kw)
        srv.wind(tymist.tymen())
        srv.reopen()
        srv.servant.ss.core.queue.append([0, False, ["ok"], []])
        srv.service()
        a = srv.servant.ixes[fk.ca_of(0)].cs.core
        a.badpeer = "gone"
        tymist.tyme = 1.0
        srv.servant.ss.core.queue.append([1, False, ["ok"], []])
        srv.service()
        b = srv.servant.ixes[fk.ca_of(1)].cs.core
        for t in range(2, T + 4):
            tymist.tyme = float(t)
            srv.service()
            if (a.closes > 0) != (t >= T):
                return f"reset idle connection accepted at 0 is {'closed' if a.closes else 'open'} at tyme {t} (tymeout {T})"
            if (b.closes > 0) != (t >= T + 1):
                return f"idle connection accepted at 1 is {'closed' if b.closes else 'open'} at tyme {t} (tymeout {T})"
        srv.close()
    return None


def extra(tier, ctx):
    n = 0
    for tls in (False, True):
        for f, args in ([(_unwound_round, (tls,))] + [(_two_connections, (T, tls)) for T in (2, 3, 5, 9)] +
                        [(_wound_later, (T, tls, b)) for T in (2, 5) for b in (False, True)] +
                        [(_reset_does_not_block_others, (T, tls)) for T in (2, 4)]):
            try:
                why = f(*args)
            except Exception as ex:
                why = f"{f.__name__}{args} raised {type(ex).__name__}: {ex}"
            n += 1
            if why:
                ctx.violations.append({"kind": "extra", "why": why, "case": {"check": f.__name__, "args": list(args)}})
    return {"extra_scenarios": n}
