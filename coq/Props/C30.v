(* C30 — running under asyncio gives the same schedule as the plain loop.
   In src/hio/base/doing.py Doist.ado is a second, separately written copy of the
   body of Doist.do that awaits asyncio.sleep(0) after every pass (and uses an
   AsyncTimer in real-time mode).  Model/Sched.v mirrors that: `ado_run`/`acycle_loop`
   are written out separately from `do_run`/`cycle_loop`, the await is a step on the
   scheduler state that changes nothing (other asyncio tasks run there; none of the
   scheduler's state is involved).  The theorems say that the two definitions
   compute the same run — trace, tymes, done flags, doers lists — for every
   program, every time type, every budget, and for every history of runs on one
   Doist.  All theorems about do_run (C01–C06) therefore hold of ado_run.
   The tie to the code is two-way: harness/drivers/c30.py runs every generated
   program with do() and with asyncio.run(ado()) on the real Doist; the do()
   observation is compared with do_run, the ado() observation with ado_run, and
   the two observations with each other.  What the model cannot exhibit: the
   interleaving with other asyncio tasks during the await. *)
From Hio Require Import Base.Prelude Base.Time Model.Sched Proofs.SchedAdo.

Theorem C30_ado_is_do :
  forall (T : Type) (TT : Time T) (cycles fuel : nat) (p : prog T), ado_run cycles fuel p = do_run cycles fuel p.
Proof. intros. apply ado_run_eq. Qed.
Print Assumptions C30_ado_is_do.

Theorem C30_ado_history :
  forall (T : Type) (TT : Time T) (cycles fuel : nat) (p : prog T) (hist : list (option T * option T)),
    fold_left (fun s '(l, t) => ado_again cycles fuel (p_tock p) l t s) hist (ado_run cycles fuel p) =
    fold_left (fun s '(l, t) => do_again cycles fuel (p_tock p) l t s) hist (do_run cycles fuel p).
Proof. intros. rewrite ado_run_eq. apply ado_history_eq. Qed.
Print Assumptions C30_ado_history.

(* Non-vacuity: a run that is stopped by its limit in the very cycle in which the
   last doer completes (the boundary a swap of ado's two stop tests would move). *)
Example C30_example :
  let Y := {| f_es := []; f_out := OYield None |} in
  let p := {| p_tock := 1%Z; p_limit := Some 3%Z; p_tyme := 0%Z; p_doers := [1]%N;
              p_defs := [(1%N, FLeaf KDoer [Y; Y; Y; {| f_es := []; f_out := OReturn RTrue |}])] |} in
  get_done (ado_run 10 100 p) 0%N = Some true /\ tyme (ado_run 10 100 p) = 3%Z /\
  oof (ado_run 10 100 p) = false.
Proof. vm_compute. repeat split. Qed.
