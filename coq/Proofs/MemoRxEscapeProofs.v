(* Assumption-free form of totality: whatever Memoer.verify does, an exception
   that escapes receive servicing is one that verify itself raised. *)
From Hio Require Import Base.Prelude Model.B64 Model.MemoGram Model.MemoRx Proofs.MemoRxProofs.
Local Open Scope N_scope.

Section Escape.
  Variable verify : bytes -> bytes -> bytes -> res unit.
  Definition from_verify (k : exn) : Prop := exists v s m, verify v s m = Exc k.

  Lemma finish_escape : forall vids c n mid vid sig sgram body k,
    finish verify vids c n mid vid sig sgram body = Exc k -> k = MemoErr \/ from_verify k.
  Proof.
    intros vids c n mid vid sig sgram body k H. unfold finish in H.
    destruct (kind_of c); [| |inversion H; left; reflexivity].
    - destruct sig as [|s0 sg]; [cbn in H; discriminate|].
      destruct (verify vid (s0 :: sg) sgram) as [[]|k'] eqn:V; cbn in H; [discriminate|].
      inversion H; subst. right. eexists _, _, _. exact V.
    - destruct sig as [|s0 sg]; [cbn in H; discriminate|].
      destruct (verify (match vid with [] => vids mid | _ => vid end) (s0 :: sg) sgram) as [[]|k'] eqn:V; cbn in H; [discriminate|].
      inversion H; subst. right. eexists _, _, _. exact V.
  Qed.

  Lemma pick_escape : forall authic vids gram k, gram <> [] ->
    pick verify authic vids gram = Exc k -> k = MemoErr \/ from_verify k.
  Proof.
    intros authic vids gram k Hne H. unfold pick in H. destruct gram as [|b g]; [contradiction|].
    set (gram := b :: g) in *.
    destruct (b / 4 =? 24).
    - unfold pick_b64 in H.
      destruct (Nat.ltb (length gram) 4); [inversion H; auto|].
      destruct (negb (is_b64 (firstn 4 gram))); [inversion H; auto|].
      destruct (code_of_text (firstn 4 gram)) as [c|]; [|inversion H; auto].
      destruct (authic && negb (auth c)); [inversion H; auto|].
      destruct (Nat.ltb (length gram) (32 + vz c + az c)) eqn:L; [inversion H; auto|].
      destruct (is_b64 (firstn (32 + vz c) gram)) eqn:B; cbn [andb negb] in H; [|inversion H; auto].
      destruct (is_b64 (skipn (length gram - az c) gram)); cbn [negb] in H; [|inversion H; auto].
      apply Nat.ltb_ge in L.
      destruct (neck_ok gram (32 + vz c)) as [n E]; [lia|lia|exact B|]. rewrite E in H. cbn [bind] in H.
      eapply finish_escape; eauto.
    - destruct (b / 4 =? 27); [|inversion H; auto].
      unfold pick_b2 in H.
      destruct (Nat.ltb (length gram) 3) eqn:L; [inversion H; auto|].
      unfold codeB2ToB64 in H. change (nbytes 4) with 3%nat in H. rewrite L in H. cbn [bind] in H.
      destruct (code_of_text _) as [c|]; [|inversion H; auto].
      destruct (authic && negb (auth c)); [inversion H; auto|].
      destruct (Nat.ltb (length gram) (24 + b2z (vz c) + b2z (az c))); [inversion H; auto|].
      eapply finish_escape; eauto.
  Qed.

  Lemma receive_one_escape : forall authic es g src k, g <> [] ->
    snd (receive_one verify authic es g src) = Some k -> k <> MemoErr /\ from_verify k.
  Proof.
    intros authic es g src k Hne H. unfold receive_one in H.
    destruct (pick verify authic (vids_of es) g) as [p|k'] eqn:P; [cbn in H; discriminate|].
    assert (k' = k /\ k' <> MemoErr) by (destruct k'; cbn in H; inversion H; split; congruence || discriminate).
    destruct H0 as [-> Hk]. split; [exact Hk|].
    destruct (pick_escape _ _ _ _ Hne P); [contradiction|assumption].
  Qed.

  Lemma receives_escape : forall authic q es k,
    snd (receives verify authic es q) = Some k -> k <> MemoErr /\ from_verify k.
  Proof.
    induction q as [|[g src] q IH]; intros es k H; cbn [receives] in H; [discriminate|].
    destruct g as [|b g]; [discriminate|].
    destruct (receive_one verify authic es (b :: g) src) as [es' [k'|]] eqn:R.
    - cbn in H. inversion H; subst. apply (receive_one_escape authic es (b :: g) src); [discriminate|rewrite R; reflexivity].
    - eapply IH; eauto.
  Qed.

  Lemma receives_once_escape : forall authic q es k,
    snd (receives_once verify authic es q) = Some k -> k <> MemoErr /\ from_verify k.
  Proof.
    intros authic [|[g src] q] es k H; cbn [receives_once] in H; [discriminate|].
    destruct g as [|b g]; [discriminate|].
    destruct (receive_one verify authic es (b :: g) src) as [es' x] eqn:R. cbn in H. subst x.
    apply (receive_one_escape authic es (b :: g) src); [discriminate|rewrite R; reflexivity].
  Qed.

  Lemma step_escape : forall authic s o k,
    snd (step verify authic s o) = Some k -> k <> MemoErr /\ from_verify k.
  Proof.
    intros authic s o k H.
    assert (R : forall once k0, snd (do_receives verify authic once s) = Some k0 -> k0 <> MemoErr /\ from_verify k0).
    { intros once k0 H0. unfold do_receives in H0. destruct once.
      - pose proof (receives_once_escape authic (queue s) (rxgs s) k0) as E.
        destruct (receives_once verify authic (rxgs s) (queue s)) as [[es q] x]. apply E. exact H0.
      - pose proof (receives_escape authic (queue s) (rxgs s) k0) as E.
        destruct (receives verify authic (rxgs s) (queue s)) as [[es q] x]. apply E. exact H0. }
    destruct o; cbn [step] in H; try discriminate.
    - eapply R; eauto.
    - specialize (R false). destruct (do_receives verify authic false s) as [s' [k'|]]; cbn in H; [|discriminate].
      inversion H; subst. apply R. reflexivity.
    - specialize (R true). destruct (do_receives verify authic true s) as [s' [k'|]]; cbn in H; [|discriminate].
      inversion H; subst. apply R. reflexivity.
  Qed.

  Theorem run_escape : forall authic ops s k,
    In (Some k) (snd (run verify authic s ops)) -> k <> MemoErr /\ from_verify k.
  Proof.
    induction ops as [|o ops IH]; intros s k H; cbn [run] in H; [destruct H|].
    pose proof (step_escape authic s o) as S.
    destruct (step verify authic s o) as [s' x]. specialize (IH s').
    destruct (run verify authic s' ops) as [s'' xs]. cbn [snd] in *.
    destruct H as [H|H]; [subst x; apply S; reflexivity|apply IH; exact H].
  Qed.
End Escape.
