"""C04 — nesting doers inside a tock-0 DoDoer is observationally transparent."""
import copy
from harness.drivers import sched_common as sc
from harness.drivers import c03
from harness.drivers.sched_common import (COQ_REQUIRES, COQ_HEADER, MODELLED)

PROP = "C04"
COQ_CHECK = "SchedCase.check_pair"
COQ_CASE_TYPE = "SchedCase.case * SchedCase.case"
COQ_BRANCHES = None
SHARD = 80
RULE = ("a random flat static program (all leaf kinds, arbitrary per-step tocks, completion points, optional limit, no faults) "
        "and a random regrouping of consecutive root doers into tock-0 non-always DoDoers (nested up to depth 3); both are run "
        "on the real Doist and must give the same leaf view (leaf events with tymes, leaf done flags, doist.done, final tyme); "
        "non-trivial = the grouping is non-empty and some doer completes or is force-closed")


def group(rng, flat, depth=2):
    """Regroup consecutive root doers of a flat program into tock-0 DoDoers."""
    p = copy.deepcopy(flat)
    next_id = [max(int(i) for i in p["defs"]) + 1]
    def regroup(ids, d):
        out, i = [], 0
        while i < len(ids):
            if d > 0 and rng.random() < 0.45:
                k = rng.randint(1, min(4, len(ids) - i))
                kids = regroup(ids[i:i + k], d - 1)
                n = next_id[0]; next_id[0] += 1
                p["defs"][str(n)] = {"kind": "nest", "tock": 0.0, "always": False, "kids": kids}
                out.append(n); i += k
            else:
                out.append(ids[i]); i += 1
        return out
    p["doers"] = regroup(p["doers"], depth)
    return p


def directed():
    out = []
    for f in c03.directed():
        ids = f["doers"]
        n = max(int(i) for i in f["defs"]) + 1
        g = copy.deepcopy(f)
        g["defs"][str(n)] = {"kind": "nest", "tock": 0.0, "always": False, "kids": list(ids)}
        g["doers"] = [n]
        out.append({"flat": f, "nested": g})
    return out


def generate(rng, tier):
    import random
    n = 1 if tier == "quick" else 12
    out = []
    for _ in range(450 * n):
        flat = sc.gen_static(rng, n_leaves=rng.randint(2, 6), nest_depth=0, faults=False,
                             tocks=rng.choice(["any", "dyadic", "any"]), limit_p=0.5)
        nested = group(rng, flat, depth=rng.choice([1, 2, 3]))
        # histories: the same doer objects run again on the same Doist or under NEW Doists (tyme restarts)
        if not c03.asap_then_positive(nested, only_nested=True) and rng.random() < 0.35:
            if rng.random() < 0.4:
                sc.add_reruns(rng, flat)
                nested["again"] = copy.deepcopy(flat["again"])
                if flat.get("ctor"):
                    nested["ctor"] = True
            else:
                fr = [{"limit": flat["limit"] if rng.random() < 0.5 else None, "tyme": rng.choice([0.0, 0.0, 0.5, 20.0])}
                      for _ in range(rng.choice([1, 1, 2]))]
                flat["fresh"] = fr
                nested["fresh"] = copy.deepcopy(fr)
        out.append({"flat": flat, "nested": nested})
    # a leaf whose own clean/cease/abort/exit context raises (outside the Coq model: decided by the pair oracle alone):
    # grouping must not change which doers are exited nor in which order
    for flat in sc.gen_hookraise(rng, 240 * n, nest_depths=(0,)):
        flat["mode"] = "do"
        if c03.asap_then_positive(flat, only_nested=False):
            continue
        # C04 quantifies over runs to completion or to a limit: keep only contexts that raise during the forced
        # exit at the limit (a clean/abort/natural-exit context that raises stops the run by an exception in mid
        # run, where a group legitimately closes its own members first)
        hd = next(d for d in flat["defs"].values() if d.get("hookraise"))
        if not (flat["limit"] and hd["hookraise"] in ("cease", "exit")):
            continue
        if rng.random() < 0.5:
            hd["hookexc"] = "kbd"       # half of them raise a BaseException that is not an Exception
        out.append({"flat": flat, "nested": group(rng, flat, depth=rng.choice([1, 2, 3]))})
    out += _gen_remove_pairs(rng, 60 * n)
    out += _gen_enter_fault_pairs(rng, 40 * n)
    return out


def _gen_enter_fault_pairs(rng, n):
    """A doer whose enter context raises, listed flat after others or grouped with them: the doers entered before it
    are force-closed in the same order (and nothing else changes)."""
    out = []
    for _ in range(n):
        flat = sc.gen_static(rng, n_leaves=rng.randint(3, 6), nest_depth=0, faults=False, tocks="dyadic", limit_p=0.3)
        ids = flat["doers"]
        c = rng.choice(ids[1:])
        sc_ = flat["defs"][str(c)]["script"]
        sc_[0] = {"es": [], "out": ["x"]}
        del sc_[1:]
        lo = rng.randint(0, ids.index(c) - 1)
        hi = rng.randint(ids.index(c), len(ids) - 1)
        nested = copy.deepcopy(flat)
        g = max(int(i) for i in flat["defs"]) + 1
        nested["defs"][str(g)] = {"kind": "nest", "tock": 0.0, "always": False, "kids": ids[lo:hi + 1]}
        nested["doers"] = ids[:lo] + [g] + ids[hi + 1:]
        flat["fault_pair"] = nested["fault_pair"] = True
        out.append({"flat": flat, "nested": nested})
    return out


def _gen_remove_pairs(rng, n):
    """A doer removes siblings on both sides of itself in the middle of a pass: listed flat it calls the Doist's
    remove(), grouped (with all of them) into one tock-0 DoDoer it calls that DoDoer's remove().  The forced exits of
    the removed doers (reverse enter order, at once) and everything after are the same."""
    out = []
    Y = lambda: {"es": [], "out": ["y", None]}
    for _ in range(n):
        k = rng.randint(4, 7)
        tock = rng.choice([0.25, 0.5, 1.0])
        defs = {str(i): {"kind": rng.choice(["func", "bound", "doer", "doergen"]),
                         "script": [Y() for _ in range(rng.randint(4, 8))] + [{"es": [], "out": ["r", "true"]}]}
                for i in range(1, k + 1)}
        lo = rng.randint(1, 2)
        hi = rng.randint(k - 1, k)
        span = list(range(lo, hi + 1))                # the doers that get grouped
        c = rng.choice(span[1:-1] or span)            # the caller: not at an end of the group when possible
        victims = [i for i in span if i != c and rng.random() < 0.7] or [span[0]]
        arg = list(victims)
        if rng.random() < 0.5:
            rng.shuffle(arg)
        at = rng.randint(1, 3)
        flat = {"tock": tock, "limit": rng.choice([None, 6 * tock]), "tyme": 0.0, "doers": list(range(1, k + 1)), "mode": "do", "defs": defs}
        nested = copy.deepcopy(flat)
        g = k + 1
        nested["defs"][str(g)] = {"kind": "nest", "tock": 0.0, "always": False, "kids": span}
        nested["doers"] = [i for i in range(1, lo)] + [g] + [i for i in range(hi + 1, k + 1)]
        if rng.random() < 0.35:
            # an idempotent "make sure they are scheduled" call instead: extend() naming only doers that are
            # already listed (or nothing) does nothing, listed flat or grouped
            arg = rng.choice([[], [rng.choice(span)], list(span)])
            flat["defs"][str(c)]["script"][at]["es"].append(["ext", 0, arg])
            nested["defs"][str(c)]["script"][at]["es"].append(["ext", g, arg])
            flat["limit"] = nested["limit"] = 12 * tock
        else:
            flat["defs"][str(c)]["script"][at]["es"].append(["rem", 0, arg])
            nested["defs"][str(c)]["script"][at]["es"].append(["rem", g, arg])
        out.append({"flat": flat, "nested": nested})
    return out


def run_impl(case):
    return {"flat": sc.run_prog(case["flat"]), "nested": sc.run_prog(case["nested"])}


def leaf_view(prog, obs):
    leaves = set(sc.leaf_ids(prog))
    return {"events": [e for e in obs["trace"] if e[1] in leaves or e[0] in ("DoReturn", "DoRaise")],
            "dones": [d for d in obs["dones"] if d[0] in leaves or d[0] == 0],
            "tyme": obs["tyme"], "raised": obs["raised"]}


def oracle(case, obs):
    a = leaf_view(case["flat"], obs["flat"])
    b = leaf_view(case["nested"], obs["nested"])
    for o in (obs["flat"], obs["nested"]):
        why = sc.clock_oracle(o)
        if why:
            return why
    hooky = sc.outside_model(case["flat"]) or bool(case["flat"].get("fault_pair"))
    if (a["raised"] != "none" or b["raised"] != "none") and not (hooky and a["raised"] == b["raised"] and not a["raised"].startswith("escape")):
        return f"run raised: flat {a['raised']}, nested {b['raised']}"
    if a["events"] != b["events"]:
        for n, (x, y) in enumerate(zip(a["events"], b["events"])):
            if x != y:
                return f"leaf views differ at event {n}: flat {x[0], x[1], sc.fl(x[2])} vs nested {y[0], y[1], sc.fl(y[2])}"
        return f"leaf views differ in length: flat {len(a['events'])} vs nested {len(b['events'])}"
    if a["dones"] != b["dones"]:
        return f"done flags differ: flat {a['dones']} vs nested {b['dones']}"
    if a["tyme"] != b["tyme"]:
        return f"final tyme differs: flat {sc.fl(a['tyme'])} vs nested {sc.fl(b['tyme'])}"
    return None


def classify(case, obs, why):
    # D35: see C03 — only when a grouped doer yields 0/None and later a positive tock
    if not c03.asap_then_positive(case["nested"], only_nested=True):
        return None
    culprits = set(asap_pos_leaves(case["nested"]))
    a = leaf_view(case["flat"], obs["flat"])["events"]
    b = leaf_view(case["nested"], obs["nested"])["events"]
    first = next(((x, y) for x, y in zip(a, b) if x != y), None)
    if first is not None and not (first[0][1] in culprits or first[1][1] in culprits):
        return None          # the first difference must be the early re-run of such a doer (or the event it displaced)
    # ... and both runs must be EXACTLY what D35 predicts: the flat run follows the documented model, the
    # nested run the documented model with asap base `tyme + 0` for the grouped doers
    flat, nested = case["flat"], case["nested"]
    if flat.get("limit") or sc.has_kbd(flat):
        pass
    par = sc.parents(nested)
    asap = {i: 0.0 for i in sc.leaf_ids(nested) if par.get(i, 0) != 0}
    exp_f, ft_f, done_f = sc.reference_flat(flat)
    exp_n, ft_n, done_n = sc.reference_flat(flat, asap_tock=asap)
    leaves = set(sc.leaf_ids(flat))
    got_f = [(i, sc.fl(h)) for k, i, h in obs["flat"]["trace"] if k == "Recur" and i in leaves]
    got_n = [(i, sc.fl(h)) for k, i, h in obs["nested"]["trace"] if k == "Recur" and i in leaves]
    if done_f is None or done_n is None:
        return None
    if got_f == exp_f and got_n == exp_n and ft_f == sc.fl(obs["flat"]["tyme"]) and ft_n == sc.fl(obs["nested"]["tyme"]):
        return "D35"
    return None


def asap_pos_leaves(prog):
    par = sc.parents(prog)
    out = []
    for i, d in prog["defs"].items():
        if d["kind"] == "nest" or par.get(int(i), 0) == 0:
            continue
        seen = False
        for st in d["script"][1:]:
            o = st["out"]
            if o[0] != "y":
                break
            if not o[1]:
                seen = True
            elif seen:
                out.append(int(i)); break
    return out


def to_coq(case, obs):
    if sc.outside_model(case["flat"]) or sc.outside_model(case["nested"]):
        return None
    return f"({sc.to_coq(case['flat'], obs['flat'])}, {sc.to_coq(case['nested'], obs['nested'])})"


def nontrivial(case, obs):
    return bool(sc.nest_ids(case["nested"])) and any(k in ("Clean", "Cease") for k, _, _ in obs["flat"]["trace"])


def shrink(case):
    return []


def distribution(cases, obs):
    return sc.distribution([c["nested"] for c in cases], [o["nested"] if isinstance(o, dict) and "nested" in o else o for o in obs])
