(* Model of hio.base.filing.Filer: remake's path choice and file-system
   effects, close(clear=True)/_clearPath, as of the tree with the two D32
   repairs (base/name that climb out of the tail directory are rejected;
   clearing a temp Filer also removes its mkdtemp head directory).

   Paths are lists of segments (a segment is a list of character codes, no
   '/'), relative to the sandbox root, which plays the part of '/'.  The
   strings name and base arrive split at '/' (Python str.split('/')).  The
   file system is a list of (path, is_file) entries.  Every file-system
   mutation is also appended to an effect log.  No proofs here. *)
From Hio Require Import Base.Prelude.

Definition seg := list N.
Definition path := list seg.

Definition seg_eqb : seg -> seg -> bool := list_eqb N.eqb.
Definition path_eqb : path -> path -> bool := list_eqb seg_eqb.

Definition DOT : N := 46.
Definition is_empty (s : seg) : bool := match s with [] => true | _ => false end.
Definition is_dot (s : seg) : bool := seg_eqb s [DOT].
Definition is_dotdot (s : seg) : bool := seg_eqb s [DOT; DOT].

(* os.path.isabs on the string: it starts with '/' *)
Definition isabs (segs : list seg) : bool :=
  match segs with [] :: _ :: _ => true | _ => false end.

(* os.path.splitext(name)[1] != "": the last segment, after its leading dots,
   still contains a dot *)
Fixpoint strip_dots (s : seg) : seg :=
  match s with c :: s' => if N.eqb c DOT then strip_dots s' else s | [] => [] end.
Definition has_ext (s : seg) : bool := existsb (N.eqb DOT) (strip_dots s).

(* name = f"{name}.{fext}" when the last segment has no extension *)
Fixpoint add_ext (name : list seg) (fext : seg) : list seg :=
  match name with
  | [] => []
  | [s] => if has_ext s then [s] else [s ++ DOT :: fext]
  | s :: rest => s :: add_ext rest fext
  end.

(* os.path.normpath(os.path.join(base, name)) starts with '..': walking the
   segments, a '..' arrives while nothing is left to pop *)
Fixpoint climbs_from (d : nat) (segs : list seg) : bool :=
  match segs with
  | [] => false
  | s :: rest =>
    if is_empty s || is_dot s then climbs_from d rest
    else if is_dotdot s then match d with 0 => true | S d' => climbs_from d' rest end
    else climbs_from (S d) rest
  end.
Definition climbs (segs : list seg) : bool := climbs_from 0 segs.

(* os.path.abspath(os.path.join(head, tail, base, name)) for an absolute
   head: empty and '.' segments vanish, '..' pops (and stays at the root) *)
Fixpoint norm_from (st : path) (segs : list seg) : path :=
  match segs with
  | [] => st
  | s :: rest =>
    if is_empty s || is_dot s then norm_from st rest
    else if is_dotdot s then norm_from (removelast st) rest
    else norm_from (st ++ [s]) rest
  end.

Definition dirname (p : path) : path := removelast p.

(* ---- file system ---- *)
(* what sits at a path: a regular file, a directory, or something else that exists but is neither (FIFO, unix
   socket, symbolic link to a directory): os.path.isfile is False for it, os.remove removes it, shutil.rmtree raises *)
Inductive fkind := KFile | KDir | KOther.
Definition fkind_eqb (a b : fkind) : bool :=
  match a, b with KFile, KFile | KDir, KDir | KOther, KOther => true | _, _ => false end.
Definition fsys := list (path * fkind).

Fixpoint lookup (fs : fsys) (p : path) : option fkind :=
  match fs with
  | [] => None
  | (q, k) :: fs' => if path_eqb q p then Some k else lookup fs' p
  end.
(* the sandbox root always exists *)
Definition exists_ (fs : fsys) (p : path) : bool :=
  match p with [] => true | _ => match lookup fs p with Some _ => true | None => false end end.
Definition isfile (fs : fsys) (p : path) : bool :=
  match lookup fs p with Some KFile => true | _ => false end.
Definition isdir (fs : fsys) (p : path) : bool :=
  match p with [] => true | _ => match lookup fs p with Some KDir => true | _ => false end end.

Fixpoint is_prefix (a b : path) : bool :=
  match a, b with
  | [], _ => true
  | x :: a', y :: b' => seg_eqb x y && is_prefix a' b'
  | _, [] => false
  end.

Inductive eff := MkDir (p : path) | MkFile (p : path) | RmTree (p : path) | RmFile (p : path).
Definition eff_path (e : eff) : path :=
  match e with MkDir p | MkFile p | RmTree p | RmFile p => p end.

Record world := { w_fs : fsys; w_log : list eff }.
Definition do_mkdir (w : world) (p : path) : world :=
  {| w_fs := w_fs w ++ [(p, KDir)]; w_log := w_log w ++ [MkDir p] |}.
Definition do_mkfile (w : world) (p : path) : world :=
  {| w_fs := w_fs w ++ [(p, KFile)]; w_log := w_log w ++ [MkFile p] |}.
Definition do_rmtree (w : world) (p : path) : world :=
  {| w_fs := filter (fun e => negb (is_prefix p (fst e))) (w_fs w); w_log := w_log w ++ [RmTree p] |}.
Definition do_remove (w : world) (p : path) : world :=
  {| w_fs := filter (fun e => negb (path_eqb p (fst e))) (w_fs w); w_log := w_log w ++ [RmFile p] |}.

(* os.mkdir *)
Definition mkdir (w : world) (p : path) : res world :=
  if exists_ (w_fs w) p then Exc OSErr
  else if isdir (w_fs w) (dirname p) then Ok (do_mkdir w p)
  else Exc OSErr.

(* os.makedirs(p), p given reversed: make the missing dirname first *)
Fixpoint makedirs_rev (w : world) (rp : list seg) : res world :=
  match rp with
  | [] => Exc OSErr                                   (* the root exists *)
  | s :: rp' =>
    let up := match rp' with
              | [] => Ok w
              | _ => if exists_ (w_fs w) (rev rp') then Ok w else makedirs_rev w rp'
              end in
    match up with
    | Ok w1 => mkdir w1 (rev rp)
    | Exc k => Exc k
    end
  end.
Definition makedirs (w : world) (p : path) : res world := makedirs_rev w (rev p).

(* helping.ocfn: create the file, or open it when it exists; a directory
   there, or a missing / non-directory parent, is an OSError *)
Definition ocfn (w : world) (p : path) : res world :=
  match p with
  | [] => Exc OSErr
  | _ =>
    match lookup (w_fs w) p with
    | Some KFile => Ok w
    | Some _ => Exc OSErr
    | None => if isdir (w_fs w) (dirname p) then Ok (do_mkfile w p) else Exc OSErr
    end
  end.

(* ---- configuration of one Filer ---- *)
Record config := { c_name : list seg;       (* name.split('/') *)
                   c_base : list seg;       (* base.split('/') *)
                   c_temp : bool; c_clean : bool; c_filed : bool; c_ext : bool;
                   c_fext : seg;
                   c_head : path;           (* headDirPath, absolute and normal *)
                   c_alt : path;            (* AltHeadDirPath *)
                   c_tmp : path }.          (* the directory mkdtemp returns *)

Definition HIO : seg := [104; 105; 111]%N.
Definition CLEAN : seg := [99; 108; 101; 97; 110]%N.
Definition tail_of (clean alt : bool) : path :=
  (if alt then (DOT :: HIO) else HIO) :: (if clean then [CLEAN] else []).

(* the "if filed or extensioned ... else os.makedirs(path)" creation block *)
Definition create_at (c : config) (w : world) (p : path) : res world :=
  if c_filed c || c_ext c then
    let up := if exists_ (w_fs w) (dirname p) then Ok w else makedirs w (dirname p) in
    match up with
    | Ok w1 => if c_filed c then ocfn w1 p else Ok w1
    | Exc k => Exc k
    end
  else makedirs w p.

(* the clean block; [by_ext] is the temp variant's test "filed or extensioned" *)
Definition clean_at (c : config) (by_ext : bool) (w : world) (p : path) : world :=
  if c_clean c && exists_ (w_fs w) p then
    if isfile (w_fs w) p then
      (if c_filed c || (by_ext && c_ext c) then do_remove w p else do_rmtree w (dirname p))
    else do_rmtree w p
  else w.

(* Filer.remake: result is the path (or the exception kind) and the world reached *)
Definition remake (c : config) (w : world) : res path * world :=
  if isabs (c_name c) || isabs (c_base c) then (Exc OtherErr, w) else
  let name := if c_filed c || c_ext c then add_ext (c_name c) (c_fext c) else c_name c in
  if isabs name then (Exc OtherErr, w) else
  if climbs (c_base c ++ name) then (Exc OtherErr, w) else
  if c_temp c then
    let w0 := do_mkdir w (c_tmp c) in                        (* tempfile.mkdtemp *)
    let p := norm_from (c_tmp c) (tail_of (c_clean c) false ++ c_base c ++ name) in
    let w1 := clean_at c true w0 p in
    match create_at c w1 p with
    | Ok w2 => (Ok p, w2)
    | Exc k => (Exc k, w1)
    end
  else
    let p := norm_from (c_head c) (tail_of (c_clean c) false ++ c_base c ++ name) in
    let w1 := clean_at c false w p in
    if negb (exists_ (w_fs w1) p) then
      match create_at c w1 p with
      | Ok w2 => (Ok p, w2)               (* chmod changes no path *)
      | Exc _ =>                          (* except OSError: use the alt head *)
        let q := norm_from (c_alt c) (tail_of (c_clean c) true ++ c_base c ++ name) in
        if negb (exists_ (w_fs w1) q) then
          match create_at c w1 q with
          | Ok w2 => (Ok q, w2)
          | Exc k => (Exc k, w1)
          end
        else if c_filed c then
          match ocfn w1 q with Ok w2 => (Ok q, w2) | Exc k => (Exc k, w1) end
        else (Ok q, w1)
      end
    else (* exists: os.access is true for the owner; open the file when filed *)
      if c_filed c then
        match ocfn w1 p with Ok w2 => (Ok p, w2) | Exc k => (Exc k, w1) end
      else (Ok p, w1).

(* Filer._clearPath for .path = p: first the end of the path ... *)
Definition clear_end (c : config) (p : path) (w : world) : res world :=
  if exists_ (w_fs w) p then
    if isfile (w_fs w) p then
      let w1 := do_remove w p in
      Ok (if c_temp c then do_rmtree w1 (dirname p) else w1)
    else if c_ext c then
      if isdir (w_fs w) p then Exc OSErr    (* os.remove of a directory *)
      else                                  (* a FIFO / socket / symlink end: os.remove removes exactly it *)
        let w1 := do_remove w p in
        Ok (if c_temp c then do_rmtree w1 (dirname p) else w1)
    else if isdir (w_fs w) p then Ok (do_rmtree w p)
    else Exc OSErr                          (* shutil.rmtree of something that is not a directory *)
  else Ok w.

(* ... then, for a temp Filer, the mkdtemp directory the path lies in *)
Definition clear (c : config) (p : path) (w : world) : res unit * world :=
  match clear_end c p w with
  | Exc k => (Exc k, w)
  | Ok w1 =>
    if c_temp c && is_prefix (c_tmp c) p && isdir (w_fs w1) (c_tmp c)
    then (Ok tt, do_rmtree w1 (c_tmp c)) else (Ok tt, w1)
  end.

(* ---- histories: the constructor followed by reopen(...) / close(...) calls.
   The object's attributes that decide paths: .path, .temp, .fext; the model
   also remembers which mkdtemp directory holds the current path and how many
   mkdtemp directories were made (the k-th is called "T<k>").
   reopen = close(clear) under the OLD attributes, then the overrides, then
   remake (unless the path exists, reuse is asked for and temp did not flip —
   the D32c repair) ---- *)
Record filer := { f_path : option path; f_temp : bool; f_fext : seg; f_tmp : path; f_next : nat }.

Inductive hop :=
| HReopen (temp : option bool) (fext : option seg) (clear reuse clean : bool)
| HClose (clear : bool)
(* a direct call filer.remake(name=, base=, temp=, clean=, filed=, extensioned=, fext=) with its own
   arguments; it returns a path and changes nothing of the object *)
| HRemake (name base : list seg) (temp clean filed ext : bool) (fext : seg)
(* leaving the block of "with openFiler(..., clear=clear) as filer": filer.close(clear=filer.temp or clear),
   with the object's CURRENT temp attribute *)
| HExit (clear : bool).

Definition tmp_dir (c : config) (k : nat) : path := dirname (c_tmp c) ++ [[84; 48 + N.of_nat k]%N].

Definition cfg_with (c : config) (temp clean : bool) (fext : seg) (tmp : path) : config :=
  {| c_name := c_name c; c_base := c_base c; c_temp := temp; c_clean := clean; c_filed := c_filed c;
     c_ext := c_ext c; c_fext := fext; c_head := c_head c; c_alt := c_alt c; c_tmp := tmp |}.

Definition cfg_call (c : config) (name base : list seg) (temp clean filed ext : bool) (fext : seg) (tmp : path) : config :=
  {| c_name := name; c_base := base; c_temp := temp; c_clean := clean; c_filed := filed;
     c_ext := ext; c_fext := fext; c_head := c_head c; c_alt := c_alt c; c_tmp := tmp |}.

(* _clearPath with the object's current attributes *)
Definition clear_st (c : config) (st : filer) (w : world) : res unit * world :=
  match f_path st with
  | None => (Ok tt, w)
  | Some p => clear (cfg_with c (f_temp st) false (f_fext st) (f_tmp st)) p w
  end.

(* the object right after a successful constructor *)
Definition born (c : config) (p : path) : filer :=
  {| f_path := Some p; f_temp := c_temp c; f_fext := c_fext c; f_tmp := c_tmp c;
     f_next := if c_temp c then 1 else 0 |}.

Definition run_hop (c : config) (st : filer) (h : hop) (w : world) : res unit * filer * world :=
  match h with
  | HClose cl =>
    if cl then let (r, w') := clear_st c st w in (r, st, w') else (Ok tt, st, w)
  | HExit cl =>
    if f_temp st || cl then let (r, w') := clear_st c st w in (r, st, w') else (Ok tt, st, w)
  | HRemake nm bs t cl fl ex fx =>
    let c' := cfg_call c nm bs t cl fl ex fx (tmp_dir c (f_next st)) in
    let (r, w') := remake c' w in
    let rejected := match r with Exc OtherErr => true | _ => false end in   (* FilerError: before mkdtemp *)
    (match r with Ok _ => Ok tt | Exc k => Exc k end,
     {| f_path := f_path st; f_temp := f_temp st; f_fext := f_fext st; f_tmp := f_tmp st;
        f_next := if t && negb rejected then S (f_next st) else f_next st |}, w')
  | HReopen temp fext cl reuse clean =>
    let (r0, w0) := if cl then clear_st c st w else (Ok tt, w) in
    match r0 with
    | Exc k => (Exc k, st, w0)
    | Ok _ =>
      let t := match temp with Some b => b | None => f_temp st end in
      let fx := match fext with Some s => s | None => f_fext st end in
      let reuse' := reuse && Bool.eqb t (f_temp st) in
      let st1 := {| f_path := f_path st; f_temp := t; f_fext := fx; f_tmp := f_tmp st; f_next := f_next st |} in
      let keep := match f_path st with
                  | Some p => exists_ (w_fs w0) p && reuse'
                  | None => false
                  end in
      if keep then
        match f_path st with
        | Some p =>
          if c_filed c then
            match ocfn w0 p with Ok w' => (Ok tt, st1, w') | Exc k => (Exc k, st1, w0) end
          else (Ok tt, st1, w0)
        | None => (Ok tt, st1, w0)
        end
      else
        let c' := cfg_with c t clean fx (tmp_dir c (f_next st)) in
        let nxt := if t then S (f_next st) else f_next st in
        match remake c' w0 with
        | (Ok p, w') =>
          (Ok tt, {| f_path := Some p; f_temp := t; f_fext := fx;
                     f_tmp := if t then c_tmp c' else f_tmp st; f_next := nxt |}, w')
        | (Exc k, w') =>
          (Exc k, {| f_path := f_path st; f_temp := t; f_fext := fx; f_tmp := f_tmp st; f_next := nxt |}, w')
        end
    end
  end.

(* ---- a FilerDoer around the Filer: enter(temp) = "if not filer.opened: filer.reopen(temp=temp)",
   exit = filer.close(clear=filer.temp).  .opened is tracked on top of the object state: close and a
   raising reopen leave it False, a reopen that returns sets it True ---- *)
Inductive hop2 :=
| H (h : hop)
| HDoerEnter (temp : option bool)
| HDoerExit.

Definition opened_after (h : hop) (r : res unit) (was : bool) : bool :=
  match h with
  | HClose _ | HExit _ => false
  | HReopen _ _ _ _ _ => match r with Ok _ => true | Exc _ => false end
  | HRemake _ _ _ _ _ _ _ => was
  end.

Definition enter_hop (temp : option bool) : hop := HReopen temp None false false false.

Definition run_hop2 (c : config) (st : filer) (opened : bool) (h : hop2) (w : world)
  : res unit * filer * bool * world :=
  match h with
  | H h' => let '(r, st', w') := run_hop c st h' w in (r, st', opened_after h' r opened, w')
  | HDoerEnter temp =>
    if opened then (Ok tt, st, opened, w)
    else let '(r, st', w') := run_hop c st (enter_hop temp) w in (r, st', opened_after (enter_hop temp) r opened, w')
  | HDoerExit => let '(r, st', w') := run_hop c st (HExit false) w in (r, st', false, w')
  end.

Fixpoint run_hops (c : config) (st : filer) (opened : bool) (hs : list hop2) (w : world)
  : list (res unit * option path * bool * fsys) :=
  match hs with
  | [] => []
  | h :: hs' =>
    let '(r, st', op', w') := run_hop2 c st opened h w in
    (r, f_path st', f_temp st', w_fs w') :: run_hops c st' op' hs' w'
  end.

(* ---- a relative headDirPath and a moving working directory: remake computes
   os.path.abspath(os.path.expanduser(os.path.join(headDirPath, ...))), i.e. it resolves the head against the
   working directory of THAT moment (a leading "~" against the home directory) and stores an absolute .path;
   close / clear never look at the working directory again ---- *)
Inductive hop3 :=
| H3 (h : hop2)
| HChdir (cwd : path).

Record relhead := { rh_segs : list seg;      (* headDirPath.split('/') of a relative headDirPath *)
                    rh_home : path }.        (* expanduser("~") *)

Definition TILDE : seg := [126]%N.
Definition resolve_head (rh : relhead) (cwd : path) : path :=
  match rh_segs rh with
  | s :: rest => if seg_eqb s TILDE then norm_from (rh_home rh) rest else norm_from cwd (rh_segs rh)
  | [] => cwd
  end.

Definition with_head (c : config) (h : path) : config :=
  {| c_name := c_name c; c_base := c_base c; c_temp := c_temp c; c_clean := c_clean c; c_filed := c_filed c;
     c_ext := c_ext c; c_fext := c_fext c; c_head := h; c_alt := c_alt c; c_tmp := c_tmp c |}.

Definition cfg_at (c : config) (rh : option relhead) (cwd : path) : config :=
  match rh with Some r => with_head c (resolve_head r cwd) | None => c end.

Fixpoint run_hops3 (c : config) (rh : option relhead) (cwd : path) (st : filer) (opened : bool)
                   (hs : list hop3) (w : world) : list (res unit * option path * bool * fsys) :=
  match hs with
  | [] => []
  | HChdir d :: hs' => (Ok tt, f_path st, f_temp st, w_fs w) :: run_hops3 c rh d st opened hs' w
  | H3 h :: hs' =>
    let '(r, st', op', w') := run_hop2 (cfg_at c rh cwd) st opened h w in
    (r, f_path st', f_temp st', w_fs w') :: run_hops3 c rh cwd st' op' hs' w'
  end.

(* ---- correspondence: Filer(...) on a sandbox snapshot, an optional owner
   step that creates a file (1) or directory (2) at .path, close(clear=True) ---- *)
Record case := { k_cfg : config;
                 k_pre : fsys;                      (* snapshot before *)
                 k_open : res path;                 (* .path or exception of the constructor *)
                 k_mid : fsys;                      (* snapshot after the constructor *)
                 k_owner : nat;
                 k_clear : res unit;                (* result of close(clear=True) *)
                 k_post : fsys;                     (* snapshot after it *)
                 k_rel : option (relhead * path);   (* a relative headDirPath and the working directory at construction *)
                 k_hops : list hop3;                (* history after the constructor (then no owner/clear phase) *)
                 k_hobs : list (res unit * option path * bool * fsys) }.   (* result, .path, .temp, snapshot after every call *)

Definition entry_eqb (a b : path * fkind) : bool := path_eqb (fst a) (fst b) && fkind_eqb (snd a) (snd b).
Definition subset_fs (a b : fsys) : bool := forallb (fun e => existsb (entry_eqb e) b) a.
Definition same_fs (a b : fsys) : bool := subset_fs a b && subset_fs b a.

Definition owner_step (n : nat) (p : path) (w : world) : world :=
  if exists_ (w_fs w) p || negb (isdir (w_fs w) (dirname p)) then w
  else match n with
       | 1 => do_mkfile w p
       | 2 => do_mkdir w p
       | 3 => {| w_fs := w_fs w ++ [(p, KOther)]; w_log := w_log w |}   (* mkfifo / bound unix socket / symlink to a directory *)
       | _ => w
       end.

Definition unit_eqb (a b : unit) : bool := true.

Definition hob_eqb (a b : res unit * option path * bool * fsys) : bool :=
  match a, b with
  | (r, p, t, fs), (r', p', t', fs') =>
    res_eqb unit_eqb r r' && option_eqb path_eqb p p' && Bool.eqb t t' && same_fs fs fs'
  end.

Definition rel_ok (k : case) : bool :=
  match k_rel k with
  | Some (rh, cwd0) => path_eqb (c_head (k_cfg k)) (resolve_head rh cwd0)
  | None => true
  end.

Definition check_case (k : case) : bool :=
  rel_ok k &&
  let (r, w1) := remake (k_cfg k) {| w_fs := k_pre k; w_log := [] |} in
  res_eqb path_eqb r (k_open k) && same_fs (w_fs w1) (k_mid k) &&
  match r with
  | Exc _ => true
  | Ok p =>
    match k_hops k with
    | [] =>
      let w2 := owner_step (k_owner k) p w1 in
      let (r2, w3) := clear (k_cfg k) p w2 in
      res_eqb unit_eqb r2 (k_clear k) && same_fs (w_fs w3) (k_post k)
    | hs => list_eqb hob_eqb
              (run_hops3 (k_cfg k) (option_map fst (k_rel k)) (match k_rel k with Some (_, d) => d | None => [] end)
                         (born (k_cfg k) p) true hs w1) (k_hobs k)
    end
  end.

(* branch classifier *)
Definition hop_branch (st st' : filer) (w w' : world) (h : hop) (r : res unit) : nat :=
  match h, r with
  | HExit _, Exc _ => 29
  | HExit _, _ => if f_temp st then 32 else 33
  | HRemake _ _ _ _ _ _ _, Exc _ => 31
  | HRemake _ _ _ _ _ _ _, _ => 30
  | _, Exc _ => 29
  | HClose true, _ => 27
  | HClose false, _ => 28
  | HReopen _ _ cl _ _, _ =>
    if option_eqb path_eqb (f_path st) (f_path st') && Nat.eqb (length (w_log w)) (length (w_log w')) then 23
    else if Bool.eqb (f_temp st) (f_temp st') then 24
    else if f_temp st' then 25 else 26
  end.

Fixpoint hop_branches (c : config) (st : filer) (opened : bool) (hs : list hop3) (w : world) : list nat :=
  match hs with
  | [] => []
  | HChdir _ :: hs' => 38 :: hop_branches c st opened hs' w
  | H3 h :: hs' =>
    let '(r, st', op', w') := run_hop2 c st opened h w in
    (match h with
     | H h' => hop_branch st st' w w' h' r
     | HDoerEnter _ => if opened then 34 else 35
     | HDoerExit => if f_temp st then 36 else 37
     end) :: hop_branches c st' op' hs' w'
  end.

Definition case_branches (k : case) : list nat :=
  let c := k_cfg k in
  let w := {| w_fs := k_pre k; w_log := [] |} in
  let (r, w1) := remake c w in
  let flags := (if c_temp c then 8 else 0) + (if c_clean c then 4 else 0) +
               (if c_filed c then 2 else 0) + (if c_ext c then 1 else 0) in
  let cleaned := existsb (fun e => match e with RmTree _ | RmFile _ => true | _ => false end) (w_log w1) in
  [flags;
   match r with
   | Exc OtherErr => 16
   | Exc _ => 17
   | Ok p => if is_prefix (c_alt c) p && negb (c_temp c) then 18 else if cleaned then 19 else 20
   end] ++
  match r with
  | Ok p =>
    match k_hops k with
    | [] => [match fst (clear c p (owner_step (k_owner k) p w1)) with Exc _ => 21 | Ok _ => 22 end]
    | hs => hop_branches c (born c p) true hs w1
    end
  | Exc _ => []
  end.
Definition n_branches : nat := 39.
