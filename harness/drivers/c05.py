"""C05 — run termination and done flags are exact."""
from harness.drivers import sched_common as sc
from harness.drivers.sched_common import (COQ_REQUIRES, COQ_CHECK, COQ_CASE_TYPE, COQ_BRANCHES, COQ_HEADER, SHARD, CASE_TIMEOUT, MODELLED,
                                          run_impl, to_coq, shrink, distribution)

PROP = "C05"
RULE = ("static doer sets (all leaf kinds, nests) with completion at enter / first cycle / last permitted cycle, limits that are "
        "0, None, below one tock, equal to a cycle boundary and not multiples of tock, start tymes and tocks incl. non-dyadic, "
        "all three return values None/False/True; non-trivial = limit not a multiple of tock, or completion and limit within "
        "one cycle of each other, or a doer returning a non-True value")


def directed():
    Y = lambda t=None: {"es": [], "out": ["y", t]}
    R = lambda r="true": {"es": [], "out": ["r", r]}
    mk = lambda tock, limit, tyme, leaves: {"tock": tock, "limit": limit, "tyme": tyme, "doers": list(range(1, len(leaves) + 1)), "mode": "do",
                                            "defs": {str(i + 1): {"kind": k, "script": s} for i, (k, s) in enumerate(leaves)}}
    return [
        mk(0.25, None, 0.0, [("func", [R("none")]), ("doergen", [R("false")]), ("func", [R("true")])]),      # all finish in enter
        mk(0.25, 0.5, 0.0, [("doer", [Y(), Y(), R()]), ("func", [Y(), Y(), R("false")])]),                 # completes exactly at the limit cycle
        mk(0.25, 0.6, 1.0, [("doer", [Y(), Y(), Y(), Y(), Y(), Y()]), ("doergen", [Y(), Y(), R("none")])]), # limit not a multiple
        mk(0.25, 0.1, 0.0, [("func", [Y(), Y(), Y(), Y()])]),                                             # limit below one tock
        mk(0.25, 0.0, 0.0, [("func", [Y(), Y(), R("none")])]),                                            # limit 0 = no limit
        mk(0.1, 0.3, 0.1, [("func", [Y(), Y(), Y(), Y(), Y(), Y()])]),                                     # non-dyadic boundary
        dict(mk(0.25, 0.5, 0.0, [("doer", [Y(), Y(), Y(), Y(), Y(), Y()])]), ctor=True),                     # doers given at construction
        dict(mk(1.0, None, 0.0, [("doer", [Y(), Y(), Y(), R()])]), ctor=True, again=[{"limit": 1.5, "tyme": 0.0}]),  # complete, then limit-cut rerun
        dict(mk(0.25, 0.5, 0.0, [("func", [Y(), Y(), Y(), Y(), R("false")])]), again=[{"limit": None, "tyme": None}, {"limit": 5.0, "tyme": 3.0}]),
    ] + [_idle_always_extended(k) for k in ("func", "bound", "doergen")]


def _idle_always_extended(kind):
    """An always-DoDoer that has gone idle (done True while it keeps running) is extended at run time with doers
    that return None, True, False in their first recur and one that outlives the limit: each flag is what that
    doer returned, not the DoDoer's."""
    Y = lambda: {"es": [], "out": ["y", None]}
    R = lambda r: {"es": [], "out": ["r", r]}
    return {"tock": 0.25, "limit": 2.5, "tyme": 0.0, "doers": [1, 3], "mode": "do", "broad": True, "defs": {
        "1": {"kind": "nest", "tock": 0.0, "always": True, "kids": [2]},
        "2": {"kind": "func", "script": [Y(), R("true")]},
        "3": {"kind": "func", "script": [Y(), Y(), Y(), {"es": [["ext", 1, [4, 5, 6, 7]]], "out": ["y", None]}, Y(), Y(), R("true")]},
        "4": {"kind": kind, "script": [Y(), R("none")]},
        "5": {"kind": kind, "script": [Y(), R("true")]},
        "6": {"kind": kind, "script": [Y(), R("false")]},
        "7": {"kind": kind, "script": [Y() for _ in range(30)]},
    }}


def generate(rng, tier):
    n = 1 if tier == "quick" else 14
    out = []
    for _ in range(700 * n):
        p = sc.gen_static(rng, n_leaves=rng.randint(1, 5), nest_depth=rng.choice([0, 0, 2]), faults=False,
                          tocks=rng.choice(["any", "dyadic"]), limit_p=0.7)
        sc.add_opt_always(rng, p)
        if rng.random() < 0.15:
            p["mode"] = "call"          # the callable form doist(doers=…, limit=…, tyme=…)
        out.append(p)
    # histories: several runs on one Doist (doers given at construction or to the first do(), then do()
    # again with/without a new limit and tyme)
    for _ in range(250 * n):
        p = sc.gen_static(rng, n_leaves=rng.randint(1, 4), nest_depth=rng.choice([0, 0, 1]), faults=False,
                          tocks="dyadic", limit_p=0.6)
        out.append(sc.add_reruns(rng, p))
    for p in sc.gen_broad(rng, 200 * n):
        p["broad"] = True
        out.append(p)
    out += _gen_failed_exit_then_rerun(rng, 40 * n)
    out += _gen_caught_failed_extend(rng, 40 * n)
    out += _gen_valued_returns(rng, 60 * n)
    for p in sc.gen_enter_effects(rng, 40 * n):      # extend()/remove() from a doer's enter context (oracle only)
        p["broad"] = True
        p["limit"] = None if not any(d["kind"] == "nest" and sc.eff_always(d) for d in p["defs"].values()) else p["limit"]
        out.append(p)
    return out


def _gen_valued_returns(rng, n):
    """Doers that return values which are neither None nor a bool (3, 'finished', 0.5, 0), in enter or in a recur
    step, listed in the Doist or nested in DoDoers: the flag becomes that very value."""
    out = []
    kinds = ("int", "str", "frac", "zero", "true", "false", "none")
    for _ in range(n):
        p = sc.gen_static(rng, n_leaves=rng.randint(1, 5), nest_depth=rng.choice([0, 0, 1, 2]), faults=False,
                          tocks="dyadic", limit_p=0.2)
        for d in p["defs"].values():
            if d["kind"] in ("func", "bound", "doergen"):
                for st in d["script"]:
                    if st["out"][0] == "r":
                        st["out"] = ["r", rng.choice(kinds)]
        p["valued"] = True
        if rng.random() < 0.3:
            p["mode"] = "ado"
        out.append(p)
    return out


def _gen_caught_failed_extend(rng, n):
    """A doer extends its scheduler with new doers one of which raises in its enter context, catches the exception
    and carries on (outside the Coq model, whose scripts do not catch: oracle only): only the new doers are closed,
    every other doer runs to its own completion and the flags are what they returned."""
    out = []
    Y = lambda: {"es": [], "out": ["y", None]}
    R = lambda r="true": {"es": [], "out": ["r", r]}
    for _ in range(n):
        k = rng.randint(1, 3)
        tock = rng.choice([0.25, 0.5, 1.0])
        defs, ids = {}, []
        for i in range(1, k + 1):
            kind = rng.choice(["func", "bound", "doer", "doergen"])
            # (a plain-recur Doer finishes by returning True from recur: its flag is always True)
            defs[str(i)] = {"kind": kind, "script": [Y() for _ in range(rng.randint(3, 6))]
                            + [R("true" if kind == "doer" else rng.choice(["true", "true", "none", "false"]))]}
            ids.append(i)
        m, ok, bad = k + 1, k + 2, k + 3
        defs[str(ok)] = {"kind": rng.choice(["func", "doer", "doergen"]), "script": [Y(), Y(), R()]}
        defs[str(bad)] = {"kind": rng.choice(["func", "bound"]), "script": [{"es": [], "out": ["x"]}]}
        new = [ok, bad] if rng.random() < 0.7 else [bad]
        at = rng.randint(0, 2)
        ms = [Y() for _ in range(at)] + [{"es": [["ext", 0, new, "catch"]], "out": ["y", None]}] + [Y(), R()]
        defs[str(m)] = {"kind": rng.choice(["func", "bound"]), "script": ms}
        doers = ids + [m]
        rng.shuffle(doers)
        p = {"tock": tock, "limit": None, "tyme": 0.0, "doers": doers, "mode": rng.choice(["do", "do", "ado"]), "defs": defs,
             "catch_ext": True, "enter_effects": at == 0}
        out.append(p)
    return out


def _gen_failed_exit_then_rerun(rng, n):
    """A run cut by its limit in which one doer's own cease/exit context raises (an Exception or a
    KeyboardInterrupt), then a second run of the same Doist without doers: nothing of the first run is carried into
    the second (outside the Coq model, whose lifecycle contexts do not raise: oracle only)."""
    out = []
    Y = lambda: {"es": [], "out": ["y", None]}
    for _ in range(n):
        k = rng.randint(2, 4)
        tock = rng.choice([0.25, 0.5, 1.0])
        cut = rng.randint(2, 3)                    # cycles in each run
        defs = {}
        for i in range(1, k + 1):
            need = rng.randint(cut + 1, 2 * cut)   # recurs needed: more than one run allows, often at most two runs' worth
            defs[str(i)] = {"kind": rng.choice(["func", "bound", "doer", "doergen"]),
                            "script": [Y() for _ in range(need)] + [{"es": [], "out": ["r", "true"]}]}
        bad = rng.randint(2, k)                    # not the first entered: others are closed after it
        defs[str(bad)]["hookraise"] = rng.choice(["cease", "exit"])
        defs[str(bad)]["hookexc"] = rng.choice(["kbd", "kbd", "script"])
        out.append({"tock": tock, "limit": cut * tock, "tyme": 0.0, "doers": list(range(1, k + 1)), "mode": rng.choice(["do", "do", "ado"]),
                    "defs": defs, "ctor": True, "again": [{"limit": None, "tyme": rng.choice([None, 0.0])}]})
    return out


def _returned(case, obs):
    """doer id -> the value its generator returned by itself (None if it did not finish by itself)."""
    out = {}
    tr = obs["trace"]
    for i, d in case["defs"].items():
        if d["kind"] == "nest":
            continue
        i = int(i)
        n_resumes = sum(1 for k, j, _ in tr if j == i and k in ("Enter", "Recur"))
        cleaned = any(k == "Clean" and j == i for k, j, _ in tr)
        if cleaned:
            st = d["script"][n_resumes - 1] if n_resumes - 1 < len(d["script"]) else sc.DEFAULT_STEP
            out[i] = st["out"][1] if st["out"][0] == "r" else "?"
    return out


def _oracle_history(case, obs):
    """Several runs on one Doist: after the last run doist.done is True iff no root doer was force-closed in
    that run; a doer's done is True only if its last lifecycle ended by a truthy return."""
    hooked = any(d.get("hookraise") for d in case["defs"].values())
    if obs["raised"] != "none" and not hooked:
        return f"do() raised: {obs['raised']}"
    tr = obs["trace"]
    ends = [p for p, (k, _, _) in enumerate(tr) if k in ("DoReturn", "DoRaise")]
    if hooked:
        # each run starts from scratch: within one run no doer is resumed more often than that run has cycles
        # (a generator left over from the failed exit of the run before would add its own resumptions)
        for r, e in enumerate(ends):
            run = tr[(ends[r - 1] + 1) if r else 0:e]
            tymes = sorted({sc.fl(h) for k, _, h in run if k == "Recur"})
            for i in case["doers"]:
                per = {}
                for k, j, h in run:
                    if j == i and k == "Recur":
                        per[sc.fl(h)] = per.get(sc.fl(h), 0) + 1
                twice = [t for t, c in per.items() if c > 1]
                if twice:
                    return f"run {r + 1}: doer {i} was resumed more than once in the cycle(s) at {twice}: a generator of an earlier run is still scheduled"
                if sum(1 for k, j, _ in run if j == i and k == "Enter") > 1:
                    return f"run {r + 1}: doer {i} entered more than once"
    if len(ends) != 1 + len(case["again"]):
        return f"expected {1 + len(case['again'])} runs, saw {len(ends)}"
    # every run of the history: a run that force-closes doers was stopped by its effective limit -- the one
    # given to that run (0 meaning "no limit"), else the one kept from before -- at the first cycle end at or
    # past start + |limit|; with no effective limit nothing is ever force-closed
    eff, start = case["limit"], case["tyme"]
    for r, e in enumerate(ends):
        if r > 0:
            a = case["again"][r - 1]
            if a.get("limit") is not None:
                eff = a["limit"]
            start = a["tyme"] if a.get("tyme") is not None else sc.fl(tr[ends[r - 1]][2])
        run = tr[(ends[r - 1] + 1) if r else 0:e]
        cut = [i for k, i, _ in run if k == "Cease" and i in case["doers"]]
        final = sc.fl(tr[e][2])
        lim = abs(eff) if eff else None
        if cut and lim is None:
            return f"run {r + 1} has no time limit (limit {eff!r}) but force-closed doers {cut} at tyme {final}"
        if cut:
            t, prev = start, start
            for _ in range(450):
                if t >= final:
                    break
                prev, t = t, t + case["tock"]
            if t != final or not (final >= start + lim) or (prev >= start + lim and prev != start):
                return (f"run {r + 1} (start {start}, limit {lim}) force-closed doers {cut} at tyme {final}, not at the first "
                        f"cycle end at or past {start + lim}")
    last = tr[(ends[-2] + 1) if len(ends) > 1 else 0:ends[-1]]
    ceased = [i for k, i, _ in last if k == "Cease"]
    dones = dict((i, d) for i, d in obs["dones"])
    if bool(dones[0]) != (not ceased):
        return f"after the last of {len(ends)} runs doist.done = {dones[0]} but force-closed doers in that run = {ceased}"
    if dones[0] is None:
        return "doist.done is None after a run"
    for i in ceased:
        if dones.get(i) is True:
            return f"doer {i} was force-closed in the last run but its done is True"
    return None


def _oracle_broad(case, obs):
    """Any program (dynamic, faults, ado, several runs): a scheduler that reports done = True has no listed doer
    whose last lifecycle was cut short (Cease/Abort), and no doer cut short reports done = True."""
    why = sc.broad_oracle(case, obs)
    if why:
        return why
    tr = obs["trace"]
    dones = dict((i, d) for i, d in obs["dones"])
    if dones.get(0) is None:
        return "doist.done is None after a run"
    ending = {}
    for k, i, _ in tr:
        if k in ("Clean", "Cease", "Abort"):
            ending[i] = k
        elif k == "Enter":
            ending[i] = "open"
    # (an always-DoDoer's done means "all its deeds completed" while it keeps running — the tree's own
    # test_dodoer_always documents done True for one stopped by the limit — so it is outside both rules)
    always = {int(i) for i, d in case["defs"].items() if d["kind"] == "nest" and sc.eff_always(d)}
    for i, k in ending.items():
        if k in ("Cease", "Abort") and dones.get(i) is True and i not in always:
            return f"doer {i}'s last lifecycle ended by {k} but its done is True"
    # a leaf doer that ran one lifecycle and finished by itself reports exactly what it returned: True only
    # for a truthy return value, never for None / nothing / False
    ret = _returned(case, obs)
    for i, r in ret.items():
        if sum(1 for k, j, _ in tr if j == i and k == "Enter") != 1 or ending.get(i) != "Clean":
            continue
        if r in ("none", "false") and dones.get(i) is True:
            return f"doer {i} finished by itself returning {r} but its done is True"
        if r == "true" and dones.get(i) is not True:
            return f"doer {i} finished by itself returning True but its done is {dones.get(i)}"
    # a run that completed (done = True, nothing raised) was run by every doer still listed at its end
    if obs["raised"] == "none" and dones.get(0) is True and not case.get("again") and not case.get("fresh"):
        entered = {i for k, i, _ in tr if k == "Enter"}
        for sid, lst, _ in obs["scheds"]:
            if sid == 0 or sid in entered:
                miss = [x for x in lst if x not in entered]
                if miss:
                    return f"the run returned done = True but the listed doers {miss} of scheduler {sid} were never entered"
    for sid, lst, _ in obs["scheds"]:
        if dones.get(sid) is True and sid not in always:
            cut = [x for x in lst if ending.get(x) in ("Cease", "Abort", "open")]
            if cut:
                return f"scheduler {sid} reports done = True but its listed doers {cut} were cut short"
    return None


def _oracle_caught(case, obs):
    if obs["raised"] != "none":
        return f"do() raised: {obs['raised']}"
    tr = obs["trace"]
    dones = dict((i, d) for i, d in obs["dones"])
    new = {x for r in obs["efflog"] for x in r["ids"]}
    ret = _returned(case, obs)
    for i in case["doers"]:
        ks = [k for k, j, _ in tr if j == i]
        if "Cease" in ks or "Abort" in ks:
            return f"doer {i} was cut short ({ks}) by another doer's failed extend(), which the caller handled"
        if ks.count("Enter") != 1 or ks[-2:] != ["Clean", "Exit"]:
            return f"doer {i} did not run one lifecycle to its own completion: {ks}"
        want = {"true": True, "false": False}.get(ret.get(i), None)
        if (dones.get(i) is True) != (want is True):
            return f"doer {i} returned {ret.get(i)} but its done is {dones.get(i)}"
    if dones.get(0) is not True:
        return f"every doer completed by itself but doist.done = {dones.get(0)}"
    exits = [sc.fl(h) for k, j, h in tr if k == "Exit" and j in case["doers"]]
    if not exits:
        return None
    last = max(exits)
    if sc.fl(obs["tyme"]) != last + case["tock"]:
        return f"run returned at tyme {sc.fl(obs['tyme'])}, its last doer completed in the cycle at {last} (tock {case['tock']})"
    return None


def _oracle_values(case, obs):
    if obs["raised"] != "none":
        return f"do() raised: {obs['raised']}"
    tr = obs["trace"]
    raw = dict((i, r) for i, r in obs["dones_raw"])
    ret = _returned(case, obs)
    for i, r in ret.items():
        d = case["defs"][str(i)]
        if d["kind"] == "doer" or r == "?" or sum(1 for k, j, _ in tr if j == i and k == "Enter") != 1:
            continue
        want = repr(sc.RET[r]) if sc.RET[r] is not None else "False"
        # (a generator-recur Doer that returns None keeps None: Doer.do assigns the value of `yield from`)
        ok = {want} | ({"None"} if sc.RET[r] is None and d["kind"] == "doergen" else set())
        if raw.get(i) not in ok:
            return f"doer {i} finished by itself returning {sc.RET[r]!r} but its done flag is {raw.get(i)}"
    return None


def oracle(case, obs):
    if case.get("valued"):
        return _oracle_values(case, obs)
    if case.get("catch_ext"):
        return _oracle_caught(case, obs)
    if case.get("broad"):
        return _oracle_broad(case, obs)
    why = sc.clock_oracle(obs)
    if why:
        return why
    if case.get("again"):
        return _oracle_history(case, obs)
    if obs["raised"] != "none":
        return f"do() raised: {obs['raised']}"
    tr = obs["trace"]
    tock, start = case["tock"], case["tyme"]
    final = sc.fl(obs["tyme"])
    # every listed doer takes part in the run: entered, in list order (static programs, no faults)
    entered_order = [i for k, i, _ in tr if k == "Enter" and i in case["doers"]]
    if entered_order != list(case["doers"]):
        return f"root doers {case['doers']} were given to the run but the doers entered were {entered_order}"
    doist_done = dict((i, d) for i, d in obs["dones"])[0]
    if doist_done is None:
        return "doist.done is None after a run (must be False or True)"
    limit = abs(case["limit"]) if case["limit"] else None
    # cycle end tymes
    ends, t = [], start
    for _ in range(450):
        t = t + tock
        ends.append(t)
        if t >= final:
            break
    # last completion: tyme of the last Clean/Exit of a root doer; complete iff no root doer was force-closed
    root = set(case["doers"])
    ceased = [i for k, i, _ in tr if k == "Cease" and i in root]
    all_complete = not ceased
    last_exit = max([sc.fl(h) for k, i, h in tr if k == "Exit" and i in root] + [start])
    # expected stop: first cycle end e_k such that all root doers are complete by the cycle that ends at e_k,
    # or (limit and e_k >= start + limit)
    expect = None
    for e in ends:
        complete_by = (last_exit + tock <= e) if all_complete else False
        if all_complete and last_exit + tock == e or (all_complete and e > last_exit + tock):
            expect = (e, True); break
        if limit and e >= start + limit:
            expect = (e, False); break
    if expect is None:
        return "run did not stop where the termination rule says"
    e, dn = expect
    if final != e:
        return f"run ended at tyme {final}, rule gives {e} (limit={limit}, last completion at {last_exit})"
    if bool(doist_done) != dn:
        return f"doist.done = {doist_done}, rule gives {dn}"
    if doist_done and not all_complete:
        return "doist.done is True although a doer was still alive"
    # doer done flags
    ret = _returned(case, obs)
    dones = dict((i, d) for i, d in obs["dones"])
    for i, d in case["defs"].items():
        if d["kind"] == "nest":
            continue
        i = int(i)
        entered = any(k == "Enter" and j == i for k, j, _ in tr)
        if not entered:
            continue
        got = dones[i]
        if i in ret:
            r = ret[i]
            want = {"true": True, "false": False}.get(r, "none")
            if want == "none":
                if got is True:
                    return f"doer {i} returned None but done is True"
            elif got != want:
                return f"doer {i} returned {r} but done is {got}"
        else:
            if got is not False:
                return f"doer {i} did not finish by itself but done is {got} (must stay False from enter)"
    return None


def classify(case, obs, why):
    return None


def nontrivial(case, obs):
    if case["limit"]:
        q = abs(case["limit"]) / case["tock"]
        if q != int(q):
            return True
    for d in case["defs"].values():
        if d["kind"] != "nest" and any(st["out"] in (["r", "none"], ["r", "false"]) for st in d["script"]):
            return True
    return any(k == "Cease" for k, _, _ in obs["trace"])
