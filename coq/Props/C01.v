From Hio Require Import Base.Prelude Model.Sched.
Theorem C01_placeholder : True. Proof. exact I. Qed.
Print Assumptions C01_placeholder.
