(* Model of one LMDB named sub-database (dupsort=False) as used by
   hio.base.during.Duror: a list of (key bytes, value) kept strictly ascending
   in lexicographic byte order (LMDB's default comparator, memcmp then length).
   A cursor position is the split of the list at the cursor: the entries before
   it and the entries from it on.  NO proofs here. *)
From Hio Require Import Base.Prelude.

(* lexicographic comparison of byte strings; a proper prefix sorts first *)
Fixpoint bcmp (a b : bytes) : comparison :=
  match a, b with
  | [], [] => Eq
  | [], _ :: _ => Lt
  | _ :: _, [] => Gt
  | x :: a', y :: b' =>
    match N.compare x y with
    | Eq => bcmp a' b'
    | c => c
    end
  end.

Definition blt (a b : bytes) : bool := match bcmp a b with Lt => true | _ => false end.

Section DB.
  Context {V : Type}.
  Definition db := list (bytes * V).

  (* txn.get / cursor.get(key) *)
  Fixpoint db_get (d : db) (k : bytes) : option V :=
    match d with
    | [] => None
    | (k', v) :: d' => match bcmp k k' with Eq => Some v | _ => db_get d' k end
    end.

  (* txn.put / cursor.put(key, val, overwrite=…): the new db and the returned bool *)
  Fixpoint db_put (overwrite : bool) (d : db) (k : bytes) (v : V) : db * bool :=
    match d with
    | [] => ([(k, v)], true)
    | (k', v') :: d' =>
      match bcmp k k' with
      | Lt => ((k, v) :: d, true)
      | Eq => if overwrite then ((k, v) :: d', true) else (d, false)
      | Gt => let (r, b) := db_put overwrite d' k v in ((k', v') :: r, b)
      end
    end.

  (* txn.delete(key) *)
  Fixpoint db_del (d : db) (k : bytes) : db * bool :=
    match d with
    | [] => ([], false)
    | (k', v') :: d' =>
      match bcmp k k' with
      | Eq => (d', true)
      | _ => let (r, b) := db_del d' k in ((k', v') :: r, b)
      end
    end.

  (* cursor.set_range(k): (entries with key < k, entries from the first key >= k on);
     set_range returns False iff the second component is empty *)
  Fixpoint seek (d : db) (k : bytes) : db * db :=
    match d with
    | [] => ([], [])
    | (k', v') :: d' =>
      if blt k' k then let (b, a) := seek d' k in ((k', v') :: b, a)
      else ([], d)
    end.

  (* cursor.last() / cursor.prev() look at the last entry of a list *)
  Definition last_entry (d : db) : option (bytes * V) :=
    match rev d with [] => None | e :: _ => Some e end.
End DB.
Arguments db V : clear implicits.
