(* Incremental parsers of hio.core.http.httping, common part.

   1. The generic shape of every incremental parser in httping.py
      ("loop: not enough bytes -> yield None, else consume"): a stage function
      and the driver that iterates it over buffer ++ new bytes.
   2. findEol / parseLine (after the D14 fixes): the three eol configurations
      the code uses, the line-length limit, and the CR/skip-LF rule.

   No proofs here. *)
From Hio Require Import Base.Prelude.

(* ------------------------------------------------------------------ bytes *)
Definition CRb : N := 13.
Definition LFb : N := 10.
Definition lenN (b : bytes) : N := N.of_nat (length b).
Definition is_nil {A} (l : list A) : bool := match l with [] => true | _ => false end.

(* n copies of x (case files use it to write long runs compactly) *)
Definition rep_byte (x n : N) : bytes := N.iter n (cons x) [].

(* ------------------------------------------------- generic stage machines *)
Inductive sres (S O : Type) : Type :=
| Need                                   (* yield None: wait for more bytes *)
| Step (s : S) (rest : bytes) (o : O)    (* consumed a prefix, produced o *)
| Fail (k : exn).                        (* raised *)
Arguments Need {S O}.
Arguments Step {S O} s rest o.
Arguments Fail {S O} k.

Inductive pstate (S : Type) : Type :=
| Live (s : S) (b : bytes)   (* suspended with unconsumed buffer b *)
| Dead (k : exn).            (* the generator raised k; it is never resumed *)
Arguments Live {S} s b.
Arguments Dead {S} k.

Section Run.
  Context {S O : Type}.
  Variable stage : S -> bytes -> sres S O.

  (* Iterate the stage until it needs more bytes.  Every Step of every stage in
     this development consumes at least one byte, so fuel > length b suffices
     (Proofs/HttpLineProofs.v, run_fuel). *)
  Fixpoint run (fuel : nat) (s : S) (b : bytes) : pstate S * list O :=
    match fuel with
    | 0 => (Live s b, [])
    | Datatypes.S f =>
      match stage s b with
      | Need => (Live s b, [])
      | Step s' b' o => let (p, os) := run f s' b' in (p, o :: os)
      | Fail k => (Dead k, [])
      end
    end.

  (* raw.extend(chunk); step the parser until it yields None *)
  Definition feed (p : pstate S) (c : bytes) : pstate S * list O :=
    match p with
    | Dead k => (Dead k, [])
    | Live s b => run (Datatypes.S (length (b ++ c))) s (b ++ c)
    end.

  Fixpoint feeds (p : pstate S) (cs : list bytes) : pstate S * list O :=
    match cs with
    | [] => (p, [])
    | c :: cs' => let (p', os) := feed p c in
                  let (p'', os') := feeds p' cs' in (p'', os ++ os')
    end.
End Run.

(* ----------------------------------------------------------- line parsing *)
(* eols configurations used by the code *)
Inductive eolmode :=
| ECrlf    (* (CRLF,)        chunk size line, chunk end line *)
| EHttp    (* (CRLF, LF)     start lines, header lines, trailers *)
| ESse.    (* (CRLF, LF, CR) event stream lines *)

Definition max_line : N := 65536.

(* scan m b = Some (line, rest, cr): earliest terminator of mode m found;
   cr tells that the terminator was a lone CR taken in ESse mode (so that a
   directly following LF has to be skipped).  Structural, no look-ahead beyond
   the terminator itself. *)
Fixpoint scan_crlf (b : bytes) : option (bytes * bytes) :=
  match b with
  | [] => None
  | x :: b' =>
    match b' with
    | y :: b'' =>
      if N.eqb x CRb && N.eqb y LFb then Some ([], b'')
      else match scan_crlf b' with Some (l, r) => Some (x :: l, r) | None => None end
    | [] => None
    end
  end.

(* (CRLF, LF): the earliest terminator ends at the first LF; it is CRLF when
   the byte before that LF is CR.  raw_lf returns the bytes before the first LF. *)
Fixpoint scan_lf (b : bytes) : option (bytes * bytes) :=
  match b with
  | [] => None
  | x :: b' =>
    if N.eqb x LFb then Some ([], b')
    else match scan_lf b' with Some (l, r) => Some (x :: l, r) | None => None end
  end.

Fixpoint strip_last_cr (l : bytes) : bytes :=
  match l with
  | [] => []
  | [x] => if N.eqb x CRb then [] else [x]
  | x :: l' => x :: strip_last_cr l'
  end.

Fixpoint scan_sse (b : bytes) : option (bytes * bytes * bool) :=
  match b with
  | [] => None
  | x :: b' =>
    if N.eqb x LFb then Some ([], b', false)
    else if N.eqb x CRb then Some ([], b', true)
    else match scan_sse b' with Some (l, r, k) => Some (x :: l, r, k) | None => None end
  end.

Definition scan (m : eolmode) (b : bytes) : option (bytes * bytes * bool) :=
  match m with
  | ECrlf => match scan_crlf b with Some (l, r) => Some (l, r, false) | None => None end
  | EHttp => match scan_lf b with Some (l, r) => Some (strip_last_cr l, r, false) | None => None end
  | ESse => scan_sse b
  end.

(* "if skip and raw: if raw[0:1] == LF: del raw[0]" *)
Definition drop_lf (b : bytes) : bytes :=
  match b with x :: b' => if N.eqb x LFb then b' else b | [] => [] end.

(* One iteration of parseLine's loop.  State: the generator-local skip flag
   (always false outside ESse).  LineTooLong is an HTTPException. *)
Definition skipped (skip : bool) (b : bytes) : bytes := if skip then drop_lf b else b.

Definition line_stage (m : eolmode) (skip : bool) (b : bytes) : sres bool bytes :=
  if skip && is_nil b then Need else
  let b1 := skipped skip b in
  match scan m b1 with
  | None => if N.ltb (max_line + 1) (lenN b1) then Fail HTTPExc else Need
  | Some (l, r, k) => if N.ltb max_line (lenN l) then Fail HTTPExc else Step k r l
  end.

(* What Python's `raw` holds when the model is suspended in (skip, b): the
   model keeps a skipped-LF decision pending until the next stage call, Python
   resolves it at the top of the loop before it yields None. *)
Definition raw_of (skip : bool) (b : bytes) : bytes := skipped skip b.

(* ------------------------------------------------------------ small tools *)
Definition is_hex (x : N) : bool :=
  (N.leb 48 x && N.leb x 57) || (N.leb 65 x && N.leb x 70) || (N.leb 97 x && N.leb x 102).
Definition hex_val (x : N) : N :=
  if N.leb x 57 then x - 48 else if N.leb x 70 then x - 55 else x - 87.
Definition hex_value (l : bytes) : N := fold_left (fun a x => 16 * a + hex_val x)%N l 0%N.

(* bytes.partition(sep) for a one-byte separator: (before, found, after) *)
Fixpoint partition1 (sep : N) (l : bytes) : bytes * bool * bytes :=
  match l with
  | [] => ([], false, [])
  | x :: l' => if N.eqb x sep then ([], true, l')
               else let '(a, f, c) := partition1 sep l' in (x :: a, f, c)
  end.

(* bytes.split(sep) for a one-byte separator (always at least one piece) *)
Fixpoint split1 (sep : N) (l : bytes) : list bytes :=
  match l with
  | [] => [[]]
  | x :: l' => if N.eqb x sep then [] :: split1 sep l'
               else match split1 sep l' with
                    | p :: ps => (x :: p) :: ps
                    | [] => [[x]]
                    end
  end.

Fixpoint lstrip (ws : N -> bool) (l : bytes) : bytes :=
  match l with x :: l' => if ws x then lstrip ws l' else l | [] => [] end.
(* linear-time reverse (List.rev is quadratic); equal to rev by List.rev_alt *)
Definition frev (l : bytes) : bytes := rev_append l [].
Definition strip (ws : N -> bool) (l : bytes) : bytes :=
  frev (lstrip ws (frev (lstrip ws l))).

(* bytes.strip() with no argument: ASCII whitespace *)
Definition ws_ascii (x : N) : bool :=
  N.eqb x 32 || (N.leb 9 x && N.leb x 13).
(* strip(b' \t') *)
Definition ws_sptab (x : N) : bool := N.eqb x 32 || N.eqb x 9.

(* insertion-ordered dict with bytes keys: d[k] = v *)
Fixpoint dset {V} (d : list (bytes * V)) (k : bytes) (v : V) : list (bytes * V) :=
  match d with
  | [] => [(k, v)]
  | (k', v') :: d' => if bytes_eqb k k' then (k, v) :: d' else (k', v') :: dset d' k v
  end.
Fixpoint dget {V} (d : list (bytes * V)) (k : bytes) : option V :=
  match d with
  | [] => None
  | (k', v') :: d' => if bytes_eqb k k' then Some v' else dget d' k
  end.
Definition dupdate {V} (d e : list (bytes * V)) : list (bytes * V) :=
  fold_left (fun acc kv => dset acc (fst kv) (snd kv)) e d.

Definition lower1 (x : N) : N := if N.leb 65 x && N.leb x 90 then x + 32 else x.
Definition lower (l : bytes) : bytes := map lower1 l.

(* b in a  (substring test) *)
Fixpoint prefixb (p l : bytes) : bool :=
  match p, l with
  | [], _ => true
  | x :: p', y :: l' => N.eqb x y && prefixb p' l'
  | _, [] => false
  end.
Fixpoint containsb (p l : bytes) : bool :=
  prefixb p l || match l with [] => false | _ :: l' => containsb p l' end.
