(* Codec round trip for base2 (curt) heads. *)
From Hio Require Import Base.Prelude Model.B64 Proofs.B64Proofs Model.MemoGram
  Proofs.MemoRxProofs Proofs.MemoCodecProofs.
Local Open Scope N_scope.
Ltac Zify.zify_post_hook ::= Z.to_euclidean_division_equations.

(* Base64 text (whole quadlets) -> bytes -> text *)
Lemma idx_spec : forall c, (match idx_of_chr c with Some _ => true | None => false end) = true ->
  idx c < 64 /\ chr_of_idx (idx c) = c.
Proof.
  intros c H. unfold idx. destruct (idx_of_chr c) as [d|] eqn:E; [|discriminate].
  apply chr_idx in E. tauto.
Qed.

Lemma enc_dec : forall n s, length s = (4 * n)%nat -> is_b64 s = true ->
  enc (dec s) = s /\ length (dec s) = (3 * n)%nat.
Proof.
  induction n as [|n IH]; intros s L B.
  - destruct s; [split; reflexivity|cbn in L; lia].
  - destruct s as [|w [|x [|y [|z r]]]]; try (cbn in L; lia).
    cbn [is_b64 forallb] in B. repeat (apply andb_prop in B; destruct B as [?H B]).
    destruct (idx_spec w H) as [Hw Cw]. destruct (idx_spec x H0) as [Hx Cx].
    destruct (idx_spec y H1) as [Hy Cy]. destruct (idx_spec z H2) as [Hz Cz].
    destruct (IH r) as [E Ln]; [cbn in L; lia|exact B|].
    cbn [dec enc length]. rewrite E, Ln. split; [|lia].
    set (a := idx w) in *. set (b := idx x) in *. set (c := idx y) in *. set (d := idx z) in *.
    replace ((a * 4 + b / 16) / 4) with a by lia.
    replace (((a * 4 + b / 16) mod 4) * 16 + ((b mod 16) * 16 + c / 4) / 16) with b by lia.
    replace ((((b mod 16) * 16 + c / 4) mod 16) * 4 + ((c mod 4) * 64 + d) / 64) with c by lia.
    replace (((c mod 4) * 64 + d) mod 64) with d by lia.
    rewrite Cw, Cx, Cy, Cz. reflexivity.
Qed.

Lemma dec_nil : dec [] = [].
Proof. reflexivity. Qed.

(* the ten codes in base2: first byte selects the b2 branch and the code converts back *)
Lemma code_b2_facts : forall c rest,
  exists b0 b1 b2, dec (code_text c) = [b0; b1; b2] /\ (b0 / 4 =? 24) = false /\ (b0 / 4 =? 27) = true /\
  codeB2ToB64 ([b0; b1; b2] ++ rest) 4 = Ok (code_text c).
Proof. intros [] rest; eexists _, _, _; repeat split; reflexivity. Qed.

Definition codec_premises_b2 (verify : bytes -> bytes -> bytes -> res unit) (sign : bytes -> bytes -> bytes)
           (vid : bytes) : Prop := codec_premises verify sign vid.

Theorem codec_b2 : forall verify sign authic vids c n mid vid body,
  (auth c = true -> codec_premises verify sign vid) ->
  kind_of c <> KAck -> (authic = true -> auth c = true) ->
  n < 16777216 -> length mid = 24%nat -> is_b64 mid = true ->
  (auth c = true -> length vid = 44%nat /\ is_b64 vid = true) ->
  (kind_of c = KGram -> vids mid = (if auth c then vid else vids mid)) ->
  let p := {| r_code := c; r_curt := true; r_size := 0; r_mid := mid; r_vid := vid |} in
  pick verify authic vids (gram_of sign p c n (Nat.ltb 0 (vz c)) body) =
  Ok {| p_mid := mid;
        p_vid := (match kind_of c with
                  | KZero => if Nat.ltb 0 (vz c) then Some vid else None
                  | _ => vid_opt (vids mid) end);
        p_gn := (match kind_of c with KZero => 0 | _ => n end);
        p_gc := (match kind_of c with KZero => Some n | _ => None end);
        p_body := body |}.
Proof.
  intros verify sign authic vids c n mid vid body Hp Hk Ha Hn Lm Bm Hv Hvm p.
  destruct (to_bytes_ok 3 n) as [nb Tn]; [change (256 ^ N.of_nat 3) with 16777216; exact Hn|].
  destruct (from_to_bytes 3 n nb Tn) as (Fn & Lnb & _).
  destruct (enc_dec 6 mid Lm Bm) as [Em Lmd].
  set (V := if Nat.ltb 0 (vz c) then vid else []).
  assert (HV : enc (dec V) = V /\ length (dec V) = b2z (vz c)).
  { unfold V. destruct (Nat.ltb 0 (vz c)) eqn:E.
    - assert (A : auth c = true) by (destruct c; cbn in E; try discriminate; reflexivity).
      destruct (Hv A) as [L44 B44]. destruct (enc_dec 11 vid L44 B44) as [E1 E2].
      split; [exact E1|]. rewrite E2. destruct c; cbn in E; try discriminate; reflexivity.
    - split; [reflexivity|]. apply Nat.ltb_ge in E. assert (vz c = 0%nat) by lia. rewrite H. reflexivity. }
  destruct HV as [EV LV].
  destruct (code_b2_facts c (nb ++ dec mid ++ dec V ++ body ++ (if auth c then dec (sign vid (dec (code_text c) ++ nb ++ dec mid ++ dec V ++ body)) else [])))
    as (b0 & b1 & b2 & Dc & W24 & W27 & CB).
  set (H := dec (code_text c) ++ nb ++ dec mid ++ dec V).
  assert (LH : length H = (24 + b2z (vz c))%nat).
  { unfold H. rewrite !app_length, Dc, Lnb, Lmd, LV. cbn [length]. lia. }
  set (Stxt := if auth c then sign vid (H ++ body) else []).
  assert (HS : enc (dec Stxt) = Stxt /\ length (dec Stxt) = b2z (az c)).
  { unfold Stxt, az. destruct (auth c).
    - destruct (Hp eq_refl (H ++ body)) as (L88 & B88 & _). destruct (enc_dec 22 _ L88 B88) as [E1 E2].
      split; [exact E1|]. rewrite E2. reflexivity.
    - split; reflexivity. }
  destruct HS as [ES LS].
  assert (G : gram_of sign p c n (Nat.ltb 0 (vz c)) body = H ++ body ++ dec Stxt).
  { unfold gram_of, cvt, neck, p. cbn [r_curt r_mid r_vid]. rewrite Tn. unfold Stxt, H, V.
    destruct (Nat.ltb 0 (vz c)); destruct (auth c); rewrite <- ?app_assoc, ?app_nil_r; reflexivity. }
  rewrite G. clear G.
  assert (LG : length (H ++ body ++ dec Stxt) = (24 + b2z (vz c) + length body + b2z (az c))%nat)
    by (rewrite !app_length, LH, LS; lia).
  (* wiff and code *)
  assert (HH : H ++ body ++ dec Stxt = [b0; b1; b2] ++ (nb ++ dec mid ++ dec V ++ body ++ dec Stxt)).
  { unfold H. rewrite Dc, <- !app_assoc. reflexivity. }
  assert (W : pick verify authic vids (H ++ body ++ dec Stxt) = pick_b2 verify authic vids (H ++ body ++ dec Stxt)).
  { rewrite HH. cbn [app]. unfold pick. rewrite W24, W27. reflexivity. }
  rewrite W. clear W. unfold pick_b2.
  assert (E1 : Nat.ltb (length (H ++ body ++ dec Stxt)) 3 = false) by (apply Nat.ltb_ge; lia).
  rewrite E1.
  assert (CB' : codeB2ToB64 (H ++ body ++ dec Stxt) 4 = Ok (code_text c)).
  { rewrite HH. unfold Stxt, H. rewrite <- CB. reflexivity. }
  rewrite CB'. cbn [bind]. destruct (code_text_facts c) as (_ & _ & Cc). rewrite Cc.
  assert (E2 : authic && negb (auth c) = false).
  { destruct authic; [|reflexivity]. rewrite (Ha eq_refl). reflexivity. }
  rewrite E2.
  assert (E3 : Nat.ltb (length (H ++ body ++ dec Stxt)) (24 + b2z (vz c) + b2z (az c)) = false) by (apply Nat.ltb_ge; lia).
  rewrite E3.
  assert (SG : firstn (length (H ++ body ++ dec Stxt) - b2z (az c)) (H ++ body ++ dec Stxt) = H ++ body).
  { rewrite app_assoc. apply firstn_app_len. rewrite !app_length, LH, LS. lia. }
  assert (SS : skipn (length (H ++ body ++ dec Stxt) - b2z (az c)) (H ++ body ++ dec Stxt) = dec Stxt).
  { rewrite app_assoc. apply skipn_app_len. rewrite !app_length, LH, LS. lia. }
  rewrite SG, SS, ES.
  assert (N6 : slice 3 6 (H ++ body ++ dec Stxt) = nb).
  { unfold H. rewrite <- !app_assoc. apply slice_app; [rewrite Dc; reflexivity|rewrite Lnb; reflexivity]. }
  assert (M24 : slice 6 24 (H ++ body ++ dec Stxt) = dec mid).
  { unfold H. rewrite <- !app_assoc. rewrite (app_assoc (dec (code_text c))).
    apply slice_app; [rewrite app_length, Dc, Lnb; reflexivity|rewrite Lmd; reflexivity]. }
  assert (V24 : slice 24 (24 + b2z (vz c)) (H ++ body ++ dec Stxt) = dec V).
  { unfold H. rewrite <- !app_assoc. rewrite (app_assoc (dec (code_text c))), (app_assoc (dec (code_text c) ++ nb)).
    apply slice_app; [rewrite !app_length, Dc, Lnb, Lmd; reflexivity|rewrite LV; lia]. }
  assert (BD : skipn (24 + b2z (vz c)) (H ++ body) = body) by (apply skipn_app_len; exact LH).
  rewrite N6, M24, V24, BD, Fn, Em, EV.
  unfold finish. destruct (kind_of c) eqn:K; [| |contradiction].
  - destruct (auth c) eqn:A.
    + assert (Vv : V = vid). { unfold V. destruct c; cbn in *; try discriminate; reflexivity. }
      rewrite Vv. unfold Stxt. destruct (Hp eq_refl (H ++ body)) as (L88 & _ & Ver).
      destruct (sign vid (H ++ body)) as [|s0 sg] eqn:Sg; [cbn in L88; discriminate|].
      rewrite Ver. cbn [bind]. destruct (Hv eq_refl) as [L44 _].
      destruct vid as [|v0 vid']; [cbn in L44; discriminate|].
      assert (Z : Nat.ltb 0 (vz c) = true) by (destruct c; cbn in *; try discriminate; reflexivity).
      rewrite Z. reflexivity.
    + assert (Vn : V = []). { unfold V. destruct c; cbn in *; try discriminate; reflexivity. }
      assert (Z : Nat.ltb 0 (vz c) = false) by (destruct c; cbn in *; try discriminate; reflexivity).
      rewrite Vn, Z. unfold Stxt. cbn [bind]. reflexivity.
  - assert (Vn : V = []). { unfold V. destruct c; cbn in *; try discriminate; reflexivity. }
    rewrite Vn. specialize (Hvm eq_refl). destruct (auth c) eqn:A.
    + rewrite Hvm. unfold Stxt. destruct (Hp eq_refl (H ++ body)) as (L88 & _ & Ver).
      destruct (sign vid (H ++ body)) as [|s0 sg] eqn:Sg; [cbn in L88; discriminate|].
      rewrite Ver. cbn [bind]. reflexivity.
    + unfold Stxt. cbn [bind]. reflexivity.
Qed.
