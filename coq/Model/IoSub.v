(* Model of the keyed stores of hio.base.during (src/hio/base/during.py):
   Duror.suffix/unsuffix, the Duror Io* / IoSet* functions over one LMDB
   sub-database (Model/Lmdb.v), and Suber / IoSuber / IoSetSuber with their
   key joining (_tokey).  Values are the serialised bytes.  The second half is
   the SPEC side: a dictionary of values / lists / ordered sets.  NO proofs. *)
From Hio Require Import Base.Prelude Model.Lmdb.
Local Open Scope N_scope.

Definition ionsep : N := 46.   (* b'.'  Duror default sep / IoSuber.IonSep *)
Definition keysep : N := 95.   (* '_'   SuberBase.Sep, joins tuple keys *)
Definition ionmax : N := 2 ^ 128.          (* 16^32 *)
Definition maxsuffix : N := 2 ^ 128 - 1.   (* Duror.MaxSuffix = int("f"*32, 16) *)

(* ---- b"%032x" % ion ---- *)
Definition hexdig (d : N) : N := if N.ltb d 10 then 48 + d else 87 + d.
Fixpoint hexfix (w : nat) (n : N) : bytes :=
  match w with
  | O => []
  | S w' => hexfix w' (N.div n 16) ++ [hexdig (N.modulo n 16)]
  end.
Definition hex32 (n : N) : bytes :=
  if N.ltb n ionmax then hexfix 32%nat n
  else hexfix (Nat.div (N.size_nat n + 3)%nat 4%nat) n.   (* wider than 32 digits: never padded *)

(* sep.join((key, ion)) *)
Definition suffix (key : bytes) (ion : N) : bytes := key ++ ionsep :: hex32 ion.

(* iokey.rsplit(sep, 1): split at the LAST separator *)
Fixpoint rsplit (s : N) (l : bytes) : option (bytes * bytes) :=
  match l with
  | [] => None
  | x :: l' =>
    match rsplit s l' with
    | Some (a, b) => Some (x :: a, b)
    | None => if N.eqb x s then Some ([], l') else None
    end
  end.

(* int(ion, 16) on what suffix() wrote: lower-case hex digits.  Anything else is
   reported as ValueError (int() also accepts upper case, '_', blanks, 0x, a sign:
   never met, because every key in an Io sub-db was written by suffix()). *)
Definition hexval (c : N) : option N :=
  if N.leb 48 c && N.leb c 57 then Some (c - 48)
  else if N.leb 97 c && N.leb c 102 then Some (c - 87)
  else None.
Fixpoint parse_hex_acc (acc : N) (l : bytes) : option N :=
  match l with
  | [] => Some acc
  | c :: l' => match hexval c with
               | Some d => parse_hex_acc (acc * 16 + d) l'
               | None => None
               end
  end.
Definition parse_hex (l : bytes) : option N :=
  match l with [] => None | _ => parse_hex_acc 0 l end.

Definition unsuffix (iokey : bytes) : res (bytes * N) :=
  match rsplit ionsep iokey with
  | None => Exc ValueErr                       (* not enough values to unpack *)
  | Some (k, h) => match parse_hex h with
                   | Some i => Ok (k, i)
                   | None => Exc ValueErr
                   end
  end.

Definition dbb := db bytes.

(* ---- cursor scans ---- *)
(* for iokey, cval in cursor.iternext(): stop at the first entry of another key.
   Result: the (ion, value) of the entries run over. *)
Fixpoint scan (key : bytes) (after : dbb) : res (list (N * bytes)) :=
  match after with
  | [] => Ok []
  | (ik, v) :: rest =>
    match unsuffix ik with
    | Exc e => Exc e
    | Ok (ck, ci) =>
      if bytes_eqb ck key
      then match scan key rest with Ok l => Ok ((ci, v) :: l) | Exc e => Exc e end
      else Ok []
    end
  end.

(* ion = cion + 1 of the last entry run over, 0 if none *)
Definition next_ion (l : list (N * bytes)) : N :=
  match rev l with [] => 0 | (i, _) :: _ => i + 1 end.

(* remIoVals loop: delete while the entry under the cursor has this key.
   Result: what is left from the cursor on, and whether anything was deleted. *)
Fixpoint rem_scan (key : bytes) (after : dbb) : res (dbb * bool) :=
  match after with
  | [] => Ok ([], false)
  | (ik, v) :: rest =>
    match unsuffix ik with
    | Exc e => Exc e
    | Ok (ck, _) =>
      if bytes_eqb ck key
      then match rem_scan key rest with Ok (r, _) => Ok (r, true) | Exc e => Exc e end
      else Ok (after, false)
    end
  end.

(* remIoSetVal loop: delete the first entry of this key whose value equals val *)
Fixpoint remval_scan (key val : bytes) (after : dbb) : res (option dbb) :=
  match after with
  | [] => Ok None
  | (ik, v) :: rest =>
    match unsuffix ik with
    | Exc e => Exc e
    | Ok (ck, _) =>
      if bytes_eqb ck key
      then if bytes_eqb val v then Ok (Some rest)
           else match remval_scan key val rest with
                | Ok (Some r) => Ok (Some ((ik, v) :: r))
                | Ok None => Ok None
                | Exc e => Exc e
                end
      else Ok None
    end
  end.

(* consecutive cursor.put(suffix(key, ion+i), val, overwrite=ow); result as in the
   Python loops: [orr] = "result = put(..) or result", otherwise the last put *)
Fixpoint put_from (ow orr : bool) (d : dbb) (key : bytes) (ion : N) (vals : list bytes)
  (result : bool) : dbb * bool :=
  match vals with
  | [] => (d, result)
  | v :: vals' =>
    let (d', b) := db_put ow d (suffix key ion) v in
    put_from ow orr d' key (ion + 1) vals' (if orr then b || result else b)
  end.

(* oset(vals): first occurrences, in order *)
Fixpoint dedupe_acc (seen vals : list bytes) : list bytes :=
  match vals with
  | [] => []
  | v :: vals' => if existsb (bytes_eqb v) seen then dedupe_acc seen vals'
                  else v :: dedupe_acc (v :: seen) vals'
  end.
Definition dedupe (vals : list bytes) : list bytes := dedupe_acc [] vals.
Definition minus (vals pvals : list bytes) : list bytes :=
  filter (fun v => negb (existsb (bytes_eqb v) pvals)) vals.

(* ---- Duror Io functions: each returns the new db and the result; a raise
   aborts the transaction (db unchanged) ---- *)
Definition getIoVals (d : dbb) (key : bytes) : res (list bytes) :=
  match scan key (snd (seek d (suffix key 0))) with
  | Ok l => Ok (map snd l) | Exc e => Exc e end.

Definition getIoValFirst (d : dbb) (key : bytes) : res (option bytes) :=
  match snd (seek d (suffix key 0)) with
  | [] => Ok None
  | (ik, v) :: _ =>
    match unsuffix ik with
    | Exc e => Exc e
    | Ok (ck, _) => Ok (if bytes_eqb ck key then Some v else None)
    end
  end.

Definition getIoValLast (d : dbb) (key : bytes) : res (option bytes) :=
  let (before, after) := seek d (suffix key maxsuffix) in
  let found : res (option N) :=
    match after with
    | [] =>                                  (* max is past the end of the database *)
      match last_entry d with
      | None => Ok None
      | Some (ik, _) => match unsuffix ik with
                        | Exc e => Exc e
                        | Ok (ck, ci) => Ok (if bytes_eqb ck key then Some ci else None)
                        end
      end
    | (ik, _) :: _ =>
      match unsuffix ik with
      | Exc e => Exc e
      | Ok (ck, ci) =>
        if bytes_eqb ck key then Ok (Some ci)
        else match last_entry before with     (* cursor.prev() *)
             | None => Ok None
             | Some (ik', _) => match unsuffix ik' with
                                | Exc e => Exc e
                                | Ok (ck', ci') => Ok (if bytes_eqb ck' key then Some ci' else None)
                                end
             end
      end
    end in
  match found with
  | Exc e => Exc e
  | Ok None => Ok None
  | Ok (Some ion) => match db_get d (suffix key ion) with
                     | Some v => Ok (Some v)
                     | None => Exc TypeErr      (* bytes(None) *)
                     end
  end.

Definition popIoVal (d : dbb) (key : bytes) : dbb * res (option bytes) :=
  let (before, after) := seek d (suffix key 0) in
  match after with
  | [] => (d, Ok None)
  | (ik, v) :: rest =>
    match unsuffix ik with
    | Exc e => (d, Exc e)
    | Ok (ck, _) => if bytes_eqb ck key then (before ++ rest, Ok (Some v)) else (d, Ok None)
    end
  end.

Definition remIoVals (d : dbb) (key : bytes) : dbb * res bool :=
  let (before, after) := seek d (suffix key 0) in
  match rem_scan key after with
  | Exc e => (d, Exc e)
  | Ok (r, b) => (before ++ r, Ok b)
  end.

Definition addIoVal (d : dbb) (key val : bytes) : dbb * res bool :=
  match scan key (snd (seek d (suffix key 0))) with
  | Exc e => (d, Exc e)
  | Ok l => let (d', b) := db_put true d (suffix key (next_ion l)) val in (d', Ok b)
  end.

Definition putIoVals (d : dbb) (key : bytes) (vals : list bytes) : dbb * res bool :=
  match scan key (snd (seek d (suffix key 0))) with
  | Exc e => (d, Exc e)
  | Ok l => let (d', b) := put_from true false d key (next_ion l) vals false in (d', Ok b)
  end.

Definition pinIoVals (d : dbb) (key : bytes) (vals : list bytes) : dbb * res bool :=
  match remIoVals d key with
  | (d1, Exc e) => (d1, Exc e)
  | (d1, Ok _) => let (d', b) := put_from true false d1 key 0 vals false in (d', Ok b)
  end.

Definition addIoSetVal (d : dbb) (key val : bytes) : dbb * res bool :=
  match scan key (snd (seek d (suffix key 0))) with
  | Exc e => (d, Exc e)
  | Ok l =>
    if existsb (bytes_eqb val) (map snd l) then (d, Ok false)
    else let (d', b) := db_put false d (suffix key (next_ion l)) val in (d', Ok b)
  end.

Definition putIoSetVals (d : dbb) (key : bytes) (vals : list bytes) : dbb * res bool :=
  match scan key (snd (seek d (suffix key 0))) with
  | Exc e => (d, Exc e)
  | Ok l =>
    let (d', b) := put_from false true d key (next_ion l) (minus (dedupe vals) (map snd l)) false in
    (d', Ok b)
  end.

Definition pinIoSetVals (d : dbb) (key : bytes) (vals : list bytes) : dbb * res bool :=
  match remIoVals d key with
  | (d1, Exc e) => (d1, Exc e)
  | (d1, Ok _) => let (d', b) := put_from true true d1 key 0 (dedupe vals) false in (d', Ok b)
  end.

Definition remIoSetVal (d : dbb) (key val : bytes) : dbb * res bool :=
  let (before, after) := seek d (suffix key 0) in
  match remval_scan key val after with
  | Exc e => (d, Exc e)
  | Ok None => (d, Ok false)
  | Ok (Some r) => (before ++ r, Ok true)
  end.

(* ---- Suber / IoSuber / IoSetSuber ---- *)
(* _tokey: a str/bytes key is used as is (a one-part key here); a tuple is joined by '_' *)
Fixpoint join (s : N) (parts : list bytes) : bytes :=
  match parts with
  | [] => []
  | [p] => p
  | p :: ps => p ++ s :: join s ps
  end.
Definition tokey (parts : list bytes) : bytes := join keysep parts.

Inductive kind := Plain | Io | IoSet.

Inductive op :=
| OPut (k : list bytes) (vs : list bytes)   (* Plain: vs = [v] *)
| OPin (k : list bytes) (vs : list bytes)
| OAdd (k : list bytes) (v : bytes)
| OGet (k : list bytes)
| OGetFirst (k : list bytes)
| OGetLast (k : list bytes)
| OPop (k : list bytes)
| ORem (k : list bytes)
| ORemVal (k : list bytes) (v : bytes)      (* IoSetSuber.rem(keys, val) *)
| OCnt (k : list bytes)                     (* Plain: cntAll() *)
| ORaise (k : list bytes) (e : exn).        (* the value argument of a put / pin / add on key k is a lazy iterable
                                               (generator) that raises e while it is being consumed: Suber/IoSuber/
                                               IoSetSuber build the list of serialised values BEFORE calling into
                                               Duror, so the call has no effect *)

Inductive rv := RBool (b : bool) | ROpt (o : option bytes) | RList (l : list bytes) | RNat (n : N).

Definition rmap {A} (f : A -> rv) (x : res A) : res rv :=
  match x with Ok a => Ok (f a) | Exc e => Exc e end.

(* LMDB rejects empty keys (every call) and keys above 511 bytes (writes only; a read or
   delete of such a key just finds nothing): putVal/pinVal/getVal/remVal turn that into KeyError *)
Definition badkey (k : bytes) : bool := match k with [] => true | _ => Nat.ltb 511%nat (length k) end.
Definition emptykey (k : bytes) : bool := match k with [] => true | _ => false end.

Definition step_plain (d : dbb) (o : op) : dbb * res rv :=
  match o with
  | OPut k (v :: _) => let key := tokey k in
      if badkey key then (d, Exc KeyErr) else let (d', b) := db_put false d key v in (d', Ok (RBool b))
  | OPin k (v :: _) => let key := tokey k in
      if badkey key then (d, Exc KeyErr) else let (d', b) := db_put true d key v in (d', Ok (RBool b))
  | OGet k => let key := tokey k in
      if emptykey key then (d, Exc KeyErr) else (d, Ok (ROpt (db_get d key)))
  | ORem k => let key := tokey k in
      if emptykey key then (d, Exc KeyErr) else let (d', b) := db_del d key in (d', Ok (RBool b))
  | OCnt _ => (d, Ok (RNat (N.of_nat (length d))))
  | ORaise _ e => (d, Exc e)
  | _ => (d, Exc AttrErr)                    (* Suber has no such method *)
  end.

Definition lift {A} (f : A -> rv) (x : dbb * res A) : dbb * res rv := (fst x, rmap f (snd x)).

Definition step_io (set : bool) (d : dbb) (o : op) : dbb * res rv :=
  match o with
  | OAdd k v => lift RBool (if set then addIoSetVal d (tokey k) v else addIoVal d (tokey k) v)
  | OPut k vs => lift RBool (if set then putIoSetVals d (tokey k) vs else putIoVals d (tokey k) vs)
  | OPin k vs => lift RBool (if set then pinIoSetVals d (tokey k) vs else pinIoVals d (tokey k) vs)
  | OGet k => (d, rmap RList (getIoVals d (tokey k)))
  | OGetFirst k => (d, rmap ROpt (getIoValFirst d (tokey k)))
  | OGetLast k => (d, rmap ROpt (getIoValLast d (tokey k)))
  | OPop k => lift ROpt (popIoVal d (tokey k))
  | ORem k => lift RBool (remIoVals d (tokey k))
  | ORemVal k v =>
      if set then
        match v with
        | [] => lift RBool (remIoVals d (tokey k))          (* "if val:" is false *)
        | _ => lift RBool (remIoSetVal d (tokey k) v)
        end
      else (d, Exc TypeErr)                    (* IoSuber.rem takes no val *)
  | OCnt k => (d, rmap (fun l => RNat (N.of_nat (length l))) (getIoVals d (tokey k)))
  | ORaise _ e => (d, Exc e)
  end.

Definition step (kd : kind) (d : dbb) (o : op) : dbb * res rv :=
  match kd with
  | Plain => step_plain d o
  | Io => step_io false d o
  | IoSet => step_io true d o
  end.

Fixpoint run (kd : kind) (d : dbb) (ops : list op) : dbb * list (res rv) :=
  match ops with
  | [] => (d, [])
  | o :: ops' => let (d', r) := step kd d o in
                 let (d'', rs) := run kd d' ops' in (d'', r :: rs)
  end.

(* ================= SPEC side: a dictionary ================= *)
Section Spec.
  Context {K : Type} (keqb : K -> K -> bool).

  Definition upd {A} (s : K -> A) (k : K) (a : A) : K -> A :=
    fun k' => if keqb k' k then a else s k'.

  Definition nonempty {A} (l : list A) : bool := match l with [] => false | _ => true end.
  Definition ohd {A} (l : list A) : option A := match l with [] => None | a :: _ => Some a end.
  Definition olast {A} (l : list A) : option A := ohd (rev l).

  (* remove the first occurrence *)
  Fixpoint remove1 (v : bytes) (l : list bytes) : list bytes :=
    match l with
    | [] => []
    | x :: l' => if bytes_eqb v x then l' else x :: remove1 v l'
    end.

  (* key -> value *)
  Definition spec_plain (s : K -> option bytes) (o : op) (k : K) : (K -> option bytes) * res rv :=
    match o with
    | OPut _ (v :: _) => match s k with
                         | Some _ => (s, Ok (RBool false))
                         | None => (upd s k (Some v), Ok (RBool true))
                         end
    | OPin _ (v :: _) => (upd s k (Some v), Ok (RBool true))
    | OGet _ => (s, Ok (ROpt (s k)))
    | ORem _ => (upd s k None, Ok (RBool (match s k with Some _ => true | None => false end)))
    | ORaise _ e => (s, Exc e)
    | _ => (s, Exc AttrErr)
    end.

  (* key -> list of values (set = false) / insertion-ordered set of values (set = true) *)
  Definition spec_io (set : bool) (s : K -> list bytes) (o : op) (k : K) : (K -> list bytes) * res rv :=
    match o with
    | OAdd _ v =>
        if set && existsb (bytes_eqb v) (s k) then (s, Ok (RBool false))
        else (upd s k (s k ++ [v]), Ok (RBool true))
    | OPut _ vs =>
        let new := if set then minus (dedupe vs) (s k) else vs in
        (upd s k (s k ++ new), Ok (RBool (nonempty new)))
    | OPin _ vs =>
        let new := if set then dedupe vs else vs in
        (upd s k new, Ok (RBool (nonempty new)))
    | OGet _ => (s, Ok (RList (s k)))
    | OGetFirst _ => (s, Ok (ROpt (ohd (s k))))
    | OGetLast _ => (s, Ok (ROpt (olast (s k))))
    | OPop _ => (upd s k (tl (s k)), Ok (ROpt (ohd (s k))))
    | ORem _ => (upd s k [], Ok (RBool (nonempty (s k))))
    | ORemVal _ v =>
        if set then
          match v with
          | [] => (upd s k [], Ok (RBool (nonempty (s k))))
          | _ => (upd s k (remove1 v (s k)), Ok (RBool (existsb (bytes_eqb v) (s k))))
          end
        else (s, Exc TypeErr)
    | OCnt _ => (s, Ok (RNat (N.of_nat (length (s k)))))
    | ORaise _ e => (s, Exc e)
    end.
End Spec.

(* the abstraction of an Io sub-db: the values stored under user key k, in cursor order *)
Definition is_key (k : bytes) (e : bytes * bytes) : bool :=
  match unsuffix (fst e) with Ok (ck, _) => bytes_eqb ck k | Exc _ => false end.
Definition abs_io (d : dbb) (k : bytes) : list bytes := map snd (filter (is_key k) d).

(* dictionary histories; [key o] is the dictionary key an op addresses *)
Fixpoint spec_run_io {K} (keqb : K -> K -> bool) (set : bool) (key : op -> K)
  (s : K -> list bytes) (ops : list op) : list (res rv) :=
  match ops with
  | [] => []
  | o :: ops' => let (s', r) := spec_io keqb set s o (key o) in r :: spec_run_io keqb set key s' ops'
  end.
Fixpoint spec_run_plain {K} (keqb : K -> K -> bool) (key : op -> K)
  (s : K -> option bytes) (ops : list op) : list (res rv) :=
  match ops with
  | [] => []
  | o :: ops' => let (s', r) := spec_plain keqb s o (key o) in r :: spec_run_plain keqb key s' ops'
  end.

(* how many ordinals an op can consume *)
Definition weight (o : op) : N :=
  match o with
  | OAdd _ _ => 1
  | OPut _ vs | OPin _ vs => N.of_nat (length vs)
  | _ => 0
  end.
Definition weights (ops : list op) : N := fold_right (fun o a => weight o + a) 0 ops.

Definition kind_of (set : bool) : kind := if set then IoSet else Io.

(* is a a prefix of b *)
Fixpoint prefixb (a b : bytes) : bool :=
  match a, b with
  | [], _ => true
  | _ :: _, [] => false
  | x :: a', y :: b' => N.eqb x y && prefixb a' b'
  end.
(* two user keys are independent when neither, followed by the ion separator, starts the other
   (keys free of the separator are independent of every key free of it; "a" and "ab" are
   independent, "a" and "a.b" are not) *)
Definition indep2 (k k' : bytes) : Prop :=
  prefixb (k ++ [ionsep]) k' = false /\ prefixb (k' ++ [ionsep]) k = false.

Definition op_key (o : op) : list bytes :=
  match o with
  | OPut k _ | OPin k _ | OAdd k _ | OGet k | OGetFirst k | OGetLast k | OPop k | ORem k
  | ORemVal k _ | OCnt k | ORaise k _ => k
  end.

(* ================= several sub-stores in one environment =================
   A Duror environment holds NAMED sub-databases; Subery.reopen opens three of them:
   cans = DomSuber(subkey 'cans.'), drqs = DomIoSuber(subkey 'drqs.'), dsqs = DomIoSetSuber(subkey
   'dsqs.').  A store of kind k works on the sub-db named [subdb_name k] and on no other. *)
Definition kind_eqb (a b : kind) : bool :=
  match a, b with Plain, Plain | Io, Io | IoSet, IoSet => true | _, _ => false end.
Definition subdb_name (k : kind) : bytes :=
  match k with
  | Plain => [99; 97; 110; 115; 46]       (* "cans." *)
  | Io => [100; 114; 113; 115; 46]        (* "drqs." *)
  | IoSet => [100; 115; 113; 115; 46]     (* "dsqs." *)
  end.
Definition env := bytes -> dbb.
Definition env0 : env := fun _ => [].
Definition estep (E : env) (ko : kind * op) : env * res rv :=
  let (d', r) := step (fst ko) (E (subdb_name (fst ko))) (snd ko) in
  (upd bytes_eqb E (subdb_name (fst ko)) d', r).
Fixpoint erun (E : env) (ops : list (kind * op)) : env * list (res rv) :=
  match ops with
  | [] => (E, [])
  | ko :: ops' => let (E', r) := estep E ko in
                  let (E'', rs) := erun E' ops' in (E'', r :: rs)
  end.
(* the ops of one store, and the results at their positions *)
Fixpoint proj_ops (k : kind) (ops : list (kind * op)) : list op :=
  match ops with
  | [] => []
  | (k', o) :: ops' => if kind_eqb k' k then o :: proj_ops k ops' else proj_ops k ops'
  end.
Fixpoint proj_res {A} (k : kind) (ops : list (kind * op)) (rs : list A) : list A :=
  match ops, rs with
  | (k', _) :: ops', r :: rs' => if kind_eqb k' k then r :: proj_res k ops' rs' else proj_res k ops' rs'
  | _, _ => []
  end.

(* ================= correspondence ================= *)
Record case := { c_ops : list (kind * op);           (* the store each op goes to *)
                 c_results : list (res rv);
                 c_dump : list (list (bytes * bytes)) }.   (* full sub-db of the Plain, Io, IoSet store, cursor order *)

Definition rv_eqb (a b : rv) : bool :=
  match a, b with
  | RBool x, RBool y => Bool.eqb x y
  | ROpt x, ROpt y => option_eqb bytes_eqb x y
  | RList x, RList y => list_eqb bytes_eqb x y
  | RNat x, RNat y => N.eqb x y
  | _, _ => false
  end.

Definition check_case (c : case) : bool :=
  let (E, rs) := erun env0 (c_ops c) in
  list_eqb (res_eqb rv_eqb) rs (c_results c) &&
  list_eqb (list_eqb (pair_eqb bytes_eqb bytes_eqb))
    [E (subdb_name Plain); E (subdb_name Io); E (subdb_name IoSet)] (c_dump c).

(* branch id of one op outcome: 3 per op constructor (positive / negative / raise) *)
Definition op_index (o : op) : nat :=
  match o with
  | OPut _ _ => 0 | OPin _ _ => 1 | OAdd _ _ => 2 | OGet _ => 3 | OGetFirst _ => 4
  | OGetLast _ => 5 | OPop _ => 6 | ORem _ => 7 | ORemVal _ _ => 8 | OCnt _ => 9
  | ORaise _ _ => 9
  end.
Definition outcome (r : res rv) : nat :=
  match r with
  | Ok (RBool true) | Ok (ROpt (Some _)) | Ok (RList (_ :: _)) | Ok (RNat (Npos _)) => 0
  | Ok _ => 1
  | Exc _ => 2
  end.
Definition kind_index (k : kind) : nat := match k with Plain => 0 | Io => 1 | IoSet => 2 end.
Definition n_branches : nat := 90%nat.
Definition case_branches (c : case) : list nat :=
  map (fun p : (kind * op) * res rv =>
         (kind_index (fst (fst p)) * 30 + op_index (snd (fst p)) * 3 + outcome (snd p))%nat)
      (combine (c_ops c) (snd (erun env0 (c_ops c)))).
