(* Frame infrastructure for Model/Sched.v: every interpreter function changes
   the state only by a sequence of primitive updates (emit, set_gen, set_done,
   set_sched, out_of_fuel).  Any preorder on states that is preserved by the
   primitives is therefore preserved by the whole interpreter. *)
From Hio Require Import Base.Prelude Base.AMap Base.Time Model.Sched Proofs.SchedEqs.

Section Frame.
Context {T : Type} `{Time T}.

Inductive prim : st T -> st T -> Prop :=
| p_emit s k i : prim s (emit s k i)
| p_gen s i g : prim s (set_gen s i g)
| p_done s i d : prim s (set_done s i d)
| p_sched s i c : prim s (set_sched s i c)
| p_oof s : prim s (out_of_fuel s).

Inductive steps : st T -> st T -> Prop :=
| st_refl s : steps s s
| st_step a b c : steps a b -> prim b c -> steps a c.

Lemma steps_trans a b c : steps a b -> steps b c -> steps a c.
Proof. intros Hab Hbc. induction Hbc as [|x y z Hxy IHxy Hyz]; [assumption|]. eapply st_step; [apply IHxy; assumption|exact Hyz]. Qed.

(* continuation-style rules: backward chaining on the shape of the target state *)
Lemma k_emit a s k i : steps a s -> steps a (emit s k i).
Proof. intro. eapply st_step; [eassumption|constructor]. Qed.
Lemma k_gen a s i g : steps a s -> steps a (set_gen s i g).
Proof. intro. eapply st_step; [eassumption|constructor]. Qed.
Lemma k_done a s i d : steps a s -> steps a (set_done s i d).
Proof. intro. eapply st_step; [eassumption|constructor]. Qed.
Lemma k_sched a s i c : steps a s -> steps a (set_sched s i c).
Proof. intro. eapply st_step; [eassumption|constructor]. Qed.
Lemma k_deeds a s i d : steps a s -> steps a (set_deeds s i d).
Proof. intro. unfold set_deeds. now apply k_sched. Qed.
Lemma k_oof a s : steps a s -> steps a (out_of_fuel s).
Proof. intro. eapply st_step; [eassumption|constructor]. Qed.
Lemma k_if a (b : bool) s1 s2 : steps a s1 -> steps a s2 -> steps a (if b then s1 else s2).
Proof. destruct b; auto. Qed.

Variable tk : T.

(* the statement for all eleven functions at once *)
Definition frame_at (f : nat) : Prop :=
  (forall a s i s' r, steps a s -> gen_start tk f s i = (s', r) -> steps a s') /\
  (forall a s i k sc pc s' r, steps a s -> run_step tk f s i k sc pc = (s', r) -> steps a s') /\
  (forall a s i s' r, steps a s -> gen_send tk f s i = (s', r) -> steps a s') /\
  (forall a s i, steps a s -> steps a (gen_close tk f s i)) /\
  (forall a s i, steps a s -> steps a (close_own tk f s i)) /\
  (forall a s ds, steps a s -> steps a (close_list tk f s ds)) /\
  (forall a s sid ids s' r, steps a s -> enter_own tk f s sid ids = (s', r) -> steps a s') /\
  (forall a s ids acc s' r acc', steps a s -> enter_local tk f s ids acc = (s', r, acc') -> steps a s') /\
  (forall a s c es s' r, steps a s -> run_effects tk f s c es = (s', r) -> steps a s') /\
  (forall a s sid s' r, steps a s -> recur_pass tk f s sid = (s', r) -> steps a s') /\
  (forall a s sid s' r, steps a s -> recur_loop tk f s sid = (s', r) -> steps a s').

Ltac brk :=
  cbv zeta in *;
  repeat (match goal with
  | H : context [match ?x with _ => _ end] |- _ => destruct x eqn:?
  | |- context [match ?x with _ => _ end] => destruct x eqn:?
  end; cbv zeta in *).

Ltac fin :=
  repeat match goal with
  | H : (_, _) = (_, _) |- _ => inversion H; subst; clear H
  | H : (_, _, _) = (_, _, _) |- _ => inversion H; subst; clear H
  end.

Lemma frame_all : forall f, frame_at f.
Proof.
  induction f as [|f IH].
  - unfold frame_at. repeat split; intros.
    all: try match goal with
         | E : _ = (_, _) |- _ => cbn in E; inversion E; subst; clear E
         end; cbn; auto using k_oof.
  - destruct IH as (Ist & Irs & Isd & Icl & Ico & Ili & Ieo & Iel & Ief & Irp & Irl).
    (* directed backward chaining on the shape of the target state *)
    Ltac go Ist Irs Isd Icl Ico Ili Ieo Iel Ief Irp Irl :=
      let rec loop :=
        match goal with
        | |- steps ?a ?a => apply st_refl
        | H : steps ?a ?s |- steps ?a ?s => exact H
        | |- steps _ (emit _ _ _) => apply k_emit; loop
        | |- steps _ (set_gen _ _ _) => apply k_gen; loop
        | |- steps _ (set_done _ _ _) => apply k_done; loop
        | |- steps _ (set_deeds _ _ _) => apply k_deeds; loop
        | |- steps _ (set_sched _ _ _) => apply k_sched; loop
        | |- steps _ (out_of_fuel _) => apply k_oof; loop
        | |- steps _ (if _ then _ else _) => apply k_if; loop
        | |- steps _ (gen_close _ _ _ _) => apply Icl; loop
        | |- steps _ (close_own _ _ _ _) => apply Ico; loop
        | |- steps _ (close_list _ _ _ _) => apply Ili; loop
        | E : gen_start _ _ _ _ = (?s1, _) |- steps _ ?s1 => eapply Ist; [|exact E]; loop
        | E : run_step _ _ _ _ _ _ _ = (?s1, _) |- steps _ ?s1 => eapply Irs; [|exact E]; loop
        | E : gen_send _ _ _ _ = (?s1, _) |- steps _ ?s1 => eapply Isd; [|exact E]; loop
        | E : enter_own _ _ _ _ _ = (?s1, _) |- steps _ ?s1 => eapply Ieo; [|exact E]; loop
        | E : enter_local _ _ _ _ _ = (?s1, _, _) |- steps _ ?s1 => eapply Iel; [|exact E]; loop
        | E : run_effects _ _ _ _ _ = (?s1, _) |- steps _ ?s1 => eapply Ief; [|exact E]; loop
        | E : recur_pass _ _ _ _ = (?s1, _) |- steps _ ?s1 => eapply Irp; [|exact E]; loop
        | E : recur_loop _ _ _ _ = (?s1, _) |- steps _ ?s1 => eapply Irl; [|exact E]; loop
        end in loop.
    unfold frame_at. repeat split; intros.
    + rewrite gen_start_S in *. brk; fin; go Ist Irs Isd Icl Ico Ili Ieo Iel Ief Irp Irl.
    + rewrite run_step_S in *. brk; fin; go Ist Irs Isd Icl Ico Ili Ieo Iel Ief Irp Irl.
    + rewrite gen_send_S in *. brk; fin; go Ist Irs Isd Icl Ico Ili Ieo Iel Ief Irp Irl.
    + rewrite gen_close_S. brk; go Ist Irs Isd Icl Ico Ili Ieo Iel Ief Irp Irl.
    + rewrite close_own_S. cbv zeta. go Ist Irs Isd Icl Ico Ili Ieo Iel Ief Irp Irl.
    + rewrite close_list_S. brk; go Ist Irs Isd Icl Ico Ili Ieo Iel Ief Irp Irl.
    + rewrite enter_own_S in *. brk; fin; go Ist Irs Isd Icl Ico Ili Ieo Iel Ief Irp Irl.
    + rewrite enter_local_S in *. brk; fin; go Ist Irs Isd Icl Ico Ili Ieo Iel Ief Irp Irl.
    + rewrite run_effects_S in *. brk; fin; go Ist Irs Isd Icl Ico Ili Ieo Iel Ief Irp Irl.
    + rewrite recur_pass_S in *. cbv zeta in *. go Ist Irs Isd Icl Ico Ili Ieo Iel Ief Irp Irl.
    + rewrite recur_loop_S in *. brk; fin; go Ist Irs Isd Icl Ico Ili Ieo Iel Ief Irp Irl.
Qed.

End Frame.

(* Corollaries: any preorder preserved by the primitives is preserved by every
   interpreter function. *)
Section Preorder.
Context {T : Type} `{Time T}.
Variable P : st T -> st T -> Prop.
Hypothesis P_refl : forall s, P s s.
Hypothesis P_trans : forall a b c, P a b -> P b c -> P a c.
Hypothesis P_prim : forall a b, prim a b -> P a b.

Lemma steps_P a b : steps a b -> P a b.
Proof. induction 1 as [|x y z Hxy IH Hyz]; [apply P_refl|]. eapply P_trans; [exact IH|now apply P_prim]. Qed.
End Preorder.

Section Facts.
Context {T : Type} `{Time T}.

(* what the primitives never touch *)
Lemma steps_tyme (a b : st T) : steps a b -> tyme b = tyme a.
Proof.
  apply (steps_P (fun a b : st T => tyme b = tyme a)); [reflexivity|intros; congruence|].
  intros x y Hp. destruct Hp; reflexivity.
Qed.

Lemma steps_defs (a b : st T) : steps a b -> defs b = defs a.
Proof.
  apply (steps_P (fun a b : st T => defs b = defs a)); [reflexivity|intros; congruence|].
  intros x y Hp. destruct Hp; reflexivity.
Qed.

(* the trace only grows *)
Lemma steps_trace (a b : st T) : steps a b -> exists l, trace b = l ++ trace a.
Proof.
  apply (steps_P (fun a b : st T => exists l, trace b = l ++ trace a)).
  - intro s. now exists [].
  - intros x y z [l1 H1] [l2 H2]. exists (l2 ++ l1). now rewrite H2, H1, app_assoc.
  - intros x y Hp. destruct Hp; try (now exists []).
    eexists [_]. reflexivity.
Qed.

(* every event added carries the (unchanged) tyme *)
Lemma steps_trace_tyme (a b : st T) : steps a b ->
  exists l, trace b = l ++ trace a /\ Forall (fun e => e_tyme e = tyme a) l.
Proof.
  intro Hs.
  assert (Q : (exists l, trace b = l ++ trace a /\ Forall (fun e => e_tyme e = tyme a) l) /\ tyme b = tyme a).
  { induction Hs as [|x y z Hxy IH Hyz].
    - split; [exists []; split; [reflexivity|constructor]|reflexivity].
    - destruct IH as [[l [E F]] Ty].
      destruct Hyz; cbn [trace tyme emit set_gen set_done set_sched out_of_fuel];
        try (split; [exists l; split; assumption|assumption]).
      split; [|assumption]. eexists (_ :: l). split; [now rewrite E|].
      constructor; [exact Ty|exact F]. }
  exact (proj1 Q).
Qed.

(* running out of fuel is sticky *)
Lemma steps_oof (a b : st T) : steps a b -> oof a = true -> oof b = true.
Proof.
  apply (steps_P (fun a b : st T => oof a = true -> oof b = true)); [auto|auto|].
  intros x y Hp. destruct Hp; cbn; auto.
Qed.
End Facts.
