"""C16 — no client-sent bytes make the HTTP server's service loop raise (WSGI Server and BareServer);
no response bytes make the HTTP client's service loop raise; malformed input closes / error-flags only
that connection / response.

The real http.Server / http.BareServer / http.Client run over scripted fake sockets (a fake listen
socket hands out fake accepted sockets; the client gets a fake connected socket).  One *round* = the bytes
of that round are made readable, then .service() is called once."""
import errno, json, random as _random
from harness.core import coq_N, coq_list, coq_bool, coq_option, exn_kind

PROP = "C16"
COQ_REQUIRES = ["Hio.Model.HttpReqUrl", "Hio.Model.HttpTotal"]
COQ_CHECK = "HttpTotal.check_case"
COQ_CASE_TYPE = "HttpTotal.case"
COQ_BRANCHES = ("HttpTotal.case_branches", "HttpTotal.n_branches")
SHARD = 120
RULE = ("near-valid mutation: a valid request stream (1-3 pipelined requests: 9 methods, origin/absolute/IPv6 urls, "
        "Content-Length or chunked bodies with extensions and trailers, HTTP/1.0 and 1.1, keep-alive/close) or response "
        "stream (length/chunked/until-close bodies, 100 Continue, 204/304/HEAD, redirects, JSON, SSE) gets 0-2 edits from a "
        "catalogue (header without ': ', non-hex/signed/0x/_ chunk sizes, chunk extensions, bad chunk end, bad ports, "
        "unbalanced/invalid IPv6 brackets, oversized lines, >100 headers, bad method/version/status, odd Content-Length, "
        "invalid UTF-8, deep/invalid JSON, random byte flip/insert/delete, truncation) and is cut into 1-6 reads at random "
        "points (also inside CRLF), optionally followed by EOF; servers also serve a well-formed sibling connection. "
        "A case is non-trivial when it carries at least one edit (one edit away from a valid message)")
MODELLED = ["CPython generator/exception semantics (explicit parser state per yield)",
            "multidict.CIMultiDict / hio Hict (association list, identity = key.lower())",
            "str.split/strip/lower/int on latin-1 text, urllib.parse.urlsplit/.port/unquote (Gallina functions, swept against the stdlib in extra())",
            "ipaddress validity of a bracketed host, NFKC netloc check, json.loads outcome, host name resolution: external, recorded per case and passed to the model as finite tables",
            "tcp.Server/Remoter/Client byte transport over fake sockets (all bytes of a round are received in that round; sends never block)",
            "EventSource line parsing (only its exception behaviour: LineTooLong is an HTTPException caught by parseMessage; no such case generated)",
            "WSGI app fixed to a benign echo app; Responder internals (C18)"]

SIB = b"GET /sib HTTP/1.1\r\nHost: s\r\n\r\n"


# --------------------------------------------------------------------------- fake sockets

class FakeSock:
    def __init__(self, ca, port):
        self.ca, self.port = ca, port
        self.inq, self.eof, self.sent, self.closed = [], False, bytearray(), False

    def getpeername(self): return self.ca
    def getsockname(self): return ("127.0.0.1", self.port)
    def setblocking(self, b): pass
    def setsockopt(self, *a): pass
    def getsockopt(self, *a): return 1 << 20

    def recv(self, bs):
        if self.closed:
            raise OSError(errno.EBADF, "closed")
        if self.inq:
            d, rest = self.inq[0][:bs], self.inq[0][bs:]
            if rest:
                self.inq[0] = rest
            else:
                self.inq.pop(0)
            return bytes(d)
        if self.eof:
            return b""
        raise BlockingIOError(errno.EAGAIN, "again")

    def send(self, data):
        if self.closed:
            raise OSError(errno.EBADF, "closed")
        self.sent.extend(data)
        return len(data)

    def shutdown(self, how): pass
    def close(self): self.closed = True


class FakeListen:
    def __init__(self): self.pending = []

    def accept(self):
        if self.pending:
            s = self.pending.pop(0)
            return s, s.ca
        raise BlockingIOError(errno.EAGAIN, "again")

    def shutdown(self, how): pass
    def close(self): pass


class Recorder:
    """Wraps the external checks for the duration of one run and records argument -> outcome."""
    def __init__(self):
        self.ip6, self.nfkc, self.resolves = {}, {}, {}

    def __enter__(self):
        import urllib.parse as up
        from hio.core import coring
        self.up, self.coring = up, coring
        self.o1, self.o2, self.o3 = up._check_bracketed_host, up._checknetloc, coring.normalizeHost
        up.clear_cache()

        def cbh(h):
            try:
                self.o1(h)
            except ValueError:
                self.ip6[h] = False
                raise
            self.ip6[h] = True

        def cnl(n):
            try:
                self.o2(n)
            except ValueError:
                self.nfkc[n] = True
                raise
            if n and not n.isascii():
                self.nfkc[n] = False

        def nh(h):
            try:
                r = self.o3(h)
            except (OSError, UnicodeError):
                self.resolves[h] = False
                raise
            self.resolves[h] = True
            return r

        up._check_bracketed_host, up._checknetloc, coring.normalizeHost = cbh, cnl, nh
        return self

    def __exit__(self, *a):
        self.up._check_bracketed_host, self.up._checknetloc, self.coring.normalizeHost = self.o1, self.o2, self.o3
        self.up.clear_cache()

    def tables(self):
        f = lambda d: sorted([[list(map(ord, k)), v] for k, v in d.items()])
        return {"ip6": f(self.ip6), "nfkc": f(self.nfkc), "resolves": f(self.resolves)}


def _depth(v, d=0):
    if d > 60:
        return d
    if isinstance(v, list):
        return max([_depth(x, d + 1) for x in v] + [d + 1])
    if isinstance(v, dict):
        return max([_depth(x, d + 1) for x in v.values()] + [d + 1])
    return d


def _jv(v):
    """Python value from json.loads -> Gallina HttpTotal.jv"""
    if v is None:
        return "HttpTotal.JNull"
    if v is True or v is False:
        return f"(HttpTotal.JBool {coq_bool(v)})"
    if isinstance(v, (int, float)):
        return f"(HttpTotal.JNum {_s(json.dumps(v))})"
    if isinstance(v, str):
        return f"(HttpTotal.JStr {_s(v)})"
    if isinstance(v, list):
        return "(HttpTotal.JArr %s)" % coq_list([_jv(x) for x in v], "HttpTotal.jv")
    return "(HttpTotal.JObj %s)" % coq_list([f"({_s(k)}, {_jv(x)})" for k, x in v.items()], "HttpReqUrl.ustr * HttpTotal.jv")


def _json_outcome(body):
    """what json.loads does with a body (the external the model takes as a table): (outcome, value term, deep)"""
    try:
        v = json.loads(bytes(body).decode("utf-8"), object_pairs_hook=dict)
    except RecursionError:
        return "rec", "HttpTotal.JNull", False
    except ValueError:
        return "val", "HttpTotal.JNull", False
    if _depth(v) > 40:
        return "ok", "HttpTotal.JNull", True
    return "ok", _jv(v), False


# --------------------------------------------------------------------------- running the implementation

def _rounds(case):
    return [(bytes.fromhex(h), bool(e)) for h, e in case["rounds"]]


def _run_server(case):
    from hio.core.http import serving
    from hio.base import tyming
    served = {}

    def app(environ, start_response):
        body = environ["wsgi.input"].read()
        served.setdefault(environ["REMOTE_ADDR"], []).append(
            [environ["REQUEST_METHOD"], environ["SERVER_PROTOCOL"] == "HTTP/1.0", body.hex(), None])
        out = b"ok %d" % len(body)
        start_response("200 OK", [("Content-Type", "text/plain"), ("Content-Length", str(len(out)))])
        return [out]

    tymist = tyming.Tymist()
    orig_respond = serving.Steward.respond
    orig_build = serving.CustomResponder.build
    dumps_rec = set()
    if case["side"] == "wsgi":
        srv = serving.Server(port=8080, app=app, tymth=tymist.tymen())
    else:
        srv = serving.BareServer(port=8080, tymth=tymist.tymen())

        orig_build = serving.CustomResponder.build

        def build(self, *pa, **kwa):
            try:
                return orig_build(self, *pa, **kwa)
            except RecursionError:
                dumps_rec.add(getattr(self.steward, "_data_src", ""))
                raise

        def respond(self):
            entry = [self.requestant.method, self.requestant.version == (1, 0), bytes(self.requestant.body).hex(), None]
            served.setdefault(self.remoter.ca, []).append(entry)
            if self.requestant.jsoned:      # dictify just (re)assigned .data from this body
                self._data_src = entry[2]
            r = orig_respond(self)
            entry[3] = bytes(self.responder.msg).partition(b"\r\n\r\n")[2].hex()
            return r
        serving.Steward.respond = respond
        serving.CustomResponder.build = build
    try:
        ls = FakeListen()
        srv.servant.ss, srv.servant.opened = ls, True
        a = FakeSock(("127.0.0.1", 40001), 8080)
        b = FakeSock(("127.0.0.1", 40002), 8080)
        ls.pending += [a, b]
        rounds = _rounds(case)
        last_data = max([i for i, (d, e) in enumerate(rounds) if d] + [0])
        exc = None
        for i, (d, e) in enumerate(rounds):
            if d:
                a.inq.append(d)
            if e:
                a.eof = True
            if i == 0 or i == last_data + 1:
                b.inq.append(SIB)
            try:
                srv.service()
            except Exception as ex:  # the property: this must not happen
                exc = [exn_kind(ex), type(ex).__name__ + ": " + str(ex)[:120]]
                break
        return {"exc": exc, "closed": a.closed and a.ca not in srv.servant.ixes,
                "served": served.get(a.ca, []),
                "sib_served": len(served.get(b.ca, [])), "sib_closed": b.closed,
                "sib_responses": bytes(b.sent).count(b"HTTP/1.1 200 OK"),
                "sent_a": len(a.sent), "dumps_rec": sorted(dumps_rec)}
    finally:
        serving.Steward.respond = orig_respond
        serving.CustomResponder.build = orig_build
        for s in (srv.servant,):
            s.ss = None


def _run_client(case):
    from hio.core.http import clienting
    from hio.base import tyming
    tymist = tyming.Tymist()
    method = case.get("method", "GET")
    cl = clienting.Client(hostname="127.0.0.1", port=8080, method=method, path="/x", tymth=tymist.tymen(),
                          redirectable=bool(case.get("redirectable", True)), dictable=bool(case.get("dictable", False)))
    s = FakeSock(("127.0.0.1", 8080), 50000)
    cl.connector.cs = s
    cl.connector.accepted = True
    for _ in range(case.get("nreq", 1)):
        cl.request(method=method, path="/x")
    exc, responses, seen = None, [], 0
    for d, e in _rounds(case):
        if d:
            s.inq.append(d)
        if e:
            s.eof = True
        try:
            cl.service()
        except Exception as ex:
            exc = [exn_kind(ex), type(ex).__name__ + ": " + str(ex)[:120]]
            break
        while seen < len(cl.responses):   # snapshot at delivery: the body bytearray is reused later
            r = cl.responses[seen]
            responses.append([r["status"] or 0, bool(r["errored"]), bytes(r["body"]).hex(), len(r.get("redirects", []))])
            seen += 1
    reconnected = cl.connector.cs is not s
    return {"exc": exc, "responses": responses, "errored": bool(cl.respondent.errored), "reconnected": reconnected,
            "events": len(cl.events)}


def _run_reconnect(case):
    """The event stream reconnect of Client.service (cut off, reconnect timer expired, reconnect, resend with
    Last-Event-ID): the tcp connector's reopen()/serviceConnect() are replaced by a fake reconnect that installs a
    new fake socket; everything else is the real Client.  -> exception text or None, bytes resent"""
    from hio.core.http import clienting
    from hio.base import tyming
    tymist = tyming.Tymist()
    cl = clienting.Client(hostname="127.0.0.1", port=8080, method="GET", path="/ev", tymth=tymist.tymen(),
                          reconnectable=True, tymeout=0.5)
    s = FakeSock(("127.0.0.1", 8080), 50000)
    cl.connector.cs = s
    cl.connector.accepted = True
    socks = [s]

    def service_connect():
        if not cl.connector.connected:
            n = FakeSock(("127.0.0.1", 8080), 50001)
            socks.append(n)
            cl.connector.cs, cl.connector.accepted, cl.connector.cutoff = n, True, False
        return cl.connector.connected

    def reopen():
        cl.connector.cs, cl.connector.accepted, cl.connector.cutoff = None, False, False
        return True
    cl.connector.serviceConnect, cl.connector.reopen = service_connect, reopen
    cl.request()
    exc = None
    try:
        cl.service()
        for d, e in _rounds(case):
            if d:
                s.inq.append(d)
            cl.service()
        s.eof = True
        cl.service()
        for _ in range(4):
            tymist.tick(1.0)
            cl.service()
    except Exception as ex:
        exc = [exn_kind(ex), type(ex).__name__ + ": " + str(ex)[:120]]
    leid = cl.respondent.leid
    return {"exc": exc, "leid": None if leid is None else leid.encode("utf-8", "replace").hex(),
            "resent": bytes(socks[1].sent).hex() if len(socks) > 1 else ""}


def run_impl(case):
    import contextlib, io
    with Recorder() as rec, contextlib.redirect_stderr(io.StringIO()):
        obs = _run_server(case) if case["side"] in ("wsgi", "bare") else _run_client(case)
        if case.get("reconnect"):
            obs["reconnect"] = _run_reconnect(case)
    obs.update(rec.tables())
    bodies = [bytes.fromhex(x[2]) for x in obs.get("served", [])] + [bytes.fromhex(x[2]) for x in obs.get("responses", [])]
    js = {}
    for b in bodies:
        o, term, deep = _json_outcome(b)
        if o != "ok" or term != "HttpTotal.JNull" or deep:
            js[b.hex()] = [o, term, deep, b.hex() in obs.get("dumps_rec", [])]
    obs["json"] = sorted(js.items())
    return obs


# --------------------------------------------------------------------------- oracle

def oracle(case, obs):
    if obs["exc"]:
        return f"{case['side']} service() raised {obs['exc'][1]}"
    rc = obs.get("reconnect")
    if rc:
        if rc["exc"]:
            return f"client service() raised {rc['exc'][1]} while reconnecting to the event stream"
        if rc["leid"] and rc["resent"]:
            want = b"Last-Event-Id: " + bytes.fromhex(rc["leid"]) + b"\r\n"
            if want not in bytes.fromhex(rc["resent"]):
                return f"the request resent after the reconnect does not carry {want!r}"
    exp = case.get("expect")
    if case["side"] in ("wsgi", "bare"):
        if obs["sib_closed"] or obs["sib_served"] != 2:
            return f"sibling connection was affected: served {obs['sib_served']} of 2, closed={obs['sib_closed']}"
        if case["side"] == "wsgi" and obs["sib_responses"] != 2:
            return f"sibling connection got {obs['sib_responses']} responses of 2"
        if exp == "reject" and not (obs["closed"] and len(obs["served"]) == case.get("valid_before", 0)):
            return f"malformed request was not rejected by closing: closed={obs['closed']} served={len(obs['served'])}"
        if exp == "serve" and len(obs["served"]) != case.get("nvalid", 1):
            return f"well-formed stream: served {len(obs['served'])} of {case.get('nvalid', 1)} requests"
    else:
        if obs.get("reconnected"):
            return "harness: redirect left the fake connection"
        if exp == "error":
            k = case.get("valid_before", 0)
            if len(obs["responses"]) <= k or not obs["responses"][k][1]:
                return f"malformed response {k} was not reported through the error flag: {obs['responses'][:k + 1]}"
        if exp == "ok":
            n = case.get("nvalid", 1)
            if len(obs["responses"]) != n or any(r[1] for r in obs["responses"]):
                return f"well-formed stream: {len(obs['responses'])} of {n} responses, errored flags {[r[1] for r in obs['responses']]}"
    return None


def classify(case, obs, why):
    return None


def nontrivial(case, obs):
    return bool(case.get("edits"))


# --------------------------------------------------------------------------- Gallina

def coq_bytes(b):
    """bytes -> Gallina [bytes]; long runs are run-length coded and long literals are split (a single
    70 kB list literal overflows coqc's stack)."""
    b = bytes(b)
    if not b:
        return "(@nil N)"
    parts, i, lit = [], 0, bytearray()

    def flush():
        for k in range(0, len(lit), 2000):
            parts.append("of_bytes [" + ";".join("x%02x" % x for x in lit[k:k + 2000]) + "]")
        lit.clear()
    while i < len(b):
        j = i
        while j < len(b) and b[j] == b[i]:
            j += 1
        if j - i >= 48:
            flush()
            parts.append(f"HttpTotal.rep {b[i]}%N {j - i}%N")
        else:
            lit.extend(b[i:j])
        i = j
    flush()
    return "(" + " ++ ".join(parts) + ")"


def _ustr(cps):
    return coq_list([coq_N(c) for c in cps], "N")


def _s(text):
    return _ustr([ord(c) for c in text])


def _tbl(t):
    return coq_list([f"({_ustr(k)}, {coq_bool(v)})" for k, v in t], "HttpReqUrl.ustr * bool")


_EXN = None


def to_coq(case, obs):
    side = case["side"]
    if side == "wsgi":
        sd = "(HttpTotal.Server HttpTotal.Wsgi)"
    elif side == "bare":
        sd = "(HttpTotal.Server HttpTotal.Bare)"
    else:
        m = {"GET": "HttpTotal.MGet", "HEAD": "HttpTotal.MHead", "POST": "HttpTotal.MPost"}[case.get("method", "GET")]
        sd = f"(HttpTotal.Client {m} {coq_N(case.get('nreq', 1))} {coq_bool(case.get('redirectable', True))} {coq_bool(case.get('dictable', False))})"
    rounds = coq_list(["{| HttpTotal.r_data := %s; HttpTotal.r_eof := %s |}" % (coq_bytes(d), coq_bool(e)) for d, e in _rounds(case)],
                      "HttpTotal.rnd")
    jm = {"val": "HttpTotal.JValue", "rec": "HttpTotal.JRecursion", "ok": "HttpTotal.JOk"}
    js = coq_list(["(%s, {| HttpTotal.je_res := %s; HttpTotal.je_val := %s; HttpTotal.je_deep := %s; HttpTotal.je_rec := %s |})"
                   % (coq_bytes(bytes.fromhex(h)), jm[o], term, coq_bool(deep), coq_bool(rec))
                   for h, (o, term, deep, rec) in obs["json"]], "bytes * HttpTotal.jent")
    served = coq_list(["(%s, %s, %s, %s)" % (_s(m), coq_bool(v10), coq_bytes(bytes.fromhex(b)),
                                             "(@None bytes)" if r is None else f"(Some {coq_bytes(bytes.fromhex(r))})")
                       for m, v10, b, r in obs.get("served", [])], "HttpTotal.obs_served")
    resps = coq_list([f"({coq_N(st)}, {coq_bool(er)}, {coq_bytes(bytes.fromhex(b))}, {coq_N(nr)})" for st, er, b, nr in obs.get("responses", [])],
                     "HttpTotal.obs_resp")
    exc = coq_option(obs["exc"][0] if obs["exc"] else None, ty="exn")
    return ("{| HttpTotal.x_side := %s; HttpTotal.x_rounds := %s; HttpTotal.x_ip6 := %s; HttpTotal.x_nfkc := %s; "
            "HttpTotal.x_resolves := %s; HttpTotal.x_json := %s; HttpTotal.x_exc := %s; HttpTotal.x_closed := %s; "
            "HttpTotal.x_served := %s; HttpTotal.x_responses := %s; HttpTotal.x_errored := %s |}" % (
                sd, rounds, _tbl(obs["ip6"]), _tbl(obs["nfkc"]), _tbl(obs["resolves"]), js, exc,
                coq_bool(obs.get("closed", False)), served, resps, coq_bool(obs.get("errored", False))))


# --------------------------------------------------------------------------- generators

METHODS = ["GET", "HEAD", "PUT", "PATCH", "POST", "DELETE", "OPTIONS", "TRACE", "CONNECT"]


def _mk(side, stream, cuts=None, eof=False, settle=5, **kw):
    """Cut the stream at the given offsets into rounds, add settle rounds."""
    cuts = sorted(set(c for c in (cuts or []) if 0 < c < len(stream)))
    parts, prev = [], 0
    for c in cuts + [len(stream)]:
        parts.append(stream[prev:c]); prev = c
    rounds = [[p.hex(), False] for p in parts]
    if eof:
        rounds.append(["", True])
    rounds += [["", False]] * settle
    case = {"side": side, "rounds": rounds}
    case.update(kw)
    return case


def _chunked(rng, body, exts=False, trailers=False):
    out, i = b"", 0
    while i < len(body):
        n = rng.randint(1, max(1, len(body) - i))
        size = (b"%x" if rng.random() < 0.7 else b"%X") % n
        if exts and rng.random() < 0.6:
            size += rng.choice([b";a=b", b";x", b"; q=\"z\"", b";;", b";a=b;c=d"])
        out += size + b"\r\n" + body[i:i + n] + b"\r\n"
        i += n
    out += rng.choice([b"0", b"00", b"0;last"]) if exts else b"0"
    out += b"\r\n"
    if trailers:
        out += b"X-Trail: 1\r\n"
    return out + b"\r\n"


JSON_BODIES = [b'{"name":"cut emoji \\ud83d"}', b'"\\udc00\\ud800"', b'{"\\ud800k":[1,"\\udfff"]}', b'"\\u0000 \\ud83d\\ude00 \\uD83D\\uDE00"',
               b'[NaN, Infinity, -Infinity, 1e999, -0.0, 12345678901234567890123, 1.5e-7]', b'{"a":{"a":{"a":[1,{"b":null,"c":[true,false]}]}}}',
               b'"\xf0\x9f\x98\x80 \xc3\xa9 \x7f"', b'{"a":1,"a":2,"":""}', b'"\\ud83d', b'{"k":"\\ud83d\\u00e9\\"\\\\\\n\\t\\b\\f\\r/"}', b'[]', b'{}',
               b'"\xed\xa0\xbd"', b'\xef\xbb\xbf{}', b' \n[1 , 2]\t', b'"\\ud800\\ud800\\udc00"', b'[' * 30 + b'"\\udead"' + b']' * 30]


def _json_body(rng):
    k = rng.random()
    if k < 0.7:
        b = rng.choice(JSON_BODIES)
        if rng.random() < 0.2 and b:
            i = rng.randrange(len(b))
            b = b[:i] + bytes([rng.choice(b'\\"ud8{}[],:0 ')]) + b[i + rng.choice([0, 1]):]
        return b
    if k < 0.85:
        d = rng.choice([45, 200, 990, 1200])
        return b"[" * d + rng.choice([b"", b'"\\ud83d"', b"1"]) + b"]" * d
    d = rng.choice([3, 50, 995])
    return b'{"a":' * d + b'"\\udc00"' + b"}" * d


def _body(rng):
    k = rng.random()
    if k < 0.3:
        return b""
    if k < 0.45:
        return _json_body(rng)
    if k < 0.6:
        return bytes(rng.choice(b"abcxyz012 {}[]\":,") for _ in range(rng.randint(1, 40)))
    if k < 0.75:
        return json.dumps({"a": [1, 2, {"b": "c"}], "d": "é"}).encode()
    if k < 0.9:
        return bytes(rng.randrange(256) for _ in range(rng.randint(1, 30)))
    return b"[" * rng.choice([3, 900, 2000]) + b"]" * rng.choice([0, 3])


URLS = [b"/", b"/a/b", b"/a%20b?x=1&y=%C3%A9", b"/p?q#frag", b"http://h.example/x", b"http://h:8080/x?y=1",
        b"http://[::1]:80/z", b"http://[fe80::1%25eth0]/", b"http://u:p@h:1/", b"//h/x", b"*", b"/\xe9t\xe9", b"http://[v1.fe]/x",
        b"//%5B/x", b"/a;b=c", b"http://h\xe9:80/"]


def _request(rng, persist=True):
    method = rng.choice(METHODS)
    url = rng.choice(URLS)
    ver = b"HTTP/1.1" if rng.random() < 0.8 else rng.choice([b"HTTP/1.0", b"HTTP/1.2"])
    eol = b"\r\n" if rng.random() < 0.85 else b"\n"
    hs = [b"Host: x.example"]
    if rng.random() < 0.5:
        hs.append(rng.choice([b"Accept: */*", b"X-Thing: a: b", b"x-UPPER: \xe9", b"Cookie: a=1; b=2", b"X-Empty: "]))
    body = _body(rng) if method not in ("GET", "HEAD") or rng.random() < 0.2 else b""
    mode = rng.random()
    if body and mode < 0.4:
        hs.append(rng.choice([b"Transfer-Encoding: chunked", b"transfer-encoding: Chunked", b"Transfer-Encoding:  chunked", b"Transfer-Encoding: chunked \t",
                              b"Transfer-Encoding: \xa0chunked\x85"]))
        payload = _chunked(rng, body, exts=rng.random() < 0.4, trailers=rng.random() < 0.3)
    else:
        if body or rng.random() < 0.3:
            hs.append(b"Content-Length: %d" % len(body))
        payload = body
    if body and rng.random() < (0.85 if body[:1] in b'[{"' else 0.4):
        hs.append(rng.choice([b"Content-Type: application/json", b"Content-Type: application/JSON; charset=utf-8", b"Content-Type: text/plain"]))
    if ver == b"HTTP/1.0":
        if persist:
            hs.append(b"Connection: keep-alive")
    elif not persist:
        hs.append(rng.choice([b"Connection: close", b"connection: Close"]))
    rng.shuffle(hs)
    head = method.encode() + b" " + url + b" " + ver + eol + b"".join(h + eol for h in hs) + eol
    return head + payload


# edits: each returns the new stream or None when not applicable; `reject` tells whether the edit is known to
# make the message malformed for hio's parser (used by the labelled oracle, only for single-message streams)
def _e_nocolon(rng, s):
    i = s.find(b": ")
    if i < 0:
        return None
    r = s[:i] + rng.choice([b":", b" ", b"", b" :"]) + s[i + 2:]
    a, b = r.rfind(b"\n", 0, i) + 1, r.find(b"\n", i)
    return None if b": " in r[a:b if b >= 0 else len(r)] else r


def _e_chunksize(rng, s):
    i = s.find(b"\r\n\r\n")
    j = s.find(b"\r\n", i + 4)
    if b"hunked" not in s or i < 0 or j < 0:
        return None
    bad = rng.choice([b"+5", b"-5", b"0x5", b"1_0", b"zz", b"", b"5 5", b"\xb5", b"5\x00"])
    return s[:i + 4] + bad + s[j:]


def _e_chunksize_ok(rng, s):       # still valid: surrounding blanks, leading zeros, extension
    i = s.find(b"\r\n\r\n")
    if b"hunked" not in s or i < 0:
        return None
    return s[:i + 4] + rng.choice([b" ", b"\t", b"0", b"000"]) + s[i + 4:]


def _e_chunkext(rng, s):
    i = s.find(b"\r\n\r\n")
    j = s.find(b"\r\n", i + 4)
    if b"hunked" not in s or i < 0 or j < 0:
        return None
    return s[:j] + rng.choice([b";a=b", b";x", b";", b";=", b"; a = b ; c"]) + s[j:]


def _e_chunkend(rng, s):
    i = s.rfind(b"\r\n0")
    if b"hunked" not in s or i < 0:
        return None
    return s[:i] + rng.choice([b"X", b"\n", b" "]) + s[i:]


BAD_URLS = [b"http://h:99999/x", b"http://h:ab/x", b"http://[::1/x", b"http://::1]/x", b"http://[zz]/x", b"http://[1.2.3.4]/",
            b"http://h:8\xb2/", b"http://h:-1/", b"http://[::1]:65536/", b"//[/x", b"http://[v1]/", b"http://h: 80/", b"http://h:" + b"9" * 5000 + b"/"]
ODD_URLS = [b"http://h:/x", b"http://h:0/", b"http://h:65535/", b"http://[::ffff:1.2.3.4]/", b"http://h\xaa/", b"%", b"/%zz%e9%ff", b"http://[::1]x:1/",
            b"\x01/x", b"a:b", b"http://a@b@c:1/"]


def _e_url(urls):
    def f(rng, s):
        a = s.find(b" ")
        b = s.find(b" ", a + 1)
        if a < 0 or b < 0 or s.find(b"\n") < b:
            return None
        return s[:a + 1] + rng.choice(urls) + s[b:]
    return f


def _e_longline(rng, s):
    a = s.find(b" ")
    n = rng.choice([65500, 65536 - a - 1 - 9, 65537, 66000, 70000])
    k = rng.random()
    if k < 0.5 and a > 0:
        return s[:a + 1] + b"/" + b"a" * n + s[a + 1:]
    i = s.find(b"\n")
    return s[:i + 1] + b"X-Long: " + b"b" * n + b"\r\n" + s[i + 1:]


def _e_manyhdr(rng, s):
    i = s.find(b"\n")
    n = rng.choice([97, 98, 99, 100, 101, 120])
    return s[:i + 1] + b"".join(b"H%d: v\r\n" % k for k in range(n)) + s[i + 1:]


def _e_method(rng, s):
    a = s.find(b" ")
    return None if a < 0 else rng.choice([b"FOO", b"get", b"", b"G\xc9T", b"G_T"]) + s[a:]


def _e_method_odd(rng, s):      # still a valid request line for hio: str.split() splits on \x85, \xa0, \x1c-\x1f too
    a = s.find(b" ")
    return None if a < 0 else s[:a] + rng.choice([b"\x85", b"\xa0", b"\x1f", b"\t", b"  "]) + s[a + 1:]


def _e_version(rng, s):
    i = s.find(b"HTTP/1.")
    if i < 0:
        return None
    j = i + 8
    return s[:i] + rng.choice([b"HTTP/2.0", b"HTTX/1.1", b"http/1.1", b"HTTP/1", b"", b"HTTP/1.1 extra", b"HTTP/1.x"]) + s[j:]


def _e_clen(rng, s):
    i = s.find(b"Content-Length: ")
    if i < 0:
        return None
    j = s.find(b"\n", i)
    j = j - 1 if s[j - 1:j] == b"\r" else j
    v = rng.choice([b"-1", b"abc", b"1_0", b"+3", b" 3", b"", b"9" * 30, b"3 ", b"\xa03", b"0x3", b"1__0", b"\x1f3", b"3\x85", b"9" * 5000, b"\xb3"])
    return s[:i + 16] + v + s[j:]


def _e_flip(rng, s):
    if not s:
        return None
    i = rng.randrange(min(len(s), 400))
    k = rng.random()
    if k < 0.4:
        return s[:i] + bytes([rng.randrange(256)]) + s[i + 1:]
    if k < 0.7:
        return s[:i] + bytes([rng.choice(b"\r\n :;%[]\x00\xff")]) + s[i:]
    return s[:i] + s[i + 1:]


def _e_trunc(rng, s):
    return s[:rng.randrange(len(s))] if s else None


def _e_te(rng, s):
    i = s.find(b"\r\n\r\n")
    if i < 0:
        return None
    return s[:i] + b"\r\n" + rng.choice([b"Transfer-Encoding: chunked", b"Transfer-Encoding: gzip, chunked", b"Content-Length: 5", b"Connection: close",
                                         b"Connection: keep-alive, close", b"Content-Type: application/json"]) + s[i:]


REQ_EDITS = [("nocolon", _e_nocolon, "reject"), ("chunksize", _e_chunksize, "reject"), ("chunksize-ok", _e_chunksize_ok, None),
             ("chunkext", _e_chunkext, None), ("chunkend", _e_chunkend, "reject"), ("badurl", _e_url(BAD_URLS), "reject"),
             ("oddurl", _e_url(ODD_URLS), None), ("longline", _e_longline, None), ("manyhdr", _e_manyhdr, None),
             ("method", _e_method, "reject"), ("method-odd", _e_method_odd, None), ("version", _e_version, None), ("clen", _e_clen, None), ("flip", _e_flip, None),
             ("trunc", _e_trunc, None), ("addhdr", _e_te, None)]


def _cuts(rng, n):
    k = rng.choice([0, 0, 1, 2, 3, 5])
    cuts = [rng.randrange(1, n) for _ in range(k)] if n > 1 else []
    return cuts


def _cut_in_crlf(rng, s):
    pos = [i + 1 for i in range(len(s) - 1) if s[i:i + 2] == b"\r\n"]
    return [rng.choice(pos)] if pos else []


def _gen_server(rng):
    side = rng.choice(["wsgi", "bare"])
    nreq = rng.choice([1, 1, 1, 2, 3])
    reqs = [_request(rng, persist=(i < nreq - 1 or rng.random() < 0.6)) for i in range(nreq)]
    edits, label = [], None
    which = rng.randrange(nreq)
    ne = rng.choice([0, 1, 1, 1, 2])
    for _ in range(ne):
        name, f, lab = rng.choice(REQ_EDITS)
        r = f(rng, reqs[which])
        if r is not None:
            reqs[which] = r
            edits.append(name)
            label = lab if ne == 1 and len(edits) == 1 else None
    stream = b"".join(reqs)
    cuts = _cuts(rng, len(stream)) + (_cut_in_crlf(rng, stream) if rng.random() < 0.3 else [])
    if len(stream) > 60000:
        cuts += [rng.randrange(65000, min(len(stream), 66000))] if rng.random() < 0.5 and len(stream) > 65000 else []
    kw = {"edits": edits}
    if not edits:
        kw.update(expect="serve", nvalid=nreq)
    elif label == "reject" and edits[0] != "chunksize":
        kw.update(expect="reject", valid_before=which)
    elif label == "reject":
        kw.update(expect="reject", valid_before=which)
    eof = rng.random() < 0.25
    if eof and kw.get("expect") == "serve" and nreq > 1:
        del kw["expect"]      # a peer that closes right after sending is dropped before its pipelined requests are read
    return _mk(side, stream, cuts, eof=eof, settle=nreq + 3, **kw)


# ---- responses
LOCS_BAD = [None, b"", b"http:a:b", b"HTTP:a:80", b"http:///x", b"//", b":", b"a:b", b"http:x", b"x:99999", b"//@:", b"http://h:1:2/", b"http://:80/",
            b"http://[::1", b"////h:99999/", b"http://a..b/", b"////other/x", b"http://127.0.0.1:8080//evil:99999/", b"http://" + b"a" * 70 + b".com/",
            b"http://.x/", b"////", b"//h:99999/x", b"http://xn--/", b"http://\xe9..\xff/", b"http://h:99999/x", b"http://[::1/x", b"http://h:ab/x", b"http://nosuch.invalid/x", b"http://[::1]/x", b"//h\xe9.invalid/",
            b"http://%5B/x", b"http://h:%39%39%39%39%39/", b"http://[fe80::abcd]/x", b"http://[zz]/"]
def _loc_stays(loc):
    """True when a redirect to [loc] is refused or stays on the fake connection (same scheme, host and port): the
    harness must not open a real socket.  Mirrors the pure steps of Client.redirect with the stdlib."""
    import socket
    from urllib.parse import urlsplit, unquote
    try:
        text = loc.decode("latin-1")
        path, sep, query = text.partition("?")
        text = unquote(path) + (sep + query if sep else "")
        sp = urlsplit(text)
        port = sp.port
        host = sp.hostname
    except ValueError:
        return True
    if not host:
        return True
    if (sp.scheme or "").lower() == "https":
        return False
    i, j = host.rfind(":"), host.rfind("]")
    if i > j:
        if host[i + 1:]:
            port = host[i + 1:]
        host = host[:i]
    try:
        port = int(port) if port is not None else 80
        info = socket.getaddrinfo(host, None, socket.AF_INET, socket.SOCK_DGRAM, socket.IPPROTO_IP, 0)
    except (ValueError, OSError, UnicodeError):
        try:
            socket.getaddrinfo(host, None, socket.AF_INET6, socket.SOCK_DGRAM, socket.IPPROTO_IP, 0)
        except (OSError, UnicodeError, ValueError):
            return True
        return False
    return (info[0][4][0], port) == ("127.0.0.1", 8080)


def _rand_loc(rng):
    """near-valid Location: a plausible value with URL metacharacters and digits spliced in, or pure metacharacter soup"""
    for _ in range(20):
        if rng.random() < 0.6:
            loc = bytearray(rng.choice([x for x in LOCS_BAD + LOCS_OK if x]))
            for _ in range(rng.randint(1, 3)):
                i = rng.randrange(len(loc) + 1)
                loc[i:i] = bytes([rng.choice(b":/?#[]@:/0189.%")])
        else:
            loc = bytearray(rng.choice(b"htps:/?#[]@.0189ab%-") for _ in range(rng.randint(1, 12)))
        loc = bytes(loc)
        if _loc_stays(loc):
            return loc
    return b"/y"


# URL-structural characters percent-encoded once or twice, at the start of and inside the path: Client.redirect
# decodes the Location once; whatever is still encoded after that is path text and must stay encoded
def _enc_struct(rng):
    ch = rng.choice(b"/:[]@?#%")
    once = b"%%%02X" % ch
    twice = b"%25" + once[1:]
    return rng.choice([once, twice, twice, once.lower(), b"%2525" + once[1:]])


def _struct_loc(rng):
    head = rng.choice([b"/", b"/", b"", b"http://127.0.0.1:8080/", b"/a/"])
    parts = [_enc_struct(rng) for _ in range(rng.randint(1, 4))]
    tail = rng.choice([b"", b"x", b"h:99999/", b"a:b", b"/y?q=1", b"?k=%2526"])
    k = rng.randrange(len(parts) + 1)
    return head + b"".join(parts[:k]) + rng.choice([b"", b"p", b"0"]) + b"".join(parts[k:]) + tail


LOCS_OK = [b"/%252F%255Bx", b"/%252F%252Fh:99999/", b"/%2561%253Ab", b"/%253A%2540%2523", b"/a%252Fb%253Fc", b"/%2525", b"/x%25", b"/%25252F",
           b"/y", b"y?a=1", b"http://127.0.0.1:8080/z", b"/a%20b?x=%5B", b"?q", b"#f"]


def _response(rng, last=False, method="GET", redirect=None):
    ver = b"HTTP/1.1" if rng.random() < 0.8 else rng.choice([b"HTTP/1.0", b"HTTP/0.9", b"HTTP/1.5"])
    status = rng.choice([200, 200, 200, 201, 404, 500, 204, 304, 999, 100 + rng.randrange(900)])
    hs = []
    if redirect is not None:
        status = rng.choice([300, 301, 302, 303, 307])
        if redirect[0] is not None:
            hs.append(b"Location: " + redirect[0])
    elif status in (300, 301, 302, 303, 307, 100):
        status = 200
    eol = b"\r\n" if rng.random() < 0.85 else b"\n"
    body = _body(rng)
    pre = b""
    if rng.random() < 0.1:
        pre = b"HTTP/1.1 100 Continue" + eol + (b"X-Info: 1" + eol if rng.random() < 0.5 else b"") + eol
    nobody = status in (204, 304) or 100 <= status < 200 or method == "HEAD"
    mode = rng.random()
    closing = False
    if nobody:
        payload = b""
        if rng.random() < 0.5:
            hs.append(b"Content-Length: %d" % len(body))
    elif mode < 0.35:
        hs.append(rng.choice([b"Transfer-Encoding: chunked", b"transfer-encoding: CHUNKED", b"Transfer-Encoding:  chunked ", b"Transfer-Encoding: chunked\t"]))
        payload = _chunked(rng, body, exts=rng.random() < 0.4, trailers=rng.random() < 0.3)
    elif mode < 0.85 or not last:
        hs.append(b"Content-Length: %d" % len(body))
        payload = body
    else:
        payload, closing = body, True
    if rng.random() < 0.4:
        hs.append(rng.choice([b"Content-Type: application/json", b"Content-Type: Application/Json; charset=utf-8", b"Content-Type: text/plain",
                              b"Content-Type: text/html; charset=iso-8859-1"]))
    if rng.random() < 0.3:
        hs.append(rng.choice([b"Server: x", b"X-A: b: c", b"Connection: close", b"Keep-Alive: timeout=5", b"x-hi: \xe9\xff"]))
    rng.shuffle(hs)
    reason = rng.choice([b" OK", b"", b" Not Found Here", b" \xe9"])
    head = ver + b" " + str(status).encode() + reason + eol + b"".join(h + eol for h in hs) + eol
    return pre + head + payload, closing


def _e_status(rng, s):
    i = s.find(b"\n")
    j = i - 1 if s[i - 1:i] == b"\r" else i
    bad = rng.choice([b"HTTP/1.1 abc OK", b"HTTP/1.1 99 Low", b"HTTP/1.1 1000 High", b"HTTX/1.1 200 OK", b"HTTP/2.0 200 OK", b"", b"HTTP/1.1",
                      b"200 OK", b"HTTP/1.1 -200 OK", b"HTTP/1.1 2\xb20 OK", b" ", b"HTTP/3 200 OK"])
    return bad + s[j:]


def _e_status_odd(rng, s):
    i = s.find(b"\n")
    j = i - 1 if s[i - 1:i] == b"\r" else i
    return rng.choice([b"HTTP/1.1 +200 OK", b"HTTP/1.1 2_00 OK", b"HTTP/1.1\t200\tOK", b"HTTP/1.1 200", b"HTTP/1.1  200  OK", b"HTTP/1.1 0200 OK",
                       b"HTTP/1.1\xa0200 OK", b"HTTP/1.1 200\x85OK"]) + s[j:]


RESP_EDITS = [("nocolon", _e_nocolon, "error"), ("chunksize", _e_chunksize, "error"), ("chunksize-ok", _e_chunksize_ok, None),
              ("chunkext", _e_chunkext, None), ("chunkend", _e_chunkend, "error"), ("status", _e_status, "error"), ("status-odd", _e_status_odd, None),
              ("longline", _e_longline, None), ("manyhdr", _e_manyhdr, None), ("clen", _e_clen, None), ("flip", _e_flip, None),
              ("trunc", _e_trunc, None), ("addhdr", _e_te, None)]


def _sse_long(rng):
    """an event stream with an over-long line (no terminator in more than 64 KiB), then further responses on the same client"""
    n = rng.choice([66000, 70000, 131000])
    ev = rng.choice([b"", b"data: a\n\n", b"id: 1\r\n"]) + b"data: " + b"x" * n + rng.choice([b"", b"\n\n", b"\r"])
    head = b"HTTP/1.1 200 OK\r\nContent-Type: text/event-stream\r\n"
    first = head + b"Transfer-Encoding: chunked\r\n\r\n" + _chunked(rng, ev)
    nxt = rng.choice([b"HTTP/1.1 200 OK\r\nTransfer-Encoding: chunked\r\n\r\n2\r\nhi\r\n0\r\n\r\n",
                      b"HTTP/1.1 200 OK\r\nContent-Length: 2\r\n\r\nhi",
                      b"HTTP/1.1 200 OK\r\nContent-Type: text/plain\r\nTransfer-Encoding: chunked\r\n\r\n2\r\nhi\r\n0\r\n\r\n",
                      head + b"Transfer-Encoding: chunked\r\n\r\n" + _chunked(rng, b"data: ok\n\n"),
                      b""])
    return first + nxt + rng.choice([b"", nxt])


SSE_FIELDS = [b"retry: " + b"9" * 400 + b"\n", b"retry: 99999999999999999999\n", b"retry: 0\n", b"retry: 1e5\n", b"id: \xe2\x82\xac\n", b"id: \xf0\x9f\x98\x80x\n",
              b"id: \xc3\xa9\n", b"id: a: b\n", b"id:\n", b"id: \xff\xfe\n", b"id: 7\n", b"id: " + b"k" * 300 + b"\n", b"id: x\ty \n", b"retry: 10\nid: 1\n"]


def _sse_reconnect(rng):
    ev = b"".join(rng.choice(SSE_FIELDS) for _ in range(rng.randint(1, 3))) + b"data: x\n\n"
    if rng.random() < 0.3:
        ev += rng.choice(SSE_FIELDS) + b"data: y\n\n"
    return b"HTTP/1.1 200 OK\r\nContent-Type: text/event-stream\r\n\r\n" + ev


def _sse(rng, bad_utf8):
    ev = b"retry: 10\n\nid: 1\ndata: hello\ndata: wor\xc3\xa9ld\n\n: comment\r\nevent: x\rdata: {\"a\":1}\r\n\r\n"
    if bad_utf8:
        ev += rng.choice([b"data: \xff\xfe\n\n", b"\xc3(: v\n\n", b"id: \xed\xa0\x80\n\n", b"data: " + b"[" * 3000 + b"\n\n"])
    head = b"HTTP/1.1 200 OK\r\nContent-Type: text/event-stream\r\n"
    if rng.random() < 0.5:
        return head + b"Transfer-Encoding: chunked\r\n\r\n" + _chunked(rng, ev), False
    return head + b"\r\n" + ev, True


def _gen_client(rng):
    method = rng.choice(["GET", "GET", "HEAD", "POST"])
    nreq = rng.choice([1, 1, 2, 3])
    redirectable = rng.random() < 0.8
    kind = rng.random()
    edits, kw, resps, closing = [], {}, [], False
    if kind < 0.15:      # redirects
        bad = rng.random() < 0.6
        loc = rng.choice(LOCS_BAD) if bad else rng.choice(LOCS_OK)
        k2 = rng.random()
        if k2 < 0.35:
            loc = _rand_loc(rng)
        elif k2 < 0.6:
            for _ in range(20):
                loc = _struct_loc(rng)
                if _loc_stays(loc):
                    break
            else:
                loc = b"/%252F%255Bx"
        r1, _ = _response(rng, method=method, redirect=(loc,))
        # the redirect response must be self delimited
        if b"Content-Length" not in r1 and b"hunked" not in r1.lower():
            r1 = r1.replace(b"\r\n\r\n", b"\r\nContent-Length: 0\r\n\r\n", 1) if b"\r\n\r\n" in r1 else r1.replace(b"\n\n", b"\nContent-Length: 0\n\n", 1)
        r2, closing = _response(rng, last=True, method=method)
        resps = [r1, r2]
        nreq = 2
        edits = ["redirect-bad" if bad else "redirect"]
        if bad and redirectable and method != "HEAD" and not r1.startswith(b"HTTP/1.1 100"):
            pass
    elif kind < 0.25:    # server sent events, last response on the connection
        r, closing = _sse(rng, bad_utf8=rng.random() < 0.6)
        if rng.random() < 0.25:
            r, closing = _sse_long(rng), False
        elif rng.random() < 0.4:
            r, closing = _sse_reconnect(rng), True
            kw["reconnect"] = True
        resps = [r]
        nreq = 1
        edits = ["sse"]
        kw["dictable"] = rng.random() < 0.5
    else:
        resps = []
        for i in range(nreq):
            r, closing = _response(rng, last=(i == nreq - 1), method=method)
            resps.append(r)
        which = rng.randrange(nreq)
        ne = rng.choice([0, 1, 1, 1, 2])
        label = None
        for _ in range(ne):
            name, f, lab = rng.choice(RESP_EDITS)
            r = f(rng, resps[which])
            if r is not None:
                resps[which] = r
                edits.append(name)
                label = lab if ne == 1 and len(edits) == 1 else None
        if not edits and not closing:
            kw.update(expect="ok", nvalid=nreq)
        elif label == "error" and method != "HEAD" and not resps[which].startswith(b"HTTP/1.1 100"):
            kw.update(expect="error", valid_before=which)
        kw["dictable"] = rng.random() < 0.2
    stream = b"".join(resps)
    cuts = _cuts(rng, len(stream)) + (_cut_in_crlf(rng, stream) if rng.random() < 0.3 else [])
    eof = closing or rng.random() < 0.3
    if kw.get("expect") == "ok" and eof:
        pass
    return _mk("client", stream, cuts, eof=eof, settle=nreq + 3, method=method, nreq=nreq, redirectable=redirectable,
               edits=edits, **kw)


def generate(rng, tier):
    n = 420 if tier == "quick" else 6000
    out = []
    for i in range(n):
        out.append(_gen_server(rng) if rng.random() < 0.6 else _gen_client(rng))
    return out


def directed():
    H = b"Host: x\r\n"
    G = lambda side, s, **kw: _mk(side, s, kw.pop("cuts", None), eof=kw.pop("eof", False), settle=kw.pop("settle", 4), **kw)
    J = lambda body: b"POST /j HTTP/1.1\r\nContent-Type: application/json\r\nContent-Length: %d\r\n\r\n" % len(body) + body
    out = []
    for side in ("wsgi", "bare"):
        out += [
            G(side, b"GET /a%20b?x=1 HTTP/1.1\r\n" + H + b"\r\n", edits=[], expect="serve"),
            G(side, b"GET / HTTP/1.1\r\nHost:x\r\n\r\n", edits=["nocolon"], expect="reject"),                       # D15
            G(side, b"GET http://h:99999/x HTTP/1.1\r\n" + H + b"\r\n", edits=["badurl"], expect="reject"),          # D18
            G(side, b"GET http://[::1/x HTTP/1.1\r\n" + H + b"\r\n", edits=["badurl"], expect="reject"),
            G(side, b"GET http://h:ab/x HTTP/1.1\r\n" + H + b"\r\n", edits=["badurl"], expect="reject"),
            G(side, b"GET http://[::1]:8/x HTTP/1.1\r\n" + H + b"\r\n", edits=["oddurl"], expect="serve"),
            G(side, b"GET //%5B/x HTTP/1.1\r\n" + H + b"\r\n", edits=["oddurl"], expect="serve"),                    # Steward.respond re-split
            G(side, b"POST / HTTP/1.1\r\nTransfer-Encoding: chunked\r\n\r\n3;a=b\r\nabc\r\n0\r\n\r\n", edits=["chunkext"], expect="serve"),   # D17
            G(side, b"POST / HTTP/1.1\r\nTransfer-Encoding: chunked\r\n\r\n-3\r\nabc\r\n0\r\n\r\n", edits=["chunksize"], expect="reject"),  # D16
            G(side, b"POST / HTTP/1.1\r\nTransfer-Encoding: chunked\r\n\r\n0x3\r\nabc\r\n0\r\n\r\n", edits=["chunksize"], expect="reject"),
            G(side, b"POST / HTTP/1.1\r\nTransfer-Encoding: chunked\r\n\r\n3\r\nabcd\r\n0\r\n\r\n", edits=["chunkend"], expect="reject"),
            G(side, b"POST / HTTP/1.1\r\nTransfer-Encoding: chunked\r\n\r\n3\r\nabc\r\n0\r\nT: 1\r\n\r\nGET / HTTP/1.1\r\n\r\n", edits=[], expect="serve", nvalid=2),
            G(side, b"GET / HTTP/1.0\r\n\r\n", edits=[], expect="serve"),                                             # D19 non persistent
            G(side, b"GET / HTTP/1.1\r\nConnection: close\r\n\r\nGET / HTTP/1.1\r\n\r\n", edits=[], expect="serve", nvalid=1),
            G(side, b"GET / HTTP/1.0\r\nConnection: Keep-Alive\r\n\r\nGET /2 HTTP/1.0\r\n\r\n", edits=[], expect="serve", nvalid=2),
            G(side, b"FOO / HTTP/1.1\r\n\r\n", edits=["method"], expect="reject"),                                    # D19 errored request
            G(side, b"GET / HTTP/2.0\r\n\r\n", edits=["version"], expect="reject"),
            G(side, b"\r\nGET / HTTP/1.1\r\n\r\n", edits=["flip"], expect="reject"),
            G(side, b"POST / HTTP/1.1\r\nContent-Length: 2\r\n\r\n\xff\xfe", edits=["flip"], expect="serve"),          # D19 body decode
            G(side, b"POST / HTTP/1.1\r\nContent-Type: application/json\r\nContent-Length: 3000\r\n\r\n" + b"[" * 3000, edits=["deepjson"], expect="serve"),
            G(side, J(b'{"name":"cut emoji \\ud83d"}'), edits=["json"], expect="serve"),          # lone surrogate escape reaches the echo reply
            G(side, J(b'"\\udc00\\ud800 \\u0000 \\ud83d\\ude00"'), edits=["json"], expect="serve"),
            G(side, J(b'{"\\ud800k":[1,"\\udfff",{"x":null}],"n":[NaN,1e999,-0.0,12345678901234567890123]}'), edits=["json"], expect="serve"),
            G(side, J(b'"\xf0\x9f\x98\x80 \xc3\xa9 \x7f"') + b"GET /2?a=1&b=%C3%A9;c HTTP/1.1\r\nX-A: \xe9\r\n\r\n", edits=["json"], expect="serve", nvalid=2),  # data carried over
            G(side, J(b"[" * 1497 + b"]" * 1497), edits=["deepjson"], expect="serve"),               # parses, reply one level deeper
            G(side, J(b"[" * 990 + b'"\\udead"' + b"]" * 990), edits=["deepjson"], expect="serve"),
            G(side, b"POST / HTTP/1.1\r\nContent-Length: abc\r\n\r\n", edits=["clen"], expect="reject"),
            G(side, b"POST / HTTP/1.1\r\nContent-Length: 1_0\r\n\r\n0123456789", edits=["clen"], expect="serve"),
            G(side, b"POST / HTTP/1.1\r\nContent-Length: -1\r\n\r\n", edits=["clen"], expect="reject"),
            G(side, b"GET /" + b"a" * 70000 + b" HTTP/1.1\r\n\r\n", edits=["longline"], expect="reject", cuts=[30000, 65537, 65539]),
            G(side, b"GET /" + b"a" * 65526 + b" HTTP/1.1\r\n\r\n", edits=["longline"], cuts=[65540]),                  # line of exactly 65536
            G(side, b"GET /" + b"a" * 65527 + b" HTTP/1.1\r\n\r\n", edits=["longline"], expect="reject"),
            G(side, b"GET / HTTP/1.1\r\n" + b"".join(b"H%d: v\r\n" % i for i in range(101)) + b"\r\n", edits=["manyhdr"], expect="reject"),
            G(side, b"GET / HTTP/1.1\r\n" + b"".join(b"H%d: v\r\n" % i for i in range(100)) + b"\r\n", edits=["manyhdr"], expect="serve"),
            G(side, b"GET / HTTP/1.1\r\n\r\n", edits=[], expect="serve", cuts=[1, 2, 15, 17], eof=True),
            G(side, b"GET / HTTP/1.1\r\nHost: x", edits=["trunc"], eof=True),
            G(side, b"GET / HTTP/1.1\nHost: x\n\nGET /b HTTP/1.1\r\n\r\n", edits=[], expect="serve", nvalid=2),
            G(side, b"", edits=[], eof=True),
        ]
    C = lambda s, **kw: _mk("client", s, kw.pop("cuts", None), eof=kw.pop("eof", False), settle=kw.pop("settle", 4),
                            method=kw.pop("method", "GET"), nreq=kw.pop("nreq", 1), redirectable=kw.pop("redirectable", True), **kw)
    OK = b"HTTP/1.1 200 OK\r\nContent-Length: 2\r\n\r\nhi"
    SSEH = b"HTTP/1.1 200 OK\r\nContent-Type: text/event-stream\r\n"
    CH = lambda data: b"%x\r\n" % len(data) + data + b"\r\n0\r\n\r\n"
    out += [
        C(OK, edits=[], expect="ok"),
        C(OK + OK, nreq=2, edits=[], expect="ok", nvalid=2),
        C(b"HTTP/1.1 200 OK\r\nContent-Length:2\r\n\r\nhi", edits=["nocolon"], expect="error"),                       # D15
        C(b"HTTP/1.1 abc OK\r\n\r\n", edits=["status"], expect="error"),
        C(b"HTTX/1.1 200 OK\r\n\r\n", edits=["status"], expect="error"),
        C(b"HTTP/2.0 200 OK\r\n\r\n", edits=["status"], expect="error"),
        C(b"HTTP/1.1 200 OK\r\nTransfer-Encoding: chunked\r\n\r\n2;x=y\r\nhi\r\n0\r\n\r\n", edits=["chunkext"], expect="ok"),
        C(b"HTTP/1.1 200 OK\r\nTransfer-Encoding: chunked\r\n\r\n-2\r\nhi\r\n0\r\n\r\n", edits=["chunksize"], expect="error"),
        C(b"HTTP/1.1 100 Continue\r\n\r\n" + OK, edits=["continue"], expect="ok"),                                    # 100 Continue RuntimeError
        C(b"HTTP/1.1 100 Continue\r\nX: y\r\n\r\nHTTP/1.1 100 Continue\r\n\r\n" + OK, edits=["continue"], expect="ok", cuts=[10, 30]),
        C(b"HTTP/1.1 302 Found\r\nContent-Length: 0\r\n\r\n", edits=["redirect-bad"], expect="error"),                # redirect without Location
        C(b"HTTP/1.1 302 Found\r\nLocation: http://h:99999/x\r\nContent-Length: 0\r\n\r\n", edits=["redirect-bad"], expect="error"),
        C(b"HTTP/1.1 302 Found\r\nLocation: http://[::1/x\r\nContent-Length: 0\r\n\r\n", edits=["redirect-bad"], expect="error"),
        C(b"HTTP/1.1 302 Found\r\nLocation: http://h:ab/x\r\nContent-Length: 0\r\n\r\n", edits=["redirect-bad"], expect="error"),
        C(b"HTTP/1.1 302 Found\r\nLocation: http://nosuch.invalid/x\r\nContent-Length: 0\r\n\r\n", edits=["redirect-bad"], expect="error"),
        C(b"HTTP/1.1 302 Found\r\nLocation: /y\r\nContent-Length: 0\r\n\r\n" + OK, edits=["redirect"], expect="ok"),    # relative Location
        C(b"HTTP/1.1 302 Found\r\nLocation: ////h:99999/\r\nContent-Length: 0\r\n\r\n" + OK, nreq=2, edits=["redirect-bad"], expect="error"),   # path //h:99999/ re-split by build
        C(b"HTTP/1.1 302 Found\r\nLocation: http://a..b/\r\nContent-Length: 0\r\n\r\n" + OK, nreq=2, edits=["redirect-bad"], expect="error"),   # IDNA: empty label
        C(b"HTTP/1.1 302 Found\r\nLocation: http://" + b"a" * 70 + b".com/\r\nContent-Length: 0\r\n\r\n", edits=["redirect-bad"], expect="error"),
        C(b"HTTP/1.1 302 Found\r\nLocation: http://127.0.0.1:8080//evil:99999/\r\nContent-Length: 0\r\n\r\n", edits=["redirect-bad"], expect="error"),
        C(b"HTTP/1.1 302 Found\r\nLocation: ///x\r\nContent-Length: 0\r\n\r\n" + OK, edits=["redirect"], expect="ok"),
        C(b"HTTP/1.1 302 Found\r\nLocation: http:a:b\r\nContent-Length: 0\r\n\r\n" + OK, nreq=2, edits=["redirect-bad"], expect="error"),   # path a:b re-split by build: scheme 'a'
        C(b"HTTP/1.1 302 Found\r\nLocation: http:x\r\nContent-Length: 0\r\n\r\n" + OK, edits=["redirect"], expect="ok"),
        # doubly encoded structural characters stay encoded once: the follow-up path is /%2F%5Bx, not //[x
        C(b"HTTP/1.1 302 Found\r\nLocation: /%252F%255Bx\r\nContent-Length: 0\r\n\r\n" + OK, edits=["redirect"], expect="ok"),
        C(b"HTTP/1.1 302 Found\r\nLocation: /%252F%252Fh:99999/\r\nContent-Length: 0\r\n\r\n" + OK, edits=["redirect"], expect="ok"),
        C(b"HTTP/1.1 302 Found\r\nLocation: /%2561%253Ab\r\nContent-Length: 0\r\n\r\n" + OK, edits=["redirect"], expect="ok"),
        C(b"HTTP/1.1 302 Found\r\nLocation: %252F%252Fother%253A1/\r\nContent-Length: 0\r\n\r\n" + OK, edits=["redirect"], expect="ok"),
        C(b"HTTP/1.1 302 Found\r\nLocation: %2F%2Fh:99999/\r\nContent-Length: 0\r\n\r\n" + OK, nreq=2, edits=["redirect-bad"], expect="error"),   # singly encoded: //h:99999/ after the decode, refused
        C(b"HTTP/1.1 302 Found\r\nLocation: /%2F%2Fh:99999/\r\nContent-Length: 0\r\n\r\n" + OK, edits=["redirect"], expect="ok"),                # ///h:99999/: empty host, path /h:99999/
        C(b"HTTP/1.1 302 Found\r\nLocation: http://127.0.0.1:8080/%255B%253A%2540?k=%2526\r\nContent-Length: 0\r\n\r\n" + OK, edits=["redirect"], expect="ok"),
        C(b"HTTP/1.1 302 Found\r\nLocation: :\r\nContent-Length: 0\r\n\r\n" + OK, edits=["redirect"], expect="ok"),
        # an over-long SSE line kills the event parser; later responses on the same client must still be serviced
        C(SSEH + b"Transfer-Encoding: chunked\r\n\r\n" + CH(b"data: " + b"x" * 70000) + b"HTTP/1.1 200 OK\r\nTransfer-Encoding: chunked\r\n\r\n2\r\nhi\r\n0\r\n\r\n", nreq=2, edits=["sse-long"], settle=6),
        C(SSEH + b"Transfer-Encoding: chunked\r\n\r\n" + CH(b"data: " + b"x" * 70000) + OK + OK, nreq=2, edits=["sse-long"], settle=6),
        C(SSEH + b"\r\ndata: " + b"x" * 70000, edits=["sse-long"], eof=True, settle=5),
        # the reconnect of an event stream: huge retry, ids outside latin-1
        C(SSEH + b"\r\nretry: " + b"9" * 400 + b"\nid: 1\ndata: x\n\n", edits=["sse-reconnect"], eof=True, reconnect=True),
        C(SSEH + b"\r\nid: \xe2\x82\xac\ndata: x\n\n", edits=["sse-reconnect"], eof=True, reconnect=True),
        C(SSEH + b"\r\nid: \xc3\xa9 \xf0\x9f\x98\x80\nretry: 5\ndata: x\n\n", edits=["sse-reconnect"], eof=True, reconnect=True),
        C(SSEH + b"\r\nid: 7\ndata: x\n\n", edits=["sse-reconnect"], eof=True, reconnect=True),
        C(SSEH + b"Transfer-Encoding: chunked\r\n\r\n" + CH(b"data: a\n\ndata: " + b"y" * 40000) + SSEH + b"Transfer-Encoding: chunked\r\n\r\n" + CH(b"data: " + b"z" * 40000), edits=["sse-long"], settle=6),
        C(b"HTTP/1.1 302 Found\r\nLocation: http://h:ab/x\r\nContent-Length: 0\r\n\r\n" + OK, nreq=2, edits=["redirect-bad"]),  # next response still delivered
        # a redirected HEAD is re-sent as HEAD: its reply has no body even without Content-Length
        C(b"HTTP/1.1 303 See Other\r\nLocation: #f\r\n\r\nHTTP/1.1 200 \xe9\r\n\r\n", nreq=2, method="HEAD", edits=["redirect"], expect="ok", nvalid=1),
        C(b"HTTP/1.1 302 Found\r\nLocation: /y\r\nContent-Length: 9\r\n\r\nHTTP/1.1 200 OK\r\nContent-Length: 5\r\n\r\n" + OK, nreq=2, method="HEAD", edits=["redirect"], expect="ok", nvalid=2),
        C(b"HTTP/1.1 302 Found\r\nLocation: /y\r\nContent-Length: 0\r\n\r\nHTTP/1.1 200 OK\r\nContent-Length: 2\r\n\r\nhi", method="POST", edits=["redirect"], expect="ok"),
        C(b"HTTP/1.1 302 Found\r\nContent-Length: 0\r\n\r\n", redirectable=False, edits=["redirect-bad"], expect="ok"),
        C(b"HTTP/1.1 200 OK\r\nContent-Type: application/json\r\nContent-Length: 5000\r\n\r\n" + b"[" * 5000, edits=["deepjson"], expect="ok"),
        C(b"HTTP/1.1 200 OK\r\nContent-Length: 5000\r\n\r\n" + b"[" * 5000, edits=["deepjson"], expect="ok", dictable=True),
        C(b"HTTP/1.1 200 OK\r\nContent-Type: application/json\r\nContent-Length: 2\r\n\r\n\xff\xfe", edits=["flip"], expect="ok"),
        C(b"HTTP/1.1 200 OK\r\nContent-Type: text/event-stream\r\n\r\ndata: \xff\xfe\n\ndata: ok\n\n", edits=["sse"], eof=True),
        C(b"HTTP/1.1 200 OK\r\nContent-Type: text/event-stream\r\n\r\ndata: " + b"[" * 5000 + b"\n\n", edits=["sse"], dictable=True),
        C(b"HTTP/1.1 200 " + b"a" * 70000 + b"\r\n\r\n", edits=["longline"], expect="error"),
        C(b"HTTP/1.1 200 OK\r\n" + b"".join(b"h%d: v\r\n" % i for i in range(120)) + b"\r\n", edits=["manyhdr"], expect="error"),
        C(b"\x00\x01\x02\r\n\r\n", edits=["flip"], expect="error"),
        C(b"", edits=[], eof=True),
        C(b"HTTP/1.1 200 OK\r\n\r\nuntil close", edits=[], eof=True, expect="ok"),
        C(b"HTTP/1.1 200 OK\r\nContent-Length: 10\r\n\r\nshort", edits=["trunc"], eof=True),
        C(b"HTTP/1.1 200 OK\r\nContent-Len", edits=["trunc"], eof=True, cuts=[5]),
        C(b"HTTP/1.1 200 OK\r\nTransfer-Encoding: chunked\r\n\r\n5\r\nab", edits=["trunc"], eof=True),
        C(b"HTTP/1.1 200 OK\r\nTransfer-Encoding: chunked\r\n\r\n2\r\nab\r\n", edits=["trunc"], eof=True),
        C(b"HTTP/1.1 200 OK\r\nContent-Length: 10\r\n\r\n", edits=["trunc"], eof=True, expect="error"),
        C(b"HTTP/1.1 204 No Content\r\nContent-Length: 5\r\n\r\n" + OK, nreq=2, edits=[], expect="ok", nvalid=2),
        C(b"HTTP/1.1 200 OK\r\nContent-Length: 5\r\n\r\n" + OK, nreq=2, method="HEAD", edits=[], expect="ok", nvalid=2),
        C(b"HTTP/1.0 200 OK\r\nContent-Length: 2\r\n\r\nhiHTTP/1.1 abc\r\n\r\n", nreq=2, edits=["status"], expect="error", valid_before=1),
    ]
    return out


def shrink(case):
    rounds = case["rounds"]
    # merge all data into one round, then drop bytes from the end / the front of the data
    data = b"".join(bytes.fromhex(h) for h, e in rounds)
    eof = any(e for h, e in rounds)
    base = {k: v for k, v in case.items() if k not in ("rounds", "expect", "valid_before", "nvalid")}
    if sum(1 for h, e in rounds if h) > 1:
        yield dict(base, rounds=[[data.hex(), False]] + ([["", True]] if eof else []) + [["", False]] * 4)
    n = len(data)
    for cut in (n // 2, n // 4, 64, 16, 4, 1):
        if 0 < cut < n:
            yield dict(base, rounds=[[data[:n - cut].hex(), False]] + ([["", True]] if eof else []) + [["", False]] * 4)


def distribution(cases, obs):
    d = {}
    for c in cases:
        for e in c.get("edits") or ["none"]:
            k = c["side"] + ":" + e
            d[k] = d.get(k, 0) + 1
    return d


# --------------------------------------------------------------------------- extra: sweeps of the stdlib models

def extra(tier, ctx):
    """Sweep the Gallina models of int(), urlsplit/.port, unquote against the stdlib (separate Coq case file)."""
    from harness import core
    import urllib.parse as up
    rng = _random.Random(1601 + ctx.seed)
    n = 400 if tier == "quick" else 6000
    alpha = b"0123456789+-_ \t\x0b\x1c\x1f\x85\xa0\xb2ab%:/[]@?#.\xe9\xffA"
    terms, n_int, n_url, n_unq = [], 0, 0, 0
    for i in range(n):
        s = bytes(rng.choice(alpha) for _ in range(rng.randint(0, 7))).decode("latin-1")
        if rng.random() < 0.5:
            s = rng.choice(["", "+", "-", " ", "\xa0"]) + str(rng.randint(0, 10 ** rng.randint(1, 8))) + rng.choice(["", " ", "_", "\x85", "_1"])
        try:
            v = int(s)
            t = f"(Some {core.coq_Z(v)})"
        except ValueError:
            t = "(@None Z)"
        terms.append(f"(option_eqb Z.eqb (HttpReqUrl.py_int {_s(s)}) {t})")
        n_int += 1
    ualpha = "ab:/?#[]@%.1290-+\x01 \t\xe9AZ~_"
    hosts = ["h", "[::1]", "[::1", "h:80", "h:99999", "[v1.a]", "u@h", "", "[zz]", "h:", "é", "[::1]:8", "h:0x1", "[1.2.3.4]", "H:٣"]
    for i in range(n):
        if rng.random() < 0.5:
            u = rng.choice(["", "http:", "HTtp:", "a+b.c-d:", "1a:", ":"]) + rng.choice(["//", "/", "", "///"]) + rng.choice(hosts) + \
                rng.choice(["", "/p", "/p?q", "?q#f", "#f?x", "/a%20b", "/é"])
        else:
            u = "".join(rng.choice(ualpha) for _ in range(rng.randint(0, 10)))
        rec_ip6, rec_nfkc = {}, {}
        up.clear_cache()
        o1, o2 = up._check_bracketed_host, up._checknetloc

        def cbh(h, o1=o1, d=rec_ip6):
            try:
                o1(h)
            except ValueError:
                d[h] = False
                raise
            d[h] = True

        def cnl(nl, o2=o2, d=rec_nfkc):
            try:
                o2(nl)
            except ValueError:
                d[nl] = True
                raise
        up._check_bracketed_host, up._checknetloc = cbh, cnl
        try:
            try:
                r = up.urlsplit(u)
                try:
                    p = r.port
                    res = ("ok", list(r), p)
                except ValueError:
                    res = ("port",)
            except ValueError:
                res = ("split",)
        finally:
            up._check_bracketed_host, up._checknetloc = o1, o2
        f = lambda d: coq_list([f"({_s(k)}, {coq_bool(v)})" for k, v in sorted(d.items())], "HttpReqUrl.ustr * bool")
        orc = f"(HttpTotal.mk_oracle {f(rec_ip6)} {f(rec_nfkc)})"
        if res[0] == "ok":
            sc, nl, pa, q, fr = res[1]
            pt = "None" if res[2] is None else f"(Some {coq_N(res[2])})"
            exp = f"(Some ({_s(sc)}, {_s(nl)}, {_s(pa)}, {_s(q)}, {_s(fr)}, {pt}, {_s(r.hostname or '')}))"
        elif res[0] == "port":
            exp = "None"
        else:
            exp = "None"
        terms.append(f"(HttpTotal.urlsplit_agrees {orc} {_s(u)} {exp})")
        n_url += 1
    qalpha = "ab%0123456789cCeEfF \xe9+/€"
    for i in range(n):
        s = "".join(rng.choice(qalpha) for _ in range(rng.randint(0, 9)))
        if rng.random() < 0.3:
            s = up.quote(s) + rng.choice(["", "%", "%e", "%ff", "%ED%A0%80", "%F4%90%80%80", "%C0%80", "%E2%82"])
        terms.append(f"(HttpReqUrl.ustr_eqb (HttpReqUrl.unquote {_s(s)}) {_s(up.unquote(s))})")
        terms.append(f"(HttpReqUrl.ustr_eqb (HttpReqUrl.unquote_plus {_s(s)}) {_s(up.unquote_plus(s))})")
        n_unq += 2

    class D:
        PROP = "C16"
        COQ_REQUIRES = COQ_REQUIRES
        COQ_CHECK = "(fun b : bool => b)"
        COQ_CASE_TYPE = "bool"
        COQ_BRANCHES = None
    failing, _, errors, _ = core.eval_cases(D, terms, "sweep_" + tier, shard=500)
    for i in failing[:3]:
        ctx.violations.append({"kind": "stdlib-model", "why": "Gallina model of a stdlib function disagrees with CPython", "case": terms[i], "no_input": True})
    if errors:
        ctx.violations.append({"kind": "stdlib-model", "why": "sweep did not evaluate: " + errors[0][:500], "case": None, "no_input": True})
    # recursion boundary: a body that json.loads still accepts while json.dumps of the reply (one level deeper) does not
    scan = range(1470, 1530) if tier == "quick" else range(1300, 1700)
    nscan = 0
    for d in scan:
        for body in ((b"[" * d + b"]" * d,) if tier == "quick" else (b"[" * d + b"]" * d, b'{"a":' * d + b"1" + b"}" * d)):
            c = _mk("bare", b"POST /j HTTP/1.1\r\nContent-Type: application/json\r\nContent-Length: %d\r\n\r\n" % len(body) + body,
                    None, settle=2, edits=["deepjson"])
            o = run_impl(c)
            why = oracle(c, o)
            nscan += 1
            if why:
                ctx.violations.append({"kind": "oracle", "why": f"nesting depth {d}: {why}", "case": c})
                break
    # NFKC assumption used by the server model for latin-1 netlocs
    import unicodedata
    bad = [c for c in range(128, 256) if any(x in unicodedata.normalize("NFKC", chr(c)) for x in "/?#@:")]
    if bad:
        ctx.violations.append({"kind": "stdlib-model", "why": f"latin-1 characters whose NFKC form contains a delimiter: {bad}", "case": None, "no_input": True})
    return {"recursion_boundary_scan": nscan, "stdlib_sweeps": {"int": n_int, "urlsplit_port_hostname": n_url, "unquote": n_unq, "disagreements": len(failing)}}
