(* C05, part 1: the stop rule of Doist.do (cycle_loop / do_run), for every
   program and every time instance.  The run ends exactly after the first
   cycle at whose end the root deque is empty (done := True) or - when a
   truthy limit was given - the tyme has reached start + |limit| (done
   untouched). *)
From Hio Require Import Base.Prelude Base.AMap Base.Time Model.Sched Proofs.SchedEqs Proofs.SchedFrame
  Proofs.SchedCycleTick Proofs.SchedCycleDue.

Section Stop.
Context {T : Type} `{Time T}.
Implicit Types s : st T.
Variable tk : T.
Variable fuel : nat.

Definition pass_ok (r : @gres T) : bool :=
  match r with GYield _ | GReturn => true | _ => false end.

(* the pass of the cycle that starts in state s did not raise (and had enough fuel) *)
Definition cycle_ok s : bool := pass_ok (snd (recur_pass tk fuel s 0%N)).

(* the state at the end of that cycle: after the pass and the tick *)
Definition cycle_end s : st T :=
  let s1 := fst (recur_pass tk fuel s 0%N) in set_tyme s1 (tadd (tyme s1) tk).

Fixpoint after s (k : nat) : st T :=
  match k with O => s | S k' => after (cycle_end s) k' end.

Lemma after_S s k : after s (S k) = cycle_end (after s k).
Proof. revert s. induction k as [|k IH]; intro s; [reflexivity|]. cbn [after] in *. now rewrite IH. Qed.

(* the stop test applied at the end of a cycle *)
Definition stops (limit : option T) (stop : T) s2 : bool :=
  match deeds (get_sched s2 0%N) with
  | [] => true
  | _ => limited limit && tleb stop (tyme s2)
  end.

(* what do() does once the loop is left *)
Definition finish s2 : st T :=
  match deeds (get_sched s2 0%N) with
  | [] => emit (close_own tk fuel (set_done s2 0%N (Some true)) 0%N) DoReturn 0%N
  | _ => emit (close_own tk fuel s2 0%N) DoReturn 0%N
  end.

(* one cycle that does not stop: pass, tick, next cycle *)
Lemma cycle_loop_step c s limit stop :
  cycle_ok s = true -> stops limit stop (cycle_end s) = false ->
  cycle_loop tk (S c) fuel s limit stop = cycle_loop tk c fuel (cycle_end s) limit stop.
Proof.
  unfold cycle_ok, stops, cycle_end. cbn [cycle_loop].
  destruct (recur_pass tk fuel s 0%N) as [s1 r]. cbn [fst snd]. intros Ok St.
  destruct r as [t| |k|]; try discriminate; cbv zeta;
    (destruct (deeds _); [discriminate|]); unfold limited in St; rewrite St; reflexivity.
Qed.

Lemma cycle_loop_last c s limit stop :
  cycle_ok s = true -> stops limit stop (cycle_end s) = true ->
  cycle_loop tk (S c) fuel s limit stop = finish (cycle_end s).
Proof.
  unfold cycle_ok, stops, cycle_end, finish. cbn [cycle_loop].
  destruct (recur_pass tk fuel s 0%N) as [s1 r]. cbn [fst snd]. intros Ok St.
  destruct r as [t| |k|]; try discriminate; cbv zeta;
    (destruct (deeds _); [reflexivity|]); unfold limited in St; rewrite St; reflexivity.
Qed.

(* the stop rule *)
Theorem stop_rule limit stop : forall n cycles s,
  (n < cycles)%nat ->
  (forall j, (j <= n)%nat -> cycle_ok (after s j) = true) ->
  (forall j, (j < n)%nat -> stops limit stop (after s (S j)) = false) ->
  stops limit stop (after s (S n)) = true ->
  cycle_loop tk cycles fuel s limit stop = finish (after s (S n)).
Proof.
  induction n as [|n IH]; intros cycles s Hc Ok Ns St.
  - destruct cycles as [|c]; [lia|]. apply cycle_loop_last; [exact (Ok 0%nat (le_n _))|exact St].
  - destruct cycles as [|c]; [lia|].
    rewrite cycle_loop_step; [|exact (Ok 0%nat (Nat.le_0_l _))|exact (Ns 0%nat (Nat.lt_0_succ _))].
    apply IH; [lia| | |exact St].
    + intros j Hj. apply (Ok (S j)). lia.
    + intros j Hj. apply (Ns (S j)). lia.
Qed.

(* tyme at the end of cycle n (counted from 0) is n+1 ticks after the start *)
Lemma after_tyme : forall n s, tyme (after s n) = grid (tyme s) tk n.
Proof.
  induction n as [|n IH]; intro s; [reflexivity|]. rewrite after_S. unfold cycle_end.
  cbn [tyme set_tyme grid]. rewrite <- IH.
  destruct (recur_pass tk fuel (after s n) 0%N) as [s1 r] eqn:E. cbn [fst].
  now rewrite (steps_tyme _ _ (recur_pass_steps tk fuel _ _ _ _ E)).
Qed.

Lemma finish_tyme s2 : tyme (finish s2) = tyme s2.
Proof.
  unfold finish. destruct (deeds _).
  - destruct (end_facts tk fuel (set_done s2 0%N (Some true)) DoReturn) as (_ & F & _). exact F.
  - destruct (end_facts tk fuel s2 DoReturn) as (_ & F & _). exact F.
Qed.

(* the root flag after the run: True exactly through the empty-deque exit *)
Lemma finish_done s2 :
  get_done (finish s2) 0%N = match deeds (get_sched s2 0%N) with [] => Some true | _ => get_done s2 0%N end.
Proof.
  unfold finish. destruct (deeds _).
  - destruct (end_facts tk fuel (set_done s2 0%N (Some true)) DoReturn) as (_ & _ & F). rewrite F. apply get_done_same.
  - destruct (end_facts tk fuel s2 DoReturn) as (_ & _ & F). exact F.
Qed.

(* no limit (None or falsy): only the empty deque stops the run *)
Lemma stops_nolimit limit stop s2 : limited limit = false ->
  stops limit stop s2 = match deeds (get_sched s2 0%N) with [] => true | _ => false end.
Proof. intro L. unfold stops. rewrite L. reflexivity. Qed.

(* with a truthy limit *)
Lemma stops_limit limit stop s2 : limited limit = true ->
  stops limit stop s2 = match deeds (get_sched s2 0%N) with [] => true | _ => tleb stop (tyme s2) end.
Proof. intro L. unfold stops. rewrite L. reflexivity. Qed.

(* a pass that raises ends the run at once: no tick, forced exit, DoRaise / DoReturn *)
Lemma cycle_loop_raise c s limit stop s1 kbd :
  recur_pass tk fuel s 0%N = (s1, GRaise kbd) ->
  cycle_loop tk (S c) fuel s limit stop = emit (close_own tk fuel s1 0%N) (if kbd then DoReturn else DoRaise) 0%N.
Proof. intro E. cbn [cycle_loop]. rewrite E. destruct kbd; reflexivity. Qed.

(* nothing else can happen: a run of the cycle loop either exhausts a budget, or
   stops by the rule above, or is ended by a pass that raises *)
Theorem cycle_loop_cases limit stop : forall cycles s,
  oof (cycle_loop tk cycles fuel s limit stop) = true \/
  (exists n, (n < cycles)%nat /\
     (forall j, (j <= n)%nat -> cycle_ok (after s j) = true) /\
     (forall j, (j < n)%nat -> stops limit stop (after s (S j)) = false) /\
     stops limit stop (after s (S n)) = true /\
     cycle_loop tk cycles fuel s limit stop = finish (after s (S n))) \/
  (exists n s1 kbd, (n < cycles)%nat /\
     (forall j, (j < n)%nat -> cycle_ok (after s j) = true /\ stops limit stop (after s (S j)) = false) /\
     recur_pass tk fuel (after s n) 0%N = (s1, GRaise kbd) /\
     cycle_loop tk cycles fuel s limit stop =
       emit (close_own tk fuel s1 0%N) (if kbd then DoReturn else DoRaise) 0%N).
Proof.
  induction cycles as [|c IH]; intro s; [left; reflexivity|].
  destruct (recur_pass tk fuel s 0%N) as [s1 r] eqn:E.
  assert (Okc : pass_ok r = true -> cycle_ok s = true) by (unfold cycle_ok; rewrite E; auto).
  destruct (pass_ok r) eqn:Ok.
  - specialize (Okc eq_refl). destruct (stops limit stop (cycle_end s)) eqn:St.
    + right. left. exists 0%nat. split; [lia|]. split; [intros j Hj; replace j with 0%nat by lia; exact Okc|].
      split; [intros j Hj; lia|]. split; [exact St|]. now apply cycle_loop_last.
    + rewrite (cycle_loop_step c s limit stop Okc St).
      destruct (IH (cycle_end s)) as [O|[(n & Hn & A & B & C & Eq)|(n & s1' & kbd & Hn & A & B & Eq)]].
      * left. exact O.
      * right. left. exists (S n). split; [lia|]. split.
        { intros j Hj. destruct j as [|j]; [exact Okc|]. apply A. lia. }
        split. { intros j Hj. destruct j as [|j]; [exact St|]. apply B. lia. }
        split; [exact C|exact Eq].
      * right. right. exists (S n), s1', kbd. split; [lia|]. split.
        { intros j Hj. destruct j as [|j]; [split; [exact Okc|exact St]|]. apply A. lia. }
        split; [exact B|exact Eq].
  - destruct r as [t| |kbd|]; try discriminate.
    + right. right. exists 0%nat, s1, kbd. split; [lia|]. split; [intros j Hj; lia|]. split; [exact E|].
      now apply cycle_loop_raise.
    + left. cbn [cycle_loop]. rewrite E. exact (recur_pass_fuel tk fuel s 0%N s1 E).
Qed.

End Stop.

Section StopRun.
Context {T : Type} `{Time T}.

(* the state in which the cycle loop of do_run starts *)
Definition entered (fuel : nat) (p : prog T) : st T :=
  set_rlive (fst (enter_own (p_tock p) fuel (init_st p) 0%N (p_doers p))) true.
Definition enter_ok (fuel : nat) (p : prog T) : bool :=
  pass_ok (snd (enter_own (p_tock p) fuel (init_st p) 0%N (p_doers p))).
Definition run_limit (p : prog T) : option T := option_map tabs (p_limit p).
Definition run_stop (p : prog T) : T :=
  tadd (p_tyme p) (match run_limit p with Some l => l | None => tzero end).

Lemma do_run_loop cycles fuel p : enter_ok fuel p = true ->
  do_run cycles fuel p = cycle_loop (p_tock p) cycles fuel (entered fuel p) (run_limit p) (run_stop p).
Proof.
  unfold enter_ok, do_run, entered, run_limit, run_stop.
  destruct (enter_own (p_tock p) fuel (init_st p) 0%N (p_doers p)) as [s1 r] eqn:E. cbn [fst snd].
  assert (Ty : tyme s1 = p_tyme p) by exact (steps_tyme _ _ (enter_own_steps _ _ _ _ _ _ _ E)).
  intro Ok. destruct r; try discriminate; rewrite Ty; reflexivity.
Qed.

Lemma entered_tyme fuel p : tyme (entered fuel p) = p_tyme p.
Proof.
  unfold entered. destruct (enter_own (p_tock p) fuel (init_st p) 0%N (p_doers p)) as [s1 r] eqn:E. cbn [fst].
  exact (steps_tyme _ _ (enter_own_steps _ _ _ _ _ _ _ E)).
Qed.

(* the stop rule for a whole run: n = index of the first cycle at whose end the test holds *)
Theorem do_run_stop cycles fuel (p : prog T) n :
  let tk := p_tock p in let s0 := entered fuel p in
  enter_ok fuel p = true -> (n < cycles)%nat ->
  (forall j, (j <= n)%nat -> cycle_ok tk fuel (after tk fuel s0 j) = true) ->
  (forall j, (j < n)%nat -> stops (run_limit p) (run_stop p) (after tk fuel s0 (S j)) = false) ->
  stops (run_limit p) (run_stop p) (after tk fuel s0 (S n)) = true ->
  let s2 := after tk fuel s0 (S n) in
  do_run cycles fuel p = finish tk fuel s2 /\
  tyme (do_run cycles fuel p) = grid (p_tyme p) (p_tock p) (S n) /\
  get_done (do_run cycles fuel p) 0%N =
    match deeds (get_sched s2 0%N) with [] => Some true | _ => get_done s2 0%N end.
Proof.
  cbv zeta. intros Ok Hc Oks Ns St.
  rewrite (do_run_loop cycles fuel p Ok).
  rewrite (stop_rule (p_tock p) fuel _ _ n cycles _ Hc Oks Ns St).
  split; [reflexivity|]. split.
  - rewrite finish_tyme, after_tyme, entered_tyme. reflexivity.
  - apply finish_done.
Qed.

End StopRun.
