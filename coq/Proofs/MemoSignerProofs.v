(* The signer id attached to a delivered memo, for ANY receiver (authic or not):
   it is None unless a received gram carried that id in its zeroth-gram head and
   its signature verified for it.  The receiver's own vid is no input of the model. *)
From Hio Require Import Base.Prelude Model.B64 Model.MemoGram Model.MemoRx Proofs.MemoRxProofs.
Local Open Scope N_scope.

Section Signer.
  Variable verify : bytes -> bytes -> bytes -> res unit.
  Variable authic : bool.

  Lemma zero_vz_auth : forall c, (0 < vz c)%nat -> auth c = true.
  Proof. intros [] H; cbn in *; try lia; reflexivity. Qed.

  (* the signer id reported by pick: verified for this very gram, or the one already
     recorded for the memo id, or none *)
  Lemma pick_vid : forall vids gram p,
    pick verify authic vids gram = Ok p ->
    (exists v, p_vid p = Some v /\ signed_ok verify v (p_body p) gram) \/
    p_vid p = vid_opt (vids (p_mid p)) \/ p_vid p = None.
  Proof.
    intros vids gram p H. unfold pick in H. destruct gram as [|b0 g0]; [discriminate|].
    set (gram := b0 :: g0) in *.
    assert (Fin : forall c n mid vid sig sgram body raw,
               (vid <> [] -> auth c = true /\ sig <> []) ->
               gram = sgram ++ raw -> (sig = raw \/ sig = enc raw) ->
               (exists head, sgram = head ++ body) ->
               finish verify vids c n mid vid sig sgram body = Ok p ->
               (exists v, p_vid p = Some v /\ signed_ok verify v (p_body p) gram) \/
               p_vid p = vid_opt (vids (p_mid p)) \/ p_vid p = None).
    { intros c n mid vid sig sgram body raw Hv Hg Hr [head Hh] F.
      apply finish_ok in F. destruct F as (v & gn & gc & -> & Hver & Hc). cbn [p_vid p_body p_mid].
      destruct Hc as [(K & -> & _ & _) | (K & -> & _ & _)].
      - destruct vid as [|x vid']; [right; right; reflexivity|].
        destruct (Hv ltac:(discriminate)) as [_ Hs]. destruct Hver as [Hver|Hver]; [contradiction|].
        left. exists (x :: vid'). split; [reflexivity|]. exists sgram, sig, head, raw. auto.
      - destruct vid as [|x vid']; [right; left; reflexivity|].
        destruct (Hv ltac:(discriminate)) as [_ Hs]. destruct Hver as [Hver|Hver]; [contradiction|].
        left. exists (x :: vid'). split; [reflexivity|]. exists sgram, sig, head, raw. auto. }
    destruct (b0 / 4 =? 24).
    - unfold pick_b64 in H.
      destruct (Nat.ltb (length gram) 4); [discriminate|].
      destruct (negb (is_b64 (firstn 4 gram))); [discriminate|].
      destruct (code_of_text (firstn 4 gram)) as [c|]; [|discriminate].
      destruct (authic && negb (auth c)); [discriminate|].
      destruct (Nat.ltb (length gram) (32 + vz c + az c)) eqn:L; [discriminate|].
      apply Nat.ltb_ge in L.
      destruct (negb _); [discriminate|].
      destruct (b64ToInt (slice 4 8 gram)) as [n|k]; cbn [bind] in H; [|discriminate].
      eapply Fin; [| | | |exact H].
      + intros Hne. assert (Z : (0 < vz c)%nat).
        { destruct (vz c) eqn:E; [|lia]. exfalso. apply Hne. unfold slice. rewrite Nat.add_0_r, Nat.sub_diag. reflexivity. }
        pose proof (zero_vz_auth c Z) as A. split; [exact A|]. unfold az. rewrite A.
        intros C. apply (f_equal (@length N)) in C. rewrite skipn_length in C. cbn [length] in C. unfold az in L. rewrite A in L. lia.
      + symmetry. apply firstn_skipn.
      + left. reflexivity.
      + exists (firstn (32 + vz c) (firstn (length gram - az c) gram)). symmetry. apply firstn_skipn.
    - destruct (b0 / 4 =? 27); [|discriminate].
      unfold pick_b2 in H.
      destruct (Nat.ltb (length gram) 3) eqn:L3; [discriminate|].
      unfold codeB2ToB64 in H. change (nbytes 4) with 3%nat in H. rewrite L3 in H. cbn [bind] in H.
      destruct (code_of_text _) as [c|]; [|discriminate].
      destruct (authic && negb (auth c)); [discriminate|].
      destruct (Nat.ltb (length gram) (24 + b2z (vz c) + b2z (az c))) eqn:L; [discriminate|].
      apply Nat.ltb_ge in L.
      eapply Fin; [| | | |exact H].
      + intros Hne. assert (Z : (0 < vz c)%nat).
        { destruct (vz c) eqn:E; [|lia]. exfalso. apply Hne. unfold slice. cbn. reflexivity. }
        pose proof (zero_vz_auth c Z) as A. split; [exact A|]. unfold az. rewrite A.
        intros C. apply enc_nil in C. rewrite skipn_length in C. unfold az in L. rewrite A in L.
        change (b2z 88) with 66%nat in *. lia.
      + symmetry. apply firstn_skipn.
      + right. reflexivity.
      + exists (firstn (24 + b2z (vz c)) (firstn (length gram - b2z (az c)) gram)). symmetry. apply firstn_skipn.
  Qed.

  Variable H : list bytes.
  Definition vid_ok (ov : option bytes) : Prop :=
    forall v, ov = Some v -> exists b d, In d H /\ signed_ok verify v b d.

  Definition sinv (s : state) : Prop :=
    (forall g src, In (g, src) (queue s) -> In g H) /\
    Forall (fun e => vid_ok (e_vid e)) (rxgs s) /\
    Forall (fun m : memo => vid_ok (snd m)) (rxms s) /\ Forall (fun m : memo => vid_ok (snd m)) (inbox s).

  Lemma vids_of_ok : forall es mid, Forall (fun e => vid_ok (e_vid e)) es -> vid_ok (vid_opt (vids_of es mid)).
  Proof.
    intros es mid F. unfold vids_of. induction es as [|e es IH]; cbn [find_entry]; [intros v C; discriminate|].
    inversion F; subst. destruct (bytes_eqb (e_mid e) mid); [|apply IH; assumption].
    destruct (e_vid e) as [v|] eqn:E; [|intros v C; discriminate].
    intros v' C. destruct v; [discriminate|]. cbn in C. inversion C; subst. apply H2. reflexivity.
  Qed.

  Lemma store_vid_ok : forall es p src, Forall (fun e => vid_ok (e_vid e)) es -> vid_ok (p_vid p) ->
    Forall (fun e => vid_ok (e_vid e)) (store es p src).
  Proof.
    induction es as [|e es IH]; intros p src F Hp; cbn [store].
    - constructor; [exact Hp|constructor].
    - inversion F; subst. destruct (bytes_eqb (e_mid e) (p_mid p)).
      + constructor; [exact H2|exact H3].
      + constructor; [exact H2|apply IH; assumption].
  Qed.

  Lemma receive_one_vid_ok : forall es g src, In g H -> Forall (fun e => vid_ok (e_vid e)) es ->
    Forall (fun e => vid_ok (e_vid e)) (fst (receive_one verify authic es g src)).
  Proof.
    intros es g src Hg F. unfold receive_one.
    destruct (pick verify authic (vids_of es) g) as [p|k] eqn:P; [|destruct k; exact F].
    cbn [fst]. apply store_vid_ok; [exact F|].
    destruct (pick_vid _ _ _ P) as [(v & -> & S) | [-> | ->]].
    - intros v' C. inversion C; subst. exists (p_body p), g. auto.
    - apply vids_of_ok. exact F.
    - intros v C. discriminate.
  Qed.

  Lemma receives_vid_ok : forall q es, (forall g src, In (g, src) q -> In g H) -> Forall (fun e => vid_ok (e_vid e)) es ->
    let '(es', q', _) := receives verify authic es q in
    Forall (fun e => vid_ok (e_vid e)) es' /\ (forall g src, In (g, src) q' -> In g H).
  Proof.
    induction q as [|[g src] q IH]; intros es Hq F; cbn [receives].
    - split; [exact F|]. intros ? ? [].
    - assert (Hq' : forall g0 src0, In (g0, src0) q -> In g0 H) by (intros; eapply Hq; right; eauto).
      destruct g as [|b g]; [split; assumption|].
      pose proof (receive_one_vid_ok es (b :: g) src (Hq _ _ (or_introl eq_refl)) F) as R.
      destruct (receive_one verify authic es (b :: g) src) as [es' [k|]]; cbn in R.
      + split; assumption.
      + apply IH; assumption.
  Qed.

  Lemma receives_once_vid_ok : forall q es, (forall g src, In (g, src) q -> In g H) -> Forall (fun e => vid_ok (e_vid e)) es ->
    let '(es', q', _) := receives_once verify authic es q in
    Forall (fun e => vid_ok (e_vid e)) es' /\ (forall g src, In (g, src) q' -> In g H).
  Proof.
    intros [|[g src] q] es Hq F; cbn [receives_once].
    - split; [exact F|]. intros ? ? [].
    - assert (Hq' : forall g0 src0, In (g0, src0) q -> In g0 H) by (intros; eapply Hq; right; eauto).
      destruct g as [|b g]; [split; assumption|].
      pose proof (receive_one_vid_ok es (b :: g) src (Hq _ _ (or_introl eq_refl)) F) as R.
      destruct (receive_one verify authic es (b :: g) src) as [es' x]; cbn in R. split; assumption.
  Qed.

  Lemma rx_grams_vid_ok : forall es, Forall (fun e => vid_ok (e_vid e)) es ->
    Forall (fun e => vid_ok (e_vid e)) (fst (rx_grams es)) /\ Forall (fun m : memo => vid_ok (snd m)) (snd (rx_grams es)).
  Proof.
    induction es as [|e es IH]; intros F; cbn [rx_grams]; [split; constructor|].
    inversion F; subst. destruct (IH H3) as [Ik Id]. destruct (rx_grams es) as [k d]. cbn [fst snd] in *.
    destruct (e_count e) as [c|]; [|cbn; split; [constructor|]; assumption].
    destruct (fuse (e_grams e) c) as [[m|]|x]; cbn [fst snd]; try (split; [try constructor|]; assumption).
    split; [assumption|]. constructor; [exact H2|assumption].
  Qed.

  Lemma step_sinv : forall s o, (forall g src, o = Dgram g src -> In g H) -> sinv s -> sinv (fst (step verify authic s o)).
  Proof.
    intros s o Ho (Iq & Ie & Im & Ii).
    assert (R : forall once, sinv (fst (do_receives verify authic once s))).
    { intros once. unfold do_receives. destruct once.
      - pose proof (receives_once_vid_ok (queue s) (rxgs s) Iq Ie) as P.
        destruct (receives_once verify authic (rxgs s) (queue s)) as [[es q] x]. destruct P. repeat split; auto.
      - pose proof (receives_vid_ok (queue s) (rxgs s) Iq Ie) as P.
        destruct (receives verify authic (rxgs s) (queue s)) as [[es q] x]. destruct P. repeat split; auto. }
    assert (G : forall s0, sinv s0 -> sinv (do_rx_grams s0)).
    { intros s0 (Jq & Je & Jm & Ji). unfold do_rx_grams. destruct (rx_grams_vid_ok _ Je) as [Gk Gd].
      destruct (rx_grams (rxgs s0)) as [k d]. repeat split; auto. cbn. apply Forall_app. auto. }
    assert (M : forall once s0, sinv s0 -> sinv (do_rx_memos once s0)).
    { intros once s0 (Jq & Je & Jm & Ji). unfold do_rx_memos. destruct once.
      - destruct (rxms s0) as [|m r] eqn:E.
        + split; [exact Jq|]. split; [exact Je|]. split; [rewrite E; constructor|exact Ji].
        + inversion Jm; subst. split; [exact Jq|]. split; [exact Je|]. split; [assumption|].
          cbn [inbox]. apply Forall_app. split; [exact Ji|]. constructor; [assumption|constructor].
      - split; [exact Jq|]. split; [exact Je|]. split; [constructor|].
        cbn [inbox]. apply Forall_app. split; assumption. }
    destruct o; cbn [step].
    - repeat split; auto. cbn. intros g0 src0 Hin. apply in_app_or in Hin.
      destruct Hin as [Hin|[E|[]]]; [eapply Iq; eauto|]. inversion E; subst. eapply Ho; reflexivity.
    - apply R.
    - cbn [fst]. apply G. repeat split; auto.
    - cbn [fst]. apply (M false). repeat split; auto.
    - specialize (R false). destruct (do_receives verify authic false s) as [s' [k|]]; cbn [fst] in *; [exact R|].
      apply M, G, R.
    - specialize (R true). destruct (do_receives verify authic true s) as [s' [k|]]; cbn [fst] in *; [exact R|].
      apply M, G, R.
    - repeat split; auto.
  Qed.
End Signer.

Theorem run_sinv : forall verify authic H ops s, incl (dgrams ops) H -> sinv verify H s ->
  sinv verify H (fst (run verify authic s ops)).
Proof.
  intros verify authic H. induction ops as [|o ops IH]; intros s Hi I; cbn [run]; [exact I|].
  pose proof (step_sinv verify authic H s o) as S.
  destruct (step verify authic s o) as [s' x]. cbn [fst] in S.
  specialize (IH s'). destruct (run verify authic s' ops) as [s'' xs]. cbn [fst] in *.
  apply IH.
  - destruct o; cbn [dgrams] in Hi; try exact Hi. intros y Hy. apply Hi. right. exact Hy.
  - apply S; [|exact I]. intros g src ->. apply Hi. left. reflexivity.
Qed.
