(* Model of the request/response bookkeeping of hio.core.http.clienting.Client
   (src/hio/core/http/clienting.py): .requests deque, .waited, .latest,
   .responses, .redirects, the connector in use, and what reaches the wire;
   Client.request / serviceRequests / transmit / serviceResponse / redirect
   AFTER the fixes 4c3e4d0, c547b52, 0fbd53d (refused redirects are delivered as
   errored final responses), 8e2b43a (https -> http refusal takes that path) and
   af3fc6c (a followed redirect keeps the method of the redirected request).

   Methods: every tag has a method [mof tag] (0 GET, 1 HEAD, 2 POST, 3 PUT).  The
   state carries requester.method and respondent.method; the server answers a HEAD
   (and 204/304/1xx) without body bytes whatever Content-Length says, and the
   respondent consumes a reply only if its own idea of "this reply has no body"
   (Respondent.parseHead: method == HEAD or 204/304/1xx) matches what was sent -
   otherwise it waits for body bytes that never come, or stops early.

   One [Pass] is one Client.service(): serviceRequests, then the sends, then
   serviceResponse, which may complete at most one reply.  Response parsing is
   abstract: the schedule says in which pass a complete reply (status, Location,
   "server closes afterwards") has been consumed.  A reply is only accepted while
   a request is on the wire unanswered (servers do not answer what they did not
   receive).  Requests are identified by a tag (unique path + kwarg in the
   harness).  No proofs here. *)
From Hio Require Import Base.Prelude.
Local Open Scope N_scope.

Definition qargs := list (N * N).           (* query arguments, in order: key, value *)
(* what a request asks for: original request /t<id> or redirect follow-up /r<id>, and its query *)
Definition target := (bool * N * qargs)%type.
Record location := { l_host : option N;   (* None: relative Location *)
                     l_https : bool;      (* scheme of an absolute Location *)
                     l_query : qargs }.   (* the query of the Location *)
Record reply := { rp_id : N; rp_status : N; rp_loc : option location; rp_close : bool }.
(* Pass rc o: one Client.service(); rc = the connector's reconnect timer had expired at its start.
   Eof: the connector read the server's close (connector.cutoff); in the harness this happens in the
   receive step of the pass that also reads the last bytes of a reply, so it is placed before that Pass.
   Take: the application calls Client.respond() *)
Inductive event := Enq (t : N) | Pass (rc : bool) (o : option reply) | Eof | Take.

(* payload of a request: kind (0 none, 1 body=, 2 data=, 3 fargs=) and an id of its content *)
Definition payload := (N * N)%type.
Definition nopay : payload := (0, 0).
Definition hop := (N * option N)%type.      (* status and request tag of a redirect response *)
Record entry := { e_status : N; e_tag : option N; e_errored : bool; e_history : list hop;
                  e_target : target;           (* path/qargs of the entry's own request *)
                  e_targets : list target;     (* path/qargs of the request of every history hop *)
                  e_pay : payload }.           (* body/data/fargs in the entry's request dict *)

Inductive witem := WReq (t : N) | WRedir (k : N).
Record wentry := { w_conn : N; w_https : bool; w_host : N; w_item : witem; w_q : qargs;
                   w_pay : payload }.   (* body bytes / Content-Type the server received *)

Record cstate := {
  queue : list N;           (* .requests *)
  waited : bool;            (* .waited *)
  latest : option N;        (* .latest (its tag) *)
  responses : list entry;   (* every entry ever appended to .responses, in order (a log) *)
  redirects : list hop;     (* .redirects *)
  conn : N;                 (* how many connectors were created before the current one *)
  host : N; https : bool;   (* where the current connector points, requester.scheme *)
  cut : bool;               (* connector.cutoff: the server closed this connection *)
  sent : bool;              (* a request is on the wire and unanswered *)
  wire : list wentry;       (* what servers received, in order *)
  redirectable : bool;
  rq_method : N;            (* requester.method *)
  rs_method : N;            (* respondent.method *)
  reconn : bool;            (* connector.reconnectable with a tymeout *)
  pending : option (witem * qargs * payload);   (* a request sitting in connector.txbs of a cut off connection *)
  rq_pay : payload;         (* requester.body / .data / .fargs *)
  qlog : list (N * qargs);  (* per queued tag: the qargs its request dict got in Client.request (append only) *)
  ntaken : nat;             (* how many entries Client.respond() has handed out: .responses = skipn ntaken responses *)
  takes : list (option entry);   (* what each Client.respond() call returned *)
  rq_target : target;       (* requester.path / .qargs *)
  rtargets : list target }. (* the requests of the entries in .redirects *)

Definition init_m (rcn sec rd : bool) (m : N) : cstate :=
  {| queue := []; waited := false; latest := None; responses := []; redirects := [];
     conn := 0; host := 0; https := sec; cut := false; sent := false; wire := []; redirectable := rd;
     rq_method := m; rs_method := m; reconn := rcn; pending := None; rq_pay := nopay; qlog := []; ntaken := 0%nat; takes := []; rq_target := (false, 0, []); rtargets := [] |}.
Definition init (sec rd : bool) : cstate := init_m false sec rd 0.

Definition HEAD : N := 1.
(* Respondent.parseHead: the reply has no body *)
Definition no_body (m st : N) : bool :=
  (m =? HEAD) || (st =? 204) || (st =? 304) || ((100 <=? st) && (st <? 200)).

Definition is_redirect (st : N) : bool :=
  (st =? 300) || (st =? 301) || (st =? 302) || (st =? 303) || (st =? 307).

(* Client.request *)
(* httping.updateQargsQuery: the path's query arguments are written into the dict (existing keys keep
   their place, new keys are appended) *)
Fixpoint qset (q : qargs) (k v : N) : qargs :=
  match q with
  | [] => [(k, v)]
  | (k', v') :: r => if k' =? k then (k, v) :: r else (k', v') :: qset r k v
  end.
Definition merge (base upd : qargs) : qargs := fold_left (fun acc kv => qset acc (fst kv) (snd kv)) upd base.

(* Client.request: qargs given, or a COPY of the requester's current qargs *)
Definition enq (qof : N -> option qargs) (s : cstate) (t : N) : cstate :=
  {| queue := queue s ++ [t]; waited := waited s; latest := latest s; responses := responses s;
     redirects := redirects s; conn := conn s; host := host s; https := https s; cut := cut s;
     sent := sent s; wire := wire s; redirectable := redirectable s;
       rq_method := rq_method s; rs_method := rs_method s;
       reconn := reconn s; pending := pending s; rq_pay := rq_pay s; qlog := qlog s ++ [(t, match qof t with Some q => q | None => snd (rq_target s) end)]; ntaken := ntaken s; takes := takes s; rq_target := rq_target s; rtargets := rtargets s |}.

Definition on_wire (s : cstate) (it : witem) (q : qargs) (py : payload) : wentry :=
  {| w_conn := conn s; w_https := https s; w_host := host s; w_item := it; w_q := q; w_pay := py |}.

Fixpoint qlookup (l : list (N * qargs)) (t : N) : qargs :=
  match l with [] => [] | (k, q) :: r => if k =? t then q else qlookup r t end.
(* Requester.build: the request's qargs with the query of its path merged in *)
Definition sent_q (qof : N -> option qargs) (pq : N -> qargs) (s : cstate) (t : N) : qargs :=
  merge (qlookup (qlog s) t) (pq t).

(* Requester.build: no body on GET; otherwise data, else fargs, else body - Client.request always queues all
   three (None resets), so what is sent is the request's own payload *)
Definition wire_pay (mof : N -> N) (pay : N -> payload) (t : N) : payload :=
  if mof t =? 0 then nopay else pay t.

(* serviceRequests + transmit + serviceSends: txbs leaves only while not cut off *)
Definition pump (mof : N -> N) (qof : N -> option qargs) (pq : N -> qargs) (pay : N -> payload) (s : cstate) : cstate :=
  if waited s then s else
  match queue s with
  | [] => s
  | t :: q =>
    {| queue := q; waited := true; latest := Some t; responses := responses s;
       redirects := redirects s; conn := conn s; host := host s; https := https s; cut := cut s;
       sent := negb (cut s);
       wire := if cut s then wire s else wire s ++ [on_wire s (WReq t) (sent_q qof pq s t) (wire_pay mof pay t)];
       redirectable := redirectable s;
       rq_method := mof t; rs_method := mof t;
       reconn := reconn s;
       pending := if cut s then Some (WReq t, sent_q qof pq s t, wire_pay mof pay t) else None;
       rq_pay := pay t; qlog := qlog s; ntaken := ntaken s; takes := takes s; rq_target := (false, t, sent_q qof pq s t); rtargets := rtargets s |}
  end.

(* the response entry is appended with the redirect history, .redirects cleared, .waited cleared *)
Definition deliver (s : cstate) (st : N) (err cut' : bool) : cstate :=
  {| queue := queue s; waited := false; latest := None;
     responses := responses s ++ [{| e_status := st; e_tag := latest s; e_errored := err;
                                     e_history := redirects s; e_target := rq_target s;
                                     e_targets := rtargets s; e_pay := rq_pay s |}];
     redirects := []; conn := conn s; host := host s; https := https s; cut := cut';
     sent := false; wire := wire s; redirectable := redirectable s;
       rq_method := rq_method s; rs_method := rs_method s;
       reconn := reconn s; pending := pending s; rq_pay := rq_pay s; qlog := qlog s; ntaken := ntaken s; takes := takes s; rq_target := rq_target s; rtargets := [] |}.

(* serviceResponse on a completely parsed reply *)
Definition complete (s : cstate) (r : reply) : cstate :=
  let cut' := cut s in   (* rp_close is informative only: the close is seen as an Eof event *)
  if redirectable s && is_redirect (rp_status r) then
    match rp_loc r with
    | None => deliver s (rp_status r) true cut'            (* InvalidURL: no Location *)
    | Some l =>
      let h := match l_host l with None => host s | Some h => h end in
      let sec := match l_host l with None => https s | Some _ => l_https l end in
      if (h =? host s) && Bool.eqb sec (https s) then
        (* same connector: transmit on it *)
        {| queue := queue s; waited := true; latest := None; responses := responses s;
           redirects := redirects s ++ [(rp_status r, latest s)];
           conn := conn s; host := host s; https := https s; cut := cut';
           sent := negb cut';
           wire := if cut' then wire s else wire s ++ [on_wire s (WRedir (rp_id r)) (l_query l) nopay];
           redirectable := redirectable s;
       rq_method := rq_method s; rs_method := rq_method s;
           reconn := reconn s;
           pending := if cut' then Some (WRedir (rp_id r), l_query l, nopay) else None;
           rq_pay := nopay; qlog := qlog s; ntaken := ntaken s; takes := takes s; rq_target := (true, rp_id r, l_query l); rtargets := rtargets s ++ [rq_target s] |}
      else if https s && negb sec then
        deliver s (rp_status r) true cut'                  (* https -> http refused *)
      else
        (* new connector *)
        {| queue := queue s; waited := true; latest := None; responses := responses s;
           redirects := redirects s ++ [(rp_status r, latest s)];
           conn := conn s + 1; host := h; https := sec; cut := false; sent := true;
           wire := wire s ++ [{| w_conn := conn s + 1; w_https := sec; w_host := h;
                                 w_item := WRedir (rp_id r); w_q := l_query l; w_pay := nopay |}];
           redirectable := redirectable s;
       rq_method := rq_method s; rs_method := rq_method s;
           reconn := false; pending := None;
           rq_pay := nopay; qlog := qlog s; ntaken := ntaken s; takes := takes s; rq_target := (true, rp_id r, l_query l); rtargets := rtargets s ++ [rq_target s] |}
    end
  else deliver s (rp_status r) false cut'.

(* Client.service on a cut off, reconnectable connector whose timer expired: connector.reopen() (a new
   connection to the same host, .txbs kept), then connect and send what was waiting in .txbs *)
Definition reconnect (s : cstate) : cstate :=
  {| queue := queue s; waited := waited s; latest := latest s; responses := responses s;
     redirects := redirects s; conn := conn s + 1; host := host s; https := https s; cut := false;
     sent := match pending s with Some _ => true | None => sent s end;
     wire := match pending s with
             | Some (it, q, py) => wire s ++ [{| w_conn := conn s + 1; w_https := https s; w_host := host s;
                                                 w_item := it; w_q := q; w_pay := py |}]
             | None => wire s
             end;
     redirectable := redirectable s; rq_method := rq_method s; rs_method := rs_method s;
     reconn := reconn s; pending := None; rq_pay := rq_pay s; qlog := qlog s;
     ntaken := ntaken s; takes := takes s; rq_target := rq_target s; rtargets := rtargets s |}.

Definition set_cut (s : cstate) : cstate :=
  {| queue := queue s; waited := waited s; latest := latest s; responses := responses s;
     redirects := redirects s; conn := conn s; host := host s; https := https s; cut := true;
     sent := sent s; wire := wire s; redirectable := redirectable s; rq_method := rq_method s;
     rs_method := rs_method s; reconn := reconn s; pending := pending s; rq_pay := rq_pay s; qlog := qlog s;
     ntaken := ntaken s; takes := takes s; rq_target := rq_target s; rtargets := rtargets s |}.

(* Client.respond(): pop the OLDEST waiting entry (None when nothing waits) *)
Definition respond (s : cstate) : cstate :=
  let r := nth_error (responses s) (ntaken s) in
  {| queue := queue s; waited := waited s; latest := latest s; responses := responses s;
     redirects := redirects s; conn := conn s; host := host s; https := https s; cut := cut s;
     sent := sent s; wire := wire s; redirectable := redirectable s; rq_method := rq_method s;
     rs_method := rs_method s; reconn := reconn s; pending := pending s; rq_pay := rq_pay s; qlog := qlog s;
     ntaken := match r with Some _ => S (ntaken s) | None => ntaken s end;
     takes := takes s ++ [r];
     rq_target := rq_target s; rtargets := rtargets s |}.

(* the server saw rq_method on the wire and sent body bytes accordingly; the respondent
   reads the reply with rs_method *)
Definition readable (s : cstate) (r : reply) : bool :=
  Bool.eqb (no_body (rs_method s) (rp_status r)) (no_body (rq_method s) (rp_status r)).

Definition step (mof : N -> N) (qof : N -> option qargs) (pq : N -> qargs) (pay : N -> payload) (s : cstate) (e : event) : cstate :=
  match e with
  | Enq t => enq qof s t
  | Pass rc o =>
    let s0 := if rc && cut s && reconn s then reconnect s else s in
    let s1 := pump mof qof pq pay s0 in
    match o with
    | Some r => if waited s1 && sent s1 && readable s1 r then complete s1 r else s1
    | None => s1
    end
  | Eof => set_cut s
  | Take => respond s
  end.

Definition run (mof : N -> N) (qof : N -> option qargs) (pq : N -> qargs) (pay : N -> payload) (s : cstate) (evs : list event) : cstate :=
  fold_left (step mof qof pq pay) evs s.

(* ---------- observations ---------- *)
Definition origin (e : entry) : option N :=
  match e_history e with h :: _ => snd h | [] => e_tag e end.
Definition inflight (s : cstate) : list (option N) :=
  if waited s then [match redirects s with h :: _ => snd h | [] => latest s end] else [].
Fixpoint enqs (evs : list event) : list N :=
  match evs with [] => [] | Enq t :: r => t :: enqs r | _ :: r => enqs r end.
Fixpoint wire_reqs (w : list wentry) : list N :=
  match w with
  | [] => []
  | x :: r => match w_item x with WReq t => t :: wire_reqs r | WRedir _ => wire_reqs r end
  end.

(* ---------- correspondence ---------- *)
Definition obs := (bool * N * N * N)%type.   (* waited, len(requests), len(responses), len(redirects) *)
Definition observe (s : cstate) : obs :=
  (waited s, N.of_nat (length (queue s)), N.of_nat (length (responses s) - ntaken s), N.of_nat (length (redirects s))).

Fixpoint run_trace (mof : N -> N) (qof : N -> option qargs) (pq : N -> qargs) (pay : N -> payload) (s : cstate) (evs : list event) : cstate * list obs :=
  match evs with
  | [] => (s, [])
  | e :: r =>
    let s' := step mof qof pq pay s e in
    let (sf, tr) := run_trace mof qof pq pay s' r in
    (sf, match e with Pass _ _ => observe s' :: tr | _ => tr end)
  end.

Record case := { c_reconn : bool; c_https : bool; c_redirectable : bool; c_cmethod : N; c_methods : list (N * N); c_qargs : list (N * option qargs); c_pathq : list (N * qargs); c_pays : list (N * payload);
                 c_events : list event;
                 c_trace : list obs; c_entries : list entry; c_wire : list wentry;
                 c_takes : list (option entry) }.

Definition obs_eqb (x y : obs) : bool :=
  match x, y with (a, b, c, d), (a', b', c', d') => Bool.eqb a a' && (b =? b') && (c =? c') && (d =? d') end.
Definition hop_eqb (x y : hop) : bool := (fst x =? fst y) && option_eqb N.eqb (snd x) (snd y).
Definition q_eqb (x y : qargs) : bool := list_eqb (fun a b => (fst a =? fst b) && (snd a =? snd b)) x y.
Definition target_eqb (x y : target) : bool :=
  match x, y with (k, i, q), (k', i', q') => Bool.eqb k k' && (i =? i') && q_eqb q q' end.
Definition pay_eqb (x y : payload) : bool := (fst x =? fst y) && (snd x =? snd y).
Definition entry_eqb (x y : entry) : bool :=
  pay_eqb (e_pay x) (e_pay y) &&
  target_eqb (e_target x) (e_target y) && list_eqb target_eqb (e_targets x) (e_targets y) &&
  (e_status x =? e_status y) && option_eqb N.eqb (e_tag x) (e_tag y) &&
  Bool.eqb (e_errored x) (e_errored y) && list_eqb hop_eqb (e_history x) (e_history y).
Definition witem_eqb (x y : witem) : bool :=
  match x, y with WReq a, WReq b => a =? b | WRedir a, WRedir b => a =? b | _, _ => false end.
Definition wentry_eqb (x y : wentry) : bool :=
  (w_conn x =? w_conn y) && Bool.eqb (w_https x) (w_https y) && (w_host x =? w_host y) &&
  witem_eqb (w_item x) (w_item y) && q_eqb (w_q x) (w_q y) && pay_eqb (w_pay x) (w_pay y).

Fixpoint mof_of (l : list (N * N)) (t : N) : N :=
  match l with [] => 0 | (k, m) :: r => if k =? t then m else mof_of r t end.

Fixpoint qof_of (l : list (N * option qargs)) (t : N) : option qargs :=
  match l with [] => None | (k, q) :: r => if k =? t then q else qof_of r t end.

Fixpoint pay_of (l : list (N * payload)) (t : N) : payload :=
  match l with [] => nopay | (k, p) :: r => if k =? t then p else pay_of r t end.

Definition check_case (c : case) : bool :=
  let (s, tr) := run_trace (mof_of (c_methods c)) (qof_of (c_qargs c)) (qlookup (c_pathq c)) (pay_of (c_pays c)) (init_m (c_reconn c) (c_https c) (c_redirectable c) (c_cmethod c)) (c_events c) in
  list_eqb obs_eqb tr (c_trace c) && list_eqb entry_eqb (responses s) (c_entries c) &&
  list_eqb wentry_eqb (wire s) (c_wire c) && list_eqb (option_eqb entry_eqb) (takes s) (c_takes c).

(* branch ids of each event:
   0 enq  1 idle pass  2 request popped and sent  3 request popped on a cut connection (never sent)
   4 final response without history  5 final response with history  6 redirect on the same connector
   7 redirect on a new connector  8 refused: no Location  9 refused: https -> http
   10 3xx delivered because not redirectable  11 reply whose server then closes *)
Definition n_branches : nat := 12.
Definition branch_of (mof : N -> N) (qof : N -> option qargs) (pq : N -> qargs) (pay : N -> payload) (s : cstate) (e : event) : list nat :=
  match e with
  | Eof => []
  | Take => []
  | Enq _ => [0%nat]
  | Pass rc o =>
    let s := if rc && cut s && reconn s then reconnect s else s in
    let s1 := pump mof qof pq pay s in
    let p := if waited s then [] else match queue s with [] => [] | _ => [if cut s then 3%nat else 2%nat] end in
    match o with
    | Some r =>
      if waited s1 && sent s1 && readable s1 r then
        p ++ (if cut s1 then [11%nat] else []) ++
        (if is_redirect (rp_status r) then
           if redirectable s1 then
             match rp_loc r with
             | None => [8%nat]
             | Some l =>
               let h := match l_host l with None => host s1 | Some h => h end in
               let sec := match l_host l with None => https s1 | Some _ => l_https l end in
               if (h =? host s1) && Bool.eqb sec (https s1) then [6%nat]
               else if https s1 && negb sec then [9%nat] else [7%nat]
             end
           else [10%nat]
         else match redirects s1 with [] => [4%nat] | _ => [5%nat] end)
      else p ++ [1%nat]
    | None => match p with [] => [1%nat] | _ => p end
    end
  end.
Fixpoint branches (mof : N -> N) (qof : N -> option qargs) (pq : N -> qargs) (pay : N -> payload) (s : cstate) (evs : list event) : list nat :=
  match evs with [] => [] | e :: r => branch_of mof qof pq pay s e ++ branches mof qof pq pay (step mof qof pq pay s e) r end.
Definition case_branches (c : case) : list nat :=
  branches (mof_of (c_methods c)) (qof_of (c_qargs c)) (qlookup (c_pathq c)) (pay_of (c_pays c)) (init_m (c_reconn c) (c_https c) (c_redirectable c) (c_cmethod c)) (c_events c).
