(* C14, general theorem, layer 7: assembly.  Every well formed request is
   recovered from the bytes the client builds. *)
From Hio Require Import Base.Prelude Model.HttpReqUrl Model.HttpTotal Model.HttpReq
     Proofs.HttpReqProofs Proofs.HttpReqCodec Proofs.HttpReqQuery Proofs.HttpReqLines
     Proofs.HttpReqHeaders Proofs.HttpReqTarget Proofs.HttpReqLength.
From Coq Require Import String ZifyBool.
Local Open Scope N_scope.

(* well-formedness in terms of what is sent (the header list includes the fields build adds) *)
Definition wf_core (host : ustr) (port : N) (r : request) : bool :=
  existsb (ustr_eqb (q_method r)) METHODS
  && wf_path (q_path r)
  && forallb pair_ok (q_qargs r)
  && (blen (start_line r) <=? MAXL)
  && forallb field_ok (all_headers host port r)
  && distinct_keys (all_headers host port r)
  && Nat.leb (List.length (all_headers host port r)) 100
  && negb (has_header (all_headers host port r) "transfer-encoding")
  && match hget (all_headers host port r) (str "content-length") with
     | None => is_nil (body_bytes r)
     | Some v => ustr_eqb v (dec_str (blen (body_bytes r)))
     end
  && (blen (body_bytes r) <? 10 ^ 40)
  && match q_body r with Form f => forallb pair_ok f | _ => true end.

(* ---------- reshaping the wire ---------- *)
Lemma flat_map_map {A B C} (f : B -> list C) (g : A -> B) l : flat_map f (map g l) = flat_map (fun x => f (g x)) l.
Proof. induction l as [|x l IH]; [reflexivity|]. cbn [map flat_map]. now rewrite IH. Qed.

Lemma build_shape host port r :
  build host port r = start_line r ++ CRLFb ++ (flat_map hline (all_headers host port r) ++ CRLFb ++ body_bytes r).
Proof.
  unfold build. cbn [flat_map]. rewrite flat_map_map. rewrite <- !app_assoc. reflexivity.
Qed.

Lemma flat_map_hline_length l : (List.length l <= List.length (flat_map hline l))%nat.
Proof.
  induction l as [|x l IH]; [cbn; lia|]. cbn [flat_map List.length]. rewrite app_length.
  unfold hline at 1. rewrite app_length. cbn [List.length CRLFb]. lia.
Qed.

(* ---------- header lookups ---------- *)
Lemma hget_titled : forall l k, hget (titled l) k = hget l k.
Proof.
  induction l as [|[n v] l IH]; intros k; [reflexivity|].
  cbn [titled map fst snd hget]. rewrite lower_title. fold (titled l). now rewrite IH.
Qed.

Lemma hget_in_distinct : forall l n v, distinct_keys l = true -> In (n, v) l -> hget l (lower n) = Some v.
Proof.
  induction l as [|[k w] l IH]; intros n v Hd Hin; [destruct Hin|].
  cbn [distinct_keys] in Hd. apply andb_true_iff in Hd. destruct Hd as [Hk Hd].
  cbn [hget]. destruct Hin as [E|Hin].
  - injection E as -> ->. now rewrite ustr_eqb_refl.
  - destruct (ustr_eqb (lower k) (lower n)) eqn:E.
    + exfalso. apply negb_true_iff in Hk.
      assert (existsb (fun kv => ustr_eqb (lower (fst kv)) (lower k)) l = true).
      { apply existsb_exists. exists (n, v). split; [exact Hin|]. cbn [fst]. now rewrite ustr_eqb_sym. }
      congruence.
    + now apply IH.
Qed.

Lemma pairs_eqb_refl l : pairs_eqb l l = true.
Proof.
  unfold pairs_eqb. induction l as [|[a b] l IH]; [reflexivity|].
  cbn [list_eqb]. unfold pair_eqb at 1. cbn [fst snd]. now rewrite !ustr_eqb_refl, IH.
Qed.

Lemma bytes_eqb_refl b : bytes_eqb b b = true.
Proof. exact (ustr_eqb_refl b). Qed.

Lemma firstn_all_N (b : bytes) : firstn (N.to_nat (blen b)) b = b.
Proof. unfold blen. rewrite Nat2N.id. apply firstn_all. Qed.

(* ---------- the main theorem in terms of wf_core ---------- *)
Lemma firstn_app_N (b x : bytes) : firstn (N.to_nat (blen b)) (b ++ x) = b.
Proof. unfold blen. rewrite Nat2N.id, firstn_app, Nat.sub_diag, firstn_all. cbn [firstn]. apply app_nil_r. Qed.

Lemma skipn_app_N (b x : bytes) : skipn (N.to_nat (blen b)) (b ++ x) = x.
Proof. unfold blen. rewrite Nat2N.id, skipn_app, Nat.sub_diag, skipn_all. reflexivity. Qed.

(* the built request in front of any further bytes [x] of the connection: it is parsed back, and
   exactly [x] is left for the next request *)
Definition parsed_of (host : ustr) (port : N) (r : request) : parsed :=
  {| p_method := q_method r; p_v10 := false; p_path := unquote (quote_path (q_path r));
     p_query := enc_pairs (q_qargs r); p_headers := titled (all_headers host port r);
     p_length := Some (blen (body_bytes r)); p_body := body_bytes r |}.

Theorem parse_build_rest o host port r x : wf_core host port r = true ->
  parse_request_rest o (build host port r ++ x) = Ok (parsed_of host port r, x)
  /\ recovered r (parsed_of host port r) = true.
Proof.
  unfold wf_core. intros H.
  repeat (apply andb_true_iff in H; destruct H as [H ?]).
  rename H into Hm, H9 into Hpath, H8 into Hq, H7 into Hstart, H6 into Hfields, H5 into Hdist,
         H4 into Hcount, H3 into Hte, H2 into Hcl, H1 into Hbody, H0 into Hform.
  apply N.leb_le in Hstart. apply Nat.leb_le in Hcount. apply N.ltb_lt in Hbody. apply negb_true_iff in Hte.
  pose proof (target_ok r Hpath Hq) as TF.
  destruct (request_line_start o r Hm TF) as [Hrl [Hnth Hnolf]].
  destruct TF as [[t' [Et Hs]] Hc [Hp63 Hq63]].
  set (allh := all_headers host port r) in *.
  set (body := body_bytes r) in *.
  unfold parse_request_rest. rewrite build_shape. fold allh. fold body.
  rewrite <- !app_assoc. rewrite line_lf_crlf by assumption.
  rewrite Hrl. cbn [bind]. rewrite Hnth.
  assert (Hus : url_site o (target r) =
                Ok ({| u_scheme := []; u_netloc := []; u_path := quote_path (q_path r);
                       u_query := enc_pairs (q_qargs r); u_fragment := [] |}, None)).
  { rewrite Et. rewrite url_site_target; [|exact Hs|rewrite <- Et; exact Hc]. rewrite <- Et, Hp63, Hq63. reflexivity. }
  rewrite Hus. cbn [bind].
  rewrite (leader_all_fields allh [] _ (body ++ x) Hfields Hdist); [|cbn [List.length]; lia|].
  2:{ rewrite app_length. pose proof (flat_map_hline_length allh). lia. }
  cbn [bind app fst snd].
  (* not chunked *)
  assert (Hnc : is_chunked (titled allh) = false).
  { unfold is_chunked, hget_str. rewrite hget_titled. unfold has_header in Hte.
    destruct (hget allh (str "transfer-encoding")); [discriminate|]. reflexivity. }
  rewrite Hnc.
  (* the length *)
  assert (Hlen : req_length (titled allh) = Some (blen body)).
  { unfold req_length. rewrite Hnc. unfold hget_str. rewrite hget_titled.
    destruct (hget allh (str "content-length")) as [v|].
    - apply ustr_eqb_eq in Hcl. subst v.
      destruct (dec_str_spec (blen body) Hbody) as [Hne _].
      destruct (dec_str (blen body)) as [|c s] eqn:E; [congruence|].
      rewrite <- E. now apply content_length_dec_str.
    - destruct body; [reflexivity|discriminate]. }
  rewrite Hlen.
  assert (Hge : (blen (body ++ x) <? blen body) = false).
  { unfold blen. rewrite app_length. apply N.ltb_ge. lia. }
  rewrite Hge, firstn_app_N, skipn_app_N.
  split; [reflexivity|].
  (* what was recovered *)
  unfold recovered, parsed_of. fold allh. fold body. cbn [p_method p_path p_query p_headers p_body p_length build_environ
                         e_path_info e_query_string e_http fst snd u_path u_query].
  rewrite !ustr_eqb_refl.
  assert (Htext : text_ok (q_path r) = true).
  { unfold wf_path in Hpath. apply andb_true_iff in Hpath. tauto. }
  assert (Hunq : unquote (quote_path (q_path r)) = q_path r).
  { apply unquote_quote; [split; reflexivity|exact Htext]. }
  rewrite Hunq, ustr_eqb_refl. rewrite Hunq, ustr_eqb_refl.
  rewrite parse_qsl_enc_pairs by exact Hq. rewrite pairs_eqb_refl.
  cbn [andb].
  (* headers *)
  assert (Hsub : forall nv, In nv (final_headers r) -> In nv allh).
  { intros nv Hin. unfold allh, all_headers. rewrite !in_app_iff. right. right. now right. }
  assert (Hh1 : forallb (fun nv => option_eqb ustr_eqb (hget (titled allh) (lower (fst nv))) (Some (snd nv)))
                        (final_headers r) = true).
  { apply forallb_forall. intros [n v] Hin. cbn [fst snd]. rewrite hget_titled.
    rewrite (hget_in_distinct allh n v Hdist (Hsub _ Hin)). cbn [option_eqb]. apply ustr_eqb_refl. }
  rewrite Hh1.
  assert (Hh2 : forallb (fun nv => existsb (fun kv => ustr_eqb (fst kv) (environ_key (fst nv)) && ustr_eqb (snd kv) (snd nv))
                                           (map (fun kv => (environ_key (fst kv), snd kv)) (titled allh)))
                        (final_headers r) = true).
  { apply forallb_forall. intros [n v] Hin. cbn [fst snd]. apply existsb_exists.
    exists (environ_key (title n), v). split.
    - apply in_map_iff. exists (title n, v). split; [reflexivity|].
      unfold titled. apply in_map_iff. exists (n, v). split; [reflexivity|now apply Hsub].
    - cbn [fst snd]. rewrite environ_key_title, !ustr_eqb_refl. reflexivity. }
  rewrite Hh2. cbn [andb].
  (* form fields *)
  destruct (q_body r) as [b|e|f] eqn:Eb; try reflexivity.
  destruct (ustr_eqb (q_method r) (str "GET")) eqn:Eg; [reflexivity|].
  unfold body, body_bytes. rewrite Eg, Eb. rewrite parse_qsl_enc_pairs by exact Hform. apply pairs_eqb_refl.
Qed.

Theorem roundtrip_core o host port r : wf_core host port r = true -> roundtrip o host port r = true.
Proof.
  intros H. destruct (parse_build_rest o host port r [] H) as [Hp Hr].
  rewrite app_nil_r in Hp. unfold roundtrip, parse_request. rewrite Hp. exact Hr.
Qed.

(* ---------- from the user-level predicate wf_request to wf_core ---------- *)
Definition wf_endpoint (host : ustr) (port : N) : bool := field_ok (str "Host", host ++ 58 :: dec_str port).

Lemma hget_hset_other : forall h k v lk, ustr_eqb (lower k) lk = false -> hget (hset h k v) lk = hget h lk.
Proof.
  induction h as [|[k' v'] h IH]; intros k v lk H.
  - cbn [hset hget]. now rewrite H.
  - cbn [hset]. destruct (ustr_eqb (lower k') (lower k)) eqn:E.
    + apply ustr_eqb_eq in E. cbn [hget]. rewrite E, H. reflexivity.
    + cbn [hget]. now rewrite IH.
Qed.

Lemma existsb_hset (P : ustr * ustr -> bool) : forall h k v,
  existsb P h = false -> P (k, v) = false -> existsb P (hset h k v) = false.
Proof.
  induction h as [|[k' v'] h IH]; intros k v Hh Hk.
  - cbn. now rewrite Hk.
  - cbn [existsb] in Hh. apply orb_false_iff in Hh. destruct Hh as [H1 H2].
    cbn [hset]. destruct (ustr_eqb (lower k') (lower k)); cbn [existsb].
    + now rewrite Hk, H2.
    + rewrite H1. cbn [orb]. now apply IH.
Qed.

Lemma distinct_keys_hset : forall h k v, distinct_keys h = true -> distinct_keys (hset h k v) = true.
Proof.
  induction h as [|[k' v'] h IH]; intros k v H; [reflexivity|].
  cbn [distinct_keys] in H. apply andb_true_iff in H. destruct H as [H1 H2]. apply negb_true_iff in H1.
  cbn [hset]. destruct (ustr_eqb (lower k') (lower k)) eqn:E.
  - apply ustr_eqb_eq in E. cbn [distinct_keys]. rewrite <- E, H1, H2. reflexivity.
  - cbn [distinct_keys]. rewrite IH by exact H2. rewrite andb_true_r. apply negb_true_iff.
    apply existsb_hset; [exact H1|]. cbn [fst]. now rewrite ustr_eqb_sym.
Qed.

Lemma forallb_hset (P : ustr * ustr -> bool) : forall h k v,
  forallb P h = true -> P (k, v) = true -> forallb P (hset h k v) = true.
Proof.
  induction h as [|[k' v'] h IH]; intros k v Hh Hk.
  - cbn. now rewrite Hk.
  - cbn [forallb] in Hh. apply andb_true_iff in Hh. destruct Hh as [H1 H2].
    cbn [hset]. destruct (ustr_eqb (lower k') (lower k)); cbn [forallb].
    + now rewrite Hk, H2.
    + rewrite H1. now apply IH.
Qed.

Lemma hget_none_existsb : forall l k, hget l (lower k) = None ->
  existsb (fun kv => ustr_eqb (lower (fst kv)) (lower k)) l = false.
Proof.
  induction l as [|[k' v'] l IH]; intros k H; [reflexivity|].
  cbn [hget] in H. cbn [existsb fst]. destruct (ustr_eqb (lower k') (lower k)); [discriminate|]. now apply IH.
Qed.

Lemma distinct_cons k v l : hget l (lower k) = None -> distinct_keys l = true -> distinct_keys ((k, v) :: l) = true.
Proof. intros H1 H2. cbn [distinct_keys]. now rewrite hget_none_existsb, H2. Qed.

Definition hdr_ok (nv : ustr * ustr) : bool := wf_hname (fst nv) && wf_hvalue (snd nv).

Lemma digits_hvalue s : forallb is_digit s = true -> wf_hvalue s = true.
Proof.
  intros H. unfold wf_hvalue. eapply forallb_impl; [|exact H]. intros c Hc. unfold is_digit in Hc.
  unfold mem_n. cbn [existsb]. lia.
Qed.

(* invariants of a header list while build prepends its own fields *)
Record hinv (l : list (ustr * ustr)) : Prop := {
  hi_fields : forallb field_ok l = true;
  hi_dist : distinct_keys l = true }.

Lemma hinv_cons k v l : field_ok (k, v) = true -> hget l (lower k) = None -> hinv l -> hinv ((k, v) :: l).
Proof.
  intros Hf Hn [H1 H2]. split.
  - cbn [forallb]. now rewrite Hf, H1.
  - now apply distinct_cons.
Qed.

Lemma hget_cons k v l lk : hget ((k, v) :: l) lk = if ustr_eqb (lower k) lk then Some v else hget l lk.
Proof. reflexivity. Qed.

Theorem wf_request_core host port r :
  wf_request r = true -> wf_endpoint host port = true -> wf_core host port r = true.
Proof.
  unfold wf_request. intros H Hep.
  repeat (apply andb_true_iff in H; destruct H as [H ?]).
  rename H into Hm, H12 into Hpath, H11 into Hq, H10 into Hqd, H9 into Hhdr, H8 into Hdist, H7 into Hte,
         H6 into Hcl, H5 into Hform, H4 into Hne, H3 into Hstart, H2 into Hlines, H1 into Hcount, H0 into Hbody.
  set (hs := final_headers r) in *. set (body := body_bytes r) in *.
  assert (Hhs_ok : forallb hdr_ok hs = true).
  { unfold hs, final_headers. destruct (ustr_eqb (q_method r) (str "GET")); [exact Hhdr|].
    destruct (q_body r); [exact Hhdr| |]; (apply forallb_hset; [exact Hhdr|reflexivity]). }
  assert (Hhs_d : distinct_keys hs = true).
  { unfold hs, final_headers. destruct (ustr_eqb (q_method r) (str "GET")); [exact Hdist|].
    destruct (q_body r); [exact Hdist| |]; now apply distinct_keys_hset. }
  assert (Hother : forall lk, ustr_eqb (str "content-type") lk = false -> hget hs lk = hget (q_headers r) lk).
  { intros lk Hlk. unfold hs, final_headers. destruct (ustr_eqb (q_method r) (str "GET")); [reflexivity|].
    destruct (q_body r); [reflexivity| |]; now apply hget_hset_other. }
  assert (Hfields : forallb field_ok hs = true).
  { apply forallb_forall. intros nv Hin. unfold field_ok.
    rewrite forallb_forall in Hhs_ok, Hlines. specialize (Hhs_ok nv Hin). specialize (Hlines nv Hin).
    unfold hdr_ok in Hhs_ok. now rewrite Hhs_ok, Hlines. }
  apply N.ltb_lt in Hbody.
  destruct (dec_str_spec (blen body) Hbody) as [_ [Hdd [Hdl _]]].
  assert (Hb40 : (blen body <? 10 ^ 40) = true) by now apply N.ltb_lt.
  clear Hbody. remember (10 ^ 40) as big eqn:Ebig.
  assert (Hclf : field_ok (str "Content-Length", dec_str (blen body)) = true).
  { unfold field_ok. cbn [fst snd]. rewrite digits_hvalue by exact Hdd.
    change (wf_hname (str "Content-Length")) with true. cbn [andb].
    apply N.leb_le. unfold pack_header, MAXL. unfold blen at 1. rewrite !app_length.
    change (List.length (title (str "Content-Length"))) with 14%nat. cbn [List.length]. clear - Hdl. lia. }
  unfold has_header in Hte. apply negb_true_iff in Hte.
  assert (Hte' : hget hs (str "transfer-encoding") = None).
  { rewrite Hother by reflexivity. destruct (hget (q_headers r) (str "transfer-encoding")); [discriminate|reflexivity]. }
  (* stage 3: Content-Length *)
  set (o3 := if negb (is_nil body) && negb (has_header hs "content-length")
             then [(str "Content-Length", dec_str (blen body))] else []).
  set (l3 := o3 ++ hs).
  assert (I3 : hinv l3 /\ hget l3 (str "transfer-encoding") = None
               /\ hget l3 (str "host") = hget hs (str "host")
               /\ hget l3 (str "accept-encoding") = hget hs (str "accept-encoding")
               /\ (match hget l3 (str "content-length") with
                    | None => is_nil body | Some v => ustr_eqb v (dec_str (blen body)) end = true)
               /\ (List.length l3 <= List.length hs + 1)%nat).
  { unfold l3, o3, has_header. destruct (hget hs (str "content-length")) as [v|] eqn:E3.
    - rewrite andb_false_r. cbn [app].
      split; [split; assumption|]. split; [exact Hte'|]. split; [reflexivity|]. split; [reflexivity|].
      split; [|clear; lia]. rewrite E3. exact Hcl.
    - destruct (is_nil body) eqn:E4; cbn [negb andb app].
      + split; [split; assumption|]. split; [exact Hte'|]. split; [reflexivity|]. split; [reflexivity|].
        split; [|clear; lia]. rewrite E3. reflexivity.
      + split; [apply hinv_cons; [exact Hclf|exact E3|split; assumption]|].
        split; [rewrite hget_cons; exact Hte'|]. split; [reflexivity|]. split; [reflexivity|].
        split; [|cbn [List.length]; clear; lia].
        rewrite hget_cons. change (ustr_eqb (lower (str "Content-Length")) (str "content-length")) with true.
        cbv iota. apply ustr_eqb_refl. }
  destruct I3 as [[F3 D3] [T3 [Hh3 [Ha3 [C3 L3]]]]].
  (* stage 2: Accept-Encoding *)
  set (o2 := if has_header (q_headers r) "accept-encoding" then [] else [(str "Accept-Encoding", str "identity")]).
  set (l2 := o2 ++ l3).
  assert (I2 : hinv l2 /\ hget l2 (str "transfer-encoding") = None
               /\ hget l2 (str "host") = hget hs (str "host")
               /\ (match hget l2 (str "content-length") with
                    | None => is_nil body | Some v => ustr_eqb v (dec_str (blen body)) end = true)
               /\ (List.length l2 <= List.length hs + 2)%nat).
  { unfold l2, o2, has_header. rewrite <- (Hother (str "accept-encoding")) by reflexivity. rewrite <- Ha3.
    destruct (hget l3 (str "accept-encoding")) eqn:E2; cbn [app].
    - split; [split; assumption|]. split; [exact T3|]. split; [exact Hh3|]. split; [exact C3|]. clear - L3. clearbody l3 hs. lia.
    - split; [apply hinv_cons; [reflexivity|exact E2|split; assumption]|].
      split; [rewrite hget_cons; exact T3|]. split; [rewrite hget_cons; exact Hh3|].
      split; [rewrite hget_cons; exact C3|]. cbn [List.length]. clear - L3. clearbody l3 hs. lia. }
  destruct I2 as [[F2 D2] [T2 [Hh2 [C2 L2]]]].
  (* stage 1: Host *)
  set (o1 := if has_header (q_headers r) "host" then [] else [(str "Host", host ++ 58 :: dec_str port)]).
  set (l1 := o1 ++ l2).
  assert (I1 : hinv l1 /\ hget l1 (str "transfer-encoding") = None
               /\ (match hget l1 (str "content-length") with
                    | None => is_nil body | Some v => ustr_eqb v (dec_str (blen body)) end = true)
               /\ (List.length l1 <= List.length hs + 3)%nat).
  { unfold l1, o1, has_header. rewrite <- (Hother (str "host")) by reflexivity. rewrite <- Hh2.
    destruct (hget l2 (str "host")) eqn:E1; cbn [app].
    - split; [split; assumption|]. split; [exact T2|]. split; [exact C2|].
      eapply Nat.le_trans; [exact L2|]. apply Nat.add_le_mono_l. repeat constructor.
    - split; [apply hinv_cons; [exact Hep|exact E1|split; assumption]|].
      split; [rewrite hget_cons; exact T2|]. split; [rewrite hget_cons; exact C2|].
      cbn [List.length]. apply le_n_S in L2. eapply Nat.le_trans; [exact L2|].
      rewrite <- Nat.add_succ_r. apply Nat.le_refl. }
  destruct I1 as [[F1 D1] [T1 [C1 L1]]].
  assert (Eall : all_headers host port r = l1) by reflexivity.
  unfold wf_core. rewrite Eall. fold body.
  rewrite Hm, Hpath, Hstart, F1, D1. unfold has_header. rewrite T1, C1.
  change (forallb pair_ok (q_qargs r)) with (forallb (fun kv => text_ok (fst kv) && text_ok (snd kv)) (q_qargs r)).
  rewrite Hq. cbn [andb negb].
  rewrite <- Ebig, Hb40.
  assert (Hform' : match q_body r with Form f => forallb pair_ok f | _ => true end = true).
  { destruct (q_body r); try reflexivity. apply andb_true_iff in Hform. destruct Hform as [Hf _].
    apply andb_true_iff in Hf. destruct Hf as [Hf _]. exact Hf. }
  rewrite Hform'. rewrite !andb_true_r.
  apply Nat.leb_le. apply N.leb_le in Hcount. unfold MAXH in Hcount. fold hs in Hcount. clear - Hcount L1. clearbody l1 hs. unfold ustr in *. lia.
Qed.

(* the general statement *)
Theorem roundtrip_general o host port r :
  wf_request r = true -> wf_endpoint host port = true -> roundtrip o host port r = true.
Proof. intros H1 H2. apply roundtrip_core. now apply wf_request_core. Qed.

(* ---------- several requests on one connection ---------- *)
(* parsing the concatenation of built requests with one Requestant gives, request by request,
   what parsing each alone gives (every request starts from a fresh header dict), and each is the
   request that was built *)
Theorem parse_many_builds o host port : forall rs x, wf_endpoint host port = true ->
  forallb wf_request rs = true ->
  parse_many o (List.length rs) (flat_map (build host port) rs ++ x)
  = map (fun r => parse_request o (build host port r)) rs
  /\ Forall (fun r => parse_request o (build host port r) = Ok (parsed_of host port r)
                      /\ recovered r (parsed_of host port r) = true) rs.
Proof.
  induction rs as [|r rs IH]; intros x Hep H.
  - split; [reflexivity|constructor].
  - cbn [forallb] in H. apply andb_true_iff in H. destruct H as [Hr Hrs].
    cbn [flat_map List.length parse_many map]. rewrite <- app_assoc.
    pose proof (wf_request_core host port r Hr Hep) as Hc.
    destruct (parse_build_rest o host port r (flat_map (build host port) rs ++ x) Hc) as [Hp Hrec].
    destruct (parse_build_rest o host port r [] Hc) as [Hp0 _]. rewrite app_nil_r in Hp0.
    assert (Hone : parse_request o (build host port r) = Ok (parsed_of host port r)).
    { unfold parse_request. rewrite Hp0. reflexivity. }
    rewrite Hp. destruct (IH x Hep Hrs) as [Hps Hall].
    split; [now rewrite Hps, Hone|]. constructor; [split; assumption|exact Hall].
Qed.

(* the WSGI environ of every request of a connection is that of the request alone *)
Theorem serve_many_builds o host port : forall rs x, wf_endpoint host port = true ->
  forallb wf_request rs = true ->
  serve_many o (List.length rs) (flat_map (build host port) rs ++ x)
  = map (fun r => Ok (build_environ (parsed_of host port r))) rs.
Proof.
  intros rs x Hep H. unfold serve_many.
  destruct (parse_many_builds o host port rs x Hep H) as [Hpm Hall]. rewrite Hpm, map_map.
  apply map_ext_in. intros r Hin. rewrite Forall_forall in Hall. destruct (Hall r Hin) as [Hp _].
  now rewrite Hp.
Qed.
