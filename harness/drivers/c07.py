"""C07 — real-time pacing never runs early and does not drift (Doist(real=True).do + MonoTimer, Doist.ado + AsyncTimer).

A case is a session: a Doist(real=True, tock=tock0) is built under a fake clock (hio.base.doing.time and
hio.help.timing.time rebound to a scripted object), then one or more do() runs, each preceded by a clock
step (time passing and/or a step back) and an optional `doist.tock = x`.  The script gives, per clock read,
the forward progress p and backward jump j that happen just before it, per sleep call its overshoot o (or
["early", e]: the sleep returns after only min(d, e) seconds), and
per cycle the work (p, j) the doer's recur does to the clock.

  case = {"t0": float, "tock0": float, "reads": [[p, j], ...], "overs": [o, ...],
          "runs": [{"pre": [p, j], "tock": float | None, "works": [[p, j], ...], "sets": [float | None, ...]}, ...],
          "exact": bool}

"ops" (optional): entry k in {None, "extend", "remove"}: in the recur of cycle k, after the cycle's work moved the
clock, the doer calls doist.extend([a new doer]) / doist.remove([the doers added so far]).

"sets" (optional): entry k is assigned to doist.tock by the doer in the recur of cycle k, i.e. while the run is
under way; the oracle always judges a run by the tock the Doist had when do()/ado() was called.

"mode": "ado" (optional) drives asyncio.run(doist.ado()) instead: hio.base.doing.asyncio and hio.help.timing.asyncio
are rebound to an object whose get_event_loop().time() is the scripted clock and whose sleep() coroutine moves
it (and then really yields to the real event loop).

"exact" says all values are dyadic and small enough that every float operation in the run is exact, so the
oracle compares with zero tolerance.
"""
from fractions import Fraction
from harness.core import coq_float, coq_list, coq_option

PROP = "C07"
COQ_REQUIRES = ["Hio.Base.Time", "Hio.Model.RealTime"]
COQ_HEADER = ["From Coq Require Import PrimFloat."]
COQ_CHECK = "RealTime.check_case"
COQ_CASE_TYPE = "RealTime.case"
COQ_BRANCHES = ("RealTime.case_branches", "RealTime.n_branches")
SHARD = 150
RULE = ("sessions of 1-3 Doist(real=True).do() runs (two thirds of the cases) or asyncio.run(doist.ado()) runs (one third; fake loop clock, no backward steps) of 1-12 cycles under a scripted clock: tock 0..4 s set at construction "
        "and/or reassigned before a run, and in 45% of the runs of >= 2 cycles assigned by a doer while the run is under way (smaller or larger; must not change the pace), and in 40% of the runs of >= 3 cycles a doer calls doist.extend()/remove() with work time already spent in the cycle; per cycle work shorter or longer than the tock (lateness), per sleep an overshoot "
        "(mostly 0, sometimes several tocks) or an early return, per clock read forward progress and/or a backward jump (small, or hours), clock "
        "steps between construction and run and between runs; a dyadic stream (all float arithmetic exact, oracle with zero "
        "tolerance) and a non-dyadic stream (0.1, 1/3, uniform randoms; bit-exact correspondence, oracle tolerance a few ulp of the clock magnitude per operation); "
        "a case is non-trivial when it has >= 3 cycles and at least one overshoot, lateness or backward step")
MODELLED = ["binary64 arithmetic via Coq primitive floats (bit exact in the correspondence); the theorems are over exact (Z) time",
            "time.sleep(d) returns after at least d seconds (overshoot >= 0); forward clock jumps are indistinguishable from time passing (excluded by the property)",
            "the clock is only read where the model reads it (MonoTimer.latest/start, AsyncTimer.start/expired/remaining); the doers' work is a clock step inside recur",
            "ado: asyncio.sleep is replaced in hio.base.doing's namespace by a coroutine that moves the scripted loop clock and yields once; other tasks on the loop are not modelled"]

MAX_SLEEPS_PER_WAIT = 38   # the model's fuel_per_wait is 40


class _Escape(Exception):
    pass


class FakeClock:
    """Stands in for the `time` module inside hio.base.doing and hio.help.timing."""

    def __init__(self, t0, reads, overs):
        self.now = float(t0)
        self.mono = 0.0
        self.reads = [tuple(map(float, r)) for r in reads]
        self.overs = list(overs)       # float = overshoot; ["early", e] = the sleep returns after min(d, e)
        self.ri = 0
        self.oi = 0
        self.log = []          # every reading returned by time()
        self.mlog = []         # true time at each reading
        self.sleeps = []       # (clock when called, d)
        self.run_sleeps = 0

    def advance(self, p, j):
        self.now = (self.now + p) - j
        self.mono = self.mono + p

    def time(self):
        if self.ri < len(self.reads):
            p, j = self.reads[self.ri]
            self.ri += 1
            self.advance(p, j)
        self.log.append(self.now)
        self.mlog.append(self.mono)
        return self.now

    def sleep(self, d):
        if not d >= 0:
            raise ValueError("sleep length must be non-negative")
        self.sleeps.append((self.now, d))
        self.run_sleeps += 1
        if self.run_sleeps > MAX_SLEEPS_PER_WAIT:
            raise _Escape("too many sleeps in one wait")
        if self.oi < len(self.overs):
            o = self.overs[self.oi]
            self.oi += 1
            if isinstance(o, list):
                el = float(o[1]) if float(o[1]) < d else d
                self.now = self.now + el
                self.mono = self.mono + el
            else:
                self.now = (self.now + d) + float(o)
                self.mono = (self.mono + d) + float(o)
        else:
            self.now = self.now + d
            self.mono = self.mono + d

    # anything else the modules might want from `time`
    def __getattr__(self, name):
        import time as _t
        return getattr(_t, name)


def _hx(x):
    return float(x).hex()


class _FakeLoop:
    """What asyncio.get_event_loop() returns inside hio.help.timing during an ado() run."""

    def __init__(self, clk):
        self.clk = clk

    def time(self):
        return self.clk.time()


class _FakeAsyncio:
    """Stands in for the `asyncio` module inside hio.base.doing (sleep) and hio.help.timing (get_event_loop)."""

    def __init__(self, clk):
        self._clk = clk
        self._loop = _FakeLoop(clk)

    def get_event_loop(self):
        return self._loop

    async def sleep(self, delay, result=None):
        import asyncio as _a
        self._clk.sleep(delay)          # the loop clock moves as scripted
        await _a.sleep(0)               # and the coroutine really yields to the (real) event loop
        return result

    def __getattr__(self, name):
        import asyncio as _a
        return getattr(_a, name)


def _ado_frame_timer():
    """The AsyncTimer is a local of the running ado() coroutine: find its frame from inside recur."""
    import sys
    f = sys._getframe(1)
    while f is not None:
        if f.f_code.co_name == "ado" and "atimer" in f.f_locals:
            return f.f_locals["atimer"]
        f = f.f_back
    raise _Escape("ado frame with atimer not found")


def run_impl(case):
    if case.get("mode") == "ado":
        return _run_ado(case)
    return _run_do(case)


def _run_ado(case):
    import asyncio
    import hio.base.doing as doing
    import hio.help.timing as timing
    clk = FakeClock(case["t0"], case["reads"], case["overs"])
    fake = _FakeAsyncio(clk)
    saved = (doing.asyncio, timing.asyncio)
    doing.asyncio = fake
    timing.asyncio = fake
    try:
        doist = doing.Doist(real=True, tock=case["tock0"])
        runs = []
        for r in case["runs"]:
            clk.advance(float(r["pre"][0]), float(r["pre"][1]))
            if r["tock"] is not None:
                doist.tock = r["tock"]
            tock = doist.tock
            rec = {"cycles": [], "log0": None}
            # AsyncTimer(...) reads the loop clock once, .start() is the run start: offset 1
            Pacer = _make_pacer(doing, clk, doist, r, rec, lambda: _ado_frame_timer()._stop, 1)
            asyncio.run(doist.ado(doers=[Pacer(tock=0.0)]))
            runs.append(_collect(clk, rec, tock))
        return {"runs": runs}
    finally:
        doing.asyncio, timing.asyncio = saved


def _make_pacer(doing, clk, doist, r, rec, get_stop, log0_offset):
    """The doer that observes a run and plays the scripted part of the doers: per cycle it records the clock,
    true time and the timer's deadline, does the cycle's work (a clock step), then -- work time already spent in
    the cycle -- performs the scripted doist.tock assignment and doist.extend()/doist.remove() call."""
    works = [tuple(map(float, w)) for w in r["works"]]
    sets = list(r.get("sets") or [])
    ops = list(r.get("ops") or [])
    alive = []

    class Extra(doing.Doer):          # a doer added at runtime: does nothing to the clock, lives for two cycles
        def enter(self, **kwa):
            self.left = 2

        def recur(self, tyme):
            self.left -= 1
            return self.left <= 0

    class Pacer(doing.Doer):
        def enter(self, **kwa):
            rec["log0"] = len(clk.log) + log0_offset
            self.count = 0

        def recur(self, tyme):
            k = self.count
            rec["cycles"].append({"now": clk.now, "mono": clk.mono, "stop": get_stop(),
                                  "nlog": len(clk.log), "nsleep": len(clk.sleeps), "ri": clk.ri, "oi": clk.oi})
            clk.run_sleeps = 0
            p, j = works[k]
            clk.advance(p, j)
            if k < len(sets) and sets[k] is not None:
                doist.tock = sets[k]          # a doer changes the scheduler's tock while the run is under way
            last = k + 1 >= len(works)
            op = ops[k] if k < len(ops) else None
            if op == "extend" and not last:
                e = Extra(tock=0.0)
                alive.append(e)
                doist.extend([e])             # runtime extend, work time already spent in this cycle
            elif op == "remove" or (last and alive):
                doist.remove([e for e in alive if e in doist.doers])
                del alive[:]
            self.count += 1
            return last

    return Pacer


def _collect(clk, rec, tock):
    cyc = rec["cycles"]
    ends = [c["nsleep"] for c in cyc[1:]] + [len(clk.sleeps)]
    log0 = rec["log0"]
    out = {"tock": _hx(tock), "start": _hx(clk.log[log0]), "start_mono": _hx(clk.mlog[log0]),
           "cycles": [], "end": _hx(clk.now), "end_mono": _hx(clk.mono),
           "readings": [_hx(x) for x in clk.log[log0:]], "ri_end": clk.ri, "oi_end": clk.oi}
    for c, e in zip(cyc, ends):
        out["cycles"].append({"now": _hx(c["now"]), "mono": _hx(c["mono"]), "stop": _hx(c["stop"]),
                              "nlog": c["nlog"] - log0, "ri": c["ri"], "oi": c["oi"],
                              "sleeps": [[_hx(a), _hx(d)] for a, d in clk.sleeps[c["nsleep"]:e]]})
    return out


def _run_do(case):
    import hio.base.doing as doing
    import hio.help.timing as timing
    clk = FakeClock(case["t0"], case["reads"], case["overs"])
    saved = (doing.time, timing.time)
    doing.time = clk
    timing.time = clk
    try:
        doist = doing.Doist(real=True, tock=case["tock0"])
        runs = []
        for r in case["runs"]:
            clk.advance(float(r["pre"][0]), float(r["pre"][1]))
            if r["tock"] is not None:
                doist.tock = r["tock"]
            tock = doist.tock
            rec = {"cycles": [], "log0": None}
            Pacer = _make_pacer(doing, clk, doist, r, rec, lambda: doist.timer._stop, 0)   # the next reading starts the run
            doist.do(doers=[Pacer(tock=0.0)])
            runs.append(_collect(clk, rec, tock))
        return {"runs": runs}
    finally:
        doing.time, timing.time = saved


# --------------------------------------------------------------------------- oracle

def _fr(h):
    return Fraction(float.fromhex(h))


def oracle(case, obs):
    import math
    ado = case.get("mode") == "ado"     # AsyncTimer: plain Timer over the loop clock, no retrograde shifts
    for ri, (r, o) in enumerate(zip(case["runs"], obs["runs"])):
        tock = _fr(o["tock"])
        n = len(o["cycles"])
        if n != len(r["works"]):
            return f"run {ri}: {n} cycles observed, {len(r['works'])} scripted"
        m0 = _fr(o["start_mono"])
        start = _fr(o["start"])
        readings = [_fr(x) for x in o["readings"]]
        # Tolerance.  Dyadic cases: every float operation of the run is exact, so none.  Otherwise binary64
        # rounding is the named residue of the Z theorems: each clock operation may be off by one ulp of the
        # clock's (or the true time counter's) magnitude (0.24 us at epoch-sized readings), so allow 4 ulp per reading and cycle so far.
        if case.get("exact"):
            unit = Fraction(0)
        else:
            big = max([abs(x) for x in readings] + [abs(start) + (n + 1) * abs(tock), abs(_fr(o["end_mono"])), Fraction(1)])
            unit = 4 * Fraction(math.ulp(float(big)))
        # (A) never early: true elapsed time at the start of cycle k is at least k tocks
        for k, c in enumerate(o["cycles"] + [{"mono": o["end_mono"], "nlog": len(readings)}]):
            el = _fr(c["mono"]) - m0
            if el < k * tock - unit * (k + 2 + c["nlog"]):
                what = f"cycle {k}" if k < n else "return of do()"
                return (f"run {ri}: {what} began after {float(el)} s of elapsed real time, "
                        f"earlier than {k} tocks of {float(tock)} s")
        # (B) lossless: the deadline in force at the start of cycle k is start + (k+1) tocks plus the
        # retrograde shifts seen so far -- lateness, work and overshoot never enter
        for k, c in enumerate(o["cycles"]):
            seen = readings[:c["nlog"]]
            sh = Fraction(0) if ado else sum((min(Fraction(0), b - a) for a, b in zip(seen, seen[1:])), Fraction(0))
            want = start + (k + 1) * tock + sh
            got = _fr(c["stop"])
            if abs(got - want) > unit * (k + 2 + c["nlog"]):
                return (f"run {ri}: deadline at cycle {k} is {float(got)}, expected start {float(start)} + {k + 1} tocks "
                        f"of {float(tock)} + retrograde shifts {float(sh)} = {float(want)} (drift {float(got - want)})")
        # (C) behaviour, without looking at the timer: in a run with no retrograde reading every sleep
        # aims exactly at start + (k+1) tocks whatever the lateness of earlier cycles
        if ado or all(b >= a for a, b in zip(readings, readings[1:])):
            for k, c in enumerate(o["cycles"]):
                for a, d in c["sleeps"]:
                    target = _fr(a) + _fr(d)
                    want = start + (k + 1) * tock
                    tol = unit * (k + 2 + c["nlog"] + 3 * (n - k))
                    if _fr(d) == 0 and target >= want - tol:
                        continue     # the deadline passed between the expired and the remaining read
                    if abs(target - want) > tol:
                        return (f"run {ri}: cycle {k} slept from {float(_fr(a))} for {float(_fr(d))} s, aiming at "
                                f"{float(target)} instead of start + {k + 1} tocks = {float(want)}")
        # (D) on time: lateness is never carried over.  In a run whose clock only moves forward, cycle k+1 starts
        # no later than max(its deadline start + (k+1) tocks, end of the work of cycle k) plus what the environment
        # itself added while the scheduler waited (progress between clock reads, sleep overshoot): whenever the
        # work fits in the tock and sleeps are exact the next cycle starts exactly on its deadline.
        cyc = o["cycles"]
        steps = [w for w in r["works"]] + case["reads"][(cyc[0]["ri"] if cyc else 0):o["ri_end"]]
        if all(float(j) == 0 for _, j in steps) and all(b >= a for a, b in zip(readings, readings[1:])):
            for k, c in enumerate(cyc):
                nxt = cyc[k + 1] if k + 1 < n else {"now": o["end"], "ri": o["ri_end"], "oi": o["oi_end"], "nlog": len(readings)}
                deadline = start + (k + 1) * tock
                after_work = _fr(c["now"]) + Fraction(float(r["works"][k][0]))
                prog = sum((Fraction(float(p)) for p, _ in case["reads"][c["ri"]:nxt["ri"]]), Fraction(0))
                over = sum((Fraction(float(x)) for x in case["overs"][c["oi"]:nxt["oi"]] if not isinstance(x, list)), Fraction(0))
                bound = max(deadline, after_work) + prog + over
                got = _fr(nxt["now"])
                if got > bound + unit * (k + 3 + nxt["nlog"]):
                    what = f"cycle {k + 1}" if k + 1 < n else "return of do()"
                    return (f"run {ri}: {what} began at {float(got)}, {float(got - bound)} s later than max(deadline "
                            f"{float(deadline)}, end of work {float(after_work)}) + environment delay {float(prog + over)}: "
                            f"lateness was carried into a later cycle")
    return None


# --------------------------------------------------------------------------- cases

def _run(works, pre=(0.0, 0.0), tock=None, sets=None, ops=None):
    r = {"pre": list(pre), "tock": tock, "works": [list(w) for w in works]}
    if sets:
        r["sets"] = list(sets)
    if ops:
        r["ops"] = list(ops)
    return r


def _case(t0, tock0, runs, reads=(), overs=(), exact=True, mode="do"):
    c = {"t0": t0, "tock0": tock0, "reads": [list(r) for r in reads], "overs": list(overs), "runs": runs, "exact": exact}
    if mode != "do":
        c["mode"] = mode
    return c


Z = (0.0, 0.0)


def directed():
    w = lambda p: (p, 0.0)
    return [
        # steady pacing, work shorter than the tock
        _case(1000.0, 1.0, [_run([w(0.125)] * 5)]),
        # Appendix A.7: one sleep overshoot of 0.25 and one -5.0 step during the work of a cycle
        _case(1000.0, 1.0, [_run([w(0.125), w(0.125), w(0.125), (0.125, 5.0), w(0.125), w(0.125)])], overs=[0.0, 0.25]),
        # D4: tock assigned after construction
        _case(1000.0, 0.5, [_run([Z] * 5, tock=2.0)]),
        _case(1000.0, 2.0, [_run([Z] * 4, tock=0.25)]),
        # clock stepped back between construction and do() (stale MonoTimer._last)
        _case(1000.0, 0.5, [_run([Z] * 6, pre=(5.0, 105.0))]),
        # clock stepped back by an hour between two runs, tock changed for the second
        _case(5000.0, 0.5, [_run([w(0.25)] * 3), _run([w(0.25)] * 4, pre=(10.0, 3600.0), tock=1.0)]),
        # lateness: a cycle works for 3.5 tocks; the following deadlines stay where they were
        _case(0.0, 1.0, [_run([w(0.25), w(3.5), w(0.25), w(0.25), w(0.25), w(0.25)])]),
        # every sleep overshoots by more than a tock
        _case(64.0, 0.25, [_run([Z] * 6)], overs=[0.5, 0.375, 0.0, 1.0, 0.25, 0.125]),
        # backward jump seen by the `expired` read (read 2 of the run: 0 is the start, 1 expired, 2 remaining ...)
        _case(1000.0, 1.0, [_run([w(0.25)] * 4)], reads=[Z, Z, Z, (0.0, 0.0), (0.0, 0.0), (0.0, 0.0), (0.5, 2.0)]),
        # backward jump seen by the `remaining` read (its sleep is longer by the jump), and one masked by forward progress
        _case(1000.0, 1.0, [_run([w(0.25)] * 4)], reads=[Z, Z, Z, Z, (0.0, 3.0), Z, Z, (2.0, 1.0)]),
        # backward jump between the two clock reads inside MonoTimer.__init__ and at the run start reading
        _case(1000.0, 1.0, [_run([w(0.25)] * 3)], reads=[Z, (0.0, 50.0), (1.0, 7.0)]),
        # repeated backward jumps right after each sleep: several sleeps in one wait
        _case(100.0, 1.0, [_run([Z] * 3)], reads=[Z, Z, Z, Z, Z, (0.0, 0.5), Z, (0.0, 0.25), Z, (0.0, 0.125)]),
        # sleeps that return early (the `while not expired` loop sleeps again), one of them with a step back after it
        _case(1000.0, 1.0, [_run([w(0.125)] * 4)], overs=[["early", 0.25], ["early", 0.5], 0.0, ["early", 0.0], ["early", 2.0], 0.0],
              reads=[Z, Z, Z, Z, Z, Z, (0.0, 0.125)]),
        # the deadline passes between the `expired` read and the `remaining` read: sleep(0.0) is asked for
        _case(1000.0, 1.0, [_run([w(0.25)] * 3)], reads=[Z, Z, Z, (2.0, 0.0), Z, Z, (0.5, 0.0), (0.5, 0.0)]),
        # tock 0: never waits; a negative tock is kept as it is (deadlines move backwards, nothing waits)
        _case(10.0, 0.0, [_run([w(0.5)] * 3)]),
        _case(10.0, -0.5, [_run([Z] * 3), _run([Z] * 3, tock=-1.0)]),
        # stalled clock (no work, no overshoot) and default tock
        _case(0.0, 0.03125, [_run([Z] * 8)]),
        # a doer calls doist.extend()/remove() during the run, with work time already spent in the cycle: the running
        # deadline must not be touched (steady clock, exact sleeps: every cycle starts exactly on its deadline)
        _case(1000.0, 1.0, [_run([w(0.25)] * 8, ops=[None, "extend", None, "extend", "remove", None, "extend"])]),
        _case(1000.0, 0.5, [_run([w(0.125), w(0.375), w(0.75), w(0.125), w(0.125), w(0.125)], ops=["extend", "extend", "extend", "remove"])],
              overs=[0.0, 0.0625]),
        _case(1000.0, 1.0, [_run([w(0.25)] * 5, ops=[None, "extend", "remove"]), _run([w(0.5)] * 4, pre=(3.0, 10.0), ops=["extend"])]),
        _case(50.0, 1.0, [_run([w(0.25)] * 6, ops=[None, "extend", None, "remove", "extend"])], mode="ado"),
        _case(0.1, 0.1, [_run([(0.03, 0.0)] * 8, ops=[None, None, "extend", None, "extend"])], exact=False),
        # a doer assigns doist.tock while the run is under way: smaller (the run must not speed up), larger, and
        # the next run starts with the assigned value
        _case(1000.0, 1.0, [_run([w(0.125)] * 8, sets=[None, None, 0.125])], overs=[0.0, 0.03125, 0.0, 0.03125]),
        _case(1000.0, 0.5, [_run([Z] * 6, sets=[None, 2.0, None, 0.25])]),
        _case(1000.0, 1.0, [_run([Z] * 4, sets=[None, 0.25]), _run([Z] * 4), _run([Z] * 3, tock=0.5, sets=[4.0, None, 0.125])]),
        _case(50.0, 1.0, [_run([w(0.125)] * 8, sets=[None, None, 0.125])], mode="ado"),
        _case(50.0, 0.5, [_run([Z] * 5, sets=[None, 2.0, None, 0.25]), _run([Z] * 3)], mode="ado"),
        _case(0.1, 0.1, [_run([(0.01, 0.0)] * 10, sets=[None, None, 0.01])], overs=[0.003] * 10, exact=False),
        # ---- asyncio.run(doist.ado()): AsyncTimer over the loop clock (monotonic: no backward steps)
        _case(50.0, 1.0, [_run([w(0.125)] * 5)], mode="ado"),
        _case(50.0, 0.5, [_run([Z] * 5, tock=2.0)], mode="ado"),                       # tock reassigned before ado()
        _case(50.0, 1.0, [_run([w(0.25), w(3.5), w(0.25), w(0.25), w(0.25), w(0.25)])], mode="ado"),   # lateness
        _case(8.0, 0.25, [_run([Z] * 6)], overs=[0.5, 0.375, 0.0, 1.0, 0.25, 0.125], mode="ado"),       # overshoots
        _case(50.0, 1.0, [_run([w(0.125)] * 4)], overs=[["early", 0.25], ["early", 0.5], 0.0, ["early", 0.0], ["early", 2.0], 0.0],
              mode="ado"),                                                                 # early wakeups
        _case(50.0, 1.0, [_run([w(0.25)] * 3)], reads=[Z, Z, Z, (2.0, 0.0), Z, Z, (0.5, 0.0), (0.5, 0.0)], mode="ado"),  # sleep(0.0)
        _case(50.0, 0.5, [_run([w(0.25)] * 3), _run([w(0.25)] * 4, pre=(10.0, 0.0), tock=1.0)], mode="ado"),          # two runs
        _case(3.0, 0.0, [_run([w(0.5)] * 3)], mode="ado"),
        _case(12345.678, 0.1, [_run([(0.01, 0.0)] * 6)], overs=[0.003, 0.0, 0.25], exact=False, mode="ado"),
        # non-dyadic values
        _case(1700000000.123, 0.1, [_run([(0.01, 0.0)] * 6)], overs=[0.003, 0.0, 0.25], exact=False),
        _case(0.1, 1 / 3, [_run([(0.05, 0.0), (0.7, 0.0), (0.05, 0.3), (0.05, 0.0)], pre=(0.2, 0.7), tock=0.3)],
              reads=[Z, Z, Z, (0.001, 0.0), (0.0, 0.011)], exact=False),
    ]


def _dy(rng, hi, q=64):
    """dyadic value in [0, hi] with denominator q"""
    return rng.randint(0, int(hi * q)) / q


def _gen_case(rng, exact, ado=False):
    if ado:
        c = _gen_case(rng, exact)
        # the event loop's clock is monotonic and starts near zero: no backward step anywhere
        c["t0"] = rng.choice([0.0, 0.25, 1024.5, 262144.0]) if exact else rng.choice([0.1, 12.3456, rng.uniform(0, 1e6)])
        c["reads"] = [[p, 0.0] for p, _ in c["reads"]]
        for r in c["runs"]:
            r["pre"][1] = 0.0
            r["works"] = [[p, 0.0] for p, _ in r["works"]]
        c["mode"] = "ado"
        return c
    if exact:
        t0 = rng.choice([0.0, 1.0, 1000.0, 4096.5, 1048576.0, 1700000000.0, 1700000000.0 + _dy(rng, 100)])
        tocks = [0.0, 0.015625, 0.03125, 0.125, 0.25, 0.5, 1.0, 1.5, 2.0, 4.0]
        val = lambda hi: _dy(rng, hi)
    else:
        t0 = rng.choice([0.1, 1000.3, 1700000000.123456, rng.uniform(0, 2e9)])
        tocks = [0.1, 0.01, 0.3, 1 / 3, 0.03125, 1.1, rng.uniform(0.001, 3.0), 0.0]
        val = lambda hi: rng.uniform(0, hi)
    tock0 = rng.choice(tocks) * (-1 if rng.random() < 0.04 else 1)
    nruns = rng.choice([1, 1, 1, 2, 2, 3])
    runs, tock, ncyc = [], abs(tock0), 0
    flavour = rng.choice(["steady", "late", "retro", "mixed", "mixed"])
    for _ in range(nruns):
        newtock = rng.choice(tocks) * (-1 if rng.random() < 0.04 else 1) if rng.random() < 0.45 else None
        if newtock is not None:
            tock = abs(newtock)
        pre = [0.0, 0.0]
        if rng.random() < 0.5:
            pre[0] = val(rng.choice([0.5, 10.0, 1000.0]))
        if rng.random() < 0.35:
            pre[1] = val(rng.choice([0.25, 10.0, 7200.0]))
        n = rng.choice([1, 2, 3, 4, 5, 6, 8, 12])
        ncyc += n
        works = []
        for _ in range(n):
            span = max(tock, 0.0625)
            p = 0.0
            u = rng.random()
            if u < 0.6:
                p = val(span * 0.75)
            elif u < (0.9 if flavour in ("late", "mixed") else 0.65):
                p = val(span * 4)
            j = 0.0
            if flavour in ("retro", "mixed") and rng.random() < 0.15:
                j = val(rng.choice([span / 2, span * 3, 3600.0]))
            works.append([p, j])
        run = {"pre": pre, "tock": newtock, "works": works}
        if n >= 2 and rng.random() < 0.45:
            sets = [None] * n
            for _ in range(rng.choice([1, 1, 2])):
                k = rng.randrange(0, n - 1)
                if exact:
                    sets[k] = rng.choice([tock / 8, tock / 4, tock / 2, tock * 2, tock * 4, 0.0, 0.015625, 1.0])
                else:
                    sets[k] = rng.choice([tock / 10, tock / 3, tock * 1.7, tock * 3, 0.01, rng.uniform(0.001, 2.0)])
            run["sets"] = sets
            last = [x for x in sets if x is not None]
            tock = abs(last[-1]) if last else tock
        if n >= 3 and rng.random() < 0.4:
            ops = [None] * n
            for _ in range(rng.choice([1, 2, 3])):
                ops[rng.randrange(0, n - 1)] = rng.choice(["extend", "extend", "remove"])
            run["ops"] = ops
        runs.append(run)
    span = max(tock, 0.0625)
    # per-read script: mostly nothing happens between two reads
    nreads = 3 + 4 * ncyc
    reads = []
    for _ in range(nreads):
        u = rng.random()
        p = j = 0.0
        if u < 0.12:
            p = val(span / 4)
        elif u < 0.15:
            p = val(span * 3)
        if flavour in ("retro", "mixed") and rng.random() < 0.08:
            j = val(rng.choice([span / 4, span * 2, 86400.0]))
        reads.append([p, j])
    if rng.random() < 0.3:
        reads = reads[:rng.randint(0, len(reads))]
    overs = []
    for _ in range(2 * ncyc):
        u = rng.random()
        if flavour == "steady":
            overs.append(0.0)
        elif u < 0.55:
            overs.append(0.0)
        elif u < 0.8:
            overs.append(val(span / 4))
        elif u < 0.9:
            overs.append(val(span * 3))
        else:
            overs.append(["early", val(span)])
    return {"t0": t0, "tock0": tock0, "reads": reads, "overs": overs, "runs": runs, "exact": exact}


def generate(rng, tier):
    n = 700 if tier == "quick" else 9000
    return [_gen_case(rng, exact=(i % 4 != 3), ado=(i % 3 == 2)) for i in range(n)]


# --------------------------------------------------------------------------- Gallina

def _fl(x):
    return coq_float(float(x))


def _hf(h):
    return coq_float(float.fromhex(h))


def _pair(p):
    return f"({_fl(p[0])}, {_fl(p[1])})"


def _slp(o):
    return f"(RealTime.Early {_fl(o[1])})" if isinstance(o, list) else f"(RealTime.Over {_fl(o)})"


def to_coq(case, obs):
    runs = coq_list(
        ["{| RealTime.i_pre := %s; RealTime.i_tock := %s; RealTime.i_works := %s; RealTime.i_sets := %s |}" % (
            _pair(r["pre"]), coq_option(r["tock"], _fl, "float"), coq_list([_pair(w) for w in r["works"]], "float * float"),
            coq_list([coq_option(x, _fl, "float") for x in (r.get("sets") or [])], "option float"))
         for r in case["runs"]], "@RealTime.run_in float")
    outs = []
    for o in obs["runs"]:
        cycs = coq_list(
            ["{| RealTime.f_now := %s; RealTime.f_mono := %s; RealTime.f_stop := %s; RealTime.f_sleeps := %s |}" % (
                _hf(c["now"]), _hf(c["mono"]), _hf(c["stop"]), coq_list([_hf(d) for _, d in c["sleeps"]], "float"))
             for c in o["cycles"]], "RealTime.fcyc")
        outs.append("{| RealTime.f_start := %s; RealTime.f_start_mono := %s; RealTime.f_cycles := %s; "
                    "RealTime.f_end := %s; RealTime.f_end_mono := %s |}" % (
                        _hf(o["start"]), _hf(o["start_mono"]), cycs, _hf(o["end"]), _hf(o["end_mono"])))
    return ("{| RealTime.k_async := %s; RealTime.k_t0 := %s; RealTime.k_tock0 := %s; RealTime.k_reads := %s; RealTime.k_overs := %s; "
            "RealTime.k_runs := %s; RealTime.k_obs := %s |}" % (
                "true" if case.get("mode") == "ado" else "false",
                _fl(case["t0"]), _fl(case["tock0"]), coq_list([_pair(r) for r in case["reads"]], "float * float"),
                coq_list([_slp(o) for o in case["overs"]], "@RealTime.slp float"), runs, coq_list(outs, "RealTime.frun")))


# --------------------------------------------------------------------------- reporting

def nontrivial(case, obs):
    ncyc = sum(len(r["works"]) for r in case["runs"])
    if ncyc < 3:
        return False
    back = any(j > 0 for r in case["runs"] for _, j in r["works"]) or any(r["pre"][1] > 0 for r in case["runs"]) \
        or any(j > 0 for _, j in case["reads"])
    over = any(isinstance(o, list) or o > 0 for o in case["overs"])
    late = any(len(c["sleeps"]) == 0 for o in obs["runs"] for c in o["cycles"])
    return back or over or late


def classify(case, obs, why):
    return None


def shrink(case):
    runs = case["runs"]
    if len(runs) > 1:
        for i in range(len(runs)):
            yield dict(case, runs=runs[:i] + runs[i + 1:])
    for i, r in enumerate(runs):
        if len(r["works"]) > 1:
            yield dict(case, runs=runs[:i] + [dict(r, works=r["works"][:-1])] + runs[i + 1:])
        if any(x != [0.0, 0.0] for x in r["works"]):
            for k, x in enumerate(r["works"]):
                if x != [0.0, 0.0]:
                    ws = r["works"][:k] + [[0.0, 0.0]] + r["works"][k + 1:]
                    yield dict(case, runs=runs[:i] + [dict(r, works=ws)] + runs[i + 1:])
        if r["pre"] != [0.0, 0.0]:
            yield dict(case, runs=runs[:i] + [dict(r, pre=[0.0, 0.0])] + runs[i + 1:])
        if r.get("sets"):
            yield dict(case, runs=runs[:i] + [{k: v for k, v in r.items() if k != "sets"}] + runs[i + 1:])
        if r.get("ops"):
            yield dict(case, runs=runs[:i] + [{k: v for k, v in r.items() if k != "ops"}] + runs[i + 1:])
    if case["reads"]:
        yield dict(case, reads=[])
        for k, x in enumerate(case["reads"]):
            if x != [0.0, 0.0]:
                yield dict(case, reads=case["reads"][:k] + [[0.0, 0.0]] + case["reads"][k + 1:])
    if case["overs"]:
        yield dict(case, overs=[])
        for k, x in enumerate(case["overs"]):
            if x != 0.0:
                yield dict(case, overs=case["overs"][:k] + [0.0] + case["overs"][k + 1:])
            if isinstance(x, list):
                yield dict(case, overs=case["overs"][:k] + case["overs"][k + 1:])


def distribution(cases, obs):
    d = {"cases": len(cases), "ado_cases": sum(1 for c in cases if c.get("mode") == "ado"), "exact": 0, "cycles": 0, "cycles_no_wait": 0, "cycles_multi_sleep": 0, "runs_with_retro_reading": 0,
         "runs": 0, "runs_with_runtime_extend_remove": 0, "runs_tock_set_by_doer_midrun": 0, "runs_tock_reassigned": 0, "runs_pre_step_back": 0, "sleep_calls": 0}
    for c, o in zip(cases, obs):
        if not isinstance(o, dict) or "runs" not in o:
            continue
        d["exact"] += bool(c.get("exact"))
        for r, ro in zip(c["runs"], o["runs"]):
            d["runs"] += 1
            d["runs_tock_reassigned"] += r["tock"] is not None
            d["runs_with_runtime_extend_remove"] += any(x is not None for x in (r.get("ops") or []))
            d["runs_tock_set_by_doer_midrun"] += any(x is not None for x in (r.get("sets") or []))
            d["runs_pre_step_back"] += r["pre"][1] > 0
            rd = [float.fromhex(x) for x in ro["readings"]]
            d["runs_with_retro_reading"] += any(b < a for a, b in zip(rd, rd[1:]))
            for cy in ro["cycles"]:
                d["cycles"] += 1
                d["cycles_no_wait"] += len(cy["sleeps"]) == 0
                d["cycles_multi_sleep"] += len(cy["sleeps"]) > 1
                d["sleep_calls"] += len(cy["sleeps"])
    return d


# --------------------------------------------------------------------------- extra: exhaustive grid + real clock

def _grid(nreads, ctx, ado=False):
    """Every environment of a small grid, run on the real code and judged by the oracle: 2 cycles of tock 1,
    work in {0, 1/2, 3/2} per cycle, each of the first `nreads` clock reads preceded by nothing, 1/4 s of
    progress or a 3/4 s step back, the first two sleeps exact, 1/2 s over, or returning after 1/4 s."""
    import itertools
    n = bad = 0
    wk = [0.0, 0.5, 1.5]
    rd = [[0.0, 0.0], [0.25, 0.0], [0.75, 0.0]] if ado else [[0.0, 0.0], [0.25, 0.0], [0.0, 0.75]]   # loop clock: no step back
    ov = [0.0, 0.5, ["early", 0.25]]
    for w0, w1 in itertools.product(wk, wk):
        for o0, o1 in itertools.product(ov, ov):
            for reads in itertools.product(rd, repeat=nreads):
                case = {"t0": 100.0, "tock0": 1.0, "reads": [list(r) for r in reads], "overs": [o0, o1], "exact": True,
                        "runs": [{"pre": [0.0, 0.0], "tock": None, "works": [[w0, 0.0], [w1, 0.0]]}]}
                if ado:
                    case["mode"] = "ado"
                why = oracle(case, run_impl(case))
                n += 1
                if why is not None:
                    bad += 1
                    if bad <= 2:
                        ctx.violations.append({"kind": "oracle-grid", "why": why, "case": case})
    return n


def _real_clock_soak(ctx, cycles, tock):
    """The real time module: Doist(real=True) paced by the machine's clock; cycle starts are taken from
    time.monotonic() (a different clock from the time.time() the code reads)."""
    import time as _time
    import hio.base.doing as doing
    marks = []

    class Pacer(doing.Doer):
        def enter(self, **kwa):
            self.count = 0

        def recur(self, tyme):
            marks.append(_time.monotonic())
            self.count += 1
            if self.count % 3 == 0:
                _time.sleep(tock * 1.5)      # a late cycle
            return self.count >= cycles

    doist = doing.Doist(real=True, tock=tock * 4)
    doist.tock = tock                         # D4: reassigned before the run
    t_before = _time.monotonic()
    doist.do(doers=[Pacer(tock=0.0)])
    slack = 0.002
    for k, m in enumerate(marks):
        if m - marks[0] < k * tock - slack:
            ctx.violations.append({"kind": "real-clock", "no_input": True, "case": {"cycles": cycles, "tock": tock},
                                   "why": f"real clock: cycle {k} began {m - marks[0]:.6f} s after cycle 0, earlier than {k} tocks of {tock} s"})
            break
    return {"cycles": len(marks), "tock": tock, "span_s": round(marks[-1] - marks[0], 4),
            "mean_period_s": round((marks[-1] - marks[0]) / max(1, len(marks) - 1), 5)}


def _real_loop_soak(ctx, cycles, tock):
    """asyncio.run(doist.ado()) on the real event loop and its real clock; cycle starts from time.monotonic()."""
    import asyncio
    import time as _time
    import hio.base.doing as doing
    marks = []

    class Pacer(doing.Doer):
        def enter(self, **kwa):
            self.count = 0

        def recur(self, tyme):
            marks.append(_time.monotonic())
            self.count += 1
            if self.count % 3 == 0:
                _time.sleep(tock * 1.5)      # a late cycle (blocks the loop, as a slow doer would)
            return self.count >= cycles

    doist = doing.Doist(real=True, tock=tock * 4)
    doist.tock = tock
    asyncio.run(doist.ado(doers=[Pacer(tock=0.0)]))
    slack = 0.002
    for k, m in enumerate(marks):
        if m - marks[0] < k * tock - slack:
            ctx.violations.append({"kind": "real-loop", "no_input": True, "case": {"cycles": cycles, "tock": tock},
                                   "why": f"real event loop: cycle {k} began {m - marks[0]:.6f} s after cycle 0, earlier than {k} tocks of {tock} s"})
            break
    return {"cycles": len(marks), "tock": tock, "span_s": round(marks[-1] - marks[0], 4),
            "mean_period_s": round((marks[-1] - marks[0]) / max(1, len(marks) - 1), 5)}


def extra(tier, ctx):
    n = _grid(5 if tier == "quick" else 7, ctx)
    na = _grid(3 if tier == "quick" else 6, ctx, ado=True)
    out = {"exhaustive_grid_runs": n, "exhaustive_grid_runs_ado": na, "exhaustive": False}
    out["real_clock_soak"] = _real_clock_soak(ctx, 12 if tier == "quick" else 60, 0.02)
    out["real_loop_soak_ado"] = _real_loop_soak(ctx, 12 if tier == "quick" else 60, 0.02)
    return out
