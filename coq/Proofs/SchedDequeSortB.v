(* Enter order, regime B (the passes; programs without extend()): during the
   calls nested in a pass of scheduler j (or in the root's pass), j's deque
   changes only by deletion of deeds ([del_all]); every deque stays sorted by
   enter position in its canonical (un-rotated) order, and only schedulers that
   are executing carry a marker ([srtb_all]). *)
From Coq Require Import Sorting.Sorted.
From Hio Require Import Base.Prelude Base.AMap Base.Time Model.Sched Proofs.SchedEqs Proofs.SchedFrame Proofs.SchedLife
  Proofs.SchedDeque Proofs.SchedDequeHold Proofs.SchedDequeAll Proofs.SchedDequeEffects Proofs.SchedDequeEpos.

Section SortB.
Context {T : Type} `{Time T}.
Implicit Types s a b : st T.
Variable tk : T.

(* j's deque is protected: j is executing, or j is the root (never a generator) *)
Definition prot s (j : id) : Prop := running s j \/ (j = 0%N /\ get (defs s) 0%N = None).

Lemma prot_ne s i j pc : prot s j -> get_gen s i = GSusp pc -> get (defs s) i <> None -> i <> j.
Proof.
  intros [R|[Hz D0]] G D.
  - eapply susp_ne; eassumption.
  - intro Heq. subst. congruence.
Qed.

Lemma prot_same s s' j : (forall x, get_gen s' x = get_gen s x) -> defs s' = defs s -> prot s j -> prot s' j.
Proof.
  intros Hg Hd [[pc R]|[Hz D0]]; [left; exists pc; now rewrite Hg|right; split; [exact Hz|now rewrite Hd]].
Qed.
Lemma prot_gen s i g j : i <> j -> prot s j -> prot (set_gen s i g) j.
Proof.
  intros Hne [[pc R]|[Hz D0]]; [left; exists pc; now rewrite gen_set_gen_other by congruence|right; split; assumption].
Qed.

Lemma prot_all f j :
  (forall s i k sc pc s' r, prot s j -> i <> j -> run_step tk f s i k sc pc = (s', r) -> prot s' j) /\
  (forall s i s' r, prot s j -> gen_send tk f s i = (s', r) -> prot s' j) /\
  (forall s i, prot s j -> prot (gen_close tk f s i) j) /\
  (forall s i, prot s j -> prot (close_own tk f s i) j) /\
  (forall s ds, prot s j -> prot (close_list tk f s ds) j) /\
  (forall s c es s' r, prot s j -> run_effects tk f s c es = (s', r) -> prot s' j) /\
  (forall s sid s' r, prot s j -> recur_pass tk f s sid = (s', r) -> prot s' j) /\
  (forall s sid s' r, prot s j -> recur_loop tk f s sid = (s', r) -> prot s' j).
Proof.
  destruct (framej_all tk j f) as (Jst & Jrs & Jsd & Jcl & Jco & Jli & Jeo & Jel & Jef & Jrp & Jrl).
  destruct (frame_all tk f) as (Fst & Frs & Fsd & Fcl & Fco & Fli & Feo & Fel & Fef & Frp & Frl).
  assert (K : forall s s', steps s s' -> (running s j -> noj j s s') -> prot s j -> prot s' j).
  { intros s s' St Nj [R|[Hz D0]].
    - left. eapply running_noj; [exact R|now apply Nj].
    - right. split; [exact Hz|]. now rewrite (steps_defs _ _ St). }
  repeat split; intros.
  - eapply K; [eapply Frs; [apply st_refl|eassumption]| |eassumption]. intro R. eapply Jrs; [exact R|apply noj_refl|eassumption|eassumption].
  - eapply K; [eapply Fsd; [apply st_refl|eassumption]| |eassumption]. intro R. eapply Jsd; [exact R|apply noj_refl|eassumption].
  - eapply K; [apply Fcl, st_refl| |eassumption]. intro R. apply Jcl; [exact R|apply noj_refl].
  - eapply K; [apply Fco, st_refl| |eassumption]. intro R. apply Jco; [exact R|apply noj_refl].
  - eapply K; [apply Fli, st_refl| |eassumption]. intro R. apply Jli; [exact R|apply noj_refl].
  - eapply K; [eapply Fef; [apply st_refl|eassumption]| |eassumption]. intro R. eapply Jef; [exact R|apply noj_refl|eassumption].
  - eapply K; [eapply Frp; [apply st_refl|eassumption]| |eassumption]. intro R. eapply Jrp; [exact R|apply noj_refl|eassumption].
  - eapply K; [eapply Frl; [apply st_refl|eassumption]| |eassumption]. intro R. eapply Jrl; [exact R|apply noj_refl|eassumption].
Qed.

(* ---------- the frame: a protected deque only loses deeds ---------- *)

Definition dqdel (j : id) a s : Prop := delq (dq s j) (dq a j).

Lemma dqdel_same j a s s' : dq s' j = dq s j -> dqdel j a s -> dqdel j a s'.
Proof. unfold dqdel. intros E D. now rewrite E. Qed.

Lemma xf_defs s s' : defs s' = defs s -> XF (defs s) -> XF (defs s').
Proof. intros E X. now rewrite E. Qed.

Definition del_at (j : id) (f : nat) : Prop :=
  (forall a s i k sc pc s' r, XF (defs s) -> get (defs s) i = Some (FLeaf k sc) -> prot s j -> i <> j ->
       dqdel j a s -> run_step tk f s i k sc pc = (s', r) -> dqdel j a s') /\
  (forall a s i s' r, XF (defs s) -> prot s j -> dqdel j a s -> gen_send tk f s i = (s', r) -> dqdel j a s') /\
  (forall a s i, prot s j -> dqdel j a s -> dqdel j a (gen_close tk f s i)) /\
  (forall a s sid, sid <> j -> prot s j -> dqdel j a s -> dqdel j a (close_own tk f s sid)) /\
  (forall a s ds, prot s j -> dqdel j a s -> dqdel j a (close_list tk f s ds)) /\
  (forall a s c es s' r, XF (defs s) -> noext es -> prot s j -> dqdel j a s ->
       run_effects tk f s c es = (s', r) -> dqdel j a s') /\
  (forall a s sid s' r, XF (defs s) -> sid <> j -> prot s j -> dqdel j a s -> recur_pass tk f s sid = (s', r) -> dqdel j a s') /\
  (forall a s sid s' r, XF (defs s) -> sid <> j -> prot s j -> dqdel j a s -> recur_loop tk f s sid = (s', r) -> dqdel j a s').

Lemma del_all j : forall f, del_at j f.
Proof.
  induction f as [|f IH].
  - unfold del_at. repeat match goal with |- _ /\ _ => split end; intros;
      try match goal with E : _ = (_, _) |- _ => cbn in E; inversion E; subst; clear E end; cbn; assumption.
  - destruct IH as (Irs & Isd & Icl & Ico & Ili & Ief & Irp & Irl).
    destruct (prot_all f j) as (Prs & Psd & Pcl & Pco & Pli & Pef & Prp & Prl).
    unfold del_at. repeat match goal with |- _ /\ _ => split end.
    + (* run_step *)
      intros a s i k sc pc s' r X D P Hne Dq E. rewrite run_step_S in E. cbv zeta in E.
      destruct (run_effects tk f s i _) as [s1 r0] eqn:Ee.
      assert (D1 : dqdel j a s1) by (eapply Ief; [exact X|exact (proj2 X i k sc pc D)|exact P|exact Dq|exact Ee]).
      destruct r0; [| |destruct kbd|]; cbv beta iota zeta in E; try (destruct (f_out _)); fin; exact D1.
    + (* gen_send *)
      intros a s i s' r X P Dq E. rewrite gen_send_S in E.
      destruct (get_gen s i) eqn:G; try (fin; exact Dq).
      destruct (get (defs s) i) as [[k sc|t0 al kids]|] eqn:D; [| |fin; exact Dq].
      * assert (Hne : i <> j) by (eapply prot_ne; [exact P|exact G|congruence]).
        eapply Irs; [| | | | |exact E]; [exact X|exact D| |exact Hne|exact Dq].
        apply (prot_same (set_gen s i (GRun pc))); [reflexivity|reflexivity|]. now apply prot_gen.
      * assert (Hne : i <> j) by (eapply prot_ne; [exact P|exact G|congruence]).
        cbv zeta in E.
        set (s1 := emit (set_gen s i (GRun pc)) Recur i) in *.
        assert (P1 : prot s1 j) by (apply (prot_same (set_gen s i (GRun pc))); [reflexivity|reflexivity|now apply prot_gen]).
        destruct (recur_pass tk f s1 i) as [s2 r0] eqn:Ee.
        assert (D2 : dqdel j a s2) by (eapply Irp; [| | | |exact Ee]; [exact X|exact Hne|exact P1|exact Dq]).
        assert (P2 : prot s2 j) by (eapply Prp; [exact P1|exact Ee]).
        assert (Fin : forall s3, dqdel j a s3 -> prot s3 j -> dqdel j a (set_gen (emit (close_own tk f s3 i) Exit i) i GDone)).
        { intros s3 D3 P3. apply (Ico a s3 i Hne P3 D3). }
        destruct r0; cbv beta iota zeta in E.
        -- match type of E with (if ?c then _ else _) = _ => destruct c end; fin; [apply Fin; assumption|exact D2].
        -- match type of E with (if ?c then _ else _) = _ => destruct c end; fin; [apply Fin; assumption|exact D2].
        -- fin. apply Fin; destruct kbd; assumption.
        -- fin. exact D2.
    + (* gen_close *)
      intros a s i P Dq. rewrite gen_close_S. destruct (get_gen s i) eqn:G; try exact Dq.
      destruct (get (defs s) i) as [[k sc|t0 al kids]|] eqn:D; [exact Dq| |exact Dq].
      cbv zeta. assert (Hne : i <> j) by (eapply prot_ne; [exact P|exact G|congruence]).
      apply (Ico a (emit (set_gen s i (GRun pc)) Cease i) i Hne); [|exact Dq].
      apply (prot_same (set_gen s i (GRun pc))); [reflexivity|reflexivity|now apply prot_gen].
    + (* close_own *)
      intros a s sid Hne P Dq. rewrite close_own_S. cbv zeta. apply Ili.
      * apply (prot_same s); [reflexivity|reflexivity|exact P].
      * eapply dqdel_same; [|exact Dq]. apply dq_deeds_other. congruence.
    + (* close_list *)
      intros a s ds P Dq. rewrite close_list_S. destruct ds as [|[|i re] r]; [exact Dq|now apply Ili|].
      apply Ili; [now apply Pcl|now apply Icl].
    + (* run_effects *)
      intros a s c es s' r X Ne P Dq E. rewrite run_effects_S in E.
      destruct es as [|e rest]; [fin; exact Dq|].
      inversion Ne as [|e0 rest0 He Hrest]; subst.
      destruct (negb (live s match e with EExtend t _ => t | ERemove t _ => t end)); [eapply Ief; eassumption|].
      destruct e as [t news|t who]; [contradiction|]. cbv zeta in E.
      match type of E with run_effects tk f (emit (close_list tk f ?s1 ?l) RemRet c) c rest = _ =>
        assert (P1 : prot s1 j) by (apply (prot_same s); [reflexivity|reflexivity|exact P]);
        assert (D1 : dqdel j a s1);
        [|assert (P2 : prot (close_list tk f s1 l) j) by (now apply Pli);
          assert (D2 : dqdel j a (close_list tk f s1 l)) by (now apply Ili);
          eapply Ief; [| | | |exact E];
          [eapply xf_defs; [|exact X]; change (defs (close_list tk f s1 l) = defs s);
           destruct (defs_all tk f) as (_ & _ & K & _); now rewrite K
          |exact Hrest|exact P2|exact D2]]
      end.
      destruct (N.eq_dec t j) as [Heq|Hne].
      * subst t. unfold dqdel in *. rewrite dq_set_same. cbn [deeds].
        eapply delq_trans; [exact Dq|].
        eexists (fun i => negb (memN i _)). apply filter_ext. intros [|i re]; reflexivity.
      * eapply dqdel_same; [|exact Dq]. apply dq_set_other. congruence.
    + (* recur_pass *)
      intros a s sid s' r X Hne P Dq E. rewrite recur_pass_S in E. cbv zeta in E.
      eapply Irl; [| | | |exact E]; [exact X|exact Hne|apply (prot_same s); [reflexivity|reflexivity|exact P]|].
      eapply dqdel_same; [|exact Dq]. apply dq_deeds_other. congruence.
    + (* recur_loop *)
      intros a s sid s' r X Hne P Dq E. rewrite recur_loop_S in E.
      assert (SD : forall s0 l, dqdel j a s0 -> dqdel j a (set_deeds s0 sid l)).
      { intros s0 l D0. eapply dqdel_same; [|exact D0]. apply dq_deeds_other. congruence. }
      assert (SP : forall s0 l, prot s0 j -> prot (set_deeds s0 sid l) j).
      { intros s0 l P0. apply (prot_same s0); [reflexivity|reflexivity|exact P0]. }
      destruct (deeds (get_sched s sid)) as [|[|i re] rest]; [fin; exact Dq|fin; now apply SD|].
      cbv zeta in E. destruct (tleb re _).
      * destruct (gen_send tk f _ i) as [s2 g] eqn:Eg.
        assert (D2 : dqdel j a s2) by (eapply Isd; [| | |exact Eg]; [exact X|now apply SP|now apply SD]).
        assert (P2 : prot s2 j) by (eapply Psd; [|exact Eg]; now apply SP).
        assert (X2 : XF (defs s2)).
        { eapply xf_defs; [|exact X]. destruct (defs_all tk f) as (_ & K & _). now rewrite (K _ _ _ _ Eg). }
        destruct g; fin; try exact D2.
        -- eapply Irl; [| | | |exact E]; [exact X2|exact Hne|now apply SP|now apply SD].
        -- eapply Irl; [exact X2|exact Hne|exact P2|exact D2|exact E].
      * eapply Irl; [| | | |exact E]; [exact X|exact Hne|now apply SP, SP|now apply SD, SD].
Qed.

End SortB.
