(* The "second invariant" of the scheduler model Model/Sched.v, part 1:
   definitions (holding relation, anchoring), the static well-formedness class
   of programs, and three auxiliary facts proved for all interpreter functions
   at once: running out of fuel is reported in the state ([fuel_all]), no doer
   is left executing by a completed call ([norun_all]), and closing never adds
   deeds ([shrink_all]). *)
From Hio Require Import Base.Prelude Base.AMap Base.Time Model.Sched Proofs.SchedEqs Proofs.SchedFrame Proofs.SchedLife.

Ltac brk :=
  cbv zeta in *;
  repeat (match goal with
  | H : context [match ?x with _ => _ end] |- _ => destruct x eqn:?
  | |- context [match ?x with _ => _ end] => destruct x eqn:?
  end; cbv zeta in *).

Ltac fin :=
  repeat match goal with
  | H : (_, _) = (_, _) |- _ => inversion H; subst; clear H
  | H : (_, _, _) = (_, _, _) |- _ => inversion H; subst; clear H
  end.

Section Deque.
Context {T : Type} `{Time T}.
Implicit Types s a b : st T.

(* ---------- deques as lists of doer ids ---------- *)

Definition dids (ds : list (deed T)) : list id :=
  flat_map (fun d => match d with DDeed i _ => [i] | DMark => [] end) ds.
Definition dq s (sid : id) : list (deed T) := deeds (get_sched s sid).
Definition qids s (sid : id) : list id := dids (dq s sid).

Lemma dids_app x y : dids (x ++ y) = dids x ++ dids y.
Proof. unfold dids. now rewrite flat_map_app. Qed.
Lemma dids_in i ds : In i (dids ds) <-> exists re, In (DDeed i re) ds.
Proof.
  unfold dids. rewrite in_flat_map. split.
  - intros [d [Hd Hi]]. destruct d as [|j re]; cbn in Hi; [contradiction|]. destruct Hi as [->|[]]. now exists re.
  - intros [re Hd]. exists (DDeed i re). split; [assumption|now left].
Qed.
Lemma dids_rev_in i ds : In i (dids (rev ds)) <-> In i (dids ds).
Proof. rewrite !dids_in. split; intros [re Hd]; exists re; [now apply in_rev|now apply in_rev in Hd]. Qed.

Lemma split_mark_spec (ds acc : list (deed T)) :
  match split_mark ds acc with
  | Some (u, r) => rev acc ++ ds = u ++ DMark :: r
  | None => ~ In DMark ds
  end.
Proof.
  revert acc. induction ds as [|d ds IH]; intro acc; cbn [split_mark].
  - intros [].
  - destruct d as [|i re].
    + reflexivity.
    + specialize (IH (DDeed i re :: acc)). destruct (split_mark ds (DDeed i re :: acc)) as [[u r]|].
      * rewrite <- IH. cbn [rev]. now rewrite <- app_assoc.
      * intros [E|Hin]; [discriminate|]. now apply IH.
Qed.

Lemma unrotate_in (d : deed T) ds : d <> DMark -> (In d (unrotate ds) <-> In d ds).
Proof.
  intro Hd. unfold unrotate. pose proof (split_mark_spec ds []) as S.
  destruct (split_mark ds []) as [[u r]|]; [|tauto].
  cbn [rev app] in S. rewrite S, !in_app_iff. cbn [In]. split; [tauto|].
  intros [?|[?|?]]; [tauto|congruence|tauto].
Qed.
Lemma dids_unrotate_in i ds : In i (dids (unrotate ds)) <-> In i (dids ds).
Proof. rewrite !dids_in. split; intros [re Hd]; exists re; apply (unrotate_in (DDeed i re)); congruence || assumption. Qed.

(* state accessors under the primitive updates *)
Lemma sched_set_same s i c : get_sched (set_sched s i c) i = c.
Proof. unfold get_sched, set_sched; cbn [scheds]. now rewrite get_set_same. Qed.
Lemma sched_set_other s i c j : j <> i -> get_sched (set_sched s i c) j = get_sched s j.
Proof. intro Hne. unfold get_sched, set_sched; cbn [scheds]. now rewrite get_set_other. Qed.
Lemma dq_set_same s i c : dq (set_sched s i c) i = deeds c.
Proof. unfold dq. now rewrite sched_set_same. Qed.
Lemma dq_set_other s i c j : j <> i -> dq (set_sched s i c) j = dq s j.
Proof. intro. unfold dq. now rewrite sched_set_other. Qed.
Lemma dq_deeds_same s i ds : dq (set_deeds s i ds) i = ds.
Proof. unfold set_deeds. now rewrite dq_set_same. Qed.
Lemma dq_deeds_other s i ds j : j <> i -> dq (set_deeds s i ds) j = dq s j.
Proof. intro. unfold set_deeds. now rewrite dq_set_other. Qed.

Definition is_susp s (i : id) : Prop := exists pc, get_gen s i = GSusp pc.

Variable tk : T.

(* ---------- running out of fuel is always reported in the state ---------- *)

Definition fuel_at (f : nat) : Prop :=
  (forall s i s', gen_start tk f s i = (s', GFuel) -> oof s' = true) /\
  (forall s i k sc pc s', run_step tk f s i k sc pc = (s', GFuel) -> oof s' = true) /\
  (forall s i s', gen_send tk f s i = (s', GFuel) -> oof s' = true) /\
  (forall s sid ids s', enter_own tk f s sid ids = (s', GFuel) -> oof s' = true) /\
  (forall s ids acc s' acc', enter_local tk f s ids acc = (s', GFuel, acc') -> oof s' = true) /\
  (forall s c es s', run_effects tk f s c es = (s', GFuel) -> oof s' = true) /\
  (forall s sid s', recur_pass tk f s sid = (s', GFuel) -> oof s' = true) /\
  (forall s sid s', recur_loop tk f s sid = (s', GFuel) -> oof s' = true).

Lemma fuel_all : forall f, fuel_at f.
Proof.
  induction f as [|f IH].
  - unfold fuel_at. repeat match goal with |- _ /\ _ => split end; intros;
      match goal with E : _ = _ |- _ => cbn in E; inversion E; reflexivity end.
  - destruct IH as (Ist & Irs & Isd & Ieo & Iel & Ief & Irp & Irl).
    unfold fuel_at. repeat match goal with |- _ /\ _ => split end; intros.
    + rewrite gen_start_S in *. brk; fin; eauto.
    + rewrite run_step_S in *. brk; fin; eauto.
    + rewrite gen_send_S in *. brk; fin; eauto.
    + rewrite enter_own_S in *. brk; fin; eauto.
    + rewrite enter_local_S in *. brk; fin; eauto.
    + rewrite run_effects_S in *. brk; fin; eauto.
    + rewrite recur_pass_S in *. cbv zeta in *. eauto.
    + rewrite recur_loop_S in *. brk; fin; eauto.
Qed.

(* ---------- a completed call leaves no doer executing ---------- *)

(* K = the doers on the call stack *)
Definition NR s (K : list id) : Prop := forall j, running s j -> In j K.
Definition J s K : Prop := oof s = true \/ NR s K.

Lemma j_emit s K k i : J s K -> J (emit s k i) K. Proof. exact (fun x => x). Qed.
Lemma j_done s K i d : J s K -> J (set_done s i d) K. Proof. exact (fun x => x). Qed.
Lemma j_sched s K i c : J s K -> J (set_sched s i c) K. Proof. exact (fun x => x). Qed.
Lemma j_deeds s K i c : J s K -> J (set_deeds s i c) K. Proof. exact (fun x => x). Qed.
Lemma j_oof s K : J (out_of_fuel s) K. Proof. now left. Qed.
Lemma j_if s1 s2 K (c : bool) : J s1 K -> J s2 K -> J (if c then s1 else s2) K. Proof. destruct c; auto. Qed.
Lemma j_run s K i pc : J s K -> J (set_gen s i (GRun pc)) (i :: K).
Proof.
  intros [O|N]; [now left|right]. intros j [pc' R].
  destruct (N.eq_dec j i) as [->|Hne]; [now left|right].
  apply N. exists pc'. now rewrite gen_set_gen_other in R.
Qed.
Lemma j_unrun s K i g : (forall pc, g <> GRun pc) -> J s (i :: K) -> J (set_gen s i g) K.
Proof.
  intros Hg [O|N]; [now left|right]. intros j [pc' R].
  destruct (N.eq_dec j i) as [->|Hne].
  - rewrite gen_set_gen_same in R. now destruct (Hg pc').
  - rewrite gen_set_gen_other in R by assumption.
    destruct (N j (ex_intro _ pc' R)) as [E|I]; [congruence|exact I].
Qed.

Definition norun_at (f : nat) : Prop :=
  (forall s K i s' r, J s K -> gen_start tk f s i = (s', r) -> J s' K) /\
  (forall s K i k sc pc s' r, J s (i :: K) -> run_step tk f s i k sc pc = (s', r) -> J s' K) /\
  (forall s K i s' r, J s K -> gen_send tk f s i = (s', r) -> J s' K) /\
  (forall s K i, J s K -> J (gen_close tk f s i) K) /\
  (forall s K i, J s K -> J (close_own tk f s i) K) /\
  (forall s K ds, J s K -> J (close_list tk f s ds) K) /\
  (forall s K sid ids s' r, J s K -> enter_own tk f s sid ids = (s', r) -> J s' K) /\
  (forall s K ids acc s' r acc', J s K -> enter_local tk f s ids acc = (s', r, acc') -> J s' K) /\
  (forall s K c es s' r, J s K -> run_effects tk f s c es = (s', r) -> J s' K) /\
  (forall s K sid s' r, J s K -> recur_pass tk f s sid = (s', r) -> J s' K) /\
  (forall s K sid s' r, J s K -> recur_loop tk f s sid = (s', r) -> J s' K).

Ltac by_fuel f :=
  destruct (fuel_all f) as (?F1 & ?F2 & ?F3 & ?F4 & ?F5 & ?F6 & ?F7 & ?F8); eauto.

Lemma norun_all : forall f, norun_at f.
Proof.
  induction f as [|f IH].
  - unfold norun_at. repeat match goal with |- _ /\ _ => split end; intros;
      try match goal with E : _ = _ |- _ => cbn in E; inversion E; subst; clear E end; cbn; apply j_oof.
  - destruct IH as (Ist & Irs & Isd & Icl & Ico & Ili & Ieo & Iel & Ief & Irp & Irl).
    Ltac goJ f Ist Irs Isd Icl Ico Ili Ieo Iel Ief Irp Irl :=
      let rec loop :=
        match goal with
        | H : J ?s ?K |- J ?s ?K => exact H
        | E : _ = (?s1, GFuel) |- J ?s1 _ => left; by_fuel f
        | E : _ = (?s1, GFuel, _) |- J ?s1 _ => left; by_fuel f
        | |- forall pc, _ <> GRun pc => intro; discriminate
        | |- J (emit _ _ _) _ => apply j_emit; loop
        | |- J (set_done _ _ _) _ => apply j_done; loop
        | |- J (set_deeds _ _ _) _ => apply j_deeds; loop
        | |- J (set_sched _ _ _) _ => apply j_sched; loop
        | |- J (out_of_fuel _) _ => apply j_oof
        | |- J (set_gen _ ?i (GRun _)) (?i :: _) => apply j_run; loop
        | |- J (set_gen _ _ _) _ => apply j_unrun; loop
        | |- J (gen_close _ _ _ _) _ => apply Icl; loop
        | |- J (close_own _ _ _ _) _ => apply Ico; loop
        | |- J (close_list _ _ _ _) _ => apply Ili; loop
        | E : gen_start _ _ _ _ = (?s1, _) |- J ?s1 _ => eapply Ist; [|exact E]; loop
        | E : run_step _ _ _ _ _ _ _ = (?s1, _) |- J ?s1 _ => eapply Irs; [|exact E]; loop
        | E : gen_send _ _ _ _ = (?s1, _) |- J ?s1 _ => eapply Isd; [|exact E]; loop
        | E : enter_own _ _ _ _ _ = (?s1, _) |- J ?s1 _ => eapply Ieo; [|exact E]; loop
        | E : enter_local _ _ _ _ _ = (?s1, _, _) |- J ?s1 _ => eapply Iel; [|exact E]; loop
        | E : run_effects _ _ _ _ _ = (?s1, _) |- J ?s1 _ => eapply Ief; [|exact E]; loop
        | E : recur_pass _ _ _ _ = (?s1, _) |- J ?s1 _ => eapply Irp; [|exact E]; loop
        | E : recur_loop _ _ _ _ = (?s1, _) |- J ?s1 _ => eapply Irl; [|exact E]; loop
        end in loop.
    unfold norun_at. repeat match goal with |- _ /\ _ => split end; intros.
    + rewrite gen_start_S in *. brk; fin; goJ f Ist Irs Isd Icl Ico Ili Ieo Iel Ief Irp Irl.
    + rewrite run_step_S in *. brk; fin; goJ f Ist Irs Isd Icl Ico Ili Ieo Iel Ief Irp Irl.
    + rewrite gen_send_S in *. brk; fin; goJ f Ist Irs Isd Icl Ico Ili Ieo Iel Ief Irp Irl.
    + rewrite gen_close_S. brk; goJ f Ist Irs Isd Icl Ico Ili Ieo Iel Ief Irp Irl.
    + rewrite close_own_S. cbv zeta. goJ f Ist Irs Isd Icl Ico Ili Ieo Iel Ief Irp Irl.
    + rewrite close_list_S. brk; goJ f Ist Irs Isd Icl Ico Ili Ieo Iel Ief Irp Irl.
    + rewrite enter_own_S in *. brk; fin; goJ f Ist Irs Isd Icl Ico Ili Ieo Iel Ief Irp Irl.
    + rewrite enter_local_S in *. brk; fin; goJ f Ist Irs Isd Icl Ico Ili Ieo Iel Ief Irp Irl.
    + rewrite run_effects_S in *. brk; fin; goJ f Ist Irs Isd Icl Ico Ili Ieo Iel Ief Irp Irl.
    + rewrite recur_pass_S in *. cbv zeta in *. goJ f Ist Irs Isd Icl Ico Ili Ieo Iel Ief Irp Irl.
    + rewrite recur_loop_S in *. brk; fin; goJ f Ist Irs Isd Icl Ico Ili Ieo Iel Ief Irp Irl.
Qed.

(* ---------- closing never adds deeds ---------- *)

Definition SH a s : Prop := forall x, dq s x = dq a x \/ dq s x = [].
Lemma sh_refl a : SH a a. Proof. intro; now left. Qed.
Lemma sh_emit a s k i : SH a s -> SH a (emit s k i). Proof. exact (fun x => x). Qed.
Lemma sh_gen a s i g : SH a s -> SH a (set_gen s i g). Proof. exact (fun x => x). Qed.
Lemma sh_oof a s : SH a s -> SH a (out_of_fuel s). Proof. exact (fun x => x). Qed.
Lemma sh_clear a s i : SH a s -> SH a (set_deeds s i []).
Proof.
  intros S x. destruct (N.eq_dec x i) as [->|Hne]; [right; apply dq_deeds_same|].
  rewrite dq_deeds_other by assumption. apply S.
Qed.

Lemma shrink_all : forall f,
  (forall a s i, SH a s -> SH a (gen_close tk f s i)) /\
  (forall a s i, SH a s -> SH a (close_own tk f s i)) /\
  (forall a s ds, SH a s -> SH a (close_list tk f s ds)).
Proof.
  induction f as [|f (Icl & Ico & Ili)]; [repeat split; intros; cbn; now apply sh_oof|].
  repeat split; intros.
  - rewrite gen_close_S. brk; repeat first [assumption | apply sh_gen | apply sh_emit | apply Ico].
  - rewrite close_own_S. cbv zeta. apply Ili. now apply sh_clear.
  - rewrite close_list_S. brk; repeat first [assumption | apply Ili | apply Icl].
Qed.

Lemma close_own_empty f s sid : oof (close_own tk f s sid) = false -> dq (close_own tk f s sid) sid = [].
Proof.
  destruct f as [|f]; [cbn; discriminate|]. intros _. rewrite close_own_S. cbv zeta.
  destruct (shrink_all f) as (_ & _ & Ili).
  destruct (Ili (set_deeds s sid []) (set_deeds s sid []) (rev (unrotate (deeds (get_sched s sid)))) (sh_refl _) sid) as [E|E];
    [rewrite E; apply dq_deeds_same|exact E].
Qed.

End Deque.
