(* Proofs for C16: every raising site of the request / response parse path
   raises only the kind its caller catches; fuel is sufficient; hence no
   round of the service loops returns Exc. *)
From Hio Require Import Base.Prelude Model.HttpReqUrl Model.HttpTotal.
From Coq Require Import String.
Local Open Scope N_scope.

(* ---------- the line sites consume and raise only HTTPExc ---------- *)
Lemma take_lf_shorter b l rest : take_lf b = Some (l, rest) -> (List.length rest < List.length b)%nat.
Proof.
  revert l rest. induction b as [|x r IH]; intros l rest H; simpl in H; [discriminate|].
  destruct (N.eqb x 10).
  - injection H as <- <-. simpl. lia.
  - destruct (take_lf r) as [[l' rest']|] eqn:E; [|discriminate].
    injection H as <- <-. specialize (IH _ _ eq_refl). simpl. lia.
Qed.

Lemma take_crlf_shorter b : forall l rest, take_crlf b = Some (l, rest) -> (List.length rest < List.length b)%nat.
Proof.
  induction b as [|x r IH]; intros l rest H; [discriminate|].
  cbn [take_crlf] in H. destruct r as [|y r']; [discriminate|].
  destruct (N.eqb x 13 && N.eqb y 10).
  - injection H as <- <-. simpl. lia.
  - destruct (take_crlf (y :: r')) as [[l' rest']|] eqn:E; [|discriminate].
    injection H as <- <-. specialize (IH _ _ eq_refl). simpl in *. lia.
Qed.

Lemma line_lf_got b l rest : line_lf b = Got l rest -> (List.length rest < List.length b)%nat.
Proof.
  unfold line_lf. destruct (take_lf b) as [[l0 r0]|] eqn:E.
  - destruct (MAXL <? blen (strip_cr l0)); [discriminate|]. intros H. injection H as <- <-.
    eapply take_lf_shorter; eauto.
  - destruct (MAXL + 1 <? blen b); discriminate.
Qed.

Lemma line_lf_fail b k r : line_lf b = Fail k r -> k = HTTPExc.
Proof.
  unfold line_lf. destruct (take_lf b) as [[l0 r0]|].
  - destruct (MAXL <? blen (strip_cr l0)); [|discriminate]. congruence.
  - destruct (MAXL + 1 <? blen b); [|discriminate]. congruence.
Qed.

Lemma line_crlf_got b l rest : line_crlf b = Got l rest -> (List.length rest < List.length b)%nat.
Proof.
  unfold line_crlf. destruct (take_crlf b) as [[l0 r0]|] eqn:E.
  - destruct (MAXL <? blen l0); [discriminate|]. intros H. injection H as <- <-.
    eapply take_crlf_shorter; eauto.
  - destruct (MAXL + 1 <? blen b); discriminate.
Qed.

Lemma line_crlf_fail b k r : line_crlf b = Fail k r -> k = HTTPExc.
Proof.
  unfold line_crlf. destruct (take_crlf b) as [[l0 r0]|].
  - destruct (MAXL <? blen l0); [|discriminate]. congruence.
  - destruct (MAXL + 1 <? blen b); [|discriminate]. congruence.
Qed.

Lemma leader_step_got h b a rest : leader_step h b = Got a rest -> (List.length rest < List.length b)%nat.
Proof.
  unfold leader_step. destruct (line_lf b) as [|k rr|l r] eqn:E; try discriminate.
  apply line_lf_got in E. destruct l as [|c l'].
  - intros H. injection H as <- <-. exact E.
  - destruct (partition2 58 32 (c :: l')) as [[kk f] v]. destruct (negb f); [discriminate|].
    destruct (MAXH <? _); [discriminate|]. intros H. injection H as <- <-. exact E.
Qed.

Lemma leader_step_fail h b k r0 : leader_step h b = Fail k r0 -> k = HTTPExc.
Proof.
  unfold leader_step. destruct (line_lf b) as [|k' rr|l r] eqn:E; try discriminate.
  - intros H. injection H as <- _. eapply line_lf_fail; eauto.
  - destruct l as [|c l']; [discriminate|].
    destruct (partition2 58 32 (c :: l')) as [[kk f] v]. destruct (negb f); [congruence|].
    destruct (MAXH <? _); [congruence|discriminate].
Qed.

Lemma chunk_size_exc l k : chunk_size l = Exc k -> k = HTTPExc.
Proof.
  unfold chunk_size. destruct (partition1 59 l) as [[sz f] e].
  destruct (strip_with _ sz); [congruence|].
  destruct (forallb is_hex _); [discriminate|congruence].
Qed.

Lemma skipn_shorter {A} (n : nat) (b : list A) : (0 < n)%nat -> (0 < List.length b)%nat ->
  (List.length (skipn n b) < List.length b)%nat.
Proof.
  intros Hn Hb. rewrite skipn_length. lia.
Qed.

Lemma chunk_step_got c body b a rest : chunk_step c body b = Got a rest -> (List.length rest < List.length b)%nat.
Proof.
  unfold chunk_step. destruct c as [|n|ch|h].
  - destruct (line_crlf b) as [|k rr|l r] eqn:E; try discriminate. apply line_crlf_got in E.
    destruct (chunk_size l) as [[|p]|k]; try discriminate; intros H; injection H as <- <-; exact E.
  - destruct (blen b <? N.pos n) eqn:E; [discriminate|]. intros H. injection H as <- <-.
    apply N.ltb_ge in E. unfold blen in E.
    assert (0 < List.length b)%nat by lia.
    apply skipn_shorter; [lia|assumption].
  - destruct (line_crlf b) as [|k rr|l r] eqn:E; try discriminate. apply line_crlf_got in E.
    destruct l; [|discriminate]. intros H. injection H as <- <-. exact E.
  - destruct (leader_step h b) as [|k rr|[h'|h'] r] eqn:E; try discriminate;
      apply leader_step_got in E; intros H; injection H as <- <-; exact E.
Qed.

Lemma chunk_step_fail c body b k r0 : chunk_step c body b = Fail k r0 -> k = HTTPExc.
Proof.
  unfold chunk_step. destruct c as [|n|ch|h].
  - destruct (line_crlf b) as [|k' rr|l r] eqn:E; try discriminate.
    + intros H. injection H as <- _. eapply line_crlf_fail; eauto.
    + destruct (chunk_size l) as [[|p]|k'] eqn:E2; try discriminate.
      intros H. injection H as <- _. eapply chunk_size_exc; eauto.
  - destruct (blen b <? N.pos n); discriminate.
  - destruct (line_crlf b) as [|k' rr|l r] eqn:E; try discriminate.
    + intros H. injection H as <- _. eapply line_crlf_fail; eauto.
    + destruct l; [discriminate|congruence].
  - destruct (leader_step h b) as [|k' rr|[h'|h'] r] eqn:E; try discriminate.
    intros H. injection H as <- _. eapply leader_step_fail; eauto.
Qed.

(* ---------- url site ---------- *)
Lemma urlsplit_exc o u k : urlsplit o u = Exc k -> k = ValueErr.
Proof.
  unfold urlsplit.
  repeat match goal with
         | |- context [let '(_, _) := ?x in _] => destruct x
         | |- context [match ?x with (_, _) => _ end] => destruct x
         end.
  repeat match goal with
         | |- context [if ?c then _ else _] => destruct c
         end; congruence.
Qed.

Lemma url_port_exc nl k : url_port nl = Exc k -> k = ValueErr.
Proof.
  unfold url_port. destruct (snd (hostinfo nl)); [discriminate|].
  destruct (forallb is_digit _); [|congruence].
  destruct (digits_val _ _ _ _) as [[v nd]|]; [|congruence].
  destruct (Nat.ltb 4300 nd); [congruence|]. destruct (v <=? 65535); congruence.
Qed.

Lemma url_site_exc o u k : url_site o u = Exc k -> k = HTTPExc.
Proof.
  unfold url_site, catch_value_as_http, bind.
  destruct (urlsplit o u) as [s|k'] eqn:E.
  - destruct (url_port (u_netloc s)) as [p|k''] eqn:E2; [discriminate|].
    apply url_port_exc in E2. subst. congruence.
  - apply urlsplit_exc in E. subst. congruence.
Qed.

Lemma request_line_exc o l k : request_line o l = Exc k -> k = HTTPExc.
Proof.
  unfold request_line. destruct l as [|c l']; [congruence|].
  destruct (negb (starts_with _ _)); [congruence|].
  destruct (negb (existsb _ _)); [congruence|].
  destruct (negb (starts_with _ _)); [congruence|].
  unfold bind. destruct (url_site o _) as [x|k'] eqn:E; [discriminate|].
  apply url_site_exc in E. congruence.
Qed.

Lemma dictify_site_ok needed j : dictify_site needed j = Ok tt.
Proof. destruct needed, j; reflexivity. Qed.

(* ---------- request parser: fuel and kinds ---------- *)
Lemma req_run_spec o : forall fuel s b,
  (List.length b < fuel)%nat ->
  req_run fuel o s b <> POut /\ (forall k, req_run fuel o s b = PFail k -> k = HTTPExc).
Proof.
  induction fuel as [|fuel IH]; intros s b Hf; [lia|].
  cbn [req_run]. destruct s as [|m v10 u h|ri n|ri c body].
  - destruct (line_lf b) as [|k rr|l rest] eqn:E.
    + split; [discriminate|intros; discriminate].
    + split; [discriminate|]. intros k' H. injection H as <-. eapply line_lf_fail; eauto.
    + apply line_lf_got in E.
      destruct (request_line o l) as [[[m v10] u]|k] eqn:E2.
      * apply IH. lia.
      * split; [discriminate|]. intros k' H. injection H as <-. eapply request_line_exc; eauto.
  - destruct (leader_step h b) as [|k rr|[h'|h'] rest] eqn:E.
    + split; [discriminate|intros; discriminate].
    + split; [discriminate|]. intros k' H. injection H as <-. eapply leader_step_fail; eauto.
    + apply leader_step_got in E. apply IH. lia.
    + apply leader_step_got in E.
      destruct (is_chunked h'); [apply IH; lia|].
      destruct (req_length h'); [apply IH; lia|].
      split; [discriminate|]. intros k' H. congruence.
  - destruct (blen b <? n); split; try discriminate; intros; discriminate.
  - destruct (chunk_step c body b) as [|k rr|[[c' body']|body'] rest] eqn:E.
    + split; [discriminate|intros; discriminate].
    + split; [discriminate|]. intros k' H. injection H as <-. eapply chunk_step_fail; eauto.
    + apply chunk_step_got in E. apply IH. lia.
    + split; [discriminate|intros; discriminate].
Qed.

Lemma req_parse_spec o s b :
  req_parse o s b <> POut /\ (forall k, req_parse o s b = PFail k -> k = HTTPExc).
Proof. unfold req_parse. apply req_run_spec. lia. Qed.

(* ---------- the reply path of the bare server ---------- *)
Definition all_ascii (s : ustr) : bool := forallb (fun c => c <? 128) s.

Lemma all_ascii_app a b : all_ascii (a ++ b) = all_ascii a && all_ascii b.
Proof. unfold all_ascii. apply forallb_app. Qed.

Lemma hexl_ascii v : v < 16 -> hexl v <? 128 = true.
Proof. intros H. unfold hexl. destruct (v <? 10) eqn:E; apply N.ltb_lt; [apply N.ltb_lt in E|]; lia. Qed.

Lemma uesc_ascii c : all_ascii (uesc c) = true.
Proof.
  unfold uesc, all_ascii. cbn [forallb].
  rewrite !hexl_ascii by (apply N.mod_lt; lia). reflexivity.
Qed.

Lemma jesc1_ascii c : all_ascii (jesc1 true c) = true.
Proof.
  unfold jesc1.
  repeat match goal with |- context [if N.eqb c ?k then _ else _] => destruct (N.eqb c k); [reflexivity|] end.
  destruct (c <? 32); [apply uesc_ascii|].
  cbn [andb]. destruct (126 <? c) eqn:E.
  - destruct (c <? 65536); [apply uesc_ascii|]. rewrite all_ascii_app, !uesc_ascii. reflexivity.
  - apply N.ltb_ge in E. unfold all_ascii. cbn [forallb]. rewrite andb_true_r. apply N.ltb_lt. lia.
Qed.

Lemma flat_map_ascii {A} (f : A -> ustr) l : (forall x, all_ascii (f x) = true) -> all_ascii (flat_map f l) = true.
Proof.
  intros H. induction l as [|x l IH]; [reflexivity|]. cbn [flat_map]. now rewrite all_ascii_app, H, IH.
Qed.

Lemma jstr_ascii s : all_ascii (jstr true s) = true.
Proof.
  unfold jstr. change (34 :: flat_map (jesc1 true) s ++ [34]) with ([34] ++ flat_map (jesc1 true) s ++ [34]).
  rewrite all_ascii_app, all_ascii_app, flat_map_ascii by apply jesc1_ascii. reflexivity.
Qed.

Lemma sepcat_ascii l : Forall (fun x => all_ascii x = true) l -> all_ascii (sepcat l) = true.
Proof.
  induction 1 as [|x l Hx Hl IH]; [reflexivity|].
  cbn [sepcat]. destruct l as [|y l']; [exact Hx|].
  change (x ++ 44 :: sepcat (y :: l')) with (x ++ [44] ++ sepcat (y :: l')).
  rewrite !all_ascii_app, Hx, IH. reflexivity.
Qed.

Lemma ascii_only_ascii s : all_ascii (ascii_only s) = true.
Proof.
  unfold ascii_only, all_ascii. rewrite forallb_forall. intros c Hc. apply in_map_iff in Hc.
  destruct Hc as [x [<- _]]. destruct (x <? 128) eqn:E; [exact E|reflexivity].
Qed.

(* induction over JSON values with the nested lists *)
Section jv_induction.
  Variable P : jv -> Prop.
  Hypothesis Hnull : P JNull.
  Hypothesis Hbool : forall b, P (JBool b).
  Hypothesis Hnum : forall r, P (JNum r).
  Hypothesis Hstr : forall s, P (JStr s).
  Hypothesis Harr : forall l, Forall P l -> P (JArr l).
  Hypothesis Hobj : forall l, Forall (fun kv => P (snd kv)) l -> P (JObj l).
  Fixpoint jv_ind2 (v : jv) : P v :=
    match v with
    | JNull => Hnull
    | JBool b => Hbool b
    | JNum r => Hnum r
    | JStr s => Hstr s
    | JArr l => Harr l ((fix go (l : list jv) : Forall P l :=
                           match l with
                           | [] => Forall_nil _
                           | x :: r => Forall_cons _ (jv_ind2 x) (go r)
                           end) l)
    | JObj l => Hobj l ((fix go (l : list (ustr * jv)) : Forall (fun kv => P (snd kv)) l :=
                           match l with
                           | [] => Forall_nil _
                           | x :: r => Forall_cons _ (jv_ind2 (snd x)) (go r)
                           end) l)
    end.
End jv_induction.

(* json.dumps with ensure_ascii yields ASCII for every value: lone surrogates, NUL, non-BMP
   characters, any nesting *)
Theorem dumps_ascii : forall v, all_ascii (dumps true v) = true.
Proof.
  apply jv_ind2.
  - reflexivity.
  - intros []; reflexivity.
  - intros r. apply ascii_only_ascii.
  - intros s. apply jstr_ascii.
  - intros l H. cbn [dumps].
    change (91 :: sepcat (map (dumps true) l) ++ [93]) with ([91] ++ sepcat (map (dumps true) l) ++ [93]).
    rewrite !all_ascii_app, sepcat_ascii; [reflexivity|].
    rewrite Forall_map. exact H.
  - intros l H. cbn [dumps].
    match goal with |- all_ascii (123 :: ?x ++ [125]) = true => change (123 :: x ++ [125]) with ([123] ++ x ++ [125]) end.
    rewrite !all_ascii_app, sepcat_ascii; [reflexivity|].
    rewrite Forall_map. eapply Forall_impl; [|exact H].
    intros [k v] Hv. cbn [fst snd] in *.
    change (jstr true k ++ 58 :: dumps true v) with (jstr true k ++ [58] ++ dumps true v).
    rewrite !all_ascii_app, jstr_ascii, Hv. reflexivity.
Qed.

Lemma ascii_no_surrogate s : all_ascii s = true -> existsb is_surrogate s = false.
Proof.
  unfold all_ascii. intros H. induction s as [|c s IH]; [reflexivity|].
  cbn [forallb existsb] in *. apply andb_true_iff in H. destruct H as [Hc Hs].
  rewrite (IH Hs), orb_false_r. unfold is_surrogate. apply N.ltb_lt in Hc.
  destruct (55296 <=? c) eqn:E; [apply N.leb_le in E; lia|reflexivity].
Qed.

Lemma build_reply_ascii v k : build_reply true false v <> Exc k.
Proof.
  unfold build_reply, encode_strict. rewrite ascii_no_surrogate by apply dumps_ascii. discriminate.
Qed.

Lemma build_reply_kinds rec_hit v k : build_reply true rec_hit v = Exc k -> k = RuntimeErr.
Proof.
  destruct rec_hit; [cbn; congruence|]. intros H. exfalso. eapply build_reply_ascii; eauto.
Qed.

Theorem respond_site_total rec_hit ri body data k : respond_site rec_hit ri body data <> Exc k.
Proof.
  unfold respond_site.
  destruct (build_reply true rec_hit (echo_jv ri body data)) as [b|k'] eqn:E; [discriminate|].
  apply build_reply_kinds in E. subst. apply build_reply_ascii.
Qed.

(* the ensure_ascii default is load-bearing: with ensure_ascii=False a lone surrogate (which
   json.loads accepts as the escape \ud83d) makes .encode('utf-8') raise *)
Lemma build_reply_raw_raises : build_reply false false (JStr [55357]) = Exc UnicodeErr.
Proof. reflexivity. Qed.

(* ---------- one server round never raises ---------- *)
Theorem server_round_total kind o c r k : server_round kind o c r <> Exc k.
Proof.
  unfold server_round.
  destruct (c_closed c); [discriminate|].
  destruct (match kind with Wsgi => c_cutoff c | Bare => false end); [discriminate|].
  destruct (c_pst c) as [s|].
  2:{ destruct (c_closing c); discriminate. }
  destruct (req_parse_spec o s (c_buf c ++ r_data r)) as [Hout Hfail].
  destruct (req_parse o s (c_buf c ++ r_data r)) as [s' b'|k'|ri body b'|] eqn:E.
  - discriminate.
  - specialize (Hfail _ eq_refl). subst. discriminate.
  - destruct kind; [discriminate|].
    rewrite dictify_site_ok.
    match goal with |- context [respond_site ?a ?b ?c ?d] =>
      destruct (respond_site a b c d) as [reply|k'] eqn:Er;
      [|exfalso; eapply respond_site_total; eauto] end.
    destruct (ri_persist ri); discriminate.
  - congruence.
Qed.

Theorem server_run_total kind o : forall rs c k, server_run kind o c rs <> Exc k.
Proof.
  induction rs as [|r rs IH]; intros c k; cbn [server_run]; [discriminate|].
  destruct (server_round kind o c r) as [c'|k'] eqn:E.
  - apply IH.
  - exfalso. eapply server_round_total; eauto.
Qed.

(* what a round does to a connection *)
Lemma server_round_closed kind o c r : c_closed c = true -> server_round kind o c r = Ok c.
Proof. intros H. unfold server_round. rewrite H. reflexivity. Qed.

Definition is_prefix {A} (x y : list A) : Prop := exists z, y = x ++ z.

Lemma server_round_served kind o c r c' :
  server_round kind o c r = Ok c' -> is_prefix (c_served c) (c_served c').
Proof.
  unfold server_round.
  destruct (c_closed c). { intros H; injection H as <-. exists []. now rewrite app_nil_r. }
  destruct (match kind with Wsgi => c_cutoff c | Bare => false end).
  { intros H; injection H as <-. exists []. now rewrite app_nil_r. }
  destruct (c_pst c) as [s|].
  2:{ destruct (c_closing c); intros H; injection H as <-; exists []; now rewrite app_nil_r. }
  destruct (req_parse o s (c_buf c ++ r_data r)) as [s' b'|k'|ri body b'|].
  - intros H; injection H as <-. exists []. now rewrite app_nil_r.
  - destruct k'; try discriminate. intros H; injection H as <-. exists []. now rewrite app_nil_r.
  - destruct kind.
    + intros H; injection H as <-. eexists. reflexivity.
    + rewrite dictify_site_ok.
      match goal with |- context [respond_site ?a ?b ?c ?d] =>
        destruct (respond_site a b c d) as [reply|k'']; [|discriminate] end.
      destruct (ri_persist ri); intros H; injection H as <-; eexists; reflexivity.
  - discriminate.
Qed.

(* a malformed request (any parse failure) closes the connection and serves nothing more *)
Lemma server_round_fail kind o c r s k :
  c_closed c = false -> (kind = Wsgi -> c_cutoff c = false) -> c_pst c = Some s ->
  req_parse o s (c_buf c ++ r_data r) = PFail k ->
  exists c', server_round kind o c r = Ok c' /\ c_closed c' = true /\ c_served c' = c_served c.
Proof.
  intros Hc Hk Hs Hp. unfold server_round. rewrite Hc.
  assert (match kind with Wsgi => c_cutoff c | Bare => false end = false) as ->.
  { destruct kind; auto. }
  rewrite Hs, Hp.
  destruct (req_parse_spec o s (c_buf c ++ r_data r)) as [_ Hfail].
  rewrite (Hfail _ Hp). eexists. split; [reflexivity|]. split; reflexivity.
Qed.

(* ---------- two connections served by the same loop ---------- *)
(* service() handles the connections one after the other; an exception from
   the first would end the call before the second is looked at *)
Definition pair_round (kind : skind) (o : url_oracle) (ab : conn * conn) (r : rnd * rnd) : res (conn * conn) :=
  match server_round kind o (fst ab) (fst r) with
  | Exc k => Exc k
  | Ok a' => match server_round kind o (snd ab) (snd r) with
             | Exc k => Exc k
             | Ok b' => Ok (a', b')
             end
  end.

Fixpoint pair_run (kind : skind) (o : url_oracle) (ab : conn * conn) (rs : list (rnd * rnd)) : res (conn * conn) :=
  match rs with
  | [] => Ok ab
  | r :: rs' => match pair_round kind o ab r with
                | Exc k => Exc k
                | Ok ab' => pair_run kind o ab' rs'
                end
  end.

Theorem pair_run_independent kind o : forall rs a b,
  exists a' b', pair_run kind o (a, b) rs = Ok (a', b')
                /\ server_run kind o a (map fst rs) = Ok a'
                /\ server_run kind o b (map snd rs) = Ok b'.
Proof.
  induction rs as [|[ra rb] rs IH]; intros a b.
  - exists a, b. repeat split.
  - cbn [pair_run map fst snd server_run]. unfold pair_round. cbn [fst snd].
    destruct (server_round kind o a ra) as [a1|k] eqn:Ea; [|exfalso; eapply server_round_total; eauto].
    destruct (server_round kind o b rb) as [b1|k] eqn:Eb; [|exfalso; eapply server_round_total; eauto].
    apply IH.
Qed.

(* ============================ client ============================ *)
Lemma status_line_exc l k : status_line l = Exc k -> k = HTTPExc.
Proof.
  unfold status_line. destruct l; [congruence|].
  destruct (negb (starts_with _ _)); [congruence|].
  destruct (py_int _) as [z|]; [|congruence].
  destruct ((z <? 100)%Z || (999 <? z)%Z); [congruence|discriminate].
Qed.

Lemma sse_site_exc dead body k : sse_site dead body = Exc k -> k = HTTPExc.
Proof. unfold sse_site. destruct (negb dead && sse_too_long body); congruence. Qed.

Definition qweight (s : qst) : nat := match s with QStart _ => 1 | _ => 0 end.

Lemma resp_run_spec m sl sevt : forall fuel closed chk s st0 body0 b,
  (2 * List.length b + qweight s < fuel)%nat ->
  resp_run fuel m closed sl sevt chk s st0 body0 b <> QOut /\
  (forall k pi bd b', resp_run fuel m closed sl sevt chk s st0 body0 b = QFail k pi bd b' -> k = HTTPExc).
Proof.
  induction fuel as [|fuel IH]; intros closed chk s st0 body0 b Hf; [lia|].
  cbn [resp_run]. destruct s as [fresh| |h|st h|pi n|pi c body|pi body]; cbn [qweight] in Hf.
  - destruct b as [|x b']; [split; [discriminate|intros; discriminate]|].
    apply IH. cbn [qweight]. lia.
  - destruct (chk && closed && is_nil b); [split; [discriminate|intros; congruence]|].
    destruct (line_lf b) as [|k rr|l rest] eqn:E.
    + split; [discriminate|intros; discriminate].
    + split; [discriminate|]. intros k' pi bd b' H. injection H as <- _ _ _. eapply line_lf_fail; eauto.
    + apply line_lf_got in E.
      destruct (status_line l) as [[v st]|k] eqn:E2.
      * destruct (N.eqb st 100); [apply IH; cbn [qweight]; lia|].
        destruct (negb (version_ok v)); [split; [discriminate|intros; congruence]|].
        apply IH; cbn [qweight]; lia.
      * split; [discriminate|]. intros k' pi bd b' H. injection H as <- _ _ _. eapply status_line_exc; eauto.
  - destruct (chk && closed && is_nil b); [split; [discriminate|intros; congruence]|].
    destruct (leader_step h b) as [|k rr|[h'|h'] rest] eqn:E.
    + split; [discriminate|intros; discriminate].
    + split; [discriminate|]. intros k' pi bd b' H. injection H as <- _ _ _. eapply leader_step_fail; eauto.
    + apply leader_step_got in E. apply IH; cbn [qweight]; lia.
    + apply leader_step_got in E. apply IH; cbn [qweight]; lia.
  - destruct (chk && closed && is_nil b); [split; [discriminate|intros; congruence]|].
    destruct (leader_step h b) as [|k rr|[h'|h'] rest] eqn:E.
    + split; [discriminate|intros; discriminate].
    + split; [discriminate|]. intros k' pi bd b' H. injection H as <- _ _ _. eapply leader_step_fail; eauto.
    + apply leader_step_got in E. apply IH; cbn [qweight]; lia.
    + apply leader_step_got in E.
      destruct (is_chunked h'); [apply IH; cbn [qweight]; lia|].
      destruct (resp_length st m h'); apply IH; cbn [qweight]; lia.
  - destruct (blen b <? n).
    + destruct (closed && is_nil b); split; try discriminate; intros; congruence.
    + split; [discriminate|intros; discriminate].
  - destruct (chk && closed && is_nil b); [split; [discriminate|intros; congruence]|].
    destruct (chunk_step c body b) as [|k rr|[[c' body']|body'] rest] eqn:E.
    + split; [discriminate|intros; discriminate].
    + split; [discriminate|]. intros k' pi' bd b' H. injection H as <- _ _ _. eapply chunk_step_fail; eauto.
    + apply chunk_step_got in E.
      assert (Hrec : forall chk', resp_run fuel m closed sl sevt chk' (QChunk pi c' body') (pi_status pi) body' rest <> QOut /\
                (forall k pi0 bd b', resp_run fuel m closed sl sevt chk' (QChunk pi c' body') (pi_status pi) body' rest = QFail k pi0 bd b' -> k = HTTPExc)).
      { intros chk'. apply IH; cbn [qweight]; lia. }
      destruct c; try apply Hrec.
      destruct c'; try apply Hrec.
      match goal with |- context [if pi_sse pi then sse_site ?d ?bb else Ok tt] => destruct (if pi_sse pi then sse_site d bb else Ok tt) as [u|k] eqn:E2 end.
      * destruct (closed && is_nil rest); [split; [discriminate|intros; discriminate]|apply Hrec].
      * split; [discriminate|]. intros k' pi' bd b' H. injection H as <- _ _ _.
        destruct (pi_sse pi); [eapply sse_site_exc; eauto|discriminate].
    + split; [discriminate|intros; discriminate].
  - match goal with |- context [if pi_sse pi then sse_site ?d ?bb else Ok tt] => destruct (if pi_sse pi then sse_site d bb else Ok tt) as [u|k] eqn:E2 end.
    + destruct closed; split; try discriminate; intros; discriminate.
    + split; [discriminate|]. intros k' pi' bd b' H. injection H as <- _ _ _.
      destruct (pi_sse pi); [eapply sse_site_exc; eauto|discriminate].
Qed.

Lemma norm_host_port_exc h k : norm_host_port h = Exc k -> k = HTTPExc.
Proof.
  unfold norm_host_port.
  destruct (match rfind 58 h with Some a => _ | None => _ end); [|discriminate].
  destruct (skipn _ h); [discriminate|]. destruct (py_int _); [discriminate|congruence].
Qed.

Lemma redirect_site_exc o n loc k : redirect_site o n loc = Exc k -> k = HTTPExc.
Proof.
  unfold redirect_site. destruct loc as [|c loc']; [congruence|].
  destruct (partition1 63 (c :: loc')) as [[p sep] q].
  set (l := if sep then _ else _).
  destruct (catch_value_as_http _) as [s|k'] eqn:E.
  - destruct (urlsplit o (u_path s)) as [s2|k2]; [|congruence].
    destruct (negb (is_nil (u_scheme s2)) || negb (is_nil (u_netloc s2))); [congruence|].
    destruct (url_hostname _); [discriminate|].
    destruct (norm_host_port _) as [h|k''] eqn:E2.
    + destruct (resolves n h); [discriminate|congruence].
    + intros H. injection H as <-. eapply norm_host_port_exc; eauto.
  - intros H. injection H as <-.
    unfold catch_value_as_http, bind in E.
    destruct (urlsplit o l) as [s|k0] eqn:E1.
    + destruct (url_port (u_netloc s)) as [pt|k1] eqn:E2; [discriminate|].
      apply url_port_exc in E2. subst. congruence.
    + apply urlsplit_exc in E1. subst. congruence.
Qed.

Lemma client_ended_total cf o n k queued errored pi body buf cut closed dead e :
  client_ended cf o n k queued errored pi body buf cut closed dead <> Exc e.
Proof.
  unfold client_ended. rewrite dictify_site_ok.
  destruct (pi_sse pi); [discriminate|].
  destruct (cf_redirectable cf && pi_redirect pi); [|discriminate].
  destruct (redirect_site o n (pi_location pi)) as [u|k'] eqn:E; [discriminate|].
  apply redirect_site_exc in E. subst. discriminate.
Qed.

Theorem client_round_total cf o n k r e : client_round cf o n k r <> Exc e.
Proof.
  unfold client_round.
  destruct (negb (k_waited k) && (0 <? k_queued k)); cbn zeta beta iota;
  match goal with |- context [if negb ?w then _ else _] => destruct (negb w) end; try discriminate;
  match goal with |- context [resp_run ?f ?m ?c ?sl ?se ?chk ?s ?st ?bd ?b] =>
    destruct (resp_run_spec m sl se f c chk s st bd b) as [Hout Hfail];
    [cbn [k_buf k_pst]; destruct (k_pst k); cbn [qweight]; lia|];
    destruct (resp_run f m c sl se chk s st bd b) as [s' bd' b'|k' pi bd' b'|pi bd' b'|] eqn:E
  end; try discriminate; try congruence;
  try (specialize (Hfail _ _ _ _ eq_refl); subst k'); apply client_ended_total.
Qed.

Theorem client_run_total cf o n : forall rs k e, client_run cf o n k rs <> Exc e.
Proof.
  induction rs as [|r rs IH]; intros k e; cbn [client_run]; [discriminate|].
  destruct (client_round cf o n k r) as [k'|e'] eqn:E.
  - apply IH.
  - exfalso. eapply client_round_total; eauto.
Qed.

(* a failed parse, or a refused redirect, is reported through the error flag of the delivered response *)
Lemma client_ended_errored cf o n k queued errored pi body buf cut closed dead :
  pi_sse pi = false ->
  (errored = true /\ cf_redirectable cf && pi_redirect pi = false) \/
  (cf_redirectable cf && pi_redirect pi = true /\ redirect_site o n (pi_location pi) = Exc HTTPExc) ->
  exists k' r, client_ended cf o n k queued errored pi body buf cut closed dead = Ok k'
               /\ k_responses k' = k_responses k ++ [r] /\ rp_errored r = true
               /\ rp_status r = pi_status pi /\ k_waited k' = false.
Proof.
  intros Hs H. unfold client_ended. rewrite dictify_site_ok, Hs.
  destruct H as [[He Hr]|[Hr Hx]]; rewrite Hr.
  - subst. eexists. eexists. split; [reflexivity|]. cbn. repeat split.
  - rewrite Hx. eexists. eexists. split; [reflexivity|]. cbn. repeat split.
Qed.
