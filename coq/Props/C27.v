(* C27 — Name/address registry stays a one-to-one bijection.
   Statements only; proofs are in Proofs/NamerProofs.v. *)
From Hio Require Import Base.Prelude Base.AMap Model.Namer Proofs.NamerProofs.

(* For every operation sequence the two maps are exact inverses. *)
Theorem C27_inverse : forall ops n a,
  get (abn (final ops)) n = Some a <-> get (nba (final ops)) a = Some n.
Proof. exact final_inv. Qed.
Print Assumptions C27_inverse.

(* ... hence no two names share an address. *)
Theorem C27_injective : forall ops n1 n2 a,
  get (abn (final ops)) n1 = Some a -> get (abn (final ops)) n2 = Some a -> n1 = n2.
Proof. intros ops. exact (inv_injective _ (final_inv ops)). Qed.
Print Assumptions C27_injective.

(* A rejected or no-change operation leaves both mappings unchanged (in every
   state, reachable or not). *)
Theorem C27_unchanged : forall s o,
  o <> Clear ->
  (snd (step s o) = Ok false \/ exists k, snd (step s o) = Exc k) ->
  fst (step s o) = s.
Proof. exact step_unchanged. Qed.
Print Assumptions C27_unchanged.

(* Non-vacuity: a concrete history with conflicts, no-change and rejected ops. *)
Example C27_example :
  let ops := [Add 1 10; Add 2 20; Add 1 20; ChgAddr 1 30; ChgName 20 1; Rem 2 0; Add 0 5] in
  snd (run init ops) = [Ok true; Ok true; Exc NamerErr; Ok true; Exc NamerErr; Ok true; Exc NamerErr]
  /\ abn (final ops) = [(1, 30)]%N /\ nba (final ops) = [(30, 1)]%N.
Proof. vm_compute. repeat split. Qed.
