(* C23 — Durq is a FIFO queue, Dusq an insertion-ordered set; durable copy = memory (statements only). *)
From Hio Require Import Base.Prelude Model.Lmdb Model.IoSub Model.Durq Proofs.DurqProofs.

Theorem C23_push_appends : forall pyeq q s st v,
  mem (snd (fst (qstep pyeq false q s st (Push v)))) = mem st ++ [v] /\
  fst (fst (qstep pyeq false q s st (Push v))) q = s q ++ [v].
Proof. exact push_fifo. Qed.
Print Assumptions C23_push_appends.
