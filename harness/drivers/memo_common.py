"""Helpers shared by the memo drivers (C20, C22): deterministic keys and mids, an instrumented Memoer
(records every Memoer.verify call and its outcome), canonical observation of the receive-side state,
and the Gallina emitters for Model/MemoRx.v."""
import hashlib

from harness.core import coq_N, coq_nat, coq_list, coq_bool, coq_bytes, coq_option, exn_kind

ZERO_CODES = ["bAAA", "bAAC", "bAAE", "bAAG"]
SIGNED = {"bAAC", "bAAG"}


def keep_and_vids(mode="full"):
    """Two non-transferable signers ('B': verkey is in the vid) and one transferable 'D' signer whose current
    verkey is looked up in .keep.  mode: "full" = keep maps the D vid to the key embedded in it;
    "rotated" = keep maps the D vid to a DIFFERENT (rotated) key pair; "nokeep" = the D vid is not in keep."""
    import pysodium
    from hio.core.memo.memoing import Memoer, Keyage
    keep, vids = {}, []
    for i, code in enumerate(["B", "B", "D"]):
        seed = hashlib.sha256(b"hio-verif-signer-%d" % i).digest()
        verkey, sigkey = pysodium.crypto_sign_seed_keypair(seed)
        vid = Memoer._encodeVID(raw=verkey, code=code)
        vids.append(vid)
        if code == "D" and mode == "nokeep":
            continue
        if code == "D" and mode == "rotated":
            seed = hashlib.sha256(b"hio-verif-signer-rotated").digest()
            verkey, sigkey = pysodium.crypto_sign_seed_keypair(seed)
        keep[vid] = Keyage(qvk=Memoer._encodeQVK(raw=verkey), qss=Memoer._encodeQSS(raw=seed))
    return keep, vids


def mid_of(n):
    """Deterministic 24 char qb64 memo id (code 0A + 22 Base64 chars)."""
    from base64 import urlsafe_b64encode
    raw = hashlib.sha256(b"mid-%d" % n).digest()[:16]
    return "0A" + urlsafe_b64encode(b"\0\0" + raw)[2:].decode()


class _RecvSock:
    """scripted UDP socket for the receive side: recvfrom pops queued (data, (host, port)) or would-blocks"""
    def __init__(self):
        self.queue = []

    def recvfrom(self, bs):
        import errno
        if not self.queue:
            raise OSError(errno.EAGAIN, "EAGAIN")
        return self.queue.pop(0)

    def close(self):
        pass


def memoer_class(auth=False, udp=False):
    from hio.core.memo.memoing import Memoer, AuthMemoer
    Base = AuthMemoer if auth else Memoer
    if udp:
        from hio.core.udp.peermemoing import PeerMemoer as Base     # real Peer.receive over the scripted socket

    class VMemoer(Base):
        """Real Memoer; verify is wrapped to log (vid, sig, ser) -> outcome; makeMID is deterministic."""
        def __init__(self, **kwa):
            super().__init__(**kwa)
            self.vlog = []
            self.mids = []

        def verify(self, vid, sig, ser):
            # the raw key the signature has to be checked against: decoded from the vid itself when it is
            # non-transferable ('B'), else from the qvk currently in .keep ("" when there is none), and the raw
            # signature; both decoded leniently here (the model decides which texts are acceptable at all)
            v = _b(vid).decode("latin1")
            kt = v if v[:1] == "B" else (self.keep[v].qvk if v in self.keep else "")
            key = [_lenient(kt, 1).hex(), _lenient(_b(sig).decode("latin1"), 2).hex(), _b(ser).hex()]
            try:
                r = super().verify(vid, sig, ser)
            except Exception as ex:
                self.vlog.append(key + [exn_kind(ex), _b(vid).hex(), _b(sig).hex()])
                raise
            self.vlog.append(key + ["ok" if r is True else "OtherErr", _b(vid).hex(), _b(sig).hex()])
            return r

        def makeMID(self, code="0A"):
            return self.mids.pop(0) if self.mids else super().makeMID(code)

    return VMemoer


def _b(x):
    return x.encode() if isinstance(x, str) else bytes(x)


def _lenient(text, hz):
    """raw bytes of a qb64 text with a code of hz chars, ignoring code and pad bits; b"" if not decodable"""
    from base64 import urlsafe_b64decode
    try:
        return urlsafe_b64decode("A" * hz + text[hz:])[hz:]
    except Exception:
        return b""


def rend(memo, code="bAAA", curt=False, size=None, vid=None, mid=None, keepmode="full"):
    """Grams of the real Memoer.rend (list of bytes); raises what rend raises."""
    keep, _ = keep_and_vids(keepmode)
    m = memoer_class()(code=code, curt=curt, size=size, keep=keep, vid=vid)
    if mid is not None:
        m.mids = [mid]
    return [bytes(g) for g in m.rend(memo, vid)], m.size


def new_receiver(authic, keepmode="full", rxclass=None, own=False, **cfg):
    """cfg: the receiver's own transmit settings (code, curt, size), which must not matter for receiving"""
    import logging
    logging.disable(logging.CRITICAL)
    keep, vids = keep_and_vids(keepmode)
    if "vid" in cfg:                 # the receiver's OWN signer id (index into the signers), used when IT sends
        cfg = dict(cfg, vid=vids[cfg["vid"]])
    owned = None
    if own:    # the application owns the containers: EMPTY objects handed to the constructor, keep filled afterwards
        from collections import deque
        owned = {"rxgs": {}, "sources": {}, "counts": {}, "vids": {}, "rxms": deque(), "keep": {}}
        cfg = dict(cfg, **{k: v for k, v in owned.items() if k != "keep"})
        real_keep, keep = keep, owned["keep"]
    if rxclass == "auth":            # AuthMemoer forces authic=True (and a signed code unless one is given)
        m = memoer_class(auth=True)(keep=keep, **cfg)
        assert m.authic
    elif rxclass == "udp":           # the real UDP PeerMemoer: sources are (host, port) tuples from Peer.receive
        m = memoer_class(udp=True)(authic=authic, keep=keep, **cfg)
        m.ls = _RecvSock()
    else:
        m = memoer_class()(authic=authic, keep=keep, **cfg)
    if own:
        owned["keep"].update(real_keep)
    m.owned = owned
    m.opened = True
    m._echoic = True
    return m


def src_name(i, typ="str"):
    """source address as the transports report it: a path-like str (UXD, echo) or a (host, port) tuple (UDP)"""
    return "src%d" % i if typ == "str" else ("10.0.0.%d" % i, 5000 + i)


def src_index(s):
    return int(s[3:]) if isinstance(s, str) else s[1] - 5000


def run_rx_ops(m, ops, srctype="str"):
    """ops: ["dgram", hex, src] | ["recv"] | ["grams"] | ["memos"] | ["all"] | ["once"] |
    ["rxset", "size"|"curt"|"code", value] (the receiver's own property setters)."""
    excs = []
    for op in ops:
        try:
            if op[0] == "dgram":
                if isinstance(getattr(m, "ls", None), _RecvSock):
                    m.ls.queue.append((bytes.fromhex(op[1]), src_name(op[2], "tuple")))
                else:
                    m.echos.append((bytes.fromhex(op[1]), src_name(op[2], srctype)))
            elif op[0] == "recv":
                m.serviceReceives()
            elif op[0] == "grams":
                m.serviceRxGrams()
            elif op[0] == "memos":
                m.serviceRxMemos()
            elif op[0] == "all":
                m.serviceAllRx()
            elif op[0] == "once":
                m.serviceAllRxOnce()
            elif op[0] == "rxset":
                setattr(m, op[1], op[2])
            else:
                raise ValueError(op)
            excs.append(None)
        except Exception as ex:
            excs.append(exn_kind(ex))
    return excs


def observe_rx(m):
    """When the application owns the containers (m.owned) the state is read from ITS objects."""
    o = getattr(m, "owned", None) or {}
    not_adopted = sorted(k for k, v in o.items() if getattr(m, k) is not v)
    rxgs_, sources, counts, vids, rxms_, keep = (o.get("rxgs", m.rxgs), o.get("sources", m.sources), o.get("counts", m.counts),
                                                 o.get("vids", m.vids), o.get("rxms", m.rxms), o.get("keep", m.keep))
    if not not_adopted:
        assert set(rxgs_) == set(vids) == set(sources), "rx dict key sets differ"
        assert set(counts) <= set(rxgs_), "count without grams"
    rxgs = []
    for mid, grams in rxgs_.items():
        rxgs.append([mid.encode().hex(), sorted([gn, bytes(b).hex()] for gn, b in grams.items()),
                     counts.get(mid), None if vids.get(mid) is None else vids[mid].encode().hex(),
                     src_index(sources[mid]) if mid in sources else 0])
    memo = lambda t: [t[0].encode().hex(), src_index(t[1]), None if t[2] is None else t[2].encode().hex()]
    seen, vlog = set(), []
    for e in m.vlog:
        k = tuple(e[:3]) + (e[4], e[5])
        if k not in seen:
            seen.add(k); vlog.append(e)
    return {"rxgs": rxgs, "rxms": [memo(t) for t in rxms_], "inbox": [memo(t) for t in m.inbox],
            "queue": len(m.ls.queue) if isinstance(getattr(m, "ls", None), _RecvSock) else len(m.echos),
            "verify": vlog, "not_adopted": not_adopted,
            "keep": sorted([v.encode().hex(), k.qvk.encode().hex()] for v, k in keep.items())}


# ---------------------------------------------------------------- Gallina (Model/MemoRx.v)

def hexb(h):
    return coq_bytes(bytes.fromhex(h))


def coq_rx_op(o):
    if o[0] == "dgram":
        return f"(MemoRx.Dgram {hexb(o[1])} {coq_N(o[2])})"
    if o[0] == "rxset":
        codes = {"bAAA": "MemoGram.GZ", "bAAC": "MemoGram.AZ", "bAAE": "MemoGram.SZ", "bAAG": "MemoGram.SAZ"}
        arg = (f"(MemoGram.SetSize {coq_nat(min(o[2], 4999))})" if o[1] == "size" else
               f"(MemoGram.SetCurt {coq_bool(o[2])})" if o[1] == "curt" else f"(MemoGram.SetCode {codes[o[2]]})")
        return f"(MemoRx.RxSet {arg})"
    return {"recv": "MemoRx.SvcReceives", "grams": "MemoRx.SvcRxGrams", "memos": "MemoRx.SvcRxMemos",
            "all": "MemoRx.SvcAllRx", "once": "MemoRx.SvcAllRxOnce"}[o[0]]


def coq_memo(t):
    return f"({hexb(t[0])}, {coq_N(t[1])}, {coq_option(t[2], hexb, 'bytes')})"


def coq_rx_case(authic, ops, obs, excs):
    # libsodium's verdict per (raw key, raw signature, signed bytes): several texts may denote the same raw values
    # (the real verify rejects the non-canonical ones before libsodium is asked), so "ok" wins over a rejection
    verdict = {}
    for v, s, m, r, _vid, _sig in obs["verify"]:
        if verdict.get((v, s, m)) != "ok":
            verdict[(v, s, m)] = r
    vt = [f"({hexb(v)}, {hexb(s)}, {hexb(m)}, {'Ok tt' if r == 'ok' else '(@Exc unit ' + r + ')'})"
          for (v, s, m), r in verdict.items()]
    ents = []
    for mid, grams, cnt, vid, src in obs["rxgs"]:
        gl = coq_list([f"({coq_N(gn)}, {hexb(b)})" for gn, b in grams], "N * bytes")
        ents.append("{| MemoRx.o_mid := %s; MemoRx.o_grams := %s; MemoRx.o_count := %s; MemoRx.o_vid := %s; "
                    "MemoRx.o_src := %s |}" % (hexb(mid), gl, coq_option(cnt, coq_N, "N"),
                                              coq_option(vid, hexb, "bytes"), coq_N(src)))
    keep = [f"({hexb(v)}, {hexb(q)})" for v, q in obs["keep"]]
    return ("{| MemoRx.c_authic := %s; MemoRx.c_keep := %s; MemoRx.c_ops := %s; MemoRx.c_verify := %s; MemoRx.c_excs := %s; "
            "MemoRx.c_rxgs := %s; MemoRx.c_rxms := %s; MemoRx.c_inbox := %s; MemoRx.c_queue := %s |}" % (
                coq_bool(authic), coq_list(keep, "bytes * bytes"),
                coq_list([coq_rx_op(o) for o in ops], "MemoRx.op"),
                coq_list(vt, "bytes * bytes * bytes * res unit"),
                coq_list([coq_option(e, ty="exn") for e in excs], "option exn"),
                coq_list(ents, "MemoRx.obs_entry"),
                coq_list([coq_memo(t) for t in obs["rxms"]], "MemoRx.memo"),
                coq_list([coq_memo(t) for t in obs["inbox"]], "MemoRx.memo"),
                coq_nat(obs["queue"])))


# ---------------------------------------------------------------- independent gram inspection (oracles)

def head_len(ser):
    """Length of the head (code+neck+mid[+vid]) of the signed part `ser` of a gram, by its code; None if
    the code is not one of the eight gram codes."""
    if not ser:
        return None
    sx = ser[0] >> 2
    if sx == 0o30:
        code = ser[:4].decode("latin1")
        scale = lambda n: n
    elif sx == 0o33:
        from base64 import urlsafe_b64encode
        code = urlsafe_b64encode(ser[:3]).decode()
        scale = lambda n: 3 * n // 4
    else:
        return None
    if code in ("bAAC", "bAAG"):
        return scale(32 + 44)
    if code in ("bAAA", "bAAB", "bAAD", "bAAE", "bAAF", "bAAH"):
        return scale(32)
    return None


def _strict(text, hz, n):
    """raw bytes of a canonical qb64 text (n chars, hz code chars): re-encoding must give the text back"""
    from base64 import urlsafe_b64decode, urlsafe_b64encode
    if len(text) != n:
        raise ValueError("length")
    raw = urlsafe_b64decode("A" * hz + text[hz:])[hz:]
    if urlsafe_b64encode(b"\0" * hz + raw).decode()[hz:] != text[hz:]:
        raise ValueError("non canonical")
    return raw


def sodium_ok(vid, sig, ser, keep):
    """Independent Ed25519 check with libsodium (not through Memoer.verify); key and signature text must be
    canonical (right code, length, zero pad bits)."""
    import pysodium
    try:
        if vid[:1] == "B":
            verkey = _strict(vid, 1, 44)
        elif vid[:1] in "DE":
            _strict(vid, 1, 44)
            if keep[vid].qvk[:1] != "B":
                return False
            verkey = _strict(keep[vid].qvk, 1, 44)
        else:
            return False
        if sig[:2] != "0B":
            return False
        rawsig = _strict(sig, 2, 88)
        pysodium.crypto_sign_verify_detached(rawsig, ser, verkey)
        return True
    except Exception:
        return False
