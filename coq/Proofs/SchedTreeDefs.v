(* C04, arbitrary depth — vocabulary: regrouping TREES (a tock-z0 DoDoer may hold
   leaves and further DoDoers), tree-shaped abstract items, and the structural
   specification of enter / recur pass / exit over them.  Functions over a tree
   are nested fixpoints through list combinators ([flat_map], [thread], [all]).
   Extends Proofs/SchedFlatDefs.v (one level). *)
From Hio Require Import Base.Prelude Base.AMap Base.Time Model.Sched Proofs.SchedFlatDefs.

(* conjunction over a list, as a fixpoint (usable inside nested fixpoints) *)
Definition all {A : Type} (P : A -> Prop) : list A -> Prop :=
  fix go (l : list A) : Prop := match l with [] => True | x :: r => P x /\ go r end.

Lemma all_Forall {A} (P : A -> Prop) (l : list A) : all P l <-> Forall P l.
Proof.
  induction l as [|x l IH]; cbn [all]; [split; auto|].
  rewrite Forall_cons_iff, IH. reflexivity.
Qed.
Lemma all_app {A} (P : A -> Prop) (a b : list A) : all P (a ++ b) <-> all P a /\ all P b.
Proof. rewrite !all_Forall. apply Forall_app. Qed.

Section TDefs.
Context {T : Type} `{Time T}.

(* a step function threaded through a list: each element is kept (possibly changed) or dropped *)
Definition thread {A B : Type} (f : A -> out T -> option B * out T) : list A -> out T -> list B * out T :=
  fix go (l : list A) (o : out T) : list B * out T :=
    match l with
    | [] => ([], o)
    | x :: r =>
      let '(ox, o1) := f x o in
      let '(r', o2) := go r o1 in
      (match ox with Some y => y :: r' | None => r' end, o2)
    end.

(* ---------- programs ---------- *)

Inductive gtree := TLeaf (l : leaf T) | TGroup (n : id) (kids : list gtree).

Definition gt_top (g : gtree) : id := match g with TLeaf l => lf_id l | TGroup n _ => n end.

(* induction over forests *)
Lemma gtrees_ind (P : list gtree -> Prop) :
  P [] -> (forall l r, P r -> P (TLeaf l :: r)) ->
  (forall n kids r, P kids -> P r -> P (TGroup n kids :: r)) -> forall gs, P gs.
Proof.
  intros Hn Hl Hg.
  assert (Q : forall g r, P r -> P (g :: r)).
  { fix IHt 1. intros [l|n kids] r Pr; [now apply Hl|]. apply Hg; [|exact Pr].
    induction kids as [|x kids IHk]; [exact Hn|]. apply IHt. exact IHk. }
  induction gs as [|g gs IH]; [exact Hn|now apply Q].
Qed.

Fixpoint gflat1 (g : gtree) : list (leaf T) :=
  match g with TLeaf l => [l] | TGroup _ kids => flat_map gflat1 kids end.
Definition gflatten (gs : list gtree) : list (leaf T) := flat_map gflat1 gs.

Fixpoint gnest1 (g : gtree) : list id :=
  match g with TLeaf _ => [] | TGroup n kids => n :: flat_map gnest1 kids end.
Definition gnest_ids (gs : list gtree) : list id := flat_map gnest1 gs.

(* all identifiers, in tree order *)
Fixpoint g_ids1 (g : gtree) : list id :=
  match g with TLeaf l => [lf_id l] | TGroup n kids => n :: flat_map g_ids1 kids end.
Definition gts_ids (gs : list gtree) : list id := flat_map g_ids1 gs.

(* leaves below at least one group *)
Definition tgrouped_leaves (gs : list gtree) : list (leaf T) :=
  flat_map (fun g => match g with TLeaf _ => [] | TGroup _ kids => gflatten kids end) gs.

(* a table with one entry per group, at any depth *)
Fixpoint gtab1 {V} (h : id -> list gtree -> V) (g : gtree) : amap V :=
  match g with TLeaf _ => [] | TGroup n kids => (n, h n kids) :: flat_map (gtab1 h) kids end.
Definition gtabt {V} (h : id -> list gtree -> V) (gs : list gtree) : amap V := flat_map (gtab1 h) gs.

Definition tnest_defs (z0 : T) (gs : list gtree) : amap (fdef T) :=
  gtabt (fun _ kids => FNest z0 false (map gt_top kids)) gs.

Definition tnest_prog (tk : T) (limit : option T) (t0 z0 : T) (gs : list gtree) : prog T :=
  {| p_tock := tk; p_limit := limit; p_tyme := t0; p_doers := map gt_top gs;
     p_defs := map leaf_def (gflatten gs) ++ tnest_defs z0 gs |}.

Definition wf_tree (gs : list gtree) : Prop :=
  NoDup (0%N :: map lf_id (gflatten gs) ++ gnest_ids gs) /\
  forallb pure_leaf (gflatten gs) = true.

(* ---------- abstract state ---------- *)

Inductive titem := ILeaf (v : lv T) | IGroup (n : id) (npc : nat) (re : T) (kids : list titem).

Lemma titems_ind (P : list titem -> Prop) :
  P [] -> (forall v r, P r -> P (ILeaf v :: r)) ->
  (forall n npc re kids r, P kids -> P r -> P (IGroup n npc re kids :: r)) -> forall its, P its.
Proof.
  intros Hn Hl Hg.
  assert (Q : forall it r, P r -> P (it :: r)).
  { fix IHt 1. intros [v|n npc re kids] r Pr; [now apply Hl|]. apply Hg; [|exact Pr].
    induction kids as [|x kids IHk]; [exact Hn|]. apply IHt. exact IHk. }
  induction its as [|it its IH]; [exact Hn|now apply Q].
Qed.

Fixpoint tflat1 (it : titem) : list (lv T) :=
  match it with ILeaf v => [v] | IGroup _ _ _ kids => flat_map tflat1 kids end.
Definition tflatten (its : list titem) : list (lv T) := flat_map tflat1 its.

Fixpoint t_ids1 (it : titem) : list id :=
  match it with ILeaf v => [lv_id v] | IGroup n _ _ kids => n :: flat_map t_ids1 kids end.
Definition ts_ids (its : list titem) : list id := flat_map t_ids1 its.

(* ---------- specification ---------- *)

Fixpoint tenter1 (t : T) (g : gtree) (o : out T) : option titem * out T :=
  match g with
  | TLeaf l => let '(ov, o1) := lf_enter t l o in (option_map ILeaf ov, o1)
  | TGroup n kids => let '(kids', o1) := thread (tenter1 t) kids o in (Some (IGroup n 1 t kids'), o1)
  end.
Definition tenter (t : T) (gs : list gtree) (o : out T) : list titem * out T := thread (tenter1 t) gs o.

(* one item in a pass at tyme t of a scheduler with own tock b; zb = |tock| of every group *)
Fixpoint tpass1 (zb b t : T) (it : titem) (o : out T) : option titem * out T :=
  match it with
  | ILeaf v =>
    if tleb (v_re v) t then let '(ov, o1) := lv_step b t v o in (option_map ILeaf ov, o1)
    else (Some (ILeaf v), o)
  | IGroup n npc re kids =>
    if tleb re t then
      let '(kids', o1) := thread (tpass1 zb zb t) kids o in
      (match kids' with
       | [] => None
       | _ => Some (IGroup n npc (if tfalsy zb then tadd t b else tadd re zb) kids')
       end, o1)
    else (Some (IGroup n npc re kids), o)
  end.
Definition tpass (zb b t : T) (its : list titem) (o : out T) : list titem * out T :=
  thread (tpass1 zb b t) its o.

(* forced exit: the live leaves are closed in reverse tree order (groups emit nothing visible) *)
Definition tclose (t : T) (its : list titem) (o : out T) : out T := lvs_close t (rev (tflatten its)) o.

Fixpoint tspec_cycles (tk zb : T) (cycles : nat) (t : T) (its : list titem) (o : out T)
         (limit : option T) (stop : T) : option (T * out T) :=
  match cycles with
  | O => None
  | S c =>
    let '(its', o1) := tpass zb tk t its o in
    let t' := tadd t tk in
    match its' with
    | [] => Some (t', o_emit (o_done o1 0%N (Some true)) DoReturn 0%N t')
    | _ => if limited limit && tleb stop t'
           then Some (t', o_emit (tclose t' its' o1) DoReturn 0%N t')
           else tspec_cycles tk zb c t' its' o1 limit stop
    end
  end.

Definition tspec_run (tk zb : T) (cycles : nat) (limit : option T) (t0 : T) (gs : list gtree) : option (T * out T) :=
  let '(its, o) := tenter t0 gs out0 in
  let limit' := option_map tabs limit in
  let stop := tadd t0 (match limit' with Some l => l | None => tzero end) in
  tspec_cycles tk zb cycles t0 its o limit' stop.

End TDefs.

Arguments gtree T : clear implicits.
Arguments titem T : clear implicits.
