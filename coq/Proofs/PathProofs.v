(* Lemmas about Model/Path.v *)
From Hio Require Import Base.Prelude Base.ListFacts Model.Path.

Lemma seg_eqb_eq : forall a b, seg_eqb a b = true <-> a = b.
Proof. apply list_eqb_eq. intros a b. apply N.eqb_eq. Qed.
Lemma path_eqb_eq : forall a b, path_eqb a b = true <-> a = b.
Proof. apply list_eqb_eq. apply seg_eqb_eq. Qed.
Lemma path_eqb_refl : forall a, path_eqb a a = true.
Proof. intros. now apply path_eqb_eq. Qed.

(* b is a or below a / b is strictly below a *)
Definition prefix (a b : path) : Prop := exists r, b = a ++ r.
Definition inside (a b : path) : Prop := exists s r, b = a ++ s :: r.

Lemma is_prefix_spec : forall a b, is_prefix a b = true <-> prefix a b.
Proof.
  induction a as [|x a IH]; intros b; simpl.
  - split; auto. intros _. now exists b.
  - destruct b as [|y b].
    + split; [discriminate|]. intros [r H]. discriminate.
    + rewrite andb_true_iff, seg_eqb_eq, IH. split.
      * intros [-> [r ->]]. now exists r.
      * intros [r H]. simpl in H. injection H as -> ->. split; auto. now exists r.
Qed.

Lemma prefix_refl : forall a, prefix a a.
Proof. intros. exists []. now rewrite app_nil_r. Qed.
Lemma prefix_trans : forall a b c, prefix a b -> prefix b c -> prefix a c.
Proof. intros a b c [r ->] [s ->]. exists (r ++ s). now rewrite app_assoc. Qed.
Lemma inside_prefix : forall a b, inside a b -> prefix a b.
Proof. intros a b (s & r & ->). now exists (s :: r). Qed.
Lemma inside_trans : forall a b c, inside a b -> prefix b c -> inside a c.
Proof. intros a b c (s & r & ->) [t ->]. exists s, (r ++ t). now rewrite <- app_assoc. Qed.

(* two prefixes of one path are comparable *)
Lemma prefix_comparable : forall a b p, prefix a p -> prefix b p -> prefix a b \/ inside b a.
Proof.
  induction a as [|x a IH]; intros b p [r Hr] [s Hs].
  - left. now exists b.
  - destruct b as [|y b].
    + right. now exists x, a.
    + subst p. simpl in Hs. injection Hs as -> Hs.
      destruct (IH b (a ++ r)) as [[t ->]|(u & t & ->)].
      * now exists r.
      * now exists s.
      * left. now exists t.
      * right. now exists u, t.
Qed.

Lemma prefix_inside_absurd : forall a b, prefix a b -> inside b a -> False.
Proof.
  intros a b [r ->] (s & t & H). rewrite <- app_assoc in H.
  rewrite <- (app_nil_r a) in H at 1. apply app_inv_head in H. destruct r; discriminate.
Qed.

(* ---- normalisation keeps the path below head ++ tail when base/name do not climb ---- *)
Lemma norm_prefix : forall segs st0 st1,
  climbs_from (length st1) segs = false -> prefix st0 (norm_from (st0 ++ st1) segs).
Proof.
  induction segs as [|s segs IH]; intros st0 st1 H; simpl in *.
  - now exists st1.
  - destruct (is_empty s || is_dot s); [now apply IH|].
    destruct (is_dotdot s).
    + destruct st1 as [|x st1] using rev_ind; simpl in H; [discriminate|].
      rewrite app_length in H. simpl in H. rewrite Nat.add_1_r in H.
      rewrite app_assoc, removelast_last. now apply IH.
    + rewrite <- app_assoc. apply IH. rewrite app_length. simpl. now rewrite Nat.add_1_r.
Qed.

Lemma norm_tail : forall st clean alt rest,
  norm_from st (tail_of clean alt ++ rest) = norm_from (st ++ tail_of clean alt) rest.
Proof.
  intros. destruct clean, alt; unfold tail_of; cbn; rewrite <- ?app_assoc; reflexivity.
Qed.

Lemma norm_target : forall h clean alt segs,
  climbs segs = false -> prefix (h ++ tail_of clean alt) (norm_from h (tail_of clean alt ++ segs)).
Proof.
  intros h clean alt segs H. rewrite norm_tail.
  pose proof (norm_prefix segs (h ++ tail_of clean alt) [] H) as P. now rewrite app_nil_r in P.
Qed.

Lemma tail_inside : forall h clean alt p, prefix (h ++ tail_of clean alt) p -> inside h p.
Proof.
  intros h clean alt p [r ->]. unfold tail_of. rewrite <- app_assoc. simpl.
  eexists _, _. reflexivity.
Qed.

(* with clean, even the parent of the target is strictly below the head *)
Lemma tail_clean_dirname : forall h alt p, prefix (h ++ tail_of true alt) p -> inside h (dirname p).
Proof.
  intros h alt p [r ->]. unfold tail_of, dirname. rewrite <- app_assoc. simpl app.
  rewrite removelast_app by discriminate. cbn [removelast].
  eexists _, _. reflexivity.
Qed.

Lemma dirname_prefix : forall a s r, prefix a (dirname (a ++ s :: r)).
Proof.
  intros. unfold dirname. rewrite removelast_app by discriminate. now eexists.
Qed.

(* ---- the file system ---- *)
Lemma lookup_app : forall fs x p,
  lookup (fs ++ [x]) p = match lookup fs p with Some k => Some k | None => lookup [x] p end.
Proof.
  induction fs as [|[q k] fs IH]; intros x p.
  - reflexivity.
  - cbn [app lookup]. destruct (path_eqb q p); [reflexivity|]. apply IH.
Qed.

Lemma exists_app : forall fs x p, exists_ fs p = true -> exists_ (fs ++ [x]) p = true.
Proof.
  intros fs x p H. unfold exists_ in *. destruct p as [|s p]; auto.
  rewrite lookup_app. destruct (lookup fs (s :: p)); auto. discriminate.
Qed.

Lemma lookup_filter_keep : forall (f : path * fkind -> bool) fs p,
  (forall k, f (p, k) = true) -> lookup (filter f fs) p = lookup fs p.
Proof.
  intros f fs p H. induction fs as [|[q k] fs IH]; simpl; auto.
  destruct (path_eqb q p) eqn:E.
  - apply path_eqb_eq in E. subst q. rewrite H. simpl. now rewrite path_eqb_refl.
  - destruct (f (q, k)); simpl; [rewrite E|]; exact IH.
Qed.

Lemma lookup_filter_drop : forall (f : path * fkind -> bool) fs p,
  (forall k, f (p, k) = false) -> lookup (filter f fs) p = None.
Proof.
  intros f fs p H. induction fs as [|[q k] fs IH]; simpl; auto.
  destruct (f (q, k)) eqn:Ef; auto. simpl.
  destruct (path_eqb q p) eqn:E; auto.
  apply path_eqb_eq in E. subst q. rewrite H in Ef. discriminate.
Qed.

(* ---- effects: every logged path satisfies Q, and nothing outside Q disappears ---- *)
Definition step_ok (Q : path -> Prop) (w w' : world) : Prop :=
  (exists l, w_log w' = w_log w ++ l /\ Forall (fun e => Q (eff_path e)) l) /\
  (forall q, ~ Q q -> exists_ (w_fs w) q = true -> exists_ (w_fs w') q = true).

Lemma step_refl : forall (Q : path -> Prop) w, step_ok Q w w.
Proof. intros. split; auto. exists []. now rewrite app_nil_r. Qed.

Lemma step_trans : forall (Q : path -> Prop) a b c, step_ok Q a b -> step_ok Q b c -> step_ok Q a c.
Proof.
  intros Q a b c [(l1 & H1 & F1) K1] [(l2 & H2 & F2) K2]. split.
  - exists (l1 ++ l2). rewrite H2, H1, app_assoc. split; auto. apply Forall_app. now split.
  - intros q Hq He. apply K2; auto.
Qed.

Definition upward (Q : path -> Prop) : Prop := forall a b, Q a -> prefix a b -> Q b.

Lemma step_mkdir : forall (Q : path -> Prop) w p, Q p -> step_ok Q w (do_mkdir w p).
Proof.
  intros Q w p H. split.
  - exists [MkDir p]. split; auto.
  - intros q _ He. now apply exists_app.
Qed.
Lemma step_mkfile : forall (Q : path -> Prop) w p, Q p -> step_ok Q w (do_mkfile w p).
Proof.
  intros Q w p H. split.
  - exists [MkFile p]. split; auto.
  - intros q _ He. now apply exists_app.
Qed.
Lemma step_rmtree : forall (Q : path -> Prop) w x, upward Q -> Q x -> step_ok Q w (do_rmtree w x).
Proof.
  intros Q w x U H. split.
  - exists [RmTree x]. split; auto.
  - intros q Hq He. unfold exists_ in *. destruct q as [|s q]; auto. simpl.
    rewrite lookup_filter_keep; auto.
    intros k. simpl. apply negb_true_iff. destruct (is_prefix x (s :: q)) eqn:E; auto.
    apply is_prefix_spec in E. exfalso. apply Hq. eapply U; eauto.
Qed.
Lemma step_remove : forall (Q : path -> Prop) w x, Q x -> step_ok Q w (do_remove w x).
Proof.
  intros Q w x H. split.
  - exists [RmFile x]. split; auto.
  - intros q Hq He. unfold exists_ in *. destruct q as [|s q]; auto. simpl.
    rewrite lookup_filter_keep; auto.
    intros k. simpl. apply negb_true_iff. destruct (path_eqb x (s :: q)) eqn:E; auto.
    apply path_eqb_eq in E. subst x. contradiction.
Qed.

Lemma mkdir_mono : forall w p w' q, mkdir w p = Ok w' -> exists_ (w_fs w) q = true -> exists_ (w_fs w') q = true.
Proof.
  intros w p w' q H He. unfold mkdir in H.
  destruct (exists_ (w_fs w) p); [discriminate|]. destruct (isdir (w_fs w) (dirname p)); [|discriminate].
  inversion H; subst. now apply exists_app.
Qed.

Lemma makedirs_rev_mono : forall rp w w' q,
  makedirs_rev w rp = Ok w' -> exists_ (w_fs w) q = true -> exists_ (w_fs w') q = true.
Proof.
  induction rp as [|s rp IH]; intros w w' q H He; simpl in H; [discriminate|].
  destruct rp as [|s' rp'].
  - eapply mkdir_mono; eauto.
  - destruct (exists_ (w_fs w) (rev (s' :: rp'))).
    + eapply mkdir_mono; eauto.
    + destruct (makedirs_rev w (s' :: rp')) as [w1|] eqn:E; [|discriminate].
      eapply mkdir_mono; eauto.
Qed.

(* makedirs only creates prefixes of its argument that did not exist *)
Lemma makedirs_rev_step : forall (Q : path -> Prop) rp w w',
  makedirs_rev w rp = Ok w' ->
  (forall q, prefix q (rev rp) -> q <> [] -> exists_ (w_fs w) q = false -> Q q) ->
  step_ok Q w w'.
Proof.
  intros Q. induction rp as [|s rp IH]; intros w w' H HQ; simpl in H; [discriminate|].
  assert (Hup : forall q, prefix q (rev rp) -> prefix q (rev (s :: rp))).
  { intros q [r Hr]. simpl. rewrite Hr. exists (r ++ [s]). now rewrite app_assoc. }
  assert (Hlast : forall w1, (forall q, exists_ (w_fs w) q = true -> exists_ (w_fs w1) q = true) ->
                  mkdir w1 (rev (s :: rp)) = Ok w' -> step_ok Q w1 w').
  { intros w1 Hm Hk. unfold mkdir in Hk.
    destruct (exists_ (w_fs w1) (rev (s :: rp))) eqn:Ee; [discriminate|].
    destruct (isdir (w_fs w1) (dirname (rev (s :: rp)))); [|discriminate].
    inversion Hk; subst. apply step_mkdir. apply HQ.
    - apply prefix_refl.
    - intro Hc. apply app_eq_nil in Hc. destruct Hc as [_ Hc]. discriminate.
    - destruct (exists_ (w_fs w) (rev (s :: rp))) eqn:E2; auto. apply Hm in E2. congruence. }
  destruct rp as [|s' rp'].
  - apply Hlast; auto.
  - destruct (exists_ (w_fs w) (rev (s' :: rp'))) eqn:Ex.
    + apply Hlast; auto.
    + destruct (makedirs_rev w (s' :: rp')) as [w1|] eqn:E; [|discriminate].
      eapply step_trans.
      * apply (IH w w1 E). intros q Hp Hn He. apply HQ; auto.
      * apply Hlast; auto. intros q He. eapply makedirs_rev_mono; eauto.
Qed.

Lemma makedirs_step : forall (Q : path -> Prop) w p w',
  makedirs w p = Ok w' ->
  (forall q, prefix q p -> q <> [] -> exists_ (w_fs w) q = false -> Q q) ->
  step_ok Q w w'.
Proof.
  intros Q w p w' H HQ. unfold makedirs in H. eapply makedirs_rev_step; eauto.
  now rewrite rev_involutive.
Qed.
Lemma makedirs_mono : forall w p w' q,
  makedirs w p = Ok w' -> exists_ (w_fs w) q = true -> exists_ (w_fs w') q = true.
Proof. intros. unfold makedirs in *. eapply makedirs_rev_mono; eauto. Qed.

Lemma ocfn_step : forall (Q : path -> Prop) w p w',
  ocfn w p = Ok w' -> (exists_ (w_fs w) p = false -> Q p) -> step_ok Q w w'.
Proof.
  intros Q w p w' H HQ. unfold ocfn in H. destruct p as [|s p]; [discriminate|].
  unfold exists_ in HQ.
  destruct (lookup (w_fs w) (s :: p)) as [[| |]|].
  - inversion H; subst. apply step_refl.
  - discriminate.
  - discriminate.
  - destruct (isdir (w_fs w) (dirname (s :: p))); [|discriminate].
    inversion H; subst. apply step_mkfile. now apply HQ.
Qed.

Lemma prefix_dirname : forall q p, prefix q (dirname p) -> prefix q p.
Proof.
  intros q p [r H]. unfold dirname in H. destruct p as [|x p] using rev_ind.
  - simpl in H. destruct q; [|discriminate]. now exists [].
  - rewrite removelast_last in H. subst. exists (r ++ [x]). now rewrite app_assoc.
Qed.

Lemma create_at_step : forall (Q : path -> Prop) c w p w',
  create_at c w p = Ok w' ->
  (forall q, prefix q p -> q <> [] -> exists_ (w_fs w) q = false -> Q q) ->
  step_ok Q w w'.
Proof.
  intros Q c w p w' H HQ. unfold create_at in H.
  destruct (c_filed c || c_ext c).
  - assert (Hup : forall w1, (if exists_ (w_fs w) (dirname p) then Ok w else makedirs w (dirname p)) = Ok w1 ->
                  step_ok Q w w1 /\ (forall q, exists_ (w_fs w) q = true -> exists_ (w_fs w1) q = true)).
    { intros w1 Hu. destruct (exists_ (w_fs w) (dirname p)).
      - inversion Hu; subst. split; auto. apply step_refl.
      - split.
        + eapply makedirs_step; eauto. intros q Hp Hn He. apply HQ; auto. now apply prefix_dirname.
        + intros q. eapply makedirs_mono; eauto. }
    destruct (if exists_ (w_fs w) (dirname p) then Ok w else makedirs w (dirname p)) as [w1|] eqn:Eu; [|discriminate].
    destruct (Hup w1 eq_refl) as [S1 M1].
    destruct (c_filed c).
    + eapply step_trans; eauto. eapply ocfn_step; eauto.
      intros He. destruct p as [|s p]; [simpl in H; discriminate|].
      apply HQ; [apply prefix_refl | discriminate |].
      destruct (exists_ (w_fs w) (s :: p)) eqn:E2; auto. apply M1 in E2. congruence.
    + inversion H; subst. exact S1.
  - eapply makedirs_step; eauto.
Qed.

Lemma clean_at_step : forall (Q : path -> Prop) c b w p,
  upward Q -> Q p -> (c_clean c = true -> Q (dirname p)) -> step_ok Q w (clean_at c b w p).
Proof.
  intros Q c b w p U Hp Hd. unfold clean_at.
  destruct (c_clean c) eqn:Ec; simpl; [|apply step_refl].
  destruct (exists_ (w_fs w) p); [|apply step_refl].
  destruct (isfile (w_fs w) p).
  - destruct (c_filed c || b && c_ext c).
    + now apply step_remove.
    + apply step_rmtree; auto.
  - now apply step_rmtree.
Qed.

(* ---- remake ---- *)
Definition Qof (c : config) (q : path) : Prop :=
  if c_temp c then prefix (c_tmp c) q else inside (c_head c) q \/ inside (c_alt c) q.

(* the environment: the head and alt directories (and every directory above
   them, and above the directory mkdtemp makes) exist, and neither head lies
   inside the other *)
Record env (c : config) (w : world) : Prop := {
  e_head : forall q, prefix q (c_head c) -> exists_ (w_fs w) q = true;
  e_alt : forall q, prefix q (c_alt c) -> exists_ (w_fs w) q = true;
  e_tmp : forall q, inside q (c_tmp c) -> exists_ (w_fs w) q = true;
  e_sep1 : ~ inside (c_head c) (c_alt c);
  e_sep2 : ~ inside (c_alt c) (c_head c) }.

Lemma Qof_upward : forall c, upward (Qof c).
Proof.
  intros c a b H P. unfold Qof in *. destruct (c_temp c).
  - eapply prefix_trans; eauto.
  - destruct H; [left|right]; eapply inside_trans; eauto.
Qed.

Lemma prefix_cases : forall a b, prefix a b -> a = b \/ inside a b.
Proof. intros a b [[|s r] ->]; [left; now rewrite app_nil_r | right; now exists s, r]. Qed.

Lemma inside_inside_absurd : forall a b, inside a b -> inside b a -> False.
Proof. intros a b H1 H2. eapply prefix_inside_absurd; eauto. now apply inside_prefix. Qed.

(* nothing at or above a head is ever an effect path *)
Lemma notQ_above : forall c w h q,
  env c w -> c_temp c = false -> (h = c_head c \/ h = c_alt c) -> prefix q h -> ~ Qof c q.
Proof.
  intros c w h q E Ht Hh Hq HQ. unfold Qof in HQ. rewrite Ht in HQ.
  destruct Hh as [-> | ->]; destruct HQ as [HQ|HQ].
  - eapply prefix_inside_absurd; eauto.
  - apply (e_sep2 c w E). eapply inside_trans; eauto.
  - apply (e_sep1 c w E). eapply inside_trans; eauto.
  - eapply prefix_inside_absurd; eauto.
Qed.

Lemma missing_is_inside : forall c w w1 h p q,
  env c w -> c_temp c = false -> step_ok (Qof c) w w1 -> (h = c_head c \/ h = c_alt c) ->
  inside h p -> prefix q p -> exists_ (w_fs w1) q = false -> Qof c q.
Proof.
  intros c w w1 h p q E Ht [_ K] Hh Hp Hq Hm.
  destruct (prefix_comparable h q p (inside_prefix _ _ Hp) Hq) as [P|I].
  - destruct (prefix_cases _ _ P) as [<-|I].
    + exfalso. assert (exists_ (w_fs w1) h = true); [|congruence].
      apply K; [eapply notQ_above; eauto; apply prefix_refl|].
      destruct Hh as [-> | ->]; [apply (e_head c w E) | apply (e_alt c w E)]; apply prefix_refl.
    + unfold Qof. rewrite Ht. destruct Hh as [-> | ->]; auto.
  - exfalso. assert (exists_ (w_fs w1) q = true); [|congruence].
    apply K; [eapply notQ_above; eauto; now apply inside_prefix|].
    destruct Hh as [-> | ->]; [apply (e_head c w E) | apply (e_alt c w E)]; now apply inside_prefix.
Qed.

Lemma missing_is_inside_tmp : forall c w w1 p q,
  env c w -> c_temp c = true -> step_ok (Qof c) (do_mkdir w (c_tmp c)) w1 ->
  prefix (c_tmp c) p -> prefix q p -> exists_ (w_fs w1) q = false -> Qof c q.
Proof.
  intros c w w1 p q E Ht [_ K] Hp Hq Hm.
  destruct (prefix_comparable (c_tmp c) q p Hp Hq) as [P|I].
  - unfold Qof. now rewrite Ht.
  - exfalso. assert (exists_ (w_fs w1) q = true); [|congruence].
    apply K.
    + unfold Qof. rewrite Ht. intro P. eapply prefix_inside_absurd; eauto.
    + simpl. apply exists_app. now apply (e_tmp c w E).
Qed.

Theorem remake_effects : forall c w r w',
  env c w -> remake c w = (r, w') -> step_ok (Qof c) w w'.
Proof.
  intros c w r w' E H. unfold remake in H.
  destruct (isabs (c_name c) || isabs (c_base c)); [inversion H; subst; apply step_refl|].
  set (name := if c_filed c || c_ext c then add_ext (c_name c) (c_fext c) else c_name c) in *.
  destruct (isabs name); [inversion H; subst; apply step_refl|].
  destruct (climbs (c_base c ++ name)) eqn:Ec; [inversion H; subst; apply step_refl|].
  pose proof (Qof_upward c) as U.
  destruct (c_temp c) eqn:Et.
  - (* temp *)
    set (p := norm_from (c_tmp c) (tail_of (c_clean c) false ++ c_base c ++ name)) in *.
    assert (P : prefix (c_tmp c ++ tail_of (c_clean c) false) p) by (apply norm_target; exact Ec).
    assert (I : inside (c_tmp c) p) by (eapply tail_inside; eauto).
    assert (S0 : step_ok (Qof c) w (do_mkdir w (c_tmp c))).
    { apply step_mkdir. unfold Qof. rewrite Et. apply prefix_refl. }
    assert (S1 : step_ok (Qof c) (do_mkdir w (c_tmp c)) (clean_at c true (do_mkdir w (c_tmp c)) p)).
    { apply clean_at_step; auto.
      - unfold Qof. rewrite Et. now apply inside_prefix.
      - intros _. unfold Qof. rewrite Et. destruct I as (s & t & ->). apply dirname_prefix. }
    destruct (create_at c (clean_at c true (do_mkdir w (c_tmp c)) p) p) as [w2|k] eqn:Ecr;
      inversion H; subst; clear H.
    + eapply step_trans; [exact S0|]. eapply step_trans; [exact S1|].
      eapply create_at_step; eauto. intros q Hq _ Hm.
      eapply missing_is_inside_tmp; eauto. now apply inside_prefix.
    + eapply step_trans; eauto.
  - (* head, with the alt head as fallback *)
    set (p := norm_from (c_head c) (tail_of (c_clean c) false ++ c_base c ++ name)) in *.
    set (q := norm_from (c_alt c) (tail_of (c_clean c) true ++ c_base c ++ name)) in *.
    assert (P : prefix (c_head c ++ tail_of (c_clean c) false) p) by (apply norm_target; exact Ec).
    assert (PA : prefix (c_alt c ++ tail_of (c_clean c) true) q) by (apply norm_target; exact Ec).
    assert (I : inside (c_head c) p) by (eapply tail_inside; eauto).
    assert (IA : inside (c_alt c) q) by (eapply tail_inside; eauto).
    assert (Qp : Qof c p) by (unfold Qof; rewrite Et; now left).
    assert (Qq : Qof c q) by (unfold Qof; rewrite Et; now right).
    assert (S1 : step_ok (Qof c) w (clean_at c false w p)).
    { apply clean_at_step; auto. intros Hc. rewrite Hc in P. unfold Qof. rewrite Et. left.
      eapply tail_clean_dirname; eauto. }
    set (w1 := clean_at c false w p) in *.
    assert (Cr : forall h x w2, (h = c_head c \/ h = c_alt c) -> inside h x ->
                 create_at c w1 x = Ok w2 -> step_ok (Qof c) w1 w2).
    { intros h x w2 Hh Hx Hc. eapply create_at_step; eauto. intros y Hy _ Hm.
      eapply missing_is_inside; eauto. }
    assert (Oc : forall x w2, Qof c x -> ocfn w1 x = Ok w2 -> step_ok (Qof c) w1 w2).
    { intros x w2 Hx Ho. eapply ocfn_step; eauto. }
    destruct (negb (exists_ (w_fs w1) p)).
    + destruct (create_at c w1 p) as [w2|k] eqn:Ecr.
      * inversion H; subst. eapply step_trans; eauto.
      * destruct (negb (exists_ (w_fs w1) q)).
        -- destruct (create_at c w1 q) as [w2|k2] eqn:Ecq; inversion H; subst; auto.
           eapply step_trans; eauto.
        -- destruct (c_filed c); [|inversion H; subst; auto].
           destruct (ocfn w1 q) as [w2|k2] eqn:Eo; inversion H; subst; auto.
           eapply step_trans; eauto.
    + destruct (c_filed c); [|inversion H; subst; auto].
      destruct (ocfn w1 p) as [w2|k2] eqn:Eo; inversion H; subst; auto.
      eapply step_trans; eauto.
Qed.

(* where the path lies *)
Theorem remake_path : forall c w p w',
  remake c w = (Ok p, w') ->
  if c_temp c then prefix (c_tmp c ++ tail_of (c_clean c) false) p
  else prefix (c_head c ++ tail_of (c_clean c) false) p \/ prefix (c_alt c ++ tail_of (c_clean c) true) p.
Proof.
  intros c w p w' H. unfold remake in H.
  destruct (isabs (c_name c) || isabs (c_base c)); [discriminate|].
  set (name := if c_filed c || c_ext c then add_ext (c_name c) (c_fext c) else c_name c) in *.
  destruct (isabs name); [discriminate|].
  destruct (climbs (c_base c ++ name)) eqn:Ec; [discriminate|].
  pose proof (norm_target (c_tmp c) (c_clean c) false _ Ec) as NT.
  pose proof (norm_target (c_head c) (c_clean c) false _ Ec) as NH.
  pose proof (norm_target (c_alt c) (c_clean c) true _ Ec) as NA.
  destruct (c_temp c).
  - destruct (create_at c _ _); [|discriminate]. injection H as <- _. exact NT.
  - match type of H with context [negb (exists_ ?fs ?x)] => destruct (negb (exists_ fs x)) end.
    + destruct (create_at c _ _).
      * injection H as <- _. now left.
      * match type of H with context [negb (exists_ ?fs ?x)] => destruct (negb (exists_ fs x)) end.
        -- destruct (create_at c _ _); [|discriminate]. injection H as <- _. now right.
        -- destruct (c_filed c); [destruct (ocfn _ _); [|discriminate]|]; injection H as <- _; now right.
    + destruct (c_filed c); [destruct (ocfn _ _); [|discriminate]|]; injection H as <- _; now left.
Qed.

(* a rejected name/base touches nothing *)
Lemma remake_rejected : forall c w,
  let name := if c_filed c || c_ext c then add_ext (c_name c) (c_fext c) else c_name c in
  isabs (c_name c) || isabs (c_base c) || climbs (c_base c ++ name) = true ->
  remake c w = (Exc OtherErr, w).
Proof.
  intros c w name H. unfold remake. fold name.
  destruct (isabs (c_name c) || isabs (c_base c)); auto.
  destruct (isabs name); auto. simpl in H. now rewrite H.
Qed.

(* ---- close(clear=True) ---- *)
Definition Cof (c : config) (p q : path) : Prop :=
  if c_temp c then prefix (c_tmp c) q else prefix p q.

Lemma Cof_upward : forall c p, upward (Cof c p).
Proof. intros c p a b H P. unfold Cof in *. destruct (c_temp c); eapply prefix_trans; eauto. Qed.

Lemma clear_end_step : forall c p w w1,
  (c_temp c = true -> inside (c_tmp c) p) ->
  clear_end c p w = Ok w1 -> step_ok (Cof c p) w w1.
Proof.
  intros c p w w1 Hin E1. unfold clear_end in E1.
  pose proof (Cof_upward c p) as U.
  assert (Qp : Cof c p p).
  { unfold Cof. destruct (c_temp c) eqn:Et; [apply inside_prefix; auto | apply prefix_refl]. }
  assert (Qd : c_temp c = true -> Cof c p (dirname p)).
  { intros Et. unfold Cof. rewrite Et. destruct (Hin Et) as (s & t & ->). apply dirname_prefix. }
  assert (RM : step_ok (Cof c p) w (if c_temp c then do_rmtree (do_remove w p) (dirname p) else do_remove w p)).
  { destruct (c_temp c) eqn:Et.
    - apply (step_trans _ w (do_remove w p)); [apply step_remove; auto|]. apply step_rmtree; auto.
    - apply step_remove; auto. }
  destruct (exists_ (w_fs w) p); [|inversion E1; subst; apply step_refl].
  destruct (isfile (w_fs w) p); [inversion E1; subst; exact RM|].
  destruct (c_ext c).
  - destruct (isdir (w_fs w) p); [discriminate|]. inversion E1; subst; exact RM.
  - destruct (isdir (w_fs w) p); [|discriminate]. inversion E1; subst. apply step_rmtree; auto.
Qed.

Theorem clear_effects : forall c p w r w',
  (c_temp c = true -> inside (c_tmp c) p) ->
  clear c p w = (r, w') -> step_ok (Cof c p) w w'.
Proof.
  intros c p w r w' Hin H. unfold clear in H.
  destruct (clear_end c p w) as [w1|k] eqn:E1; [|inversion H; subst; apply step_refl].
  pose proof (clear_end_step c p w w1 Hin E1) as S1.
  destruct (c_temp c && is_prefix (c_tmp c) p && isdir (w_fs w1) (c_tmp c)) eqn:Ef;
    inversion H; subst; auto.
  eapply step_trans; eauto. apply step_rmtree; [apply Cof_upward|].
  apply andb_true_iff in Ef. destruct Ef as [Ef _]. apply andb_true_iff in Ef. destruct Ef as [Et _].
  unfold Cof. rewrite Et. apply prefix_refl.
Qed.

Lemma lookup_filter_some : forall (f : path * fkind -> bool) fs p,
  lookup (filter f fs) p <> None -> lookup fs p <> None.
Proof.
  intros f fs p. induction fs as [|[q k] fs IH]; simpl; auto.
  destruct (f (q, k)); simpl; destruct (path_eqb q p); auto; discriminate.
Qed.

Lemma exists_filter : forall (f : path * fkind -> bool) fs p,
  exists_ fs p = false -> exists_ (filter f fs) p = false.
Proof.
  intros f fs p H. unfold exists_ in *. destruct p as [|s p]; auto.
  destruct (lookup (filter f fs) (s :: p)) eqn:E; auto.
  exfalso. assert (lookup fs (s :: p) <> None) by (eapply lookup_filter_some; rewrite E; discriminate).
  destruct (lookup fs (s :: p)); congruence.
Qed.

Lemma rmtree_gone : forall fs x q, prefix x q -> q <> [] ->
  exists_ (filter (fun e => negb (is_prefix x (fst e))) fs) q = false.
Proof.
  intros fs x q P Hn. unfold exists_. destruct q as [|s q]; [congruence|].
  rewrite lookup_filter_drop; auto. intros k. simpl. apply negb_false_iff. now apply is_prefix_spec.
Qed.

Lemma remove_gone : forall fs p, p <> [] ->
  exists_ (filter (fun e => negb (path_eqb p (fst e))) fs) p = false.
Proof.
  intros fs p Hn. unfold exists_. destruct p as [|s p]; [congruence|].
  rewrite lookup_filter_drop; auto. intros k. simpl. apply negb_false_iff. apply path_eqb_refl.
Qed.

Lemma isdir_filter_keep : forall (f : path * fkind -> bool) fs p,
  (forall k, f (p, k) = true) -> isdir (filter f fs) p = isdir fs p.
Proof. intros. unfold isdir. destruct p; auto. now rewrite lookup_filter_keep. Qed.

Lemma prefix_antisym : forall a b, prefix a b -> prefix b a -> a = b.
Proof.
  intros a b H1 H2. destruct (prefix_cases _ _ H1) as [|I]; auto.
  exfalso. eapply prefix_inside_absurd; eauto.
Qed.

(* after a successful clear the path is gone, and for a temp Filer so is
   everything at or below the mkdtemp directory *)
Lemma clear_end_gone : forall c p w w1,
  clear_end c p w = Ok w1 -> p <> [] -> exists_ (w_fs w1) p = false.
Proof.
  intros c p w w1 E1 Hn. unfold clear_end in E1.
  assert (RM : exists_ (w_fs (if c_temp c then do_rmtree (do_remove w p) (dirname p) else do_remove w p)) p = false).
  { destruct (c_temp c); simpl; [apply exists_filter|]; now apply remove_gone. }
  destruct (exists_ (w_fs w) p) eqn:Ex; [|inversion E1; subst; auto].
  destruct (isfile (w_fs w) p); [inversion E1; subst; exact RM|].
  destruct (c_ext c).
  - destruct (isdir (w_fs w) p); [discriminate|]. inversion E1; subst; exact RM.
  - destruct (isdir (w_fs w) p); [|discriminate]. inversion E1; subst. simpl.
    apply rmtree_gone; auto. apply prefix_refl.
Qed.

Lemma clear_end_tmp : forall c p w w1,
  clear_end c p w = Ok w1 -> c_temp c = true -> inside (c_tmp c) p -> isdir (w_fs w) (c_tmp c) = true ->
  isdir (w_fs w1) (c_tmp c) = true \/
  (forall q, prefix (c_tmp c) q -> q <> [] -> exists_ (w_fs w1) q = false).
Proof.
  intros c p w w1 E1 Et Hin Hd. unfold clear_end in E1. rewrite Et in E1.
  assert (Kp : forall k : fkind, negb (path_eqb p (fst (c_tmp c, k))) = true).
  { intros k. simpl. apply negb_true_iff. destruct (path_eqb p (c_tmp c)) eqn:E; auto.
    apply path_eqb_eq in E. subst p. exfalso. eapply prefix_inside_absurd; eauto. apply prefix_refl. }
  assert (Kt : forall k : fkind, negb (is_prefix p (fst (c_tmp c, k))) = true).
  { intros k. simpl. apply negb_true_iff. destruct (is_prefix p (c_tmp c)) eqn:E; auto.
    apply is_prefix_spec in E. exfalso. eapply prefix_inside_absurd; eauto. }
  assert (RM : isdir (w_fs (do_rmtree (do_remove w p) (dirname p))) (c_tmp c) = true \/
               (forall q, prefix (c_tmp c) q -> q <> [] ->
                          exists_ (w_fs (do_rmtree (do_remove w p) (dirname p))) q = false)).
  { simpl. destruct (is_prefix (dirname p) (c_tmp c)) eqn:Ed.
    - right. apply is_prefix_spec in Ed.
      assert (Heq : dirname p = c_tmp c).
      { apply prefix_antisym; auto. destruct Hin as (s & t & ->). apply dirname_prefix. }
      rewrite Heq. intros q Hq Hqn. now apply rmtree_gone.
    - left. rewrite isdir_filter_keep; [rewrite isdir_filter_keep; auto|].
      intros k. simpl. now rewrite Ed. }
  destruct (exists_ (w_fs w) p); [|inversion E1; subst; now left].
  destruct (isfile (w_fs w) p); [inversion E1; subst; exact RM|].
  destruct (c_ext c).
  - destruct (isdir (w_fs w) p); [discriminate|]. inversion E1; subst; exact RM.
  - destruct (isdir (w_fs w) p); [|discriminate]. inversion E1; subst. simpl. left.
    rewrite isdir_filter_keep; auto.
Qed.

Theorem clear_removes : forall c p w w',
  clear c p w = (Ok tt, w') -> p <> [] ->
  exists_ (w_fs w') p = false /\
  (c_temp c = true -> inside (c_tmp c) p -> isdir (w_fs w) (c_tmp c) = true ->
   forall q, prefix (c_tmp c) q -> q <> [] -> exists_ (w_fs w') q = false).
Proof.
  intros c p w w' H Hn. unfold clear in H.
  destruct (clear_end c p w) as [w1|k] eqn:E1; [|discriminate].
  pose proof (clear_end_gone c p w w1 E1 Hn) as G1.
  destruct (c_temp c && is_prefix (c_tmp c) p && isdir (w_fs w1) (c_tmp c)) eqn:Ef;
    inversion H; subst; clear H.
  - split.
    + simpl. now apply exists_filter.
    + intros _ _ _ q Hq Hqn. simpl. now apply rmtree_gone.
  - split; auto. intros Et Hin Hd q Hq Hqn.
    destruct (clear_end_tmp c p w w' E1 Et Hin Hd) as [Hk|Hg]; auto.
    rewrite Et, Hk in Ef. simpl in Ef.
    assert (Hp : is_prefix (c_tmp c) p = true) by (apply is_prefix_spec; now apply inside_prefix).
    rewrite Hp in Ef. discriminate.
Qed.

Definition is_rm (e : eff) : Prop := match e with RmTree _ | RmFile _ => True | _ => False end.

Lemma clear_only_removes : forall c p w r w',
  clear c p w = (r, w') -> exists l, w_log w' = w_log w ++ l /\ Forall is_rm l.
Proof.
  intros c p w r w' H. unfold clear, clear_end in H.
  destruct (exists_ (w_fs w) p); [destruct (isfile (w_fs w) p); [|destruct (c_ext c); destruct (isdir (w_fs w) p)]|];
    destruct (c_temp c); cbn [andb] in H;
    repeat match type of H with
           | context [if ?b then _ else _] => destruct b
           end;
    inversion H; subst;
    first [ exists []; split; [now rewrite app_nil_r | constructor]
          | eexists; split; [cbn [w_log do_rmtree do_remove]; rewrite <- ?app_assoc; reflexivity
                            | repeat constructor; exact I] ].
Qed.

(* ---- histories: constructor, then reopen / close calls on one Filer ---- *)
Definition tmproot (c : config) : path := dirname (c_tmp c).
Definition unrelated (a b : path) : Prop := ~ prefix a b /\ ~ prefix b a.

(* head, alt and the temp root (and everything above them) exist and none of
   the three lies at or below another *)
Record env_all (c : config) (w : world) : Prop := {
  ea_head : forall q, prefix q (c_head c) -> exists_ (w_fs w) q = true;
  ea_alt : forall q, prefix q (c_alt c) -> exists_ (w_fs w) q = true;
  ea_tmp : forall q, prefix q (tmproot c) -> exists_ (w_fs w) q = true;
  ea_ha : unrelated (c_head c) (c_alt c);
  ea_ht : unrelated (c_head c) (tmproot c);
  ea_at : unrelated (c_alt c) (tmproot c) }.

Definition is_root (c : config) (q : path) : Prop :=
  prefix q (c_head c) \/ prefix q (c_alt c) \/ prefix q (tmproot c).

(* the object's path lies where its temp attribute says *)
Definition good (c : config) (st : filer) : Prop :=
  match f_path st with
  | None => True
  | Some p =>
    if f_temp st then (exists x, f_tmp st = tmproot c ++ [x]) /\ inside (f_tmp st) p
    else inside (c_head c) p \/ inside (c_alt c) p
  end.

(* what a clear of this object may touch *)
Definition scope (st : filer) (q : path) : Prop :=
  match f_path st with
  | None => False
  | Some p => if f_temp st then prefix (f_tmp st) q else prefix p q
  end.

Lemma snoc_not_prefix : forall (a : path) x q, prefix (a ++ [x]) q -> prefix q a -> False.
Proof.
  intros a x q P1 P2. eapply prefix_inside_absurd; [exact (prefix_trans _ _ _ P1 P2)|].
  exists x, []. reflexivity.
Qed.

Lemma inside_prefix_trans : forall a b c, inside a b -> prefix b c -> inside a c.
Proof. exact inside_trans. Qed.

Lemma root_not_scope : forall c w st q, env_all c w -> good c st -> is_root c q -> ~ scope st q.
Proof.
  intros c w st q E G R S. unfold good, scope in *. destruct (f_path st) as [p|]; auto.
  destruct (f_temp st).
  - destruct G as [(x & Hx) Hin]. rewrite Hx in S.
    destruct R as [R|[R|R]].
    + apply (proj2 (ea_ht c w E)). apply prefix_trans with (tmproot c ++ [x]); [now exists [x]|].
      eapply prefix_trans; eauto.
    + apply (proj2 (ea_at c w E)). apply prefix_trans with (tmproot c ++ [x]); [now exists [x]|].
      eapply prefix_trans; eauto.
    + eapply snoc_not_prefix; eauto.
  - assert (K : forall r r', inside r p -> prefix q r' -> inside r r').
    { intros r r' Hi Hr. eapply inside_trans; [exact Hi|]. eapply prefix_trans; eauto. }
    destruct G as [G|G]; destruct R as [R|[R|R]].
    + eapply inside_inside_absurd; eapply K; eauto.
    + apply (proj1 (ea_ha c w E)). apply inside_prefix. eapply K; eauto.
    + apply (proj1 (ea_ht c w E)). apply inside_prefix. eapply K; eauto.
    + apply (proj2 (ea_ha c w E)). apply inside_prefix. eapply K; eauto.
    + eapply inside_inside_absurd; eapply K; eauto.
    + apply (proj1 (ea_at c w E)). apply inside_prefix. eapply K; eauto.
Qed.

Lemma root_not_Q : forall c w t clean fx x q,
  env_all c w -> is_root c q -> ~ Qof (cfg_with c t clean fx (tmproot c ++ [x])) q.
Proof.
  intros c w t clean fx x q E R HQ. unfold Qof in HQ. simpl in HQ. destruct t.
  - destruct R as [R|[R|R]].
    + apply (proj2 (ea_ht c w E)). apply prefix_trans with (tmproot c ++ [x]); [now exists [x]|].
      eapply prefix_trans; eauto.
    + apply (proj2 (ea_at c w E)). apply prefix_trans with (tmproot c ++ [x]); [now exists [x]|].
      eapply prefix_trans; eauto.
    + eapply snoc_not_prefix; eauto.
  - destruct HQ as [HQ|HQ]; destruct R as [R|[R|R]].
    + eapply prefix_inside_absurd; eauto.
    + apply (proj1 (ea_ha c w E)). apply inside_prefix. eapply inside_trans; eauto.
    + apply (proj1 (ea_ht c w E)). apply inside_prefix. eapply inside_trans; eauto.
    + apply (proj2 (ea_ha c w E)). apply inside_prefix. eapply inside_trans; eauto.
    + eapply prefix_inside_absurd; eauto.
    + apply (proj1 (ea_at c w E)). apply inside_prefix. eapply inside_trans; eauto.
Qed.

Lemma env_all_step : forall c (P : path -> Prop) w w',
  env_all c w -> step_ok P w w' -> (forall q, is_root c q -> ~ P q) -> env_all c w'.
Proof.
  intros c P w w' E [_ K] N. destruct E. constructor; auto; intros q Hq; apply K; auto; apply N; unfold is_root; auto.
Qed.

Lemma inside_snoc_prefix : forall (a : path) x q, inside q (a ++ [x]) -> prefix q a.
Proof.
  intros a x q (s & r & H). destruct r as [|y r] using rev_ind.
  - apply app_inj_tail in H. destruct H as [-> _]. apply prefix_refl.
  - rewrite app_comm_cons, app_assoc in H. apply app_inj_tail in H. destruct H as [-> _]. now exists (s :: r).
Qed.

Lemma env_of_all : forall c w t clean fx x,
  env_all c w -> env (cfg_with c t clean fx (tmproot c ++ [x])) w.
Proof.
  intros c w t clean fx x E. destruct E. constructor; simpl; auto.
  - intros q Hq. apply ea_tmp0. eapply inside_snoc_prefix; eauto.
  - intro H. apply (proj1 ea_ha0). now apply inside_prefix.
  - intro H. apply (proj2 ea_ha0). now apply inside_prefix.
Qed.

Lemma env_same_roots : forall c c' w x,
  c_head c' = c_head c -> c_alt c' = c_alt c -> c_tmp c' = tmproot c ++ [x] ->
  env_all c w -> env c' w.
Proof.
  intros c c' w x Hh Ha Ht E. destruct E. constructor; rewrite ?Hh, ?Ha, ?Ht; auto.
  - intros q Hq. apply ea_tmp0. eapply inside_snoc_prefix; eauto.
  - intro H. apply (proj1 ea_ha0). now apply inside_prefix.
  - intro H. apply (proj2 ea_ha0). now apply inside_prefix.
Qed.

Lemma root_not_Q_gen : forall c c' w x q,
  c_head c' = c_head c -> c_alt c' = c_alt c -> c_tmp c' = tmproot c ++ [x] ->
  env_all c w -> is_root c q -> ~ Qof c' q.
Proof.
  intros c c' w x q Hh Ha Ht E R HQ.
  apply (root_not_Q c w (c_temp c') false [] x q E R).
  unfold Qof in *. simpl. now rewrite <- Hh, <- Ha, <- Ht.
Qed.

Definition hop_cfg (c : config) (st : filer) (h : hop) : config :=
  match h with
  | HReopen temp fext _ _ clean =>
    cfg_with c (match temp with Some b => b | None => f_temp st end) clean
             (match fext with Some s => s | None => f_fext st end) (tmp_dir c (f_next st))
  | HClose _ => cfg_with c (f_temp st) false (f_fext st) (tmp_dir c (f_next st))
  | HRemake nm bs t cl fl ex fx => cfg_call c nm bs t cl fl ex fx (tmp_dir c (f_next st))
  | HExit _ => cfg_with c (f_temp st) false (f_fext st) (tmp_dir c (f_next st))
  end.

Lemma clear_st_step : forall c st w r w0,
  good c st -> clear_st c st w = (r, w0) -> step_ok (scope st) w w0.
Proof.
  intros c st w r w0 G H. unfold clear_st, good, scope in *.
  destruct (f_path st) as [p|]; [|inversion H; subst; apply step_refl].
  assert (Hin : c_temp (cfg_with c (f_temp st) false (f_fext st) (f_tmp st)) = true ->
                inside (c_tmp (cfg_with c (f_temp st) false (f_fext st) (f_tmp st))) p).
  { simpl. intros Et. rewrite Et in G. tauto. }
  pose proof (clear_effects _ p w r w0 Hin H) as S. unfold Cof in S. simpl in S. exact S.
Qed.

Lemma tmp_dir_snoc : forall c k, exists x, tmp_dir c k = tmproot c ++ [x].
Proof. intros. unfold tmp_dir, tmproot. eexists. reflexivity. Qed.

Theorem hop_ok : forall c st h w r st' w',
  env_all c w -> good c st -> run_hop c st h w = (r, st', w') ->
  exists w0,
    step_ok (scope st) w w0 /\                       (* the close(clear) part, under the OLD attributes *)
    step_ok (Qof (hop_cfg c st h)) w0 w' /\          (* the remake part, under the new ones *)
    env_all c w' /\ (r = Ok tt -> good c st').
Proof.
  intros c st h w r st' w' E G H.
  assert (NS : forall q, is_root c q -> ~ scope st q) by (intros; eapply root_not_scope; eauto).
  destruct h as [temp fext cl reuse clean | cl | nm bs t cl fl ex fx | cl]; simpl in H.
  4: { (* leaving the context manager: a close whose clear flag is the CURRENT temp attribute or the argument *)
    destruct (f_temp st || cl).
    - destruct (clear_st c st w) as [r0 w0] eqn:Ec. inversion H; subst; clear H.
      pose proof (clear_st_step c st' w r w' G Ec) as S0.
      exists w'. split; [exact S0|split; [apply step_refl|split; [eapply env_all_step; eauto|auto]]].
    - inversion H; subst. exists w'. split; [apply step_refl|split; [apply step_refl|split; auto]]. }
  3: { (* a direct remake call: no clear part; the object is untouched *)
    destruct (tmp_dir_snoc c (f_next st)) as [x Hx].
    set (c' := cfg_call c nm bs t cl fl ex fx (tmp_dir c (f_next st))) in *.
    assert (E1 : env c' w) by (apply (env_same_roots c c' w x); auto).
    destruct (remake c' w) as [r1 w1] eqn:Er. inversion H; subst; clear H.
    pose proof (remake_effects c' w _ _ E1 Er) as S1.
    exists w. split; [apply step_refl|split; [exact S1|split]].
    - eapply env_all_step; eauto. intros q Hq. apply (root_not_Q_gen c c' w x q); auto.
    - intros _. exact G. }
  - (* reopen *)
    set (cs := if cl then clear_st c st w else (Ok tt, w)) in *.
    assert (S0 : step_ok (scope st) w (snd cs)).
    { unfold cs. destruct cl; [|apply step_refl].
      destruct (clear_st c st w) as [r0 w0] eqn:Ec. simpl. eapply clear_st_step; eauto. }
    destruct cs as [r0 w0]. simpl in S0.
    assert (E0 : env_all c w0) by (eapply env_all_step; eauto).
    exists w0. split; auto.
    destruct r0 as [u|k]; [|inversion H; subst; split; [apply step_refl|split; [auto|discriminate]]].
    set (t := match temp with Some b => b | None => f_temp st end) in *.
    set (fx := match fext with Some s => s | None => f_fext st end) in *.
    destruct (tmp_dir_snoc c (f_next st)) as [x Hx].
    destruct (match f_path st with
              | Some p => exists_ (w_fs w0) p && (reuse && Bool.eqb t (f_temp st))
              | None => false end) eqn:Ek.
    + (* the existing path is kept *)
      destruct (f_path st) as [p|] eqn:Ep; [|discriminate].
      apply andb_true_iff in Ek. destruct Ek as [Ex Er]. apply andb_true_iff in Er. destruct Er as [_ Et].
      apply eqb_prop in Et.
      assert (G1 : good c {| f_path := Some p; f_temp := t; f_fext := fx; f_tmp := f_tmp st; f_next := f_next st |}).
      { unfold good in *. rewrite Ep in G. simpl. rewrite Et. exact G. }
      destruct (c_filed c).
      * destruct (ocfn w0 p) as [w1|k] eqn:Eo; inversion H; subst; clear H.
        -- assert (S1 : step_ok (Qof (cfg_with c t clean fx (tmp_dir c (f_next st)))) w0 w').
           { eapply ocfn_step; eauto. intros Hn. congruence. }
           split; [exact S1|split; [|auto]]. eapply env_all_step; eauto. intros q Hq. rewrite Hx. eapply root_not_Q; eauto.
        -- (split; [apply step_refl|split; [auto|discriminate]]).
      * inversion H; subst; clear H. split; [apply step_refl|split; auto].
    + (* remake under the new attributes *)
      set (c' := cfg_with c t clean fx (tmp_dir c (f_next st))) in *.
      assert (E1 : env c' w0) by (unfold c'; rewrite Hx; now apply env_of_all).
      destruct (remake c' w0) as [[p|k] w1] eqn:Er; inversion H; subst; clear H.
      * pose proof (remake_effects c' w0 _ _ E1 Er) as S1.
        split; [exact S1|split].
        -- eapply env_all_step; eauto. intros q Hq. unfold c'. rewrite Hx. eapply root_not_Q; eauto.
        -- intros _. pose proof (remake_path c' w0 p w' Er) as P. unfold good. simpl.
           unfold c' in P. simpl in P. destruct t.
           ++ split; [rewrite Hx; now exists x|]. eapply tail_inside; eauto.
           ++ destruct P as [P|P]; [left|right]; eapply tail_inside; eauto.
      * pose proof (remake_effects c' w0 _ _ E1 Er) as S1.
        split; [exact S1|split; [|discriminate]].
        eapply env_all_step; eauto. intros q Hq. unfold c'. rewrite Hx. eapply root_not_Q; eauto.
  - (* close *)
    destruct cl.
    + destruct (clear_st c st w) as [r0 w0] eqn:Ec. inversion H; subst; clear H.
      pose proof (clear_st_step c st' w r w' G Ec) as S0.
      exists w'. split; [exact S0|split; [apply step_refl|split; [eapply env_all_step; eauto|auto]]].
    + inversion H; subst. exists w'. split; [apply step_refl|split; [apply step_refl|split; auto]].
Qed.

(* the object right after a successful constructor is good *)
Lemma born_good : forall c w p w',
  c_tmp c <> [] -> remake c w = (Ok p, w') -> good c (born c p).
Proof.
  intros c w p w' Hn H. pose proof (remake_path c w p w' H) as P. unfold good, born. simpl.
  destruct (c_temp c).
  - split; [|eapply tail_inside; eauto].
    unfold tmproot, dirname. exists (last (c_tmp c) []). now apply app_removelast_last.
  - destruct P as [P|P]; [left|right]; eapply tail_inside; eauto.
Qed.

(* every call of every history: what it may touch *)
Fixpoint hist_ok (c : config) (st : filer) (hs : list hop) (w : world) : Prop :=
  match hs with
  | [] => True
  | h :: hs' =>
    let '(r, st', w') := run_hop c st h w in
    (exists w0, step_ok (scope st) w w0 /\ step_ok (Qof (hop_cfg c st h)) w0 w') /\
    (r = Ok tt -> hist_ok c st' hs' w')
  end.

Theorem history_ok : forall c hs st w, env_all c w -> good c st -> hist_ok c st hs w.
Proof.
  intros c hs. induction hs as [|h hs IH]; intros st w E G; simpl; auto.
  destruct (run_hop c st h w) as [[r st'] w'] eqn:Eh.
  destruct (hop_ok c st h w r st' w' E G Eh) as (w0 & S0 & S1 & E' & G').
  split; [now exists w0|]. intros Hr. apply IH; auto.
Qed.

Lemma constructor_env_all : forall c w r w',
  env_all c w -> c_tmp c <> [] -> remake c w = (r, w') -> env_all c w'.
Proof.
  intros c w r w' E Hn H.
  assert (Hx : c_tmp c = tmproot c ++ [last (c_tmp c) []]) by (unfold tmproot, dirname; now apply app_removelast_last).
  assert (E1 : env c w).
  { pose proof (env_of_all c w (c_temp c) (c_clean c) (c_fext c) (last (c_tmp c) []) E) as E1.
    destruct E1. constructor; simpl in *; auto. now rewrite Hx. }
  pose proof (remake_effects c w r w' E1 H) as S.
  eapply env_all_step; eauto. intros q Hq HQ.
  apply (root_not_Q c w (c_temp c) (c_clean c) (c_fext c) (last (c_tmp c) []) q E Hq).
  unfold Qof in *. simpl. now rewrite <- Hx.
Qed.

Theorem constructor_history_ok : forall c w p w1 hs,
  env_all c w -> c_tmp c <> [] -> remake c w = (Ok p, w1) -> hist_ok c (born c p) hs w1.
Proof.
  intros c w p w1 hs E Hn H. apply history_ok.
  - eapply constructor_env_all; eauto.
  - eapply born_good; eauto.
Qed.

(* ---- leaving "with openFiler(...)": exactly the temp resources go ---- *)
Theorem exit_spec : forall c st cl w r st' w',
  good c st -> run_hop c st (HExit cl) w = (r, st', w') ->
  st' = st /\
  (* a persistent Filer without clear: nothing is touched *)
  (f_temp st = false -> cl = false -> w' = w /\ r = Ok tt) /\
  (* otherwise only the object's own scope is touched ... *)
  step_ok (scope st) w w' /\
  (* ... and a temp Filer's mkdtemp directory is gone with everything below *)
  (f_temp st = true -> r = Ok tt ->
   forall p, f_path st = Some p -> p <> [] -> isdir (w_fs w) (f_tmp st) = true ->
   forall q, prefix (f_tmp st) q -> q <> [] -> exists_ (w_fs w') q = false) /\
  (* ... a persistent path is gone only when clear was asked for *)
  (f_temp st = false -> cl = true -> r = Ok tt ->
   forall p, f_path st = Some p -> p <> [] -> exists_ (w_fs w') p = false).
Proof.
  intros c st cl w r st' w' G H. simpl in H.
  destruct (f_temp st) eqn:Et; simpl in H.
  - destruct (clear_st c st w) as [r0 w0] eqn:Ec. inversion H; subst; clear H.
    split; auto. split; [discriminate|]. split; [eapply clear_st_step; eauto|]. split; [|discriminate].
    intros _ Hr p Hp Hn Hd q Hq Hqn. unfold clear_st in Ec. rewrite Hp in Ec. subst r.
    destruct (clear_removes _ p w w' Ec Hn) as [_ Hall].
    unfold good in G. rewrite Hp, Et in G. destruct G as [_ Hin].
    simpl in Hall. apply (Hall Et Hin Hd q Hq Hqn).
  - destruct cl.
    + destruct (clear_st c st w) as [r0 w0] eqn:Ec. inversion H; subst; clear H.
      split; auto. split; [discriminate|]. split; [eapply clear_st_step; eauto|]. split; [discriminate|].
      intros _ _ Hr p Hp Hn. unfold clear_st in Ec. rewrite Hp in Ec. subst r.
      destruct (clear_removes _ p w w' Ec Hn) as [Hgone _]. exact Hgone.
    + inversion H; subst. split; auto. split; [auto|]. split; [apply step_refl|]. split; discriminate.
Qed.

(* ---- the FilerDoer layer ---- *)
Definition hop_of (opened : bool) (h : hop2) : option hop :=
  match h with
  | H h' => Some h'
  | HDoerEnter t => if opened then None else Some (enter_hop t)
  | HDoerExit => Some (HExit false)
  end.

Definition hop2_cfg (c : config) (st : filer) (opened : bool) (h : hop2) : config :=
  match hop_of opened h with
  | Some h' => hop_cfg c st h'
  | None => hop_cfg c st (HClose false)
  end.

Theorem hop2_ok : forall c st op h w r st' op' w',
  env_all c w -> good c st -> run_hop2 c st op h w = (r, st', op', w') ->
  exists w0,
    step_ok (scope st) w w0 /\ step_ok (Qof (hop2_cfg c st op h)) w0 w' /\
    env_all c w' /\ (r = Ok tt -> good c st').
Proof.
  intros c st op h w r st' op' w' E G Hr. unfold hop2_cfg.
  destruct h as [h'|t|]; unfold run_hop2 in Hr; cbn [hop_of].
  - destruct (run_hop c st h' w) as [[r1 st1] w1] eqn:Eh. inversion Hr; subst. eapply hop_ok; eauto.
  - destruct op; cbn [hop_of].
    + inversion Hr; subst. exists w'. split; [apply step_refl|split; [apply step_refl|split; auto]].
    + destruct (run_hop c st (enter_hop t) w) as [[r1 st1] w1] eqn:Eh. inversion Hr; subst.
      eapply hop_ok; eauto.
  - destruct (run_hop c st (HExit false) w) as [[r1 st1] w1] eqn:Eh. inversion Hr; subst. eapply hop_ok; eauto.
Qed.

(* entering with an opened Filer changes nothing: not the tree, not .path, not .temp *)
Theorem doer_enter_opened : forall c st t w,
  run_hop2 c st true (HDoerEnter t) w = (Ok tt, st, true, w).
Proof. reflexivity. Qed.

(* the doer's exit is the context-manager exit without a clear request *)
Theorem doer_exit_is_exit : forall c st op w,
  run_hop2 c st op HDoerExit w =
  let '(r, st', w') := run_hop c st (HExit false) w in (r, st', false, w').
Proof. reflexivity. Qed.

Fixpoint hist2_ok (c : config) (st : filer) (op : bool) (hs : list hop2) (w : world) : Prop :=
  match hs with
  | [] => True
  | h :: hs' =>
    let '(r, st', op', w') := run_hop2 c st op h w in
    (exists w0, step_ok (scope st) w w0 /\ step_ok (Qof (hop2_cfg c st op h)) w0 w') /\
    (r = Ok tt -> hist2_ok c st' op' hs' w')
  end.

Theorem history2_ok : forall c hs st op w, env_all c w -> good c st -> hist2_ok c st op hs w.
Proof.
  intros c hs. induction hs as [|h hs IH]; intros st op w E G; simpl; auto.
  destruct (run_hop2 c st op h w) as [[[r st'] op'] w'] eqn:Eh.
  destruct (hop2_ok c st op h w r st' op' w' E G Eh) as (w0 & S0 & S1 & E' & G').
  split; [now exists w0|]. intros Hr. apply IH; auto.
Qed.

Theorem constructor_history2_ok : forall c w p w1 hs,
  env_all c w -> c_tmp c <> [] -> remake c w = (Ok p, w1) -> hist2_ok c (born c p) true hs w1.
Proof.
  intros c w p w1 hs E Hn Hm. apply history2_ok.
  - eapply constructor_env_all; eauto.
  - eapply born_good; eauto.
Qed.

(* the end of an extensioned path that exists but is neither a regular file nor a directory (FIFO, unix
   socket, symbolic link to a directory): a persistent Filer's clear removes exactly that end *)
Theorem clear_ext_other : forall c p w,
  c_ext c = true -> c_temp c = false ->
  exists_ (w_fs w) p = true -> isfile (w_fs w) p = false -> isdir (w_fs w) p = false ->
  clear c p w = (Ok tt, do_remove w p) /\
  (forall q, q <> p -> exists_ (w_fs (do_remove w p)) q = exists_ (w_fs w) q).
Proof.
  intros c p w He Ht Hx Hf Hd. split.
  - unfold clear, clear_end. rewrite Hx, Hf, He, Hd, Ht. reflexivity.
  - intros q Hq. unfold exists_. destruct q as [|s q]; auto. simpl.
    rewrite lookup_filter_keep; auto. intros k. simpl. apply negb_true_iff.
    destruct (path_eqb p (s :: q)) eqn:E; auto. apply path_eqb_eq in E. congruence.
Qed.

(* ---- the working directory: only remake looks at the head; a stored path is cleared the same way wherever the
   process has moved to ---- *)
Lemma clear_ignores_head : forall c h p w, clear (with_head c h) p w = clear c p w.
Proof. reflexivity. Qed.

Theorem close_ignores_cwd : forall c rh cwd1 cwd2 st cl w,
  run_hop (cfg_at c rh cwd1) st (HClose cl) w = run_hop (cfg_at c rh cwd2) st (HClose cl) w /\
  run_hop (cfg_at c rh cwd1) st (HExit cl) w = run_hop (cfg_at c rh cwd2) st (HExit cl) w.
Proof.
  intros. destruct rh as [r|]; simpl; split; reflexivity.
Qed.

(* norm_from is a fold: resolving the head first and appending the rest is the same as resolving everything *)
Lemma norm_from_app : forall a b st, norm_from st (a ++ b) = norm_from (norm_from st a) b.
Proof.
  induction a as [|s a IH]; intros b st; simpl; auto.
  destruct (is_empty s || is_dot s); auto. destruct (is_dotdot s); auto.
Qed.
