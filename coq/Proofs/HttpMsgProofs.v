(* Stability under buffer extension of the HTTP message stage (requests and
   responses), hence fragmentation independence of the message parsers. *)
From Hio Require Import Base.Prelude Model.HttpLine Model.Chunk Model.HttpMsg
  Proofs.HttpLineProofs Proofs.ChunkProofs.
From Coq Require Import ZifyBool.

Lemma msg_shrinks k s b s' b' o :
  msg_stage k s b = Step s' b' o -> length b' < length b.
Proof.
  destruct s as [ph cy]. unfold msg_stage. cbn [m_phase m_carry].
  destruct ph as [ct|h|sl h|hd cs body p|hd n|hd rbody].
  - destruct (line_stage EHttp false b) as [|sk r l|e] eqn:E; try discriminate.
    apply line_shrinks in E.
    destruct (match k with Req => parse_request_line l | Resp _ => parse_status_line l end) as [sl|e];
      try discriminate.
    destruct k as [|hd]; [|destruct (N.eqb (sl_status sl) 100)]; intros H; inversion H; subst; exact E.
  - pose proof (leader_shrinks h b) as Hl.
    destruct (leader_step h b); try discriminate; intros H; inversion H; subst; exact Hl.
  - pose proof (leader_shrinks h b) as Hl.
    destruct (leader_step h b) as [|e|h' r|h' r]; try discriminate.
    + intros H; inversion H; subst; exact Hl.
    + destruct (te_chunked h'); [intros H; inversion H; subst; exact Hl|].
      destruct (head_length k sl h') as [n|].
      * destruct (N.eqb n 0); intros H; inversion H; subst; exact Hl.
      * destruct k; [discriminate|]. intros H; inversion H; subst; exact Hl.
  - destruct (chunk_stage cs b) as [|cs' r o'|e] eqn:E; try discriminate.
    apply chunk_shrinks in E.
    destruct o' as [ch|]; [destruct (N.eqb (k_size ch) 0)|]; intros H; inversion H; subst; exact E.
  - destruct (N.ltb (lenN b) n) eqn:E; [discriminate|].
    destruct (N.eqb n 0) eqn:E0; [discriminate|]. cbn [orb].
    intros H; inversion H; subst.
    rewrite skipn_length. apply N.ltb_ge in E. apply N.eqb_neq in E0. unfold lenN in E. lia.
  - destruct b as [|x b0]; [discriminate|]. intros H; inversion H; subst. cbn. lia.
Qed.

Lemma msg_stable_step k s b s' b' o c :
  msg_stage k s b = Step s' b' o -> msg_stage k s (b ++ c) = Step s' (b' ++ c) o.
Proof.
  destruct s as [ph cy]. unfold msg_stage. cbn [m_phase m_carry].
  destruct ph as [ct|h|sl h|hd cs body p|hd n|hd rbody].
  - destruct (line_stage EHttp false b) as [|sk r l|e] eqn:E; try discriminate.
    rewrite (line_stable_step _ _ _ _ _ _ c E).
    destruct (match k with Req => parse_request_line l | Resp _ => parse_status_line l end) as [sl|e];
      try discriminate.
    destruct k as [|hd]; [|destruct (N.eqb (sl_status sl) 100)]; intros H; inversion H; subst; reflexivity.
  - rewrite (leader_stable h b c).
    destruct (leader_step h b); try discriminate; intros H; inversion H; subst; reflexivity.
  - rewrite (leader_stable h b c).
    destruct (leader_step h b) as [|e|h' r|h' r]; try discriminate.
    + intros H; inversion H; subst; reflexivity.
    + destruct (te_chunked h'); [intros H; inversion H; subst; reflexivity|].
      destruct (head_length k sl h') as [n|].
      * destruct (N.eqb n 0); intros H; inversion H; subst; reflexivity.
      * destruct k; [discriminate|]. intros H; inversion H; subst; reflexivity.
  - destruct (chunk_stage cs b) as [|cs' r o'|e] eqn:E; try discriminate.
    rewrite (chunk_stable_step _ _ _ _ _ c E).
    destruct o' as [ch|]; [destruct (N.eqb (k_size ch) 0)|]; intros H; inversion H; subst; reflexivity.
  - destruct (N.ltb (lenN b) n) eqn:E; [discriminate|].
    destruct (N.eqb n 0) eqn:E0; [discriminate|]. cbn [orb].
    intros H; inversion H; subst.
    apply N.ltb_ge in E. unfold lenN in E.
    assert (Hle : N.to_nat n <= length b) by lia.
    assert (E2 : N.ltb (lenN (b ++ c)) n = false)
      by (apply N.ltb_ge; unfold lenN; rewrite app_length; lia).
    rewrite E2. cbn [orb].
    rewrite (firstn_app_le _ _ _ Hle), (skipn_app_le _ _ _ Hle). reflexivity.
  - destruct b as [|x b0]; [discriminate|]. intros H; inversion H; subst. reflexivity.
Qed.

Lemma msg_stable_fail k s b e c :
  msg_stage k s b = Fail e -> msg_stage k s (b ++ c) = Fail e.
Proof.
  destruct s as [ph cy]. unfold msg_stage. cbn [m_phase m_carry].
  destruct ph as [ct|h|sl h|hd cs body p|hd n|hd rbody].
  - destruct (line_stage EHttp false b) as [|sk r l|e'] eqn:E; try discriminate.
    + rewrite (line_stable_step _ _ _ _ _ _ c E).
      destruct (match k with Req => parse_request_line l | Resp _ => parse_status_line l end) as [sl|e'];
        [|auto].
      destruct k as [|hd]; [|destruct (N.eqb (sl_status sl) 100)]; discriminate.
    + rewrite (line_stable_fail _ _ _ _ c E). auto.
  - rewrite (leader_stable h b c).
    destruct (leader_step h b); try discriminate; auto.
  - rewrite (leader_stable h b c).
    destruct (leader_step h b) as [|e'|h' r|h' r]; try discriminate; auto.
    destruct (te_chunked h'); [discriminate|].
    destruct (head_length k sl h') as [n|].
    + destruct (N.eqb n 0); discriminate.
    + destruct k; [auto|discriminate].
  - destruct (chunk_stage cs b) as [|cs' r o'|e'] eqn:E; try discriminate.
    + destruct o' as [ch|]; [destruct (N.eqb (k_size ch) 0)|]; discriminate.
    + rewrite (chunk_stable_fail _ _ _ c E). auto.
  - destruct (N.ltb (lenN b) n || N.eqb n 0); discriminate.
  - destruct b; discriminate.
Qed.

Lemma msg_init_stuck k : stuck (msg_stage k) init_state.
Proof. destruct k; reflexivity. Qed.

(* Fragmentation independence of the message parser: every split of the byte
   stream into reads leaves the parser in the same state (phase, partial head,
   body so far, buffer, error) with the same completed messages. *)
Theorem msg_feeds_concat k reads :
  feeds (msg_stage k) init_state reads = feed (msg_stage k) init_state (concat reads).
Proof.
  apply feeds_concat.
  - exact (msg_shrinks k).
  - exact (msg_stable_step k).
  - exact (msg_stable_fail k).
  - exact (msg_init_stuck k).
Qed.

Theorem run_case_concat k reads close :
  run_case k reads close = run_case k [concat reads] close.
Proof.
  unfold run_case. rewrite (msg_feeds_concat k reads), (msg_feeds_concat k [concat reads]).
  cbn [concat]. rewrite app_nil_r. reflexivity.
Qed.

Theorem run_case_partition k reads1 reads2 close :
  concat reads1 = concat reads2 -> run_case k reads1 close = run_case k reads2 close.
Proof. intros E. rewrite (run_case_concat k reads1), (run_case_concat k reads2), E. reflexivity. Qed.

(* from any stuck parser state (e.g. in the middle of a pipelined sequence) *)
Theorem msg_feeds_concat_from k p reads :
  stuck (msg_stage k) p ->
  feeds (msg_stage k) p reads = feed (msg_stage k) p (concat reads).
Proof.
  apply feeds_concat.
  - exact (msg_shrinks k).
  - exact (msg_stable_step k).
  - exact (msg_stable_fail k).
Qed.
