(* Proofs about Model/TcpSock.v: every socket ever opened for a server is
   either closed or still held in .ss/.axes/.cxes/.ixes (an invariant of every
   event), Server.close leaves nothing held, hence opened ⊆ closed after close;
   a client's open sockets are exactly its .cs. *)
From Hio Require Import Base.Prelude Model.TcpSock.

(* ---------- ordered maps ---------- *)
Lemma ids_cons k c m : ids ((k, c) :: m) = opt_list (c_id c) ++ ids m.
Proof. reflexivity. Qed.

Lemma in_ids_oget_or_rest m k i :
  In i (ids m) -> In i (ids (odel m k)) \/ (exists c, oget m k = Some c /\ c_id c = Some i).
Proof.
  induction m as [|[k' v] m IH]; simpl; [tauto|].
  intros H. apply in_app_or in H. destruct (N.eqb k k') eqn:E.
  - destruct H as [H|H]; [right|left; exact H].
    exists v. split; [reflexivity|]. destruct (c_id v); simpl in H; [destruct H as [->|[]]; reflexivity|destruct H].
  - destruct H as [H|H].
    + left. rewrite ids_cons. apply in_or_app. now left.
    + destruct (IH H) as [H1|H1]; [left|right; exact H1].
      rewrite ids_cons. apply in_or_app. now right.
Qed.

Lemma in_ids_odel m k i : In i (ids (odel m k)) -> In i (ids m).
Proof.
  induction m as [|[k' v] m IH]; simpl; [tauto|].
  destruct (N.eqb k k').
  - intros H. apply in_or_app. now right.
  - rewrite ids_cons. intros H. apply in_app_or in H. apply in_or_app. destruct H; [now left|right; auto].
Qed.

Lemma in_ids_oupd m k v i :
  In i (ids (oupd m k v)) -> In i (ids m) \/ c_id v = Some i.
Proof.
  induction m as [|[k' v'] m IH]; simpl.
  - rewrite app_nil_r. destruct (c_id v); simpl; [intros [->|[]]; now right|tauto].
  - destruct (N.eqb k k').
    + rewrite ids_cons. intros H. apply in_app_or in H. destruct H as [H|H].
      * right. destruct (c_id v); simpl in H; [destruct H as [->|[]]; reflexivity|destruct H].
      * left. apply in_or_app. now right.
    + rewrite ids_cons. intros H. apply in_app_or in H. destruct H as [H|H].
      * left. apply in_or_app. now left.
      * destruct (IH H); [left|now right]. apply in_or_app. now right.
Qed.

Lemma in_ids_oupd_keep m k v i :
  In i (ids m) -> In i (ids (oupd m k v)) \/ (exists c, oget m k = Some c /\ c_id c = Some i).
Proof.
  induction m as [|[k' v'] m IH]; simpl; [tauto|].
  intros H. apply in_app_or in H. destruct (N.eqb k k') eqn:E.
  - destruct H as [H|H].
    + right. exists v'. split; [reflexivity|].
      destruct (c_id v'); simpl in H; [destruct H as [->|[]]; reflexivity|destruct H].
    + left. rewrite ids_cons. apply in_or_app. now right.
  - destruct H as [H|H].
    + left. rewrite ids_cons. apply in_or_app. now left.
    + destruct (IH H) as [H1|H1]; [left|now right]. rewrite ids_cons. apply in_or_app. now right.
Qed.

Lemma in_ids_oupd_new m k v i : c_id v = Some i -> In i (ids (oupd m k v)).
Proof.
  intros Hv. induction m as [|[k' v'] m IH]; simpl.
  - rewrite Hv. now left.
  - destruct (N.eqb k k'); rewrite ids_cons; apply in_or_app.
    + left. rewrite Hv. now left.
    + now right.
Qed.

Lemma ids_close_all m : ids (close_all m) = [].
Proof. induction m as [|[k v] m IH]; simpl; [reflexivity|exact IH]. Qed.

Lemma oget_in_ids m k c i : oget m k = Some c -> c_id c = Some i -> In i (ids m).
Proof.
  induction m as [|[k' v] m IH]; simpl; [discriminate|].
  destruct (N.eqb k k').
  - intros [= ->] Hc. apply in_or_app. left. rewrite Hc. now left.
  - intros H Hc. apply in_or_app. right. eauto.
Qed.

(* ---------- accounting ---------- *)
Definition held (s : server) : list N :=
  opt_list (ss s) ++ map axe_id (axes s) ++ ids (cxes s) ++ ids (ixes s).
Definition acct (s : server) (i : N) : Prop := In i (closed s) \/ In i (held s).
Definition Inv (s : server) : Prop := forall i, In i (opened s) -> acct s i.
Definition ok_step (s s' : server) : Prop :=
  (forall i, acct s i -> acct s' i) /\
  (forall i, In i (opened s') -> In i (opened s) \/ acct s' i).

Lemma ok_refl s : ok_step s s.
Proof. split; auto. Qed.
Lemma ok_trans s1 s2 s3 : ok_step s1 s2 -> ok_step s2 s3 -> ok_step s1 s3.
Proof.
  intros [A1 B1] [A2 B2]. split; [auto|].
  intros i H. destruct (B2 i H) as [H2|H2]; [|now right].
  destruct (B1 i H2) as [H1|H1]; [now left|right; auto].
Qed.
Lemma ok_inv s s' : ok_step s s' -> Inv s -> Inv s'.
Proof. intros [A B] I i H. destruct (B i H) as [H1|H1]; auto. Qed.

Lemma held_in s i :
  In i (held s) <->
  In i (opt_list (ss s)) \/ In i (map axe_id (axes s)) \/ In i (ids (cxes s)) \/ In i (ids (ixes s)).
Proof. unfold held. rewrite !in_app_iff. tauto. Qed.

(* the workhorse: same opened, closed only grows, everything held before is held or closed after *)
Lemma ok_same_opened s s' :
  opened s' = opened s ->
  (forall i, In i (closed s) -> In i (closed s')) ->
  (forall i, In i (held s) -> In i (held s') \/ In i (closed s')) ->
  ok_step s s'.
Proof.
  intros Ho Hc Hh. split.
  - intros i [H|H]; [left; auto|]. destruct (Hh i H); [now right|now left].
  - intros i H. left. now rewrite <- Ho.
Qed.

Ltac heldsimp := rewrite ?held_in in *; cbn [ss axes cxes ixes closed opened nxt set_ss set_axes set_cxes set_ixes add_closed alloc] in *.

Lemma ok_add_closed s l : ok_step s (add_closed s l).
Proof.
  apply ok_same_opened; [reflexivity| |].
  - intros i H. cbn. apply in_or_app. now left.
  - intros i H. left. exact H.
Qed.

Lemma ok_acceptor_close s : ok_step s (acceptor_close s).
Proof.
  unfold acceptor_close. apply ok_same_opened; [reflexivity| |].
  - intros i H. cbn. rewrite !in_app_iff. tauto.
  - intros i H. heldsimp. rewrite !in_app_iff.
    destruct H as [H|[H|[H|H]]]; tauto.
Qed.

Lemma ok_close_all_ix s : ok_step s (close_all_ix s).
Proof.
  unfold close_all_ix. apply ok_same_opened; [reflexivity| |].
  - intros i H. cbn. rewrite in_app_iff. tauto.
  - intros i H. heldsimp. rewrite in_app_iff. tauto.
Qed.

Lemma ok_server_close tls s : ok_step s (server_close tls s).
Proof.
  unfold server_close.
  eapply ok_trans; [apply ok_acceptor_close|].
  eapply ok_trans; [apply ok_close_all_ix|].
  destruct tls; [|apply ok_refl].
  apply ok_same_opened; [reflexivity| |].
  - intros i H. cbn in *. rewrite in_app_iff. tauto.
  - intros i H. heldsimp. cbn [ids flat_map]. rewrite in_app_iff. tauto.
Qed.

Lemma held_server_close tls s : held (server_close tls s) = [].
Proof.
  unfold server_close, held. destruct tls; cbn.
  - rewrite ids_close_all. reflexivity.
  - rewrite ids_close_all, app_nil_r.
    (* plain servers never put anything into cxes; but the statement must hold for every state *)
Abort.

(* a plain server has no .cxes attribute: the model keeps the field empty *)
Definition plain_ok (tls : bool) (s : server) : Prop := tls = false -> cxes s = [].

Lemma held_server_close tls s : plain_ok tls s -> held (server_close tls s) = [].
Proof.
  intros P. unfold server_close, held. destruct tls; cbn.
  - rewrite ids_close_all. reflexivity.
  - rewrite ids_close_all, (P eq_refl). reflexivity.
Qed.

Lemma ss_server_close tls s : ss (server_close tls s) = None.
Proof. unfold server_close. destruct tls; reflexivity. Qed.

Lemma cxes_server_close tls s : cxes (server_close tls s) = if tls then [] else cxes s.
Proof. unfold server_close. destruct tls; reflexivity. Qed.

Lemma ok_alloc_ss s : ss s = None -> ok_step s (set_ss (alloc s) (Some (nxt s))).
Proof.
  intros Hs. split.
  - intros i [H|H]; [left; exact H|right]. heldsimp. rewrite Hs in H. simpl in *. tauto.
  - intros i H. cbn in H. apply in_app_or in H. destruct H as [H|[<-|[]]]; [now left|].
    right. right. heldsimp. left. now left.
Qed.

Lemma ok_server_open tls s b : ss s = None -> ok_step s (fst (server_open tls s b)).
Proof.
  intros Hs. unfold server_open. destruct b; cbn [fst].
  - eapply ok_trans; [apply ok_alloc_ss, Hs|apply ok_server_close].
  - apply ok_alloc_ss, Hs.
Qed.

Lemma ok_accept_one s ca bad h :
  ok_step s (set_axes (alloc s) (axes s ++ [(ca, bad, nxt s, h)])).
Proof.
  split.
  - intros i [H|H]; [left; exact H|right]. heldsimp. rewrite map_app, in_app_iff. tauto.
  - intros i H. cbn in H. apply in_app_or in H. destruct H as [H|[<-|[]]]; [now left|].
    right. right. heldsimp. rewrite map_app, in_app_iff. right. left. right. now left.
Qed.

Lemma ok_accept_all conns : forall s, ok_step s (accept_all s conns).
Proof.
  induction conns as [|[[ca bad] h] conns IH]; intros s; simpl; [apply ok_refl|].
  eapply ok_trans; [apply ok_accept_one|apply IH].
Qed.

Lemma ok_close_ix_if s ca : ok_step s (close_ix_if s ca).
Proof.
  unfold close_ix_if. destruct (oget (ixes s) ca) as [c|] eqn:E; [|apply ok_refl].
  apply ok_same_opened; [reflexivity| |].
  - intros i H. cbn. rewrite in_app_iff. tauto.
  - intros i H. heldsimp. rewrite in_app_iff.
    destruct H as [H|[H|[H|H]]]; try tauto.
    destruct (in_ids_oupd_keep _ ca (close_conn c) _ H) as [H1|[c' [H1 H2]]]; [tauto|].
    rewrite E in H1. injection H1 as <-. rewrite H2. right. right. now left.
Qed.

Lemma ok_close_cx_if s ca : ok_step s (close_cx_if s ca).
Proof.
  unfold close_cx_if. destruct (oget (cxes s) ca) as [c|] eqn:E; [|apply ok_refl].
  apply ok_same_opened; [reflexivity| |].
  - intros i H. cbn. rewrite in_app_iff. tauto.
  - intros i H. heldsimp. rewrite in_app_iff.
    destruct H as [H|[H|[H|H]]]; try tauto.
    destruct (in_ids_oupd_keep _ ca (close_conn c) _ H) as [H1|[c' [H1 H2]]]; [tauto|].
    rewrite E in H1. injection H1 as <-. rewrite H2. right. right. now left.
Qed.

Lemma oget_oupd_same m k v : oget (oupd m k v) k = Some v.
Proof.
  induction m as [|[k' v'] m IH]; simpl.
  - now rewrite N.eqb_refl.
  - destruct (N.eqb k k') eqn:E; simpl; [now rewrite N.eqb_refl|now rewrite E].
Qed.

Lemma closed_ix_after_close_if s ca c :
  oget (ixes (close_ix_if s ca)) ca = Some c -> c_id c = None.
Proof.
  unfold close_ix_if. destruct (oget (ixes s) ca) as [c0|] eqn:E.
  - cbn. rewrite oget_oupd_same. intros [= <-]. reflexivity.
  - rewrite E. discriminate.
Qed.
Lemma closed_cx_after_close_if s ca c :
  oget (cxes (close_cx_if s ca)) ca = Some c -> c_id c = None.
Proof.
  unfold close_cx_if. destruct (oget (cxes s) ca) as [c0|] eqn:E.
  - cbn. rewrite oget_oupd_same. intros [= <-]. reflexivity.
  - rewrite E. discriminate.
Qed.

(* move the head of .axes into .ixes / .cxes over an absent or already closed entry *)
Lemma ok_move_ix s ca i h l' c :
  axes s = (ca, AOk, i, h) :: l' -> c_id c = Some i ->
  (forall c0, oget (ixes s) ca = Some c0 -> c_id c0 = None) ->
  ok_step s (set_ixes (set_axes s l') (oupd (ixes s) ca c)).
Proof.
  intros Ha Hc Hold. apply ok_same_opened; [reflexivity|auto|].
  intros j H. left. heldsimp. rewrite Ha in H. cbn [map axe_id fst snd] in H.
  destruct H as [H|[[<-|H]|[H|H]]]; try tauto.
  - right. right. right. now apply in_ids_oupd_new.
  - destruct (in_ids_oupd_keep _ ca c _ H) as [H1|[c' [H1 H2]]]; [tauto|].
    rewrite (Hold _ H1) in H2. discriminate.
Qed.
Lemma ok_move_cx s ca i h l' c :
  axes s = (ca, AOk, i, h) :: l' -> c_id c = Some i ->
  (forall c0, oget (cxes s) ca = Some c0 -> c_id c0 = None) ->
  ok_step s (set_cxes (set_axes s l') (oupd (cxes s) ca c)).
Proof.
  intros Ha Hc Hold. apply ok_same_opened; [reflexivity|auto|].
  intros j H. left. heldsimp. rewrite Ha in H. cbn [map axe_id fst snd] in H.
  destruct H as [H|[[<-|H]|[H|H]]]; try tauto.
  - right. right. left. now apply in_ids_oupd_new.
  - destruct (in_ids_oupd_keep _ ca c _ H) as [H1|[c' [H1 H2]]]; [tauto|].
    rewrite (Hold _ H1) in H2. discriminate.
Qed.

Lemma close_ix_if_set_axes s l ca : close_ix_if (set_axes s l) ca = set_axes (close_ix_if s ca) l.
Proof. unfold close_ix_if. cbn [ixes set_axes]. destruct (oget (ixes s) ca); reflexivity. Qed.
Lemma close_cx_if_set_axes s l ca : close_cx_if (set_axes s l) ca = set_axes (close_cx_if s ca) l.
Proof. unfold close_cx_if. cbn [cxes set_axes]. destruct (oget (cxes s) ca); reflexivity. Qed.
Lemma axes_close_ix_if s ca : axes (close_ix_if s ca) = axes s.
Proof. unfold close_ix_if. destruct (oget (ixes s) ca); reflexivity. Qed.
Lemma axes_close_cx_if s ca : axes (close_cx_if s ca) = axes s.
Proof. unfold close_cx_if. destruct (oget (cxes s) ca); reflexivity. Qed.

(* one serviceAxes iteration: the popped entry goes to ixes/cxes or is closed *)
Lemma ok_axes_body tls s e l' :
  axes s = e :: l' -> ok_step s (fst (axes_body tls (set_axes s l') e)).
Proof.
  intros Ha. destruct e as [[[ca bad] i] h]. unfold axes_body.
  assert (Hdrop : ok_step s (add_closed (set_axes s l') [i])).
  { apply ok_same_opened; [reflexivity| |].
    + intros j H. cbn. rewrite in_app_iff. tauto.
    + intros j H. heldsimp. rewrite Ha in H. cbn in H. rewrite in_app_iff. cbn. tauto. }
  destruct bad; cbn [fst]; try exact Hdrop.
  - destruct tls; cbn [fst].
    + rewrite close_cx_if_set_axes. cbn [cxes set_axes].
      eapply ok_trans; [apply (ok_close_cx_if s ca)|].
      apply (ok_move_cx (close_cx_if s ca) ca i h l'); [now rewrite axes_close_cx_if|reflexivity|].
      apply closed_cx_after_close_if.
    + rewrite close_ix_if_set_axes. cbn [ixes set_axes].
      eapply ok_trans; [apply (ok_close_ix_if s ca)|].
      apply (ok_move_ix (close_ix_if s ca) ca i h l'); [now rewrite axes_close_ix_if|reflexivity|].
      apply closed_ix_after_close_if.
Qed.

Lemma ok_axes_loop tls fuel : forall s, ok_step s (fst (axes_loop tls fuel s)).
Proof.
  induction fuel as [|f IH]; intros s; simpl; [apply ok_refl|].
  destruct (axes s) as [|e l'] eqn:Ha; [apply ok_refl|].
  pose proof (ok_axes_body tls s e l' Ha) as Hb.
  destruct (axes_body tls (set_axes s l') e) as [s1 [k|]]; cbn [fst] in *; [exact Hb|].
  eapply ok_trans; [exact Hb|apply IH].
Qed.

Lemma ok_svc_accepts s conns : ok_step s (fst (svc_accepts s conns)).
Proof. unfold svc_accepts. destruct (ss s); cbn [fst]; [apply ok_accept_all|apply ok_refl]. Qed.

Lemma ok_svc_axes tls s conns : ok_step s (fst (svc_axes tls s conns)).
Proof.
  unfold svc_axes. pose proof (ok_svc_accepts s conns) as H.
  destruct (svc_accepts s conns) as [s1 [r|k]]; cbn [fst] in *; [|exact H].
  eapply ok_trans; [exact H|apply ok_axes_loop].
Qed.

(* ---------- serviceCxes ---------- *)
Lemma ok_upd_same_id_cx s ca c c' :
  oget (cxes s) ca = Some c -> c_id c' = c_id c -> ok_step s (set_cxes s (oupd (cxes s) ca c')).
Proof.
  intros Hg Hid. apply ok_same_opened; [reflexivity|auto|].
  intros j H. left. heldsimp. destruct H as [H|[H|[H|H]]]; try tauto.
  destruct (in_ids_oupd_keep _ ca c' _ H) as [H1|[c0 [H1 H2]]]; [tauto|].
  rewrite Hg in H1. injection H1 as <-. right. right. left.
  apply in_ids_oupd_new. congruence.
Qed.
Lemma ok_upd_same_id_ix s ca c c' :
  oget (ixes s) ca = Some c -> c_id c' = c_id c -> ok_step s (set_ixes s (oupd (ixes s) ca c')).
Proof.
  intros Hg Hid. apply ok_same_opened; [reflexivity|auto|].
  intros j H. left. heldsimp. destruct H as [H|[H|[H|H]]]; try tauto.
  destruct (in_ids_oupd_keep _ ca c' _ H) as [H1|[c0 [H1 H2]]]; [tauto|].
  rewrite Hg in H1. injection H1 as <-. right. right. right.
  apply in_ids_oupd_new. congruence.
Qed.

(* delete an entry and close its socket *)
Lemma ok_del_close_cx s ca c :
  oget (cxes s) ca = Some c -> ok_step s (add_closed (set_cxes s (odel (cxes s) ca)) (opt_list (c_id c))).
Proof.
  intros Hg. apply ok_same_opened; [reflexivity| |].
  - intros j H. cbn. rewrite in_app_iff. tauto.
  - intros j H. heldsimp. rewrite in_app_iff. destruct H as [H|[H|[H|H]]]; try tauto.
    destruct (in_ids_oget_or_rest _ ca _ H) as [H1|[c0 [H1 H2]]]; [tauto|].
    rewrite Hg in H1. injection H1 as <-. rewrite H2. right. right. now left.
Qed.
Lemma ok_del_close_ix s ca c :
  oget (ixes s) ca = Some c -> ok_step s (add_closed (set_ixes s (odel (ixes s) ca)) (opt_list (c_id c))).
Proof.
  intros Hg. apply ok_same_opened; [reflexivity| |].
  - intros j H. cbn. rewrite in_app_iff. tauto.
  - intros j H. heldsimp. rewrite in_app_iff. destruct H as [H|[H|[H|H]]]; try tauto.
    destruct (in_ids_oget_or_rest _ ca _ H) as [H1|[c0 [H1 H2]]]; [tauto|].
    rewrite Hg in H1. injection H1 as <-. rewrite H2. right. right. now left.
Qed.

(* handshake completed: the connection moves from .cxes to .ixes over a closed or absent entry *)
Lemma ok_promote s ca c i c' :
  oget (cxes s) ca = Some c -> c_id c = Some i -> c_id c' = Some i ->
  (forall c0, oget (ixes s) ca = Some c0 -> c_id c0 = None) ->
  ok_step s (set_ixes (set_cxes s (odel (cxes s) ca)) (oupd (ixes s) ca c')).
Proof.
  intros Hg Hc Hc' Hold. apply ok_same_opened; [reflexivity|auto|].
  intros j H. left. heldsimp. destruct H as [H|[H|[H|H]]]; try tauto.
  - destruct (in_ids_oget_or_rest _ ca _ H) as [H1|[c0 [H1 H2]]]; [tauto|].
    rewrite Hg in H1. injection H1 as <-. right. right. right.
    apply in_ids_oupd_new. congruence.
  - destruct (in_ids_oupd_keep _ ca c' _ H) as [H1|[c0 [H1 H2]]]; [tauto|].
    rewrite (Hold _ H1) in H2. discriminate.
Qed.

Lemma close_ix_if_set_cxes s m ca : close_ix_if (set_cxes s m) ca = set_cxes (close_ix_if s ca) m.
Proof. unfold close_ix_if. cbn [ixes set_cxes]. destruct (oget (ixes s) ca); reflexivity. Qed.
Lemma cxes_close_ix_if s ca : cxes (close_ix_if s ca) = cxes s.
Proof. unfold close_ix_if. destruct (oget (ixes s) ca); reflexivity. Qed.

Lemma ok_cxes_body s ca c : oget (cxes s) ca = Some c -> ok_step s (fst (cxes_body s ca c)).
Proof.
  intros Hg. unfold cxes_body. destruct (c_id c) as [i|] eqn:Hi; [|apply ok_refl].
  destruct (c_hs c) as [|o h]; [apply ok_refl|].
  assert (Hdel : ok_step s (add_closed (set_cxes s (odel (cxes s) ca)) [i])).
  { pose proof (ok_del_close_cx s ca c Hg) as H. rewrite Hi in H. exact H. }
  assert (Hwant : ok_step s (set_cxes s (oupd (cxes s) ca {| c_id := Some i; c_cut := c_cut c; c_hs := h |}))).
  { eapply ok_upd_same_id_cx; [exact Hg|]. now rewrite Hi. }
  destruct o; cbn [fst]; try exact Hdel; try exact Hwant.
  - rewrite close_ix_if_set_cxes. cbn [ixes set_cxes set_ixes].
    eapply ok_trans; [apply (ok_close_ix_if s ca)|].
    replace (set_ixes (set_cxes (close_ix_if s ca) (odel (cxes s) ca)) _)
      with (set_ixes (set_cxes (close_ix_if s ca) (odel (cxes (close_ix_if s ca)) ca))
                     (oupd (ixes (close_ix_if s ca)) ca {| c_id := Some i; c_cut := c_cut c; c_hs := h |})).
    2:{ rewrite cxes_close_ix_if. unfold close_ix_if. destruct (oget (ixes s) ca); reflexivity. }
    eapply ok_promote; [rewrite cxes_close_ix_if; exact Hg|exact Hi|reflexivity|].
    apply closed_ix_after_close_if.
  - (* unexpected exception: closed, stays in cxes *)
    apply ok_same_opened; [reflexivity| |].
    + intros j H. cbn. rewrite in_app_iff. tauto.
    + intros j H. heldsimp. rewrite in_app_iff. destruct H as [H|[H|[H|H]]]; try tauto.
      destruct (in_ids_oupd_keep _ ca {| c_id := None; c_cut := c_cut c; c_hs := h |} _ H) as [H1|[c0 [H1 H2]]];
        [tauto|].
      rewrite Hg in H1. injection H1 as <-. rewrite Hi in H2. injection H2 as <-. right. right. now left.
Qed.

Lemma ok_cxes_loop ks : forall s, ok_step s (fst (cxes_loop s ks)).
Proof.
  induction ks as [|ca ks IH]; intros s; simpl; [apply ok_refl|].
  destruct (oget (cxes s) ca) as [c|] eqn:Hg; [|apply IH].
  pose proof (ok_cxes_body s ca c Hg) as Hb.
  destruct (cxes_body s ca c) as [s1 [k|]]; cbn [fst] in *; [exact Hb|].
  eapply ok_trans; [exact Hb|apply IH].
Qed.

Lemma ok_svc_cxes tls s : ok_step s (fst (svc_cxes tls s)).
Proof. unfold svc_cxes. destruct tls; [apply ok_cxes_loop|apply ok_refl]. Qed.

Lemma ok_svc_connects tls s conns : ok_step s (fst (svc_connects tls s conns)).
Proof.
  unfold svc_connects. pose proof (ok_svc_axes tls s conns) as H.
  destruct (svc_axes tls s conns) as [s1 [r|k]]; cbn [fst] in *; [|exact H].
  eapply ok_trans; [exact H|apply ok_svc_cxes].
Qed.

(* ---------- receives, removeIx, closeIx ---------- *)
Lemma ok_recv_body s k c t o : oget (ixes s) k = Some c -> ok_step s (fst (recv_body s k c t o)).
Proof.
  intros Hg. unfold recv_body. destruct (c_cut c); [apply ok_refl|].
  destruct (c_id c) as [i|] eqn:Hi; [|apply ok_refl].
  destruct (N.eqb k t); [|apply ok_refl].
  destruct o; cbn [fst]; try apply ok_refl.
  - eapply ok_upd_same_id_ix; [exact Hg|]. now rewrite Hi.
  - eapply ok_upd_same_id_ix; [exact Hg|]. now rewrite Hi.
  - pose proof (ok_del_close_ix s k c Hg) as H. rewrite Hi in H. exact H.
Qed.

Lemma ok_recv_loop t o ks : forall s, ok_step s (fst (recv_loop s t o ks)).
Proof.
  induction ks as [|k ks IH]; intros s; simpl; [apply ok_refl|].
  destruct (oget (ixes s) k) as [c|] eqn:Hg; [|apply IH].
  pose proof (ok_recv_body s k c t o Hg) as Hb.
  destruct (recv_body s k c t o) as [s1 [e|]]; cbn [fst] in *; [exact Hb|].
  eapply ok_trans; [exact Hb|apply IH].
Qed.

Lemma ok_remove_ix s ca : ok_step s (fst (remove_ix s ca)).
Proof.
  unfold remove_ix. destruct (oget (ixes s) ca) as [c|] eqn:Hg; cbn [fst]; [|apply ok_refl].
  now apply ok_del_close_ix.
Qed.
Lemma ok_close_ix s ca : ok_step s (fst (close_ix s ca)).
Proof.
  unfold close_ix. destruct (oget (ixes s) ca); cbn [fst]; [apply ok_close_ix_if|apply ok_refl].
Qed.

Lemma ok_server_reopen tls s b : ok_step s (fst (server_reopen tls s b)).
Proof.
  unfold server_reopen. eapply ok_trans; [apply ok_server_close|].
  apply ok_server_open. apply ss_server_close.
Qed.

Theorem ok_sstep tls s e : ok_step s (fst (sstep tls s e)).
Proof.
  destruct e; cbn [sstep].
  - apply ok_server_reopen.
  - apply ok_svc_accepts.
  - apply ok_svc_axes.
  - apply ok_svc_cxes.
  - apply ok_svc_connects.
  - apply ok_recv_loop.
  - apply ok_remove_ix.
  - apply ok_close_ix.
  - apply ok_server_close.
Qed.

Lemma inv_init : Inv init.
Proof. intros i []. Qed.

Lemma inv_srun tls evs : forall s, Inv s -> Inv (srun tls s evs).
Proof.
  induction evs as [|e evs IH]; intros s I; simpl; [exact I|].
  apply IH. eapply ok_inv; [apply ok_sstep|exact I].
Qed.

(* ---------- a plain server keeps .cxes empty ---------- *)
Lemma cxes_accept_all conns : forall s, cxes (accept_all s conns) = cxes s.
Proof. induction conns as [|[[ca bad] h] conns IH]; intros s; simpl; [reflexivity|now rewrite IH]. Qed.
Lemma cxes_axes_loop_plain fuel : forall s, cxes (fst (axes_loop false fuel s)) = cxes s.
Proof.
  induction fuel as [|f IH]; intros s; simpl; [reflexivity|].
  destruct (axes s) as [|[[[ca bad] i] h] l']; [reflexivity|].
  unfold axes_body. destruct bad; cbn [fst]; try reflexivity.
  - rewrite IH. cbn [cxes set_ixes]. now rewrite cxes_close_ix_if.
  - rewrite IH. reflexivity.
Qed.
Lemma cxes_recv_loop t o ks : forall s, cxes (fst (recv_loop s t o ks)) = cxes s.
Proof.
  induction ks as [|k ks IH]; intros s; simpl; [reflexivity|].
  destruct (oget (ixes s) k) as [c|]; [|apply IH].
  unfold recv_body. destruct (c_cut c); [apply IH|].
  destruct (c_id c); [|reflexivity].
  destruct (N.eqb k t); [|apply IH].
  destruct o; cbn [fst]; rewrite ?IH; reflexivity.
Qed.
Lemma cxes_sstep_plain s e : cxes (fst (sstep false s e)) = cxes s.
Proof.
  destruct e; cbn [sstep].
  - unfold server_reopen, server_open. destruct bindfail; reflexivity.
  - unfold svc_accepts. destruct (ss s); cbn [fst]; [apply cxes_accept_all|reflexivity].
  - unfold svc_axes, svc_accepts. destruct (ss s); cbn [fst]; [|reflexivity].
    rewrite cxes_axes_loop_plain. apply cxes_accept_all.
  - reflexivity.
  - unfold svc_connects, svc_axes, svc_accepts. destruct (ss s); cbn [fst]; [|reflexivity].
    pose proof (cxes_axes_loop_plain (length (axes (accept_all s conns))) (accept_all s conns)) as H.
    destruct (axes_loop false (length (axes (accept_all s conns))) (accept_all s conns)) as [s1 [r|k]];
      cbn [fst svc_cxes] in *; rewrite H; apply cxes_accept_all.
  - apply cxes_recv_loop.
  - unfold remove_ix. destruct (oget (ixes s) ca); reflexivity.
  - unfold close_ix. destruct (oget (ixes s) ca); cbn [fst]; [apply cxes_close_ix_if|reflexivity].
  - reflexivity.
Qed.
Lemma plain_srun tls evs : forall s, plain_ok tls s -> plain_ok tls (srun tls s evs).
Proof.
  induction evs as [|e evs IH]; intros s P; simpl; [exact P|].
  apply IH. intros ->. rewrite cxes_sstep_plain. now apply P.
Qed.

Lemma srun_app tls evs1 evs2 s : srun tls s (evs1 ++ evs2) = srun tls (srun tls s evs1) evs2.
Proof. revert s. induction evs1 as [|e evs1 IH]; intros s; simpl; [reflexivity|apply IH]. Qed.

(* whenever a server has just been closed, every socket ever opened for it has been closed *)
Theorem server_closed_all tls evs i :
  let s := srun tls init (evs ++ [Close]) in In i (opened s) -> In i (closed s).
Proof.
  cbn zeta. rewrite srun_app. cbn [srun sstep fst].
  set (s := srun tls init evs). intros H.
  assert (I : Inv (server_close tls s)).
  { eapply ok_inv; [apply ok_server_close|]. apply inv_srun, inv_init. }
  destruct (I i H) as [Hc|Hh]; [exact Hc|].
  rewrite held_server_close in Hh; [destruct Hh|].
  apply plain_srun. intros _. reflexivity.
Qed.

Lemma open_of_nil op cl : (forall i, In i op -> In i cl) -> open_of op cl = [].
Proof.
  induction op as [|a op IH]; intros H; simpl; [reflexivity|].
  assert (Ha : mem_N a cl = true).
  { unfold mem_N. apply existsb_exists. exists a. split; [apply H; now left|apply N.eqb_refl]. }
  rewrite Ha. simpl. apply IH. intros i Hi. apply H. now right.
Qed.

Theorem server_none_open tls evs : open_ids (srun tls init (evs ++ [Close])) = [].
Proof. apply open_of_nil. intros i. apply server_closed_all. Qed.

(* at every point: what is open is held by the server (nothing is ever dropped while open) *)
Theorem server_open_is_held tls evs i :
  let s := srun tls init evs in In i (open_ids s) -> In i (held s).
Proof.
  cbn zeta. unfold open_ids, open_of. rewrite filter_In. intros [Ho Hc].
  destruct (inv_srun tls evs init inv_init i Ho) as [H|H]; [|exact H].
  exfalso. apply negb_true_iff in Hc.
  assert (mem_N i (closed (srun tls init evs)) = true); [|congruence].
  unfold mem_N. apply existsb_exists. exists i. split; [exact H|apply N.eqb_refl].
Qed.

(* ================= client ================= *)
Lemma mem_N_app i l1 l2 : mem_N i (l1 ++ l2) = mem_N i l1 || mem_N i l2.
Proof. unfold mem_N. apply existsb_app. Qed.

Lemma open_of_snoc_closed op cl i :
  open_of op (cl ++ [i]) = filter (fun j => negb (N.eqb j i)) (open_of op cl).
Proof.
  induction op as [|a op IH]; simpl; [reflexivity|].
  rewrite mem_N_app. simpl. rewrite orb_false_r.
  destruct (mem_N a cl); simpl; [exact IH|].
  destruct (N.eqb a i); simpl; [exact IH|now rewrite IH].
Qed.

Lemma open_of_snoc_opened op cl n :
  open_of (op ++ [n]) cl = open_of op cl ++ (if mem_N n cl then [] else [n]).
Proof. unfold open_of. rewrite filter_app. simpl. destruct (mem_N n cl); reflexivity. Qed.

Definition CI' (c : client) : Prop :=
  copen_ids c = opt_list (cl_cs c) /\
  (forall i, In i (cl_closed c) -> (i < cl_nxt c)%N) /\
  (forall i, cl_cs c = Some i -> (i < cl_nxt c)%N).

Lemma cs_cclose c : cl_cs (cclose c) = None.
Proof. unfold cclose. destruct (cl_cs c) eqn:E; [reflexivity|exact E]. Qed.

Lemma CI'_init : CI' cinit.
Proof. split; [reflexivity|split; [intros i []|discriminate]]. Qed.

Lemma CI'_cclose c : CI' c -> CI' (cclose c).
Proof.
  intros (H1 & H2 & H3). unfold cclose. destruct (cl_cs c) as [i|] eqn:E.
  - split; [|split]; cbn [cl_opened cl_closed cl_cs cl_nxt].
    + unfold copen_ids in *. cbn [cl_opened cl_closed cl_cs]. rewrite open_of_snoc_closed, H1. simpl. now rewrite N.eqb_refl.
    + intros j Hj. apply in_app_or in Hj. destruct Hj as [Hj|[<-|[]]]; auto.
    + discriminate.
  - rewrite <- E in H1, H3. split; [exact H1|split; [exact H2|exact H3]].
Qed.

Lemma CI'_copen c : CI' c -> cl_cs c = None -> CI' (copen c).
Proof.
  intros (H1 & H2 & H3) E. split; [|split]; cbn [cl_opened cl_closed cl_cs cl_nxt copen].
  - unfold copen_ids in *. cbn [cl_opened cl_closed cl_cs copen]. rewrite open_of_snoc_opened, H1, E. simpl.
    destruct (mem_N (cl_nxt c) (cl_closed c)) eqn:M; [|reflexivity].
    unfold mem_N in M. apply existsb_exists in M. destruct M as [j [Hj Hn]].
    apply N.eqb_eq in Hn. subst j. specialize (H2 _ Hj). lia.
  - intros j Hj. specialize (H2 _ Hj). lia.
  - intros j [= <-]. lia.
Qed.

Lemma CI'_creopen c : CI' c -> CI' (creopen c).
Proof. intros H. apply CI'_copen; [now apply CI'_cclose|apply cs_cclose]. Qed.

Lemma CI'_set_acc tls c : CI' c -> CI' (set_acc tls c).
Proof. intros H. exact H. Qed.
Lemma CI'_set_con c : CI' c -> CI' (set_con c).
Proof. intros H. exact H. Qed.

Lemma CI'_caccept tls c o : CI' c -> CI' (fst (caccept tls c o)).
Proof.
  intros H. unfold caccept.
  assert (H1 : CI' (match cl_cs c with None => creopen c | Some _ => c end)).
  { destruct (cl_cs c); [exact H|now apply CI'_creopen]. }
  destruct o; cbn [fst]; auto using CI'_creopen, CI'_set_acc.
Qed.

Lemma CI'_chandshake c h : CI' c -> CI' (fst (chandshake c h)).
Proof.
  intros H. unfold chandshake. destruct (cl_cs c); [|exact H].
  destruct h; cbn [fst]; auto using CI'_cclose, CI'_set_con.
Qed.

Lemma CI'_cconnect tls c o h : CI' c -> CI' (fst (cconnect tls c o h)).
Proof.
  intros H. unfold cconnect. destruct tls; [|now apply CI'_caccept].
  assert (H1 : CI' (fst (if cl_acc c then (c, Ok true) else caccept true c o))).
  { destruct (cl_acc c); [exact H|now apply CI'_caccept]. }
  destruct (if cl_acc c then (c, Ok true) else caccept true c o) as [c1 [r|k]]; cbn [fst] in *; [|exact H1].
  destruct (cl_acc c1 && negb (cl_con c1)); [|exact H1].
  pose proof (CI'_chandshake c1 h H1) as H2.
  destruct (chandshake c1 h) as [c2 [k|]]; exact H2.
Qed.

Lemma CI'_csvc tls c o h x : CI' c -> CI' (fst (csvc tls c o h x)).
Proof.
  intros H. unfold csvc. destruct (cl_con c); [exact H|].
  pose proof (CI'_cconnect tls c o h H) as H1.
  destruct (cconnect tls c o h) as [c1 [r|k]]; cbn [fst] in *; [|exact H1].
  destruct (negb (cl_con c1) && x); cbn [fst]; [now apply CI'_creopen|exact H1].
Qed.

(* raw open() is within the property only when no socket is held *)
Definition cev_ok (c : client) (e : cev) : Prop := e = COpen -> cl_cs c = None.
Fixpoint cwf (tls : bool) (c : client) (evs : list cev) : Prop :=
  match evs with
  | [] => True
  | e :: evs' => cev_ok c e /\ cwf tls (fst (cstep tls c e)) evs'
  end.

Lemma CI'_cstep tls c e : cev_ok c e -> CI' c -> CI' (fst (cstep tls c e)).
Proof.
  intros W H. destruct e; cbn [cstep fst].
  - apply CI'_copen; [exact H|now apply W].
  - now apply CI'_creopen.
  - now apply CI'_cclose.
  - now apply CI'_caccept.
  - now apply CI'_cconnect.
  - now apply CI'_csvc.
Qed.

Lemma CI'_crun tls evs : forall c, cwf tls c evs -> CI' c -> CI' (crun tls c evs).
Proof.
  induction evs as [|e evs IH]; intros c W H; simpl; [exact H|].
  destruct W as [W1 W2]. apply IH; [exact W2|now apply CI'_cstep].
Qed.

Lemma cwf_no_open tls evs : forall c, ~ In COpen evs -> cwf tls c evs.
Proof.
  induction evs as [|e evs IH]; intros c H; simpl; [exact I|].
  split; [intros ->; exfalso; apply H; now left|apply IH; intros H1; apply H; now right].
Qed.

Lemma crun_app tls evs1 evs2 c : crun tls c (evs1 ++ evs2) = crun tls (crun tls c evs1) evs2.
Proof. revert c. induction evs1 as [|e evs1 IH]; intros c; simpl; [reflexivity|apply IH]. Qed.

Lemma cwf_app tls evs1 evs2 : forall c, cwf tls c (evs1 ++ evs2) -> cwf tls c evs1.
Proof.
  induction evs1 as [|e evs1 IH]; intros c; simpl; [tauto|]. intros [H1 H2]. split; [exact H1|now apply IH].
Qed.

(* the client's open sockets are exactly the one it holds in .cs *)
Theorem client_open_is_cs tls evs :
  cwf tls cinit evs -> copen_ids (crun tls cinit evs) = opt_list (cl_cs (crun tls cinit evs)).
Proof. intros W. apply (CI'_crun tls evs cinit W CI'_init). Qed.

Theorem client_at_most_one tls evs :
  cwf tls cinit evs -> (length (copen_ids (crun tls cinit evs)) <= 1)%nat.
Proof.
  intros W. rewrite (client_open_is_cs tls evs W). destruct (cl_cs (crun tls cinit evs)); simpl; lia.
Qed.

Theorem client_none_after_close tls evs :
  cwf tls cinit (evs ++ [CClose]) -> copen_ids (crun tls cinit (evs ++ [CClose])) = [].
Proof.
  intros W. rewrite (client_open_is_cs tls _ W). rewrite crun_app. cbn [crun cstep fst].
  now rewrite cs_cclose.
Qed.

(* close leaves nothing queued in .axes *)
Lemma axes_server_close tls s : axes (server_close tls s) = [].
Proof. unfold server_close. destruct tls; reflexivity. Qed.
Theorem server_axes_empty tls evs : axes (srun tls init (evs ++ [Close])) = [].
Proof. rewrite srun_app. cbn [srun sstep fst]. apply axes_server_close. Qed.
