(* Memoer.verify as modelled (MemoGram.mverify): which key a signer id is checked against. *)
From Hio Require Import Base.Prelude Model.B64 Model.MemoGram Model.MemoRx Proofs.MemoRxProofs.
Local Open Scope N_scope.

Section MVerify.
  Variable sigverify : bytes -> bytes -> bytes -> res unit.
  Variable keep : bytes -> option bytes.

  (* the key text a signer id stands for at this receiver *)
  Definition key_of (vid : bytes) : option bytes :=
    match vid with
    | [] => None
    | c :: _ => if c =? 66 then Some vid else keep vid
    end.

  Lemma mverify_ok : forall vid sg ser, mverify sigverify keep vid sg ser = Ok tt ->
    exists key, key_of vid = Some key /\ sigverify key sg ser = Ok tt.
  Proof.
    intros vid sg ser H. unfold mverify in H. destruct vid as [|c rest]; [discriminate|].
    destruct (negb _); [discriminate|]. destruct (negb _); [discriminate|].
    destruct (16 <=? idx (hd 0 rest)); [discriminate|]. unfold key_of.
    destruct (c =? 66).
    - exists (c :: rest). auto.
    - destruct (keep (c :: rest)) as [q|]; [|discriminate]. exists q. auto.
  Qed.

  Lemma mverify_no_vid : forall s m, mverify sigverify keep [] s m <> Ok tt.
  Proof. intros s m. discriminate. Qed.

  Lemma mverify_contract :
    (forall k s m, sigverify k s m = Ok tt \/ sigverify k s m = Exc MemoErr) ->
    forall v s m, mverify sigverify keep v s m = Ok tt \/ mverify sigverify keep v s m = Exc MemoErr.
  Proof.
    intros Hc v s m. unfold mverify. destruct v as [|c rest]; [right; reflexivity|].
    destruct (negb _); [right; reflexivity|]. destruct (negb _); [right; reflexivity|].
    destruct (16 <=? idx (hd 0 rest)); [right; reflexivity|].
    destruct (c =? 66); [apply Hc|]. destruct (keep (c :: rest)); [apply Hc|right; reflexivity].
  Qed.

  (* a transferable / digest signer id without a keep entry verifies nothing *)
  Lemma no_keep_no_verify : forall vid sg ser,
    hd 0 vid <> 66 -> keep vid = None -> mverify sigverify keep vid sg ser <> Ok tt.
  Proof.
    intros vid sg ser Hc Hk H. apply mverify_ok in H. destruct H as (key & K & _).
    unfold key_of in K. destruct vid as [|c rest]; [discriminate|]. cbn in Hc.
    destruct (c =? 66) eqn:E; [apply N.eqb_eq in E; contradiction|]. congruence.
  Qed.
End MVerify.
