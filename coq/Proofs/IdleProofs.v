(* Proofs about Model/Idle.v. *)
From Hio Require Import Base.Prelude Model.Idle.
From Coq Require Import ZifyBool.
Local Open Scope Z_scope.

(* while open and never persisted, the deadline is exactly the latest moment bytes moved plus the configured tymeout *)
Definition Inv (T : Z) (c : conn) : Prop :=
  closed c = false ->
  (persisted c = false -> tmo c = T /\ sp c = last c + T /\ st c = last c) /\
  (persisted c = true -> tmo c = 0).

Lemma inv_accept T t0 : Inv T (accept T t0).
Proof. intros _. cbn. split; [auto|discriminate]. Qed.

Lemma inv_refresh T now c : Inv T c -> Inv T (refresh now c).
Proof.
  intros I Ec. cbn in *. destruct (I Ec) as [I1 I2]. split; [|exact I2].
  intros Ep. destruct (I1 Ep) as (H1 & H2 & H3). repeat split; auto; lia.
Qed.
Lemma inv_set_pend T n c : Inv T c -> Inv T (set_pend n c).
Proof. intros I. exact I. Qed.
Lemma inv_respond T c : Inv T c -> Inv T (respond c).
Proof. intros I. exact I. Qed.
Lemma inv_persist T c : Inv T c -> Inv T (persist c).
Proof. intros I Ec. cbn in *. split; [discriminate|reflexivity]. Qed.
Lemma inv_close T b c : Inv T (close b c).
Proof. intros H. discriminate H. Qed.

Lemma inv_set_resp T b w c : Inv T c -> Inv T (set_resp b w c).
Proof. intros I. exact I. Qed.
Lemma inv_dispatch T R a c : Inv T c -> Inv T (dispatch R a c).
Proof.
  intros I. unfold dispatch. destruct (responding c); [exact I|].
  destruct a; auto using inv_persist, inv_respond, inv_set_pend, inv_set_resp.
Qed.
Lemma inv_reps T R c : Inv T c -> Inv T (reps R c).
Proof.
  intros I. unfold reps. destruct (inprog c); [|exact I].
  destruct (wait c =? 0)%N; auto using inv_set_pend, inv_set_resp.
Qed.
Lemma inv_requests T R a c : Inv T c -> Inv T (requests R a c).
Proof. intros I. apply inv_reps, inv_dispatch, I. Qed.

(* serviceReqs/serviceReps touch neither the tymer, the tymeout (except zeroing it), nor the closed flags *)
Lemma reps_fields R c :
  st (reps R c) = st c /\ sp (reps R c) = sp c /\ tmo (reps R c) = tmo c /\ closed (reps R c) = closed c /\
  timedout (reps R c) = timedout c /\ persisted (reps R c) = persisted c /\ last (reps R c) = last c /\
  responding (reps R c) = responding c.
Proof. unfold reps. destruct (inprog c); [destruct (wait c =? 0)%N|]; cbn; repeat split. Qed.
Lemma dispatch_fields R a c :
  closed (dispatch R a c) = closed c /\ timedout (dispatch R a c) = timedout c /\
  last (dispatch R a c) = last c /\ (tmo c <= 0 -> tmo (dispatch R a c) <= 0) /\
  (is_req a = false -> persisted (dispatch R a c) = persisted c).
Proof.
  unfold dispatch. destruct (responding c); [repeat split; auto|].
  destruct a; cbn; repeat split; auto; try lia; discriminate.
Qed.
Lemma requests_timedout R a c : timedout (requests R a c) = timedout c.
Proof.
  unfold requests. destruct (reps_fields R (dispatch R a c)) as (_ & _ & _ & _ & H & _). rewrite H.
  apply (dispatch_fields R a c).
Qed.
Lemma requests_tmo_le R a c : tmo c <= 0 -> tmo (requests R a c) <= 0.
Proof.
  intros Hc. unfold requests. destruct (reps_fields R (dispatch R a c)) as (_ & _ & H & _). rewrite H.
  now apply (dispatch_fields R a c).
Qed.
Lemma requests_persisted R a c : is_req a = false -> persisted (requests R a c) = persisted c.
Proof.
  intros Ha. unfold requests. destruct (reps_fields R (dispatch R a c)) as (_ & _ & _ & _ & _ & H & _). rewrite H.
  now apply (dispatch_fields R a c).
Qed.
Lemma inv_sends T now cap c : Inv T c -> Inv T (sends now cap c).
Proof.
  intros I. unfold sends. destruct (0 <? N.min cap (pend c))%N; [|exact I].
  apply inv_refresh, inv_set_pend, I.
Qed.

Lemma inv_pass T R p c : Inv T c -> Inv T (pass R p c).
Proof.
  intros I. destruct p as [[now a] cap]. unfold pass. destruct (closed c); [exact I|].
  destruct (is_wind a); [now apply inv_refresh|].
  destruct ((0 <? tmo c) && expired now c); [apply inv_close|].
  set (c1 := if has_traffic a then refresh now c else c).
  assert (I1 : Inv T c1) by (unfold c1; destruct (has_traffic a); [now apply inv_refresh|exact I]).
  destruct (responding (requests R a c1) && negb (inprog (requests R a c1)) && (pend (requests R a c1) =? 0)%N); [apply inv_close|].
  apply inv_sends, inv_requests, I1.
Qed.

Lemma inv_run T R sched : forall c, Inv T c -> Inv T (run R c sched).
Proof. induction sched as [|p r IH]; intros c I; simpl; [exact I|]. apply IH, inv_pass, I. Qed.

Lemma closed_pass R p c : closed c = true -> pass R p c = c.
Proof. intros H. destruct p as [[now a] cap]. unfold pass. now rewrite H. Qed.
Lemma closed_run R sched : forall c, closed c = true -> run R c sched = c.
Proof.
  induction sched as [|p r IH]; intros c H; simpl; [reflexivity|].
  rewrite closed_pass by exact H. now apply IH.
Qed.

Lemma run_app R s1 : forall s2 c, run R c (s1 ++ s2) = run R (run R c s1) s2.
Proof. induction s1 as [|p s1 IH]; intros s2 c; simpl; [reflexivity|apply IH]. Qed.

(* requests does not look at the tymer *)
Lemma requests_refresh R a now c :
  pend (requests R a (refresh now c)) = pend (requests R a c) /\
  responding (requests R a (refresh now c)) = responding (requests R a c) /\
  inprog (requests R a (refresh now c)) = inprog (requests R a c).
Proof.
  unfold requests, dispatch. cbn [refresh responding].
  destruct (responding c) eqn:E.
  - unfold reps. cbn [refresh inprog wait pend]. destruct (inprog c); [destruct (wait c =? 0)%N|]; cbn; rewrite ?E; auto.
  - destruct a; unfold reps; cbn;
      repeat match goal with |- context [if ?b then _ else _] => destruct b; cbn end; rewrite ?E; auto.
Qed.
Lemma requests_refresh_pend R a now c : pend (requests R a (refresh now c)) = pend (requests R a c).
Proof. apply requests_refresh. Qed.
Lemma requests_refresh_resp R a now c : responding (requests R a (refresh now c)) = responding (requests R a c).
Proof. apply requests_refresh. Qed.
Lemma requests_refresh_inprog R a now c : inprog (requests R a (refresh now c)) = inprog (requests R a c).
Proof. apply requests_refresh. Qed.
Lemma requests_last R a c : last (requests R a c) = last c.
Proof.
  unfold requests. destruct (reps_fields R (dispatch R a c)) as (_ & _ & _ & _ & _ & _ & H & _). rewrite H.
  apply (dispatch_fields R a c).
Qed.

(* the ghost [last] is the tyme of the latest pass in which bytes actually moved *)
Lemma last_pass_open R p c :
  closed (pass R p c) = false ->
  last (pass R p c) = if moved R p c || is_wind (snd (fst p)) then fst (fst p) else last c.
Proof.
  destruct p as [[now a] cap]. unfold pass, moved. cbn [fst snd].
  destruct (closed c) eqn:Ec; [intros H; congruence|].
  destruct (is_wind a) eqn:Ew; [intros _; reflexivity|]. cbn [negb andb]. rewrite orb_false_r.
  destruct ((0 <? tmo c) && expired now c); [intros H; discriminate H|].
  destruct (has_traffic a) eqn:Ht; cbn [orb].
  - rewrite requests_refresh_pend, requests_refresh_resp, requests_refresh_inprog.
    set (c2 := requests R a (refresh now c)).
    assert (Hl : last c2 = now) by (unfold c2; now rewrite requests_last).
    destruct (responding (requests R a c) && negb (inprog (requests R a c)) && (pend (requests R a c) =? 0)%N);
      [intros H; discriminate H|].
    intros _. unfold sends. destruct (0 <? N.min cap (pend c2))%N; [reflexivity|exact Hl].
  - set (c2 := requests R a c).
    assert (Hl : last c2 = last c) by (unfold c2; now rewrite requests_last).
    destruct (responding c2 && negb (inprog c2) && (pend c2 =? 0)%N) eqn:Ed; [intros H; discriminate H|].
    intros _. unfold sends. rewrite andb_true_r.
    destruct (0 <? pend c2)%N eqn:Ep, (0 <? cap)%N eqn:Ecap; cbn [andb].
    + replace (0 <? N.min cap (pend c2))%N with true by lia. reflexivity.
    + replace (0 <? N.min cap (pend c2))%N with false by lia. exact Hl.
    + replace (0 <? N.min cap (pend c2))%N with false by lia. exact Hl.
    + replace (0 <? N.min cap (pend c2))%N with false by lia. exact Hl.
Qed.

(* a blocked pass (client silent, kernel accepts nothing) moves no bytes, whatever is pending *)
Lemma moved_blocked R p c : blocked p = true -> moved R p c = false.
Proof.
  destruct p as [[now a] cap]. unfold blocked, moved. destruct a; try discriminate.
  intros H. apply N.eqb_eq in H. subst cap. cbn. now rewrite andb_false_r.
Qed.
Lemma blocked_run R quiet : forall c,
  forallb blocked quiet = true -> closed (run R c quiet) = false ->
  last (run R c quiet) = last c.
Proof.
  induction quiet as [|p r IH]; intros c Hb Ho; simpl in *; [reflexivity|].
  apply andb_true_iff in Hb as [Hp Hr].
  assert (Eo : closed (pass R p c) = false).
  { destruct (closed (pass R p c)) eqn:E; [|reflexivity]. rewrite closed_run in Ho by exact E. congruence. }
  rewrite (IH _ Hr Ho).
  rewrite last_pass_open by exact Eo. rewrite moved_blocked by exact Hp.
  destruct p as [[now a] cap]. destruct a; try discriminate Hp. reflexivity.
Qed.

Lemma persisted_pass R p c : is_req (snd (fst p)) = false -> persisted (pass R p c) = persisted c.
Proof.
  destruct p as [[now a] cap]. cbn [fst snd]. intros H. unfold pass. destruct (closed c); [reflexivity|].
  destruct (is_wind a); [reflexivity|].
  destruct ((0 <? tmo c) && expired now c); [reflexivity|].
  set (c1 := if has_traffic a then refresh now c else c).
  assert (H1 : persisted c1 = persisted c) by (unfold c1; destruct (has_traffic a); reflexivity).
  assert (H2 : persisted (requests R a c1) = persisted c) by (rewrite requests_persisted by exact H; exact H1).
  destruct (responding (requests R a c1) && negb (inprog (requests R a c1)) && (pend (requests R a c1) =? 0)%N); [exact H2|].
  unfold sends. destruct (0 <? N.min cap (pend (requests R a c1)))%N; exact H2.
Qed.
Lemma persisted_run R sched : forall c, no_req sched = true -> persisted (run R c sched) = persisted c.
Proof.
  induction sched as [|p r IH]; intros c H; simpl in *; [reflexivity|].
  apply andb_true_iff in H as [H1 H2]. rewrite IH by exact H2.
  apply persisted_pass. now apply negb_true_iff in H1.
Qed.

(* C12, first half: a connection that never had a persistent request and on which no byte has
   moved since tyme u = last c (its latest receive or successful send, or the accept) is closed
   by any service pass at a tyme >= u + T, whatever happened before and whatever is pending *)
Theorem closes T t0 R sched now a cap :
  0 < T -> no_req sched = true -> is_wind a = false ->
  let c := run R (accept T t0) sched in
  last c + T <= now -> closed (pass R (now, a, cap) c) = true.
Proof.
  intros HT Hn Hw c Hl.
  destruct (closed c) eqn:Ec; [now rewrite closed_pass|].
  assert (I : Inv T c) by apply inv_run, inv_accept.
  assert (Hp : persisted c = false) by (unfold c; now rewrite persisted_run).
  destruct (I Ec) as [I1 _]. destruct (I1 Hp) as (H1 & H2 & _).
  unfold pass. rewrite Ec, Hw.
  assert (E : (0 <? tmo c) && expired now c = true).
  { unfold expired. apply andb_true_iff. split; lia. }
  now rewrite E.
Qed.

Theorem closes_for_good T t0 R sched now a cap rest :
  0 < T -> no_req sched = true -> is_wind a = false ->
  last (run R (accept T t0) sched) + T <= now ->
  closed (run R (accept T t0) (sched ++ (now, a, cap) :: rest)) = true.
Proof.
  intros HT Hn Hw Hl. rewrite run_app. simpl.
  pose proof (closes T t0 R sched now a cap HT Hn Hw Hl) as H.
  now rewrite closed_run.
Qed.

Lemma no_req_app s1 s2 : no_req (s1 ++ s2) = no_req s1 && no_req s2.
Proof. unfold no_req. apply forallb_app. Qed.
Lemma blocked_no_req quiet : forallb blocked quiet = true -> no_req quiet = true.
Proof.
  induction quiet as [|[[now a] cap] r IH]; simpl; [reflexivity|].
  intros H. apply andb_true_iff in H as [H1 H2]. rewrite (IH H2), andb_true_r.
  destruct a; try discriminate; reflexivity.
Qed.

(* ... in particular with output pending and only blocked send attempts since: after any
   history [sched] and any number of passes in which the client is silent and the kernel
   accepts nothing, the pass at tyme >= last + T closes the connection, and until then
   neither the deadline reference nor the pending output changed *)
Theorem closes_blocked T t0 R sched quiet now a cap :
  0 < T -> no_req sched = true -> forallb blocked quiet = true -> is_wind a = false ->
  let c := run R (accept T t0) sched in
  last c + T <= now ->
  closed (pass R (now, a, cap) (run R c quiet)) = true /\
  (closed (run R c quiet) = false -> last (run R c quiet) = last c).
Proof.
  intros HT Hn Hb Hw c Hl. split; [|now apply blocked_run].
  destruct (closed (run R c quiet)) eqn:Ec; [now rewrite closed_pass|].
  pose proof (blocked_run R quiet c Hb Ec) as H1.
  unfold c in *. rewrite <- run_app in *.
  apply closes; [exact HT| |exact Hw|lia].
  rewrite no_req_app, Hn. now apply blocked_no_req.
Qed.

(* C12, second half *)
Lemma timedout_closed_run R sched c : closed c = true -> timedout (run R c sched) = timedout c.
Proof. intros H. now rewrite closed_run. Qed.

Lemma safe_gen T R sched : forall c,
  timedout c = false -> Inv T c -> busy R T c sched -> timedout (run R c sched) = false.
Proof.
  induction sched as [|p r IH]; intros c Et I B; simpl in *; [exact Et|].
  destruct B as [B1 B2].
  destruct (closed c) eqn:Ec.
  { rewrite closed_pass by exact Ec. rewrite closed_run by exact Ec. exact Et. }
  apply IH; [|now apply inv_pass|exact B2].
  destruct p as [[now a] cap]. cbn [fst snd] in B1. specialize (B1 eq_refl). unfold pass. rewrite Ec.
  destruct (is_wind a) eqn:Ew; [exact Et|]. specialize (B1 eq_refl).
  destruct (I Ec) as [I1 I2].
  assert (E : (0 <? tmo c) && expired now c = false).
  { destruct (persisted c) eqn:Ep.
    - rewrite (I2 eq_refl). reflexivity.
    - destruct (I1 eq_refl) as (H1 & H2 & _). unfold expired. apply andb_false_iff. right. lia. }
  rewrite E.
  set (c1 := if has_traffic a then refresh now c else c).
  assert (H1 : timedout c1 = false) by (unfold c1; destruct (has_traffic a); exact Et).
  assert (H2 : timedout (requests R a c1) = false) by (rewrite requests_timedout; exact H1).
  destruct (responding (requests R a c1) && negb (inprog (requests R a c1)) && (pend (requests R a c1) =? 0)%N); [reflexivity|].
  unfold sends. destruct (0 <? N.min cap (pend (requests R a c1)))%N; exact H2.
Qed.

(* if every service pass of a still open connection comes less than T after the latest pass in
   which bytes moved, it is never closed for idleness (it may be closed because its response is finished) *)
Theorem safe T t0 R sched :
  busy R T (accept T t0) sched -> timedout (run R (accept T t0) sched) = false.
Proof. intros B. apply (safe_gen T); [reflexivity|apply inv_accept|exact B]. Qed.

Lemma busy_app R T s1 : forall c s2, busy R T c (s1 ++ s2) -> busy R T c s1.
Proof.
  induction s1 as [|p r IH]; intros c s2; simpl; [tauto|]. intros [H1 H2]. split; [exact H1|eauto].
Qed.
Theorem safe_always T t0 R s1 s2 :
  busy R T (accept T t0) (s1 ++ s2) -> timedout (run R (accept T t0) s1) = false.
Proof. intros B. apply safe. eapply busy_app, B. Qed.

(* a connection whose tymeout is <= 0 (server tymeout <= 0, or zeroed by a persistent request) never times out *)
Lemma tmo_pass_le R p c : tmo c <= 0 -> tmo (pass R p c) <= 0.
Proof.
  intros H. destruct p as [[now a] cap]. unfold pass. destruct (closed c); [exact H|].
  destruct (is_wind a); [exact H|].
  destruct ((0 <? tmo c) && expired now c); [exact H|].
  set (c1 := if has_traffic a then refresh now c else c).
  assert (H1 : tmo c1 <= 0) by (unfold c1; destruct (has_traffic a); exact H).
  assert (H2 : tmo (requests R a c1) <= 0) by (now apply requests_tmo_le).
  destruct (responding (requests R a c1) && negb (inprog (requests R a c1)) && (pend (requests R a c1) =? 0)%N); [exact H2|].
  unfold sends. destruct (0 <? N.min cap (pend (requests R a c1)))%N; exact H2.
Qed.
Lemma timedout_pass_le R p c : tmo c <= 0 -> timedout c = false -> timedout (pass R p c) = false.
Proof.
  intros H Et. destruct p as [[now a] cap]. unfold pass. destruct (closed c); [exact Et|].
  destruct (is_wind a); [exact Et|].
  replace (0 <? tmo c) with false by lia. cbn [andb].
  set (c1 := if has_traffic a then refresh now c else c).
  assert (H1 : timedout c1 = false) by (unfold c1; destruct (has_traffic a); exact Et).
  assert (H2 : timedout (requests R a c1) = false) by (rewrite requests_timedout; exact H1).
  destruct (responding (requests R a c1) && negb (inprog (requests R a c1)) && (pend (requests R a c1) =? 0)%N); [reflexivity|].
  unfold sends. destruct (0 <? N.min cap (pend (requests R a c1)))%N; exact H2.
Qed.
Lemma never_gen R sched : forall c,
  tmo c <= 0 -> timedout c = false -> timedout (run R c sched) = false.
Proof.
  induction sched as [|p r IH]; intros c H Et; simpl; [exact Et|].
  apply IH; [now apply tmo_pass_le|now apply timedout_pass_le].
Qed.
Theorem disabled T t0 R sched : T <= 0 -> timedout (run R (accept T t0) sched) = false.
Proof. intros H. apply never_gen; [exact H|reflexivity]. Qed.

Theorem persistent_never T t0 R s1 s2 :
  let c := run R (accept T t0) s1 in
  persisted c = true -> timedout c = false -> timedout (run R (accept T t0) (s1 ++ s2)) = false.
Proof.
  intros c Hp Ht. rewrite run_app. fold c.
  destruct (closed c) eqn:Ec; [now rewrite closed_run|].
  assert (I : Inv T c) by apply inv_run, inv_accept.
  destruct (I Ec) as [_ I2]. apply never_gen; [rewrite (I2 Hp); lia|exact Ht].
Qed.

(* ---------- "traffic in every window", stated with witnesses ---------- *)
(* pass tymes do not go backwards, except that a wind starts a new time base *)
Fixpoint sorted_from (t : Z) (sched : list step) : Prop :=
  match sched with
  | [] => True
  | p :: r => (is_wind (snd (fst p)) = false -> t <= fst (fst p)) /\ sorted_from (fst (fst p)) r
  end.
(* for every pass there is an earlier receive tyme (or the accept, or the latest wind) on the time
   base in force less than T before it *)
Fixpoint windowed (T : Z) (seen : list Z) (sched : list step) : Prop :=
  match sched with
  | [] => True
  | p :: r =>
    if is_wind (snd (fst p)) then windowed T [fst (fst p)] r
    else (exists u, In u seen /\ fst (fst p) - u < T) /\
         windowed T (if has_traffic (snd (fst p)) then fst (fst p) :: seen else seen) r
  end.

Lemma busy_closed R T sched : forall c, closed c = true -> busy R T c sched.
Proof.
  induction sched as [|p r IH]; intros c H; simpl; [exact I|].
  split; [intros E; congruence|]. rewrite closed_pass by exact H. now apply IH.
Qed.

Lemma moved_traffic R p c :
  is_wind (snd (fst p)) = false -> has_traffic (snd (fst p)) = true -> moved R p c = true.
Proof. destruct p as [[now a] cap]. cbn. intros -> ->. reflexivity. Qed.

Lemma windowed_busy R T sched : forall c lo seen,
  (forall u, In u seen -> u <= last c) -> last c <= lo -> sorted_from lo sched -> windowed T seen sched ->
  busy R T c sched.
Proof.
  induction sched as [|p r IH]; intros c lo seen Hs Hlo So W; simpl in *; [exact I|].
  destruct So as [S1 S2].
  destruct (closed (pass R p c)) eqn:Eo.
  { split; [|now apply busy_closed].
    intros Ec Ew. rewrite Ew in W. destruct W as [[u [Hu Hw]] _]. specialize (Hs u Hu). lia. }
  pose proof (last_pass_open R p c Eo) as Hl.
  destruct (is_wind (snd (fst p))) eqn:Ew.
  - split; [intros _ E; discriminate E|].
    rewrite orb_true_r in Hl.
    apply (IH _ (fst (fst p)) [fst (fst p)]); auto.
    + intros v [<-|[]]. lia.
    + lia.
  - destruct W as [[u [Hu Hw]] W2]. specialize (S1 eq_refl). rewrite orb_false_r in Hl. split.
    + intros _ _. specialize (Hs u Hu). lia.
    + apply (IH _ (fst (fst p)) (if has_traffic (snd (fst p)) then fst (fst p) :: seen else seen)); auto.
      * intros v Hv. rewrite Hl. destruct (has_traffic (snd (fst p))) eqn:Ht.
        -- rewrite moved_traffic by assumption. destruct Hv as [<-|Hv]; [lia|]. specialize (Hs v Hv). lia.
        -- specialize (Hs v Hv). destruct (moved R p c); lia.
      * rewrite Hl. destruct (moved R p c); lia.
Qed.

Theorem safe_windows T t0 R sched :
  sorted_from t0 sched -> windowed T [t0] sched -> timedout (run R (accept T t0) sched) = false.
Proof.
  intros S W. apply safe. apply (windowed_busy R T sched (accept T t0) t0 [t0]); auto; cbn; try lia.
Qed.

(* ---------- expiry does not depend on a response being in progress ---------- *)
(* the timeout decision of a service pass reads the closed flag, the tymeout and the tymer only:
   for an open connection whose tymer has expired the pass closes it as timed out, whatever the
   response state (Responder in progress, empty results still to come, bytes pending) *)
Theorem expiry_ignores_response R now a cap c b w n :
  is_wind a = false -> closed c = false -> 0 < tmo c -> sp c <= now ->
  pass R (now, a, cap) (set_resp b w (set_pend n c)) = close true (set_resp b w (set_pend n c)).
Proof.
  intros Hw Ec Ht He. unfold pass. cbn [closed set_resp set_pend tmo]. rewrite Ec, Hw.
  unfold expired. cbn [sp set_resp set_pend].
  replace ((0 <? tmo c) && (sp c <=? now)) with true by lia. reflexivity.
Qed.

(* and a pass that does not close for idleness is not made to do so by the response state either *)
Theorem no_expiry_ignores_response R now a cap c b w n :
  closed c = false -> (0 <? tmo c) && expired now c = false ->
  timedout c = false -> timedout (pass R (now, a, cap) (set_resp b w (set_pend n c))) = false.
Proof.
  intros Ec He Et. unfold pass. cbn [closed set_resp set_pend tmo]. rewrite Ec.
  destruct (is_wind a); [exact Et|].
  unfold expired in *. cbn [sp set_resp set_pend]. rewrite He.
  set (c0 := set_resp b w (set_pend n c)).
  set (c1 := if has_traffic a then refresh now c0 else c0).
  assert (H1 : timedout c1 = false) by (unfold c1; destruct (has_traffic a); exact Et).
  assert (H2 : timedout (requests R a c1) = false) by (rewrite requests_timedout; exact H1).
  destruct (responding (requests R a c1) && negb (inprog (requests R a c1)) && (pend (requests R a c1) =? 0)%N); [reflexivity|].
  unfold sends. destruct (0 <? N.min cap (pend (requests R a c1)))%N; exact H2.
Qed.
