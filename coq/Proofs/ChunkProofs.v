(* Stability of parseLeader / parseChunk stages; strictness of the size field. *)
From Hio Require Import Base.Prelude Model.HttpLine Model.Chunk Proofs.HttpLineProofs.
From Coq Require Import ZifyBool.

(* ----------------------------------------------------------- leader_step *)
Lemma leader_shrinks h b :
  match leader_step h b with
  | LMore _ r | LDone _ r => length r < length b
  | _ => True
  end.
Proof.
  unfold leader_step.
  destruct (line_stage EHttp false b) as [|k r l|e] eqn:E; auto.
  apply line_shrinks in E.
  destruct (is_nil l).
  - destruct (Nat.ltb max_headers (length h)); auto.
  - destruct (partition_cs l) as [[k' v]|]; auto.
    destruct (Nat.ltb max_headers (length (hset h k' v))); auto.
Qed.

Lemma leader_stable h b c :
  leader_step h (b ++ c) =
  match leader_step h b with
  | LNeed => leader_step h (b ++ c)
  | LFail k => LFail k
  | LMore h' r => LMore h' (r ++ c)
  | LDone h' r => LDone h' (r ++ c)
  end.
Proof.
  unfold leader_step.
  destruct (line_stage EHttp false b) as [|k r l|e] eqn:E; auto.
  - rewrite (line_stable_step _ _ _ _ _ _ c E).
    destruct (is_nil l).
    + destruct (Nat.ltb max_headers (length h)); auto.
    + destruct (partition_cs l) as [[k' v]|]; auto.
      destruct (Nat.ltb max_headers (length (hset h k' v))); auto.
  - rewrite (line_stable_fail _ _ _ _ c E). reflexivity.
Qed.

Lemma leader_need_nil h : leader_step h [] = LNeed.
Proof. reflexivity. Qed.

(* ------------------------------------------------------------ chunk_stage *)
Lemma firstn_app_le {A} n (b c : list A) : n <= length b -> firstn n (b ++ c) = firstn n b.
Proof.
  intros H. rewrite firstn_app. replace (n - length b) with 0 by lia.
  cbn. apply app_nil_r.
Qed.
Lemma skipn_app_le {A} n (b c : list A) : n <= length b -> skipn n (b ++ c) = skipn n b ++ c.
Proof.
  intros H. rewrite skipn_app. replace (n - length b) with 0 by lia. reflexivity.
Qed.

Lemma chunk_shrinks s b s' b' o :
  chunk_stage s b = Step s' b' o -> length b' < length b.
Proof.
  destruct s as [|n p|n p d|p h|]; cbn [chunk_stage].
  - destruct (line_stage ECrlf false b) as [|k r l|e] eqn:E; try discriminate.
    apply line_shrinks in E.
    destruct (parse_size_line l) as [[n p]|e]; try discriminate.
    destruct (N.eqb n 0); intros H; inversion H; subst; exact E.
  - destruct (N.ltb (lenN b) n) eqn:E; [discriminate|].
    destruct (N.eqb n 0) eqn:E0; [discriminate|]. cbn [orb].
    intros H; inversion H; subst.
    rewrite skipn_length. apply N.ltb_ge in E. apply N.eqb_neq in E0. unfold lenN in E. lia.
  - destruct (line_stage ECrlf false b) as [|k r l|e] eqn:E; try discriminate.
    apply line_shrinks in E.
    destruct (is_nil l); [|discriminate]. intros H; inversion H; subst; exact E.
  - pose proof (leader_shrinks h b) as Hl.
    destruct (leader_step h b); try discriminate; intros H; inversion H; subst; exact Hl.
  - discriminate.
Qed.

Lemma chunk_stable_step s b s' b' o c :
  chunk_stage s b = Step s' b' o -> chunk_stage s (b ++ c) = Step s' (b' ++ c) o.
Proof.
  destruct s as [|n p|n p d|p h|]; cbn [chunk_stage].
  - destruct (line_stage ECrlf false b) as [|k r l|e] eqn:E; try discriminate.
    rewrite (line_stable_step _ _ _ _ _ _ c E).
    destruct (parse_size_line l) as [[n p]|e]; try discriminate.
    destruct (N.eqb n 0); intros H; inversion H; subst; reflexivity.
  - destruct (N.ltb (lenN b) n) eqn:E; [discriminate|].
    destruct (N.eqb n 0) eqn:E0; [discriminate|]. cbn [orb].
    intros H; inversion H; subst.
    apply N.ltb_ge in E. unfold lenN in E.
    assert (Hle : N.to_nat n <= length b) by lia.
    assert (E2 : N.ltb (lenN (b ++ c)) n = false)
      by (apply N.ltb_ge; unfold lenN; rewrite app_length; lia).
    rewrite E2. cbn [orb].
    rewrite (firstn_app_le _ _ _ Hle), (skipn_app_le _ _ _ Hle). reflexivity.
  - destruct (line_stage ECrlf false b) as [|k r l|e] eqn:E; try discriminate.
    rewrite (line_stable_step _ _ _ _ _ _ c E).
    destruct (is_nil l); [|discriminate]. intros H; inversion H; subst; reflexivity.
  - rewrite (leader_stable h b c).
    destruct (leader_step h b); try discriminate; intros H; inversion H; subst; reflexivity.
  - discriminate.
Qed.

Lemma chunk_stable_fail s b k c :
  chunk_stage s b = Fail k -> chunk_stage s (b ++ c) = Fail k.
Proof.
  destruct s as [|n p|n p d|p h|]; cbn [chunk_stage].
  - destruct (line_stage ECrlf false b) as [|k' r l|e] eqn:E; try discriminate.
    + rewrite (line_stable_step _ _ _ _ _ _ c E).
      destruct (parse_size_line l) as [[n p]|e]; [|auto].
      destruct (N.eqb n 0); discriminate.
    + rewrite (line_stable_fail _ _ _ _ c E). auto.
  - destruct (N.ltb (lenN b) n || N.eqb n 0); discriminate.
  - destruct (line_stage ECrlf false b) as [|k' r l|e] eqn:E; try discriminate.
    + rewrite (line_stable_step _ _ _ _ _ _ c E).
      destruct (is_nil l); [discriminate|auto].
    + rewrite (line_stable_fail _ _ _ _ c E). auto.
  - rewrite (leader_stable h b c).
    destruct (leader_step h b); try discriminate; auto.
  - discriminate.
Qed.

Lemma chunk_start_stuck : stuck chunk_stage (Live CSize []).
Proof. reflexivity. Qed.

(* Fragmentation independence of the chunked decoder. *)
Theorem chunk_feeds_concat : forall reads,
  feeds chunk_stage (Live CSize []) reads = feed chunk_stage (Live CSize []) (concat reads).
Proof.
  intros. apply feeds_concat.
  - exact chunk_shrinks.
  - exact chunk_stable_step.
  - exact chunk_stable_fail.
  - exact chunk_start_stuck.
Qed.

Theorem decode_reads_concat : forall reads, decode_reads reads = decode (concat reads).
Proof.
  intros. unfold decode, decode_reads. rewrite !chunk_feeds_concat.
  cbn [concat]. rewrite app_nil_r. reflexivity.
Qed.

(* ------------------------------------------------------------- strictness *)
Definition size_field (line : bytes) : bytes := fst (fst (partition1 59 line)).
Definition plain_hex (f : bytes) : bool :=
  let f' := strip ws_sptab f in negb (is_nil f') && forallb is_hex f'.

Lemma parse_size_line_strict line :
  plain_hex (size_field line) = false -> parse_size_line line = Exc HTTPExc.
Proof.
  unfold plain_hex, size_field, parse_size_line.
  destruct (partition1 59 line) as [[sz f] exts]. cbn [fst].
  destruct (is_nil (strip ws_sptab sz)); cbn; [reflexivity|].
  intros ->. reflexivity.
Qed.

Lemma parse_size_line_value line n p :
  parse_size_line line = Ok (n, p) ->
  plain_hex (size_field line) = true /\ n = hex_value (strip ws_sptab (size_field line)).
Proof.
  unfold plain_hex, size_field, parse_size_line.
  destruct (partition1 59 line) as [[sz f] exts]. cbn [fst].
  destruct (is_nil (strip ws_sptab sz)); cbn; [discriminate|].
  destruct (forallb is_hex (strip ws_sptab sz)); cbn; [|discriminate].
  intros H; inversion H; subst. split; reflexivity.
Qed.

(* a complete size line in the buffer *)
Lemma scan_crlf_cons x t :
  x <> CRb ->
  scan_crlf (x :: t) = match scan_crlf t with Some (l, r) => Some (x :: l, r) | None => None end.
Proof.
  intros Hx. destruct t as [|y t']; [reflexivity|].
  rewrite scan_crlf_2.
  assert (E : N.eqb x CRb = false) by (apply N.eqb_neq; exact Hx).
  rewrite E. reflexivity.
Qed.

Lemma scan_crlf_line : forall l r,
  ~ In CRb l -> scan_crlf (l ++ CRb :: LFb :: r) = Some (l, r).
Proof.
  induction l as [|x l IH]; intros r Hn.
  - reflexivity.
  - cbn [app]. rewrite scan_crlf_cons by (intros ->; apply Hn; left; reflexivity).
    rewrite IH by (intros Hi; apply Hn; right; exact Hi). reflexivity.
Qed.

Lemma line_stage_crlf_line l r :
  ~ In CRb l -> (lenN l <= max_line)%N ->
  line_stage ECrlf false (l ++ CRb :: LFb :: r) = Step false r l.
Proof.
  intros Hn Hl. unfold line_stage. cbn [andb skipped scan].
  rewrite (scan_crlf_line l r Hn).
  assert (E : N.ltb max_line (lenN l) = false) by (apply N.ltb_ge; exact Hl).
  rewrite E. reflexivity.
Qed.

(* A size line whose size field is not plain hex makes the decoder raise
   InvalidChunk (an HTTPException) whatever follows and however it is read;
   nothing is delivered for it and the generator is dead afterwards. *)
Theorem chunk_strict : forall line rest,
  ~ In CRb line -> (lenN line <= max_line)%N ->
  plain_hex (size_field line) = false ->
  chunk_stage CSize (line ++ CRLFb ++ rest) = Fail HTTPExc.
Proof.
  intros line rest Hn Hl Hp. cbn [chunk_stage]. unfold CRLFb. cbn [app].
  rewrite (line_stage_crlf_line line rest Hn Hl).
  rewrite (parse_size_line_strict line Hp). reflexivity.
Qed.

(* ... and conversely a size line is only ever accepted with the positional
   value of its hex digits. *)
Theorem chunk_size_exact : forall b s' r o,
  chunk_stage CSize b = Step s' r o ->
  exists line p, line_stage ECrlf false b = Step false r line /\
    plain_hex (size_field line) = true /\ o = None /\
    let n := hex_value (strip ws_sptab (size_field line)) in
    (n = 0%N /\ s' = CTrail p [] \/ n <> 0%N /\ s' = CData n p).
Proof.
  intros b s' r o. cbn [chunk_stage].
  destruct (line_stage ECrlf false b) as [|k r' l|e] eqn:E; try discriminate.
  destruct (parse_size_line l) as [[n p]|e] eqn:Ep; try discriminate.
  destruct (parse_size_line_value l n p Ep) as [Hh Hv].
  assert (k = false).
  { unfold line_stage in E. cbn [andb skipped scan] in E.
    destruct (scan_crlf b) as [[l0 r0]|]; [|destruct (N.ltb _ _); discriminate].
    destruct (N.ltb max_line (lenN l0)); [discriminate|]. congruence. }
  subst k.
  destruct (N.eqb n 0) eqn:E0; intros H; inversion H; subst; exists l, p;
    (split; [reflexivity|split; [exact Hh|split; [reflexivity|]]]); cbn zeta.
  - left. apply N.eqb_eq in E0. split; [exact E0|reflexivity].
  - right. apply N.eqb_neq in E0. split; [exact E0|reflexivity].
Qed.

(* ------------------------------------------------------- the length limit *)
Lemma line_stage_crlf_long l r :
  ~ In CRb l -> (max_line < lenN l)%N ->
  line_stage ECrlf false (l ++ CRb :: LFb :: r) = Fail HTTPExc.
Proof.
  intros Hn Hl. unfold line_stage. cbn [andb skipped scan].
  rewrite (scan_crlf_line l r Hn).
  assert (E : N.ltb max_line (lenN l) = true) by (apply N.ltb_lt; exact Hl).
  rewrite E. reflexivity.
Qed.

Lemma lines_feeds_concat m skip reads :
  feeds (line_stage m) (Live skip []) reads = feed (line_stage m) (Live skip []) (concat reads).
Proof.
  apply feeds_concat.
  - intros s b s' b' o. apply line_shrinks.
  - intros s b s' b' o c. apply line_stable_step.
  - intros s b k c. apply line_stable_fail.
  - cbn. apply line_need_nil.
Qed.

(* The verdict on a CRLF-terminated line (chunk-size line, chunk-end line)
   depends on its length only, not on where the reads cut the stream -- in
   particular not on a cut between the CR and the LF that end it: a line of at
   most MAX_LINE_SIZE bytes is delivered, a longer one raises LineTooLong. *)
Theorem crlf_line_limit_cut_independent : forall reads line rest,
  ~ In CRb line -> concat reads = line ++ CRLFb ++ rest ->
  ((lenN line <= max_line)%N ->
     exists p os, feeds (line_stage ECrlf) (Live false []) reads = (p, line :: os)) /\
  ((max_line < lenN line)%N ->
     feeds (line_stage ECrlf) (Live false []) reads = (Dead HTTPExc, [])).
Proof.
  intros reads line rest Hn E. rewrite lines_feeds_concat, E. unfold CRLFb. cbn [feed app].
  split; intros Hl.
  - rewrite run_S, (line_stage_crlf_line line rest Hn Hl).
    destruct (run (line_stage ECrlf) (length (line ++ CRb :: LFb :: rest)) false rest) as [p os].
    exists p, os. reflexivity.
  - rewrite run_S, (line_stage_crlf_long line rest Hn Hl). reflexivity.
Qed.
