(* Top-level statements of C24 assembled from the refinement lemmas. *)
From Hio Require Import Base.Prelude Base.ListFacts Model.Lmdb Model.IoSub
  Proofs.LmdbProofs Proofs.IoSubHex Proofs.IoSubBlock Proofs.IoSubOps Proofs.IoSubProofs
  Proofs.IoSubRun Proofs.PlainProofs.
Local Open Scope N_scope.

(* histories on the Io stores, dictionary keyed by the joined key *)
Lemma io_bytes (U : bytes -> Prop) set ops :
  (forall k k', U k -> U k' -> k <> k' -> indep2 k k') ->
  Forall (fun o => U (tokey (op_key o))) ops -> weights ops <= maxsuffix ->
  snd (run (kind_of set) [] ops) =
    spec_run_io bytes_eqb set (fun o => tokey (op_key o)) (fun _ => []) ops.
Proof.
  intros HU Hk Hw.
  apply (run_io_refines U HU set ops 0 [] (fun _ => [])); auto. apply rel_init.
Qed.

(* tuple keys: parts free of both separators *)
Definition clean_key (t : list bytes) : Prop :=
  t <> [] /\ Forall (fun p => ~ In keysep p /\ ~ In ionsep p) t.

Lemma clean_parts s t : (s = keysep \/ s = ionsep) -> clean_key t -> Forall (fun p => ~ In s p) t.
Proof. intros Hs [_ F]. eapply Forall_impl; [|exact F]. intros p [H1 H2]. destruct Hs; subst; auto. Qed.

Lemma tokey_inj a b : clean_key a -> clean_key b -> tokey a = tokey b -> a = b.
Proof.
  intros Ha Hb. unfold tokey. apply join_inj; try apply Ha; try apply Hb.
  - apply (clean_parts keysep a); auto.
  - apply (clean_parts keysep b); auto.
Qed.

Lemma tokey_eqb a b : clean_key a -> clean_key b ->
  bytes_eqb (tokey a) (tokey b) = list_eqb bytes_eqb a b.
Proof.
  intros Ha Hb. destruct (list_eqb bytes_eqb a b) eqn:E.
  - apply list_eqb_bytes in E. subst. apply beqb_refl.
  - apply beqb_neq. intros H. apply tokey_inj in H; auto. subst.
    rewrite (proj2 (list_eqb_bytes b b) eq_refl) in E. discriminate.
Qed.

Lemma io_tuple set ops :
  Forall (fun o => clean_key (op_key o)) ops -> weights ops <= maxsuffix ->
  snd (run (kind_of set) [] ops) =
    spec_run_io (list_eqb bytes_eqb) set op_key (fun _ => []) ops.
Proof.
  intros Hk Hw.
  rewrite (io_bytes (fun k => exists t, clean_key t /\ k = tokey t) set ops); auto.
  - symmetry. apply (spec_run_rename (list_eqb bytes_eqb) bytes_eqb tokey clean_key); auto.
    intros a b Ha Hb. now apply tokey_eqb.
  - intros k k' (t & Ht & ->) (t' & Ht' & ->) _. apply nosep_indep; unfold tokey; apply join_nosep;
      try (apply (clean_parts ionsep); auto); vm_compute; discriminate.
  - eapply Forall_impl; [|exact Hk]. intros o Ho. now exists (op_key o).
Qed.

(* plain store *)
Lemma plain_bytes ops :
  Forall (fun o => plain_op o /\ badkey (tokey (op_key o)) = false) ops ->
  snd (run Plain [] ops) = spec_run_plain bytes_eqb (fun o => tokey (op_key o)) (fun _ => None) ops.
Proof. intros H. apply run_plain_refines; auto. split; [exact I|reflexivity]. Qed.

Definition clean_key1 (t : list bytes) : Prop := t <> [] /\ Forall (fun p => ~ In keysep p) t.

Lemma plain_tuple ops :
  Forall (fun o => plain_op o /\ badkey (tokey (op_key o)) = false /\ clean_key1 (op_key o)) ops ->
  snd (run Plain [] ops) = spec_run_plain (list_eqb bytes_eqb) op_key (fun _ => None) ops.
Proof.
  intros H. rewrite plain_bytes.
  - symmetry. apply (spec_plain_rename (list_eqb bytes_eqb) bytes_eqb tokey clean_key1); auto.
    + intros a b [Ha1 Ha2] [Hb1 Hb2]. destruct (list_eqb bytes_eqb a b) eqn:E.
      * apply list_eqb_bytes in E. subst. apply beqb_refl.
      * apply beqb_neq. intros Hj. unfold tokey in Hj. apply join_inj in Hj; auto. subst.
        rewrite (proj2 (list_eqb_bytes b b) eq_refl) in E. discriminate.
    + eapply Forall_impl; [|exact H]. intros o Ho. apply Ho.
  - eapply Forall_impl; [|exact H]. intros o Ho. split; apply Ho.
Qed.

(* non-interference at the level of the db: an op on key k leaves what any other key returns *)
Lemma io_noninterference (U : bytes -> Prop) set B d s o k' :
  (forall k k', U k -> U k' -> k <> k' -> indep2 k k') ->
  Rel U B d s -> U (tokey (op_key o)) -> U k' -> k' <> tokey (op_key o) ->
  B + weight o <= maxsuffix ->
  abs_io (fst (step_io set d o)) k' = abs_io d k' /\
  getIoVals (fst (step_io set d o)) k' = getIoVals d k'.
Proof.
  intros HU Hr Uk Uk' Hne Hw.
  destruct (step_io_refines U HU set B d s o Hr Uk Hw) as [_ Hr'].
  assert (E : fst (spec_io bytes_eqb set s o (tokey (op_key o))) k' = s k').
  { destruct o; cbn [spec_io op_key] in *; repeat match goal with
      | |- context [if ?b then _ else _] => destruct b
      | |- context [match ?v with [] => _ | _ :: _ => _ end] => destruct v
      end; cbn [fst]; try reflexivity; now apply upd_other_b. }
  destruct Hr as [Iv A], Hr' as [Iv' A'].
  remember (fst (step_io set d o)) as d' eqn:Ed'. clear Ed'.
  assert (Ea : abs_io d' k' = abs_io d k') by (rewrite A', A, E; auto).
  split; [exact Ea|].
  destruct (block U HU _ _ k' Iv Uk') as (L & m & R & -> & D1 & Hm1).
  destruct (block U HU _ _ k' Iv' Uk') as (L2 & m2 & R2 & -> & D2 & Hm2).
  rewrite (getIoVals_dec U HU k' _ L2 R2 m2 D2 Hm2), (getIoVals_dec U HU k' _ L R m D1 Hm1).
  rewrite (abs_dec U k' _ L R m D1 Hm1), (abs_dec U k' _ L2 R2 m2 D2 Hm2) in Ea.
  now rewrite Ea.
Qed.
