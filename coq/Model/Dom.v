(* Model of hio.help.doming: dictify (dataclasses.asdict), datify with the
   field types of the class (after the D31 repair: postponed annotations are
   resolved, so a field type is either exactly a dataclass or something
   fields() rejects), and the _as*/_from* pairs of RawDom over an abstract
   codec.  Strings are lists of code points, floats their 64 IEEE bits.
   All fields of the modelled classes default to None.  No proofs here. *)
From Hio Require Import Base.Prelude.

Definition str := list N.
Definition str_eqb : str -> str -> bool := list_eqb N.eqb.

(* what json / cbor2 / msgpack carry *)
Inductive value :=
| VNull | VBool (b : bool) | VInt (z : Z) | VFloat (bits : N) | VStr (s : str)
| VList (l : list value) | VDict (kvs : list (str * value)).

(* what a field of a data object may hold *)
Inductive dv :=
| DNull | DBool (b : bool) | DInt (z : Z) | DFloat (bits : N) | DStr (s : str)
| DList (l : list dv) | DDict (kvs : list (str * dv))
| DDom (c : nat) (fs : list (str * dv)).   (* instance of class c, fields in declaration order *)

(* f.type of a dataclass field: exactly dataclass number c, or anything else
   (Any, int, list[...], X | None, an unresolvable string ...) *)
Inductive ftype := TDom (c : nat) | TOther.
Definition schema := list (list (str * ftype)).

(* dictify = dataclasses.asdict: data objects become dicts, recursively
   through lists and dicts *)
Fixpoint dictify (d : dv) : value :=
  match d with
  | DNull => VNull | DBool b => VBool b | DInt z => VInt z | DFloat x => VFloat x | DStr s => VStr s
  | DList l => VList (map dictify l)
  | DDict kvs => VDict (map (fun kv => match kv with (k, x) => (k, dictify x) end) kvs)
  | DDom _ fs => VDict (map (fun kv => match kv with (k, x) => (k, dictify x) end) fs)
  end.

(* a decoded value as it is, when datify gives up: "return d" *)
Fixpoint embed (v : value) : dv :=
  match v with
  | VNull => DNull | VBool b => DBool b | VInt z => DInt z | VFloat x => DFloat x | VStr s => DStr s
  | VList l => DList (map embed l)
  | VDict kvs => DDict (map (fun kv => match kv with (k, x) => (k, embed x) end) kvs)
  end.

Fixpoint assoc {A} (k : str) (l : list (str * A)) : option A :=
  match l with
  | [] => None
  | (k', a) :: l' => if str_eqb k k' then Some a else assoc k l'
  end.

Definition fields_of (S : schema) (c : nat) : list (str * ftype) := nth c S [].

(* cls(kwargs): every declared field from kw, else its default None *)
Definition construct (S : schema) (c : nat) (kw : list (str * dv)) : dv :=
  DDom c (map (fun f => (fst f, match assoc (fst f) kw with Some x => x | None => DNull end))
              (fields_of S c)).

(* datify(cls, d): any exception (cls not a dataclass, d not iterable, a key
   that is not a field, d[f] failing) returns d unchanged *)
Fixpoint datify (S : schema) (t : ftype) (v : value) {struct v} : dv :=
  match t with
  | TOther => embed v
  | TDom c =>
    match v with
    | VDict kvs =>
      match (fix args (l : list (str * value)) : option (list (str * dv)) :=
               match l with
               | [] => Some []
               | (k, x) :: l' =>
                 match assoc k (fields_of S c) with
                 | Some ft => match args l' with
                              | Some r => Some ((k, datify S ft x) :: r)
                              | None => None
                              end
                 | None => None
                 end
               end) kvs with
      | Some kw => construct S c kw
      | None => embed v
      end
    | VList [] => construct S c []       (* "for f in d" over nothing: cls() *)
    | VStr [] => construct S c []
    | _ => embed v
    end
  end.

(* isinstance(dom, cls) or ValueError *)
Definition checked (c : nat) (d : dv) : res dv :=
  match d with
  | DDom c' fs => if Nat.eqb c' c then Ok d else Exc ValueErr
  | _ => Exc ValueErr
  end.

Section Codec.
  Variable wire : Type.
  Variable enc : value -> wire.              (* json.dumps(...).encode() / cbor2.dumps / msgpack.dumps *)
  Variable dec : wire -> option value.       (* json.loads / cbor2.loads / msgpack.loads *)

  Definition as_x (d : dv) : wire := enc (dictify d).
  Definition from_x (S : schema) (c : nat) (w : wire) : res dv :=
    match dec w with
    | Some v => checked c (datify S (TDom c) v)
    | None => Exc ValueErr
    end.
End Codec.

(* ---- equality tests for the correspondence ---- *)
Fixpoint value_eqb (a b : value) : bool :=
  match a, b with
  | VNull, VNull => true
  | VBool x, VBool y => Bool.eqb x y
  | VInt x, VInt y => Z.eqb x y
  | VFloat x, VFloat y => N.eqb x y
  | VStr x, VStr y => str_eqb x y
  | VList x, VList y =>
    (fix go (x y : list value) : bool :=
       match x, y with
       | [], [] => true
       | a :: x', b :: y' => value_eqb a b && go x' y'
       | _, _ => false
       end) x y
  | VDict x, VDict y =>
    (fix go (x y : list (str * value)) : bool :=
       match x, y with
       | [], [] => true
       | (k, a) :: x', (j, b) :: y' => str_eqb k j && value_eqb a b && go x' y'
       | _, _ => false
       end) x y
  | _, _ => false
  end.

Fixpoint dv_eqb (a b : dv) : bool :=
  match a, b with
  | DNull, DNull => true
  | DBool x, DBool y => Bool.eqb x y
  | DInt x, DInt y => Z.eqb x y
  | DFloat x, DFloat y => N.eqb x y
  | DStr x, DStr y => str_eqb x y
  | DList x, DList y =>
    (fix go (x y : list dv) : bool :=
       match x, y with
       | [], [] => true
       | a :: x', b :: y' => dv_eqb a b && go x' y'
       | _, _ => false
       end) x y
  | DDict x, DDict y =>
    (fix go (x y : list (str * dv)) : bool :=
       match x, y with
       | [], [] => true
       | (k, a) :: x', (j, b) :: y' => str_eqb k j && dv_eqb a b && go x' y'
       | _, _ => false
       end) x y
  | DDom c x, DDom c' y =>
    Nat.eqb c c' &&
    (fix go (x y : list (str * dv)) : bool :=
       match x, y with
       | [], [] => true
       | (k, a) :: x', (j, b) :: y' => str_eqb k j && dv_eqb a b && go x' y'
       | _, _ => false
       end) x y
  | _, _ => false
  end.

(* the well-typed objects, decidably: a dataclass-annotated field holds None
   or an instance of exactly that class with exactly its fields, any other
   field holds no data object at any depth *)
Fixpoint has_dom (d : dv) : bool :=
  match d with
  | DList l => existsb has_dom l
  | DDict kvs => existsb (fun kv => match kv with (_, x) => has_dom x end) kvs
  | DDom _ _ => true
  | _ => false
  end.

Fixpoint fitsb (S : schema) (t : ftype) (d : dv) {struct d} : bool :=
  match t with
  | TOther => negb (has_dom d)
  | TDom c =>
    match d with
    | DNull => true
    | DDom c' fs =>
      Nat.eqb c' c &&
      (fix go (fields : list (str * ftype)) (fs : list (str * dv)) {struct fs} : bool :=
         match fields, fs with
         | [], [] => true
         | (fk, ft) :: fl, (k, x) :: r => str_eqb k fk && fitsb S ft x && go fl r
         | _, _ => false
         end) (fields_of S c) fs
    | _ => false
    end
  end.

(* ---- correspondence: one data object through the three codecs.  For each
   codec the harness reports the tree the library decodes from the library's
   encoding of _asdict() (which must be _asdict() itself: the codec
   hypothesis) and what _from*(_as*()) returned. ---- *)
Record case := { k_schema : schema;
                 k_class : nat;
                 k_obj : dv;
                 k_asdict : value;                       (* observed dom._asdict() *)
                 k_wire : list value;                    (* observed loads(dumps(asdict)), per codec *)
                 k_back : list (res dv);                 (* observed _from*(_as*()), per codec *)
                 k_typed : bool }.                       (* the harness's own judgement: well-typed *)

Definition check_case (k : case) : bool :=
  value_eqb (dictify (k_obj k)) (k_asdict k) &&
  Bool.eqb (fitsb (k_schema k) (TDom (k_class k)) (k_obj k)) (k_typed k) &&
  forallb (fun v => value_eqb v (k_asdict k)) (k_wire k) &&
  list_eqb (res_eqb dv_eqb)
           (map (fun v => checked (k_class k) (datify (k_schema k) (TDom (k_class k)) v)) (k_wire k))
           (k_back k).

(* branch classifier *)
Definition case_branches (k : case) : list nat :=
  match k_obj k with
  | DDom c fs =>
    let back := datify (k_schema k) (TDom (k_class k)) (dictify (k_obj k)) in
    [if dv_eqb back (k_obj k) then 0 else 1;
     if existsb (fun kv => match kv with (_, DDom _ _) => true | _ => false end) fs then 2 else 3;
     if existsb (fun kv => match kv with (_, DDom _ gs) => existsb (fun kv => has_dom (snd kv)) gs | _ => false end) fs
     then 4 else 5;
     if existsb (fun kv => match kv with (_, DList l) => existsb has_dom l
                                       | (_, DDict m) => existsb (fun kv => has_dom (snd kv)) m
                                       | _ => false end) fs then 6 else 7]
  | _ => []
  end.
Definition n_branches : nat := 8.
