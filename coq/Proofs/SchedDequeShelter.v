(* "First recur in the next cycle" (C06), the forward invariant.
   A doer j is SHELTERED when the deed that holds it hangs, through deques of
   suspended DoDoers, from a position no pass in progress will reach: behind the
   marker of a protected scheduler (one that is executing, or the root) or in a
   list the interpreter is about to close.  [shelter_all]: during any nested call
   a sheltered doer gets no Recur unless it is entered anew first (it can only be
   closed). *)
From Hio Require Import Base.Prelude Base.AMap Base.Time Model.Sched Proofs.SchedEqs Proofs.SchedFrame Proofs.SchedLife
  Proofs.SchedDeque Proofs.SchedDequeHold Proofs.SchedDequeAll Proofs.SchedDequeUniq Proofs.SchedDequeEffects
  Proofs.SchedDequeEpos Proofs.SchedDequeSortB Proofs.SchedDequePass Proofs.SchedDequeRoot0.

Section Shelter.
Context {T : Type} `{Time T}.
Implicit Types s a b : st T.

(* ---------- hanging ---------- *)

Definition behindq (qf : id -> list (deed T)) (x j : id) : Prop :=
  exists u r, qf x = u ++ DMark :: r /\ mf u /\ In j (dids r).

Inductive hangq (qf : id -> list (deed T)) (Pr Lf : id -> Prop) (C : list id) : id -> Prop :=
| hg_hand j : In j C -> hangq qf Pr Lf C j
| hg_behind x j : Pr x -> behindq qf x j -> hangq qf Pr Lf C j
| hg_leaf y j : Lf y -> In j (dids (qf y)) -> hangq qf Pr Lf C j
| hg_sub y j : hangq qf Pr Lf C y -> In j (dids (qf y)) -> hangq qf Pr Lf C j.

Definition hang s := hangq (dq s).
Definition behind s := behindq (dq s).

Lemma behind_in qf x j : behindq qf x j -> In j (dids (qf x)).
Proof. intros (u & r & E & _ & Hj). rewrite E, dids_app. apply in_or_app. right. exact Hj. Qed.

Lemma hang_held qf Pr Lf C j : hangq qf Pr Lf C j -> In j C \/ exists y, In j (dids (qf y)).
Proof.
  intros [k Hk|x k _ B|y k _ Hk|y k _ Hk]; [now left|right; exists x; now apply behind_in|right; now exists y|right; now exists y].
Qed.

Lemma hang_hand_false s Pr Lf C i X : Hold2 s (i :: X) -> incl C X -> ~ hang s Pr Lf C i.
Proof.
  intros Hh Hc Hg. destruct (held_once s i X Hh) as [NX NQ].
  destruct (hang_held _ _ _ _ _ Hg) as [Hi|[y Hi]]; [apply NX, Hc, Hi|exact (NQ y Hi)].
Qed.

(* something executing does not hang (roots that are suspended) *)
Lemma hang_not_running s Pr Lf C E y :
  Hold2 s E -> (forall k, In k C -> is_susp s k) -> running s y -> ~ hang s Pr Lf C y.
Proof.
  intros Hh Hc [pc R] Hg. destruct (hang_held _ _ _ _ _ Hg) as [Hi|[z Hi]].
  - destruct (Hc y Hi) as [pc' S]. congruence.
  - destruct (h2_susp _ _ _ Hh y) as [pc' S]; [right; now exists z|congruence].
Qed.

Lemma susp_of_incl s E C : Hold2 s E -> incl C E -> forall k, In k C -> is_susp s k.
Proof. intros Hh Hc k Hk. apply (h2_susp _ _ _ Hh). left. now apply Hc. Qed.

Lemma hangq_xfer qf qf' Pr Lf C C' :
  (forall k, In k C -> hangq qf' Pr Lf C' k) ->
  (forall x k, Pr x -> behindq qf x k -> hangq qf' Pr Lf C' k) ->
  (forall y k, Lf y -> In k (dids (qf y)) -> hangq qf' Pr Lf C' k) ->
  (forall y k, hangq qf' Pr Lf C' y -> hangq qf Pr Lf C y -> In k (dids (qf y)) -> hangq qf' Pr Lf C' k) ->
  forall j, hangq qf Pr Lf C j -> hangq qf' Pr Lf C' j.
Proof. intros H1 H2 H3 H4 j Hg. induction Hg as [k Hk|x k Px B|y k Ly Hk|y k Hy IH Hk]; eauto. Qed.

Lemma hang_incl qf Pr Lf C C' j : incl C C' -> hangq qf Pr Lf C j -> hangq qf Pr Lf C' j.
Proof.
  intros Hc. apply hangq_xfer.
  - intros k Hk. apply hg_hand. now apply Hc.
  - intros x k Px B. now apply (hg_behind _ _ _ _ x).
  - intros y k Ly Hk. now apply (hg_leaf _ _ _ _ y).
  - intros y k Hy _ Hk. now apply (hg_sub _ _ _ _ y).
Qed.

(* the deque of a scheduler that neither hangs nor is protected does not matter *)
Lemma hang_irrel qf qf' Pr Lf C y j :
  (forall z, z <> y -> qf' z = qf z) -> ~ Pr y -> ~ Lf y -> ~ hangq qf Pr Lf C y ->
  hangq qf Pr Lf C j -> hangq qf' Pr Lf C j.
Proof.
  intros Hq Np Nl Nh. apply hangq_xfer.
  - intros k Hk. now apply hg_hand.
  - intros x k Px (u & r & E & Mu & Hk). apply (hg_behind _ _ _ _ x); [exact Px|]. exists u, r.
    rewrite Hq; [now split|]. intro Heq. subst x. contradiction.
  - intros z k Lz Hk. apply (hg_leaf _ _ _ _ z); [exact Lz|]. rewrite Hq; [exact Hk|]. intro Heq. subst z. contradiction.
  - intros z k Hz' Hz Hk. apply (hg_sub _ _ _ _ z); [exact Hz'|]. rewrite Hq; [exact Hk|].
    intro Heq. subst z. contradiction.
Qed.

(* deeds appended at the end of any deque *)
Lemma hang_grow qf qf' Pr Lf C t add j :
  (forall z, z <> t -> qf' z = qf z) -> qf' t = qf t ++ add -> hangq qf Pr Lf C j -> hangq qf' Pr Lf C j.
Proof.
  intros Hq Ht.
  assert (In' : forall z k, In k (dids (qf z)) -> In k (dids (qf' z))).
  { intros z k Hk. destruct (N.eq_dec z t) as [Heq|Hne]; [subst z; rewrite Ht, dids_app; apply in_or_app; now left|now rewrite Hq]. }
  apply hangq_xfer.
  - intros k Hk. now apply hg_hand.
  - intros x k Px (u & r & E & Mu & Hk). apply (hg_behind _ _ _ _ x); [exact Px|].
    destruct (N.eq_dec x t) as [Heq|Hne].
    + subst x. exists u, (r ++ add). rewrite Ht, E, <- app_assoc. cbn [app]. split; [reflexivity|]. split; [exact Mu|].
      rewrite dids_app. apply in_or_app. now left.
    + exists u, r. rewrite Hq by exact Hne. now split.
  - intros z k Lz Hk. apply (hg_leaf _ _ _ _ z); [exact Lz|now apply In'].
  - intros z k Hz' _ Hk. apply (hg_sub _ _ _ _ z); [exact Hz'|now apply In'].
Qed.

(* deeds deleted from any deque, the deleted ones going into the hand *)
Lemma hang_filter qf qf' Pr Lf C C' t q j :
  (forall z, z <> t -> qf' z = qf z) -> qf' t = filter (keepf q) (qf t) ->
  incl C C' -> (forall k, In k (dids (qf t)) -> q k = false -> In k C') ->
  hangq qf Pr Lf C j -> hangq qf' Pr Lf C' j.
Proof.
  intros Hq Ht Hc Hd.
  assert (In' : forall z k, In k (dids (qf z)) -> In k (dids (qf' z)) \/ In k C').
  { intros z k Hk. destruct (N.eq_dec z t) as [Heq|Hne]; [|left; now rewrite Hq].
    subst z. destruct (q k) eqn:Qk; [left|right; now apply Hd]. rewrite Ht, dids_keepf. apply filter_In. now split. }
  apply hangq_xfer.
  - intros k Hk. apply hg_hand. now apply Hc.
  - intros x k Px (u & r & E & Mu & Hk). destruct (N.eq_dec x t) as [Heq|Hne].
    + subst x. destruct (q k) eqn:Qk.
      * apply (hg_behind _ _ _ _ t); [exact Px|]. exists (filter (keepf q) u), (filter (keepf q) r).
        rewrite Ht, E, filter_app. cbn [filter keepf]. split; [reflexivity|]. split; [now apply mf_filter|].
        rewrite dids_keepf. apply filter_In. now split.
      * apply hg_hand. apply Hd; [|exact Qk]. rewrite E, dids_app. apply in_or_app. right. exact Hk.
    + apply (hg_behind _ _ _ _ x); [exact Px|]. exists u, r. rewrite Hq by exact Hne. now split.
  - intros z k Lz Hk. destruct (In' z k Hk) as [Hi|Hi]; [now apply (hg_leaf _ _ _ _ z)|now apply hg_hand].
  - intros z k Hz' _ Hk. destruct (In' z k Hk) as [Hi|Hi]; [now apply (hg_sub _ _ _ _ z)|now apply hg_hand].
Qed.

(* a hand that starts executing: what hung from it hangs from its deque's members *)
Lemma hang_split_hand qf Pr Lf C i j :
  hangq qf Pr Lf (i :: C) j -> j = i \/ hangq qf Pr Lf (dids (qf i) ++ C) j.
Proof.
  intro Hg. induction Hg as [k Hk|x k Px B|y k Ly Hk|y k Hy IH Hk].
  - destruct Hk as [Hk|Hk]; [now left|right; apply hg_hand, in_or_app; now right].
  - right. now apply (hg_behind _ _ _ _ x).
  - right. now apply (hg_leaf _ _ _ _ y).
  - right. destruct IH as [Heq|IH]; [subst y; apply hg_hand, in_or_app; now left|now apply (hg_sub _ _ _ _ y)].
Qed.

(* the members of a never-processed deque need no other root *)
Lemma hang_leaf_roots qf Pr (Lf : id -> Prop) C i j : Lf i -> hangq qf Pr Lf (dids (qf i) ++ C) j -> hangq qf Pr Lf C j.
Proof.
  intro Li. apply hangq_xfer.
  - intros k Hk. apply in_app_or in Hk. destruct Hk as [Hk|Hk]; [now apply (hg_leaf _ _ _ _ i)|now apply hg_hand].
  - intros x k Px B. now apply (hg_behind _ _ _ _ x).
  - intros y k Ly Hk. now apply (hg_leaf _ _ _ _ y).
  - intros y k Hy _ Hk. now apply (hg_sub _ _ _ _ y).
Qed.

(* ---------- the trace property: no Recur of j before a new Enter of j ---------- *)

Variable j : id.

Definition is_recur_of (e : ev T) : bool := match e_kind e with Recur => N.eqb (e_id e) j | _ => false end.
Definition has_enter (l : list (ev T)) : Prop := exists e, In e l /\ is_enter_of j e = true.

Fixpoint nrbe (seg : list (ev T)) : Prop :=
  match seg with
  | [] => True
  | e :: older => nrbe older /\ (is_recur_of e = true -> has_enter older)
  end.

Lemma has_enter_app l1 l2 : has_enter l2 -> has_enter (l1 ++ l2).
Proof. intros (e & Hin & He). exists e. split; [apply in_or_app; now right|exact He]. Qed.

Lemma nrbe_app l1 l2 : nrbe l1 -> nrbe l2 -> nrbe (l1 ++ l2).
Proof.
  induction l1 as [|e l1 IH]; intros N1 N2; [exact N2|]. cbn [app nrbe] in *. destruct N1 as [N1 He].
  split; [now apply IH|]. intro R. destruct (He R) as (x & Hin & Hx). exists x. split; [apply in_or_app; now left|exact Hx].
Qed.

(* the consequence one reads: no Enter of j in the segment, then no Recur of j either *)
Lemma nrbe_no_enter seg : nrbe seg -> ~ has_enter seg -> forall e, In e seg -> is_recur_of e = false.
Proof.
  induction seg as [|x seg IH]; intros N Ne e Hin; [contradiction|]. cbn [nrbe] in N. destruct N as [N Hx].
  assert (Ne' : ~ has_enter seg).
  { intros (y & Hy & Ey). apply Ne. exists y. split; [now right|exact Ey]. }
  destruct Hin as [Heq|Hin]; [subst x|now apply IH].
  destruct (is_recur_of e) eqn:R; [exfalso; apply Ne'; now apply Hx|reflexivity].
Qed.

Definition entj a s : Prop := exists seg, trace s = seg ++ trace a /\ has_enter seg.
Definition NRj a s : Prop := exists seg, trace s = seg ++ trace a /\ nrbe seg.

Variables Pr Lf : id -> Prop.

Definition PJ a s (C : list id) : Prop :=
  NRj a s /\ (entj a s \/ startable s j = true \/ running s j \/ hang s Pr Lf C j).

Lemma entj_mono a s s' : entj a s -> (exists seg, trace s' = seg ++ trace s) -> entj a s'.
Proof.
  intros (seg & Tr & He) (seg2 & Tr2). exists (seg2 ++ seg). split; [now rewrite Tr2, Tr, app_assoc|now apply has_enter_app].
Qed.

Lemma pj_refl a C : (startable a j = true \/ running a j \/ hang a Pr Lf C j) -> PJ a a C.
Proof. intro Hs. split; [exists []; split; [reflexivity|exact Logic.I]|now right]. Qed.

Lemma pj_same a s s' C :
  trace s' = trace s -> get_gen s' j = get_gen s j -> (forall x, dq s' x = dq s x) -> PJ a s C -> PJ a s' C.
Proof.
  intros Ht Hg Hq [(seg & Tr & N) D]. split; [exists seg; split; [congruence|exact N]|].
  destruct D as [(sg & Tr' & He)|[St|[[pc R]|Hg']]].
  - left. exists sg. split; [congruence|exact He].
  - right; left. unfold startable in *. now rewrite Hg.
  - right; right; left. exists pc. now rewrite Hg.
  - right; right; right. unfold hang in *. eapply hangq_xfer; [| | | |exact Hg'].
    + intros k Hk. now apply hg_hand.
    + intros x k Px (u & r & E & Mu & Hk). apply (hg_behind _ _ _ _ x); [exact Px|]. exists u, r. rewrite Hq. now split.
    + intros y k Ly Hk. apply (hg_leaf _ _ _ _ y); [exact Ly|]. now rewrite Hq.
    + intros y k Hy _ Hk. apply (hg_sub _ _ _ _ y); [exact Hy|]. now rewrite Hq.
Qed.
Lemma pj_done a s C i d : PJ a s C -> PJ a (set_done s i d) C.
Proof. intro P. apply (pj_same a s); [reflexivity|reflexivity|intro; reflexivity|exact P]. Qed.

(* an event that is not a Recur of j *)
Lemma pj_emit a s C k i : (k = Recur -> i = j -> entj a s) -> PJ a s C -> PJ a (emit s k i) C.
Proof.
  intros Hk [(seg & Tr & N) D]. split.
  - eexists (_ :: seg). split; [cbn [trace emit]; now rewrite Tr|]. cbn [nrbe]. split; [exact N|].
    unfold is_recur_of. cbn [e_kind e_id]. intro R. destruct k; try discriminate. apply N.eqb_eq in R.
    destruct (Hk eq_refl R) as (sg & Tr' & He). rewrite Tr in Tr'. apply app_inv_tail in Tr'. now subst sg.
  - destruct D as [E|[St|[R|Hg]]].
    + left. eapply entj_mono; [exact E|]. now eexists [_].
    + right; now left.
    + right; right; now left.
    + right; right; now right.
Qed.

Lemma pj_enter a s C g : NRj a s -> PJ a (emit (set_gen s j g) Enter j) C /\ entj a (emit (set_gen s j g) Enter j).
Proof.
  intros (seg & Tr & N).
  assert (E : entj a (emit (set_gen s j g) Enter j)).
  { eexists (_ :: seg). split; [cbn [trace emit set_gen]; now rewrite Tr|].
    eexists. split; [now left|]. unfold is_enter_of. cbn [e_kind e_id]. apply N.eqb_refl. }
  split; [|exact E]. split; [|now left].
  eexists (_ :: seg). split; [cbn [trace emit set_gen]; now rewrite Tr|]. cbn [nrbe]. split; [exact N|discriminate].
Qed.

(* generator updates *)
Lemma pj_gen_other a s C i g : i <> j -> PJ a s C -> PJ a (set_gen s i g) C.
Proof.
  intros Hne P. apply (pj_same a s); [reflexivity|apply gen_set_gen_other; congruence|intro; reflexivity|exact P].
Qed.
Lemma pj_gen_j a s C g : (forall pc, g = GSusp pc -> entj a s) -> PJ a s C -> PJ a (set_gen s j g) C.
Proof.
  intros Hg [N D]. split; [exact N|].
  destruct g as [|pc|pc|].
  - right; left. unfold startable. now rewrite gen_set_gen_same.
  - left. exact (Hg pc eq_refl).
  - right; right; left. exists pc. apply gen_set_gen_same.
  - right; left. unfold startable. now rewrite gen_set_gen_same.
Qed.
Lemma pj_gen a s C i g : (i = j -> forall pc, g = GSusp pc -> entj a s) -> PJ a s C -> PJ a (set_gen s i g) C.
Proof.
  intros Hg P. destruct (N.eq_dec i j) as [Heq|Hne]; [subst i; apply pj_gen_j; [exact (Hg eq_refl)|exact P]|now apply pj_gen_other].
Qed.

(* deque updates: the hang disjunct is transported by the given function *)
Lemma pj_sched a s C C' y c' :
  (hang s Pr Lf C j -> hang (set_sched s y c') Pr Lf C' j) -> PJ a s C -> PJ a (set_sched s y c') C'.
Proof.
  intros Hh [N D]. split; [exact N|]. destruct D as [E|[St|[R|Hg]]]; [now left|right; now left|right; right; now left|].
  right; right; right. now apply Hh.
Qed.

Lemma pj_incl a s C C' : incl C C' -> PJ a s C -> PJ a s C'.
Proof.
  intros Hc [N D]. split; [exact N|]. destruct D as [E|[St|[R|Hg]]]; [now left|right; now left|right; right; now left|].
  right; right; right. now apply (hang_incl _ _ _ C).
Qed.

End Shelter.

(* ================================================================== *)
Section ShelterAll.
Context {T : Type} `{Time T}.
Implicit Types s a b : st T.
Variable tk : T.
Variable j : id.
Variable Pr : id -> Prop.
Variable d : amap (fdef T).

(* deques that are never processed: of leaves and of undefined ids *)
Definition Lf (i : id) : Prop := isnest d i = false /\ i <> 0%N.
Hypothesis Dj : get d j <> None.
Hypothesis D0 : get d 0%N = None.

Definition HP s : Prop := (forall x, Pr x -> prot s x) /\ defs s = d /\ ~ is_susp s 0%N.

Lemma hp_same s s' : (forall x, get_gen s' x = get_gen s x) -> defs s' = defs s -> HP s -> HP s'.
Proof.
  intros Hg Hd (P & D & Z). split; [intros x Px; apply (prot_same s); [exact Hg|exact Hd|now apply P]|]. split; [congruence|].
  intros [pc S]. apply Z. exists pc. now rewrite <- Hg.
Qed.
Lemma hp_gen s i g : ~ Pr i -> get (defs s) i <> None -> HP s -> HP (set_gen s i g).
Proof.
  intros Np Di (P & D & Z). split; [|split; [exact D|]].
  - intros x Px. apply prot_gen; [|now apply P]. intro Heq. subst. contradiction.
  - intros [pc S]. apply Z. exists pc. rewrite gen_set_gen_other in S; [exact S|]. intro Heq. subst i. rewrite D, D0 in Di. now apply Di.
Qed.
Lemma hp_steps s s' : steps s s' -> (forall x, Pr x -> prot s x -> prot s' x) -> get_gen s' 0%N = get_gen s 0%N -> HP s -> HP s'.
Proof.
  intros St K G0 (P & D & Z). split; [intros x Px; apply K; [exact Px|now apply P]|]. split; [now rewrite (steps_defs _ _ St)|].
  intros [pc S]. apply Z. exists pc. now rewrite <- G0.
Qed.

Lemma hp_all f :
  (forall s i s' r, HP s -> gen_start tk f s i = (s', r) -> HP s') /\
  (forall s i k sc pc s' r, HP s -> ~ Pr i -> i <> 0%N -> run_step tk f s i k sc pc = (s', r) -> HP s') /\
  (forall s i s' r, HP s -> gen_send tk f s i = (s', r) -> HP s') /\
  (forall s i, HP s -> HP (gen_close tk f s i)) /\
  (forall s i, HP s -> HP (close_own tk f s i)) /\
  (forall s ds, HP s -> HP (close_list tk f s ds)) /\
  (forall s sid ids s' r, HP s -> enter_own tk f s sid ids = (s', r) -> HP s') /\
  (forall s ids acc s' r acc', HP s -> enter_local tk f s ids acc = (s', r, acc') -> HP s') /\
  (forall s c es s' r, HP s -> run_effects tk f s c es = (s', r) -> HP s') /\
  (forall s sid s' r, HP s -> recur_pass tk f s sid = (s', r) -> HP s') /\
  (forall s sid s' r, HP s -> recur_loop tk f s sid = (s', r) -> HP s').
Proof.
  destruct (frame_all tk f) as (Fst & Frs & Fsd & Fcl & Fco & Fli & Feo & Fel & Fef & Frp & Frl).
  destruct (z_all tk d D0 f) as (Zst & Zrs & Zsd & Zcl & Zco & Zli & Zeo & Zel & Zef & Zrp & Zrl).
  assert (ZR : forall s, HP s -> Z0 d s s) by (intros s (_ & D & _); split; [reflexivity|exact D]).
  repeat match goal with |- _ /\ _ => split end; intros.
  - apply (hp_steps s s'); [eauto using st_refl| |exact (proj1 (Zst s s i s' r (ZR s H0) H1))|eassumption].
    intros x Hx Px. destruct (prot_more tk f x) as (K & _). eapply K; eassumption.
  - apply (hp_steps s s'); [eauto using st_refl| |exact (proj1 (Zrs s s i k sc pc s' r (ZR s H0) H2 H3))|eassumption].
    intros x Hx Px. destruct (prot_all tk f x) as (K & _). eapply K; [exact Px| |eassumption].
    intro Heq. subst x. contradiction.
  - apply (hp_steps s s'); [eauto using st_refl| |exact (proj1 (Zsd s s i s' r (ZR s H0) H1))|eassumption].
    intros x Hx Px. destruct (prot_all tk f x) as (_ & K & _). eapply K; eassumption.
  - apply (hp_steps s (gen_close tk f s i)); [apply Fcl, st_refl| |exact (proj1 (Zcl s s i (ZR s H0)))|eassumption].
    intros x Hx Px. destruct (prot_all tk f x) as (_ & _ & K & _). now apply K.
  - apply (hp_steps s (close_own tk f s i)); [apply Fco, st_refl| |exact (proj1 (Zco s s i (ZR s H0)))|eassumption].
    intros x Hx Px. destruct (prot_all tk f x) as (_ & _ & _ & K & _). now apply K.
  - apply (hp_steps s (close_list tk f s ds)); [apply Fli, st_refl| |exact (proj1 (Zli s s ds (ZR s H0)))|eassumption].
    intros x Hx Px. destruct (prot_all tk f x) as (_ & _ & _ & _ & K & _). now apply K.
  - apply (hp_steps s s'); [eauto using st_refl| |exact (proj1 (Zeo s s sid ids s' r (ZR s H0) H1))|eassumption].
    intros x Hx Px. destruct (prot_more tk f x) as (_ & K & _). eapply K; eassumption.
  - apply (hp_steps s s'); [eauto using st_refl| |exact (proj1 (Zel s s ids acc s' r acc' (ZR s H0) H1))|eassumption].
    intros x Hx Px. destruct (prot_more tk f x) as (_ & _ & K). eapply K; eassumption.
  - apply (hp_steps s s'); [eauto using st_refl| |exact (proj1 (Zef s s c es s' r (ZR s H0) H1))|eassumption].
    intros x Hx Px. destruct (prot_all tk f x) as (_ & _ & _ & _ & _ & K & _). eapply K; eassumption.
  - apply (hp_steps s s'); [eauto using st_refl| |exact (proj1 (Zrp s s sid s' r (ZR s H0) H1))|eassumption].
    intros x Hx Px. destruct (prot_all tk f x) as (_ & _ & _ & _ & _ & _ & K & _). eapply K; eassumption.
  - apply (hp_steps s s'); [eauto using st_refl| |exact (proj1 (Zrl s s sid s' r (ZR s H0) H1))|eassumption].
    intros x Hx Px. destruct (prot_all tk f x) as (_ & _ & _ & _ & _ & _ & _ & K). eapply K; eassumption.
Qed.

Lemma np_start s i : HP s -> startable s i = true -> get (defs s) i <> None -> ~ Pr i.
Proof. intros [P _] St D Px. exact (prot_ne_start s i i (P i Px) St D eq_refl). Qed.
Lemma np_susp s i pc : HP s -> get_gen s i = GSusp pc -> get (defs s) i <> None -> ~ Pr i.
Proof. intros [P _] G D Px. exact (prot_ne s i i pc (P i Px) G D eq_refl). Qed.

Notation PJ' := (PJ j Pr Lf).

(* i starts executing from a hand: what hung from it now hangs from its deque *)
Lemma pj_hand_run a s C i pc : PJ' a s (i :: C) -> PJ' a (set_gen s i (GRun pc)) (qids s i ++ C).
Proof.
  intros [N D]. split; [exact N|].
  destruct D as [E|[St|[R|Hg]]].
  - now left.
  - destruct (N.eq_dec i j) as [Heq|Hne].
    + subst i. right; right; left. exists pc. apply gen_set_gen_same.
    + right; left. unfold startable. rewrite gen_set_gen_other by congruence. exact St.
  - destruct (N.eq_dec i j) as [Heq|Hne].
    + subst i. right; right; left. exists pc. apply gen_set_gen_same.
    + right; right; left. destruct R as [pc' R]. exists pc'. rewrite gen_set_gen_other by congruence. exact R.
  - destruct (hang_split_hand _ _ _ _ _ _ Hg) as [Heq|Hg'].
    + subst i. right; right; left. exists pc. apply gen_set_gen_same.
    + right; right; right. exact Hg'.
Qed.

Lemma pj_leaf_roots a s C i : Lf i -> PJ' a s (qids s i ++ C) -> PJ' a s C.
Proof.
  intros Li [N D]. split; [exact N|]. destruct D as [E|[St|[R|Hg]]]; [now left|right; now left|right; right; now left|].
  right; right; right. now apply (hang_leaf_roots _ _ _ _ i).
Qed.

(* the deque of an executing DoDoer that is not protected is irrelevant *)
Lemma pj_irrel a s C E y c' :
  Hold2 s E -> (forall k, In k C -> is_susp s k) -> running s y -> ~ Pr y -> isnest d y = true ->
  PJ' a s C -> PJ' a (set_sched s y c') C.
Proof.
  intros Hh Hc R Np Ny. apply pj_sched. intro Hg. unfold hang in *.
  apply (hang_irrel (dq s) _ Pr Lf C y); [| | | |exact Hg].
  - intros z Hz. now apply dq_set_other.
  - exact Np.
  - unfold Lf. intros [Hl _]. congruence.
  - eapply (hang_not_running s); eassumption.
Qed.
Lemma pj_irrel_deeds a s C E y l :
  Hold2 s E -> (forall k, In k C -> is_susp s k) -> running s y -> ~ Pr y -> isnest d y = true ->
  PJ' a s C -> PJ' a (set_deeds s y l) C.
Proof. intros. unfold set_deeds. eapply pj_irrel; eassumption. Qed.

(* Recur of i can be emitted: i is in hand, so it does not hang *)
Lemma pj_recur a s C X i pc :
  Hold2 s (i :: X) -> incl C X -> get_gen s i = GSusp pc -> PJ' a s C ->
  PJ' a (emit (set_gen s i (GRun pc)) Recur i) C /\ (i = j -> entj j a (emit (set_gen s i (GRun pc)) Recur i)).
Proof.
  intros Hh Hc G P.
  assert (Ej : i = j -> entj j a s).
  { intro Heq. subst i. destruct P as [_ [E|[St|[[pc' R]|Hg]]]]; [exact E| | |].
    - unfold startable in St. rewrite G in St. discriminate.
    - congruence.
    - exfalso. eapply hang_hand_false; eassumption. }
  split.
  - apply pj_emit; [intros _ Heq; exact (Ej Heq)|]. apply pj_gen; [intros _ pc' Hx; discriminate|exact P].
  - intro Heq. eapply entj_mono; [exact (Ej Heq)|]. now eexists [_].
Qed.

Lemma pj_start a s C i : PJ' a s C ->
  PJ' a (emit (set_gen s i (GRun 0)) Enter i) C /\ (i = j -> entj j a (emit (set_gen s i (GRun 0)) Enter i)).
Proof.
  intros P. destruct (N.eq_dec i j) as [Heq|Hne].
  - subst i. destruct (pj_enter j Pr Lf a s C (GRun 0) (proj1 P)) as [P1 E1]. split; [exact P1|intros _; exact E1].
  - split; [|congruence]. apply pj_emit; [discriminate|]. now apply pj_gen_other.
Qed.

Lemma pj_drop_undefined a s C i : get (defs s) i = None -> HP s -> is_susp s i -> PJ' a s (i :: C) -> PJ' a s C.
Proof.
  intros D (_ & Dd & Z) Sz [N Dj']. split; [exact N|]. destruct Dj' as [E|[St|[R|Hg]]]; [now left|right; now left|right; right; now left|].
  destruct (N.eq_dec i 0) as [Hz|Hz].
  { (* the hand 0 is suspended (Hold2), impossible *) subst i. exfalso. exact (Z Sz). }
  assert (Li : Lf i) by (split; [unfold isnest; rewrite <- Dd, D; reflexivity|exact Hz]).
  destruct (hang_split_hand _ _ _ _ _ _ Hg) as [Heq|Hg'].
  - subst i. rewrite Dd in D. contradiction.
  - right; right; right. now apply (hang_leaf_roots _ _ _ _ i).
Qed.

Lemma in_rdeeds (rd : list id) (ds : list (deed T)) k :
  In k (dids ds) -> memN k rd = true -> In k (dids (rev (filter (is_rem rd) (unrotate ds)))).
Proof.
  intros Hk M. apply dids_rev_in. apply dids_in in Hk. destruct Hk as [re Hd]. apply dids_in. exists re.
  apply filter_In. split; [apply unrotate_in; [discriminate|exact Hd]|exact M].
Qed.

Definition shel_at (f : nat) : Prop :=
  (forall a s X C i s' r, HP s -> Hold2 s X -> incl C X -> PJ' a s C ->
       gen_start tk f s i = (s', r) -> oof s' = false -> PJ' a s' C) /\
  (forall a s X C i k sc pc s' r, HP s -> Hold2 s X -> incl C X -> ~ Pr i -> (i = j -> entj j a s) -> PJ' a s C ->
       run_step tk f s i k sc pc = (s', r) -> oof s' = false -> PJ' a s' C) /\
  (forall a s X C i s' r, HP s -> Hold2 s (i :: X) -> incl C X -> PJ' a s C ->
       gen_send tk f s i = (s', r) -> oof s' = false -> PJ' a s' C) /\
  (forall a s X C i, HP s -> Hold2 s (i :: X) -> incl C X -> PJ' a s (i :: C) ->
       oof (gen_close tk f s i) = false -> PJ' a (gen_close tk f s i) C) /\
  (forall a s X C sid, HP s -> Hold2 s X -> incl C X -> running s sid -> ~ Pr sid -> isnest d sid = true ->
       PJ' a s (qids s sid ++ C) -> oof (close_own tk f s sid) = false -> PJ' a (close_own tk f s sid) C) /\
  (forall a s X C (ds : list (deed T)), HP s -> Hold2 s (dids ds ++ X) -> incl C X -> PJ' a s (dids ds ++ C) ->
       oof (close_list tk f s ds) = false -> PJ' a (close_list tk f s ds) C) /\
  (forall a s X C sid ids s' r, HP s -> Hold2 s X -> incl C X -> running s sid -> ~ Pr sid -> isnest d sid = true ->
       PJ' a s C -> enter_own tk f s sid ids = (s', r) -> oof s' = false -> PJ' a s' C) /\
  (forall a s X C ids (acc : list (deed T)) s' r acc', HP s -> Hold2 s (dids acc ++ X) -> incl C X -> PJ' a s C ->
       enter_local tk f s ids acc = (s', r, acc') -> oof s' = false -> PJ' a s' C) /\
  (forall a s X C c es s' r, HP s -> Hold2 s X -> incl C X -> PJ' a s C ->
       run_effects tk f s c es = (s', r) -> oof s' = false -> PJ' a s' C) /\
  (forall a s X C sid s' r, HP s -> Hold2 s X -> incl C X -> running s sid -> ~ Pr sid -> isnest d sid = true ->
       PJ' a s C -> recur_pass tk f s sid = (s', r) -> oof s' = false -> PJ' a s' C) /\
  (forall a s X C sid s' r, HP s -> Hold2 s X -> incl C X -> running s sid -> ~ Pr sid -> isnest d sid = true ->
       PJ' a s C -> recur_loop tk f s sid = (s', r) -> oof s' = false -> PJ' a s' C).

Lemma isnest_of s i t0 al kids : HP s -> get (defs s) i = Some (FNest t0 al kids) -> isnest d i = true.
Proof. intros (_ & D & _) G. unfold isnest. rewrite <- D, G. reflexivity. Qed.
Lemma lf_of_leaf s i k sc : HP s -> get (defs s) i = Some (FLeaf k sc) -> Lf i.
Proof.
  intros (_ & D & _) G. split; [unfold isnest; rewrite <- D, G; reflexivity|].
  intro Heq. subst i. rewrite D, D0 in G. discriminate.
Qed.
Lemma ne0_of s i x : HP s -> get (defs s) i = Some x -> i <> 0%N.
Proof. intros (_ & D & _) G Heq. subst i. rewrite D, D0 in G. discriminate. Qed.

Lemma incl_cons_r (C X : list id) i : incl C X -> incl C (i :: X).
Proof. intros Hc k Hk. right. now apply Hc. Qed.
Lemma incl_app_r (C X L : list id) : incl C X -> incl C (L ++ X).
Proof. intros Hc k Hk. apply in_or_app. right. now apply Hc. Qed.
Lemma incl_app_both (C X L : list id) : incl C X -> incl (L ++ C) (L ++ X).
Proof. intros Hc k Hk. apply in_app_or in Hk. apply in_or_app. destruct Hk; [now left|right; now apply Hc]. Qed.

Lemma shelter_all : forall f, shel_at f.
Proof.
  induction f as [|f IH].
  - unfold shel_at. repeat match goal with |- _ /\ _ => split end; intros;
      try match goal with E : _ = (_, _) |- _ => cbn in E; inversion E; subst; clear E end;
      try match goal with E : _ = (_, _, _) |- _ => cbn in E; inversion E; subst; clear E end;
      match goal with O : oof _ = false |- _ => cbn in O; discriminate end.
  - destruct IH as (Ist & Irs & Isd & Icl & Ico & Ili & Ieo & Iel & Ief & Irp & Irl).
    destruct (hp_all f) as (Pst & Prs & Psd & Pcl & Pco & Pli & Peo & Pel & Pef & Prp & Prl).
    destruct (hold2_all tk f) as (Hst & Hrs & Hsd & Hcl & Hco & Hli & Heo & Hel & Hef & Hrp & Hrl).
    destruct (ob_all tk f) as (Brs & Bsd & Bcl & Bco & Bli & Bef & Brp & Brl).
    destruct (frame_all tk f) as (Fst & Frs & Fsd & Fcl & Fco & Fli & Feo & Fel & Fef & Frp & Frl).
    (* the ending of a DoDoer's generator *)
    assert (NestEnd : forall a s3 X C i, HP s3 -> Hold2 s3 X -> incl C X -> running s3 i -> ~ Pr i -> isnest d i = true ->
              PJ' a s3 (qids s3 i ++ C) -> oof (set_gen (emit (close_own tk f s3 i) Exit i) i GDone) = false ->
              PJ' a (set_gen (emit (close_own tk f s3 i) Exit i) i GDone) C).
    { intros a s3 X C i P3 H3 Hc R3 Np Ni J3 O. change (oof (close_own tk f s3 i) = false) in O.
      apply pj_gen; [intros _ pc Hx; discriminate|]. apply pj_emit; [discriminate|].
      eapply (Ico a s3 X C i); eassumption. }
    assert (Wide : forall a s3 C i, PJ' a s3 C -> PJ' a s3 (qids s3 i ++ C)).
    { intros a s3 C i J3. eapply pj_incl; [|exact J3]. intros k Hk. apply in_or_app. now right. }
    unfold shel_at. repeat match goal with |- _ /\ _ => split end.
    + (* gen_start *)
      intros a s X C i s' r P Hh Hc J E O. rewrite gen_start_S in E.
      destruct (startable s i) eqn:St; cbn [negb] in E; [|fin; exact J].
      destruct (get (defs s) i) as [[k sc|t0 al kids]|] eqn:D; [| |fin; exact J].
      * assert (Np : ~ Pr i) by (eapply np_start; [exact P|exact St|congruence]).
        destruct (pj_start a s C i J) as [J1 E1].
        eapply (Irs a _ X C); [| | | | | |exact E|exact O]; [|apply hold2_emit; now apply g2_start|exact Hc|exact Np|exact E1|exact J1].
        apply (hp_same (set_gen s i (GRun 0))); [reflexivity|reflexivity|apply hp_gen; [exact Np|rewrite D; discriminate|exact P]].
      * assert (Np : ~ Pr i) by (eapply np_start; [exact P|exact St|congruence]).
        assert (Ni : isnest d i = true) by (eapply isnest_of; eassumption).
        cbv zeta in E. destruct (pj_start a s C i J) as [J1 E1].
        set (s1 := emit (set_gen s i (GRun 0)) Enter i) in *.
        assert (P1 : HP s1) by (apply (hp_same (set_gen s i (GRun 0))); [reflexivity|reflexivity|apply hp_gen; [exact Np|rewrite D; discriminate|exact P]]).
        assert (H1 : Hold2 s1 X) by (apply hold2_emit; now apply g2_start).
        assert (R1 : running s1 i) by (exists 0%nat; apply gen_set_gen_same).
        destruct (enter_own tk f s1 i _) as [s2 r0] eqn:Ee.
        assert (O2 : oof s2 = false).
        { destruct r0; fin; try exact O. apply Bco in O. destruct kbd; exact O. }
        assert (J2 : PJ' a s2 C) by (eapply (Ieo a s1 X C i); eassumption).
        assert (H2 : Hold2 s2 X) by (destruct (Heo s1 X i _ s2 r0 (or_intror H1) Ee) as [Ob|Hx]; [congruence|exact Hx]).
        assert (P2 : HP s2) by (eapply Peo; eassumption).
        assert (R2 : running s2 i) by (destruct (keep_all tk f i) as (_ & _ & _ & K & _); eapply K; eassumption).
        assert (E2 : i = j -> entj j a s2).
        { intro Heq. eapply entj_mono; [exact (E1 Heq)|]. apply steps_trace. eapply Feo; [apply st_refl|exact Ee]. }
        destruct r0; fin; try exact J2.
        -- apply pj_gen; [intros Heq pc Hx; exact (E2 Heq)|exact J2].
        -- apply pj_gen; [intros Heq pc Hx; exact (E2 Heq)|exact J2].
        -- apply (NestEnd a _ X C i); try assumption.
           ++ destruct kbd; [exact P2|apply (hp_same s2); [reflexivity|reflexivity|exact P2]].
           ++ destruct kbd; [exact H2|apply hold2_emit; exact H2].
           ++ destruct kbd; exact R2.
           ++ apply Wide. destruct kbd; [exact J2|apply pj_emit; [discriminate|exact J2]].
    + (* run_step *)
      intros a s X C i k sc pc s' r P Hh Hc Np Ej J E O. rewrite run_step_S in E. cbv zeta in E.
      destruct (run_effects tk f s i _) as [s1 r0] eqn:Ee.
      assert (O1 : oof s1 = false).
      { destruct r0; [| |destruct kbd|]; cbv beta iota zeta in E; try (destruct (f_out _)); fin; exact O. }
      assert (J1 : PJ' a s1 C) by (eapply (Ief a s X C); eassumption).
      assert (E1 : i = j -> entj j a s1).
      { intro Heq. eapply entj_mono; [exact (Ej Heq)|]. apply steps_trace. eapply Fef; [apply st_refl|exact Ee]. }
      destruct r0; [| |destruct kbd|]; cbv beta iota zeta in E; try (destruct (f_out _)); fin; try exact J1;
        repeat first [exact J1 | apply pj_done | (apply pj_emit; [discriminate|])
                     | (apply pj_gen; [intros Heq pc0 Hx; try discriminate; exact (E1 Heq)|])].
    + (* gen_send *)
      intros a s X C i s' r P Hh Hc J E O. rewrite gen_send_S in E.
      destruct (susp_of_head s i X Hh) as [pc G]. rewrite G in E.
      destruct (get (defs s) i) as [[k sc|t0 al kids]|] eqn:D; [| |fin; exact J].
      * assert (Np : ~ Pr i) by (eapply np_susp; [exact P|exact G|congruence]).
        destruct (pj_recur a s C X i pc Hh Hc G J) as [J1 E1].
        eapply (Irs a _ X C); [| | | | | |exact E|exact O]; [|apply hold2_emit; now apply g2_resume|exact Hc|exact Np|exact E1|exact J1].
        apply (hp_same (set_gen s i (GRun pc))); [reflexivity|reflexivity|apply hp_gen; [exact Np|rewrite D; discriminate|exact P]].
      * assert (Np : ~ Pr i) by (eapply np_susp; [exact P|exact G|congruence]).
        assert (Ni : isnest d i = true) by (eapply isnest_of; eassumption).
        cbv zeta in E. destruct (pj_recur a s C X i pc Hh Hc G J) as [J1 E1].
        set (s1 := emit (set_gen s i (GRun pc)) Recur i) in *.
        assert (P1 : HP s1) by (apply (hp_same (set_gen s i (GRun pc))); [reflexivity|reflexivity|apply hp_gen; [exact Np|rewrite D; discriminate|exact P]]).
        assert (H1 : Hold2 s1 X) by (apply hold2_emit; now apply g2_resume).
        assert (R1 : running s1 i) by (exists pc; apply gen_set_gen_same).
        destruct (recur_pass tk f s1 i) as [s2 r0] eqn:Ee.
        assert (O2 : oof s2 = false).
        { destruct r0; cbv beta iota zeta in E;
            try (match type of E with (if ?c then _ else _) = _ => destruct c end); fin; try exact O;
            try (apply Bco in O; exact O). apply Bco in O. destruct kbd; exact O. }
        assert (J2 : PJ' a s2 C) by (eapply (Irp a s1 X C i); eassumption).
        assert (H2 : Hold2 s2 X) by (destruct (Hrp s1 X i s2 r0 (or_intror H1) Ee) as [Ob|Hx]; [congruence|exact Hx]).
        assert (P2 : HP s2) by (eapply Prp; eassumption).
        assert (R2 : running s2 i) by (destruct (keep_all tk f i) as (_ & _ & _ & _ & _ & _ & K); eapply K; eassumption).
        assert (E2 : i = j -> entj j a s2).
        { intro Heq. eapply entj_mono; [exact (E1 Heq)|]. apply steps_trace. eapply Frp; [apply st_refl|exact Ee]. }
        destruct r0; cbv beta iota zeta in E.
        -- match type of E with (if ?c then _ else _) = _ => destruct c end; fin.
           ++ apply (NestEnd a _ X C i); try assumption; try (apply (hp_same s2); [reflexivity|reflexivity|exact P2]).
              apply Wide; apply pj_emit; [discriminate|apply pj_done; exact J2].
           ++ apply pj_gen; [intros Heq pc0 Hx; exact (E2 Heq)|apply pj_done; exact J2].
        -- match type of E with (if ?c then _ else _) = _ => destruct c end; fin.
           ++ apply (NestEnd a _ X C i); try assumption; try (apply (hp_same s2); [reflexivity|reflexivity|exact P2]).
              apply Wide; apply pj_emit; [discriminate|apply pj_done; exact J2].
           ++ apply pj_gen; [intros Heq pc0 Hx; exact (E2 Heq)|apply pj_done; exact J2].
        -- fin. apply (NestEnd a _ X C i); try assumption.
           ++ destruct kbd; [exact P2|apply (hp_same s2); [reflexivity|reflexivity|exact P2]].
           ++ destruct kbd; [exact H2|apply hold2_emit; exact H2].
           ++ destruct kbd; exact R2.
           ++ apply Wide. destruct kbd; [exact J2|apply pj_emit; [discriminate|exact J2]].
        -- fin. exact J2.
    + (* gen_close *)
      intros a s X C i P Hh Hc J O. rewrite gen_close_S in *.
      destruct (susp_of_head s i X Hh) as [pc G]. rewrite G in *.
      destruct (get (defs s) i) as [[k sc|t0 al kids]|] eqn:D.
      * (* leaf: whatever is in its deque is never processed *)
        apply pj_gen; [intros _ pc0 Hx; discriminate|]. apply pj_emit; [discriminate|]. apply pj_emit; [discriminate|].
        apply (pj_leaf_roots a _ C i); [eapply lf_of_leaf; eassumption|]. exact (pj_hand_run a s C i pc J).
      * cbv zeta in *.
        assert (Np : ~ Pr i) by (eapply np_susp; [exact P|exact G|congruence]).
        apply (NestEnd a _ X C i); try assumption.
        -- apply (hp_same (set_gen s i (GRun pc))); [reflexivity|reflexivity|apply hp_gen; [exact Np|rewrite D; discriminate|exact P]].
        -- apply hold2_emit. now apply g2_resume.
        -- exists pc. apply gen_set_gen_same.
        -- eapply isnest_of; eassumption.
        -- (* roots: the members of its deque *)
           apply pj_emit; [discriminate|]. exact (pj_hand_run a s C i pc J).
      * (* undefined id: cannot be j; whatever hangs from it is never processed *)
        apply (pj_drop_undefined a s C i D P (ex_intro _ pc G) J).
    + (* close_own *)
      intros a s X C sid P Hh Hc R Np Ni J O. rewrite close_own_S in *. cbv zeta in *.
      apply (Ili a _ X C); [| |exact Hc| |exact O].
      * apply (hp_same s); [reflexivity|reflexivity|exact P].
      * apply hold2_clear. exact Hh.
      * eapply pj_incl; [|eapply (pj_irrel_deeds a s (qids s sid ++ C) X sid []); [exact Hh| |exact R|exact Np|exact Ni|exact J]].
        -- intros k Hk. apply in_app_or in Hk. apply in_or_app. destruct Hk as [Hk|Hk]; [left|now right].
           apply dids_rev_in, dids_unrotate_in. exact Hk.
        -- intros k Hk. apply in_app_or in Hk. destruct Hk as [Hk|Hk].
           ++ apply (h2_susp _ _ _ Hh). right. now exists sid.
           ++ eapply susp_of_incl; eassumption.
    + (* close_list *)
      intros a s X C ds P Hh Hc J O. rewrite close_list_S in *. destruct ds as [|[|i re] r].
      * exact J.
      * eapply (Ili a s X C r); eassumption.
      * assert (O1 : oof (gen_close tk f s i) = false) by (eapply Bli; exact O).
        apply (Ili a _ X C r); [now apply Pcl| |exact Hc| |exact O].
        -- destruct (Hcl s (dids r ++ X) i (or_intror Hh)) as [Ob|Hx]; [congruence|exact Hx].
        -- apply (Icl a s (dids r ++ X) (dids r ++ C) i); [exact P|exact Hh|now apply incl_app_both|exact J|exact O1].
    + (* enter_own *)
      intros a s X C sid ids s' r P Hh Hc R Np Ni J E O. rewrite enter_own_S in E.
      destruct ids as [|i rest]; [fin; exact J|]. cbv zeta in E.
      set (s0 := set_done s i (Some false)) in *.
      destruct (gen_start tk f s0 i) as [s1 r0] eqn:Eg.
      assert (O1 : oof s1 = false).
      { destruct r0; fin; try exact O; exact (oof_back_steps _ _ (Feo _ _ _ _ _ _ (st_refl _) E) O). }
      assert (P0 : HP s0) by (apply (hp_same s); [reflexivity|reflexivity|exact P]).
      assert (J1 : PJ' a s1 C) by (eapply (Ist a s0 X C i); [exact P0|exact Hh|exact Hc|apply pj_done; exact J|exact Eg|exact O1]).
      assert (H1 : Hold2 s1 (eout r0 i X)) by (destruct (Hst s0 X i s1 r0 (or_intror Hh) Eg) as [Ob|Hx]; [congruence|exact Hx]).
      assert (P1 : HP s1) by (eapply Pst; eassumption).
      assert (R1 : running s1 sid) by (destruct (keep_all tk f sid) as (K & _); eapply K; [|exact Eg]; exact R).
      destruct r0; fin; try exact J1.
      * cbn [eout] in H1. eapply (Ieo a _ X C sid); [| |exact Hc| |exact Np|exact Ni| |exact E|exact O].
        -- apply (hp_same s1); [reflexivity|reflexivity|exact P1].
        -- apply (hold2_append s1 sid [DDeed i (tyme s1)] X). exact H1.
        -- exact R1.
        -- eapply (pj_irrel_deeds a s1 C (i :: X)); [exact H1| |exact R1|exact Np|exact Ni|exact J1].
           eapply susp_of_incl; [exact H1|now apply incl_cons_r].
      * eapply (Ieo a s1 X C sid); eassumption.
    + (* enter_local *)
      intros a s X C ids acc s' r acc' P Hh Hc J E O. rewrite enter_local_S in E.
      destruct ids as [|i rest]; [fin; exact J|]. cbv zeta in E.
      set (s0 := set_done s i (Some false)) in *.
      destruct (gen_start tk f s0 i) as [s1 r0] eqn:Eg.
      assert (O1 : oof s1 = false).
      { destruct r0; fin; try exact O.
        - exact (oof_back_steps _ _ (Fel _ _ _ _ _ _ _ (st_refl _) E) O).
        - exact (oof_back_steps _ _ (Fel _ _ _ _ _ _ _ (st_refl _) E) O).
        - eapply Bli; exact O. }
      assert (P0 : HP s0) by (apply (hp_same s); [reflexivity|reflexivity|exact P]).
      assert (J1 : PJ' a s1 C).
      { eapply (Ist a s0 (dids acc ++ X) C i); [exact P0|exact Hh|now apply incl_app_r|apply pj_done; exact J|exact Eg|exact O1]. }
      assert (H1 : Hold2 s1 (eout r0 i (dids acc ++ X))).
      { destruct (Hst s0 (dids acc ++ X) i s1 r0 (or_intror Hh) Eg) as [Ob|Hx]; [congruence|exact Hx]. }
      assert (P1 : HP s1) by (eapply Pst; eassumption).
      destruct r0; fin; try exact J1.
      * eapply (Iel a s1 X C); [exact P1| |exact Hc|exact J1|exact E|exact O].
        eapply hold2_perm; [|exact H1]. intro x. cbn [eout]. rewrite dids_app, !cnt_app, cnt_cons, cnt_app. cbn.
        destruct (N.eq_dec i x); lia.
      * eapply (Iel a s1 X C); eassumption.
      * apply (Ili a s1 X C (rev acc)); [exact P1| |exact Hc| |exact O].
        -- eapply hold2_perm; [|exact H1]. intro x. cbn [eout]. rewrite !cnt_app, cnt_dids_rev. lia.
        -- eapply pj_incl; [|exact J1]. intros k Hk. apply in_or_app. now right.
    + (* run_effects *)
      intros a s X C c es s' r P Hh Hc J E O. rewrite run_effects_S in E.
      destruct es as [|e rest]; [fin; exact J|].
      destruct (negb (live s match e with EExtend t _ => t | ERemove t _ => t end));
        [eapply (Ief a s X C); eassumption|].
      destruct e as [t news|t who]; cbv zeta in E.
      * destruct (enter_local tk f s _ []) as [[s1 r0] acc] eqn:Ee.
        assert (O1 : oof s1 = false).
        { destruct r0; fin; try exact O; exact (Bef _ _ _ _ _ E O). }
        assert (J1 : PJ' a s1 C) by (eapply (Iel a s X C _ []); [exact P|exact Hh|exact Hc|exact J|exact Ee|exact O1]).
        assert (H1 : Hold2 s1 (lout r0 acc X)).
        { pose proof (fun h => Hel s X _ [] s1 r0 acc h Ee) as K. destruct (K (or_intror Hh)) as [Ob|Hx]; [congruence|exact Hx]. }
        assert (P1 : HP s1) by (eapply Pel; eassumption).
        assert (Push : forall dl, Hold2 s1 (dids acc ++ X) ->
                  HP (emit (set_sched s1 t {| doers := dl; deeds := deeds (get_sched s1 t) ++ acc |}) ExtRet c) /\
                  Hold2 (emit (set_sched s1 t {| doers := dl; deeds := deeds (get_sched s1 t) ++ acc |}) ExtRet c) X /\
                  PJ' a (emit (set_sched s1 t {| doers := dl; deeds := deeds (get_sched s1 t) ++ acc |}) ExtRet c) C).
        { intros dl Hx. split; [apply (hp_same s1); [reflexivity|reflexivity|exact P1]|]. split.
          - apply hold2_emit. revert Hx. apply hold2_sched. intro x. cbn [deeds]. rewrite dids_app, !cnt_app. unfold qids, dq. lia.
          - apply pj_emit; [discriminate|]. revert J1. apply pj_sched. unfold hang.
            apply (hang_grow (dq s1) _ Pr Lf C t acc).
            + intros z Hz. now apply dq_set_other.
            + now rewrite dq_set_same. }
        destruct r0; fin; try exact J1.
        -- match type of E with run_effects tk f (emit (set_sched s1 t {| doers := ?dl; deeds := _ |}) ExtRet c) c rest = _ =>
             destruct (Push dl H1) as (Px & Hx & Jx) end. eapply (Ief a _ X C); [exact Px|exact Hx|exact Hc|exact Jx|exact E|exact O].
        -- match type of E with run_effects tk f (emit (set_sched s1 t {| doers := ?dl; deeds := _ |}) ExtRet c) c rest = _ =>
             destruct (Push dl H1) as (Px & Hx & Jx) end. eapply (Ief a _ X C); [exact Px|exact Hx|exact Hc|exact Jx|exact E|exact O].
      * match type of E with run_effects tk f (emit (close_list tk f ?s1 ?l) RemRet c) c rest = _ =>
          set (sr := s1) in *; set (lr := l) in * end.
        assert (O2 : oof (close_list tk f sr lr) = false) by exact (Bef _ _ _ _ _ E O).
        set (rd := dedupe (filter (fun d0 => memN d0 (doers (get_sched s t))) who) []) in *.
        assert (Pr1 : HP sr) by (apply (hp_same s); [reflexivity|reflexivity|exact P]).
        assert (Hr1 : Hold2 sr (dids lr ++ X)) by (apply (hold2_remove s t X (is_rem rd)); exact Hh).
        assert (Jr1 : PJ' a sr (dids lr ++ C)).
        { revert J. apply pj_sched. unfold hang.
          apply (hang_filter (dq s) _ Pr Lf C (dids lr ++ C) t (fun k => negb (memN k rd))).
          - intros z Hz. now apply dq_set_other.
          - rewrite dq_set_same. cbn [deeds]. apply filter_ext. intros [|i re]; reflexivity.
          - intros k Hk. apply in_or_app. now right.
          - intros k Hk Qk. apply in_or_app. left. apply negb_false_iff in Qk. now apply in_rdeeds. }
        assert (J2 : PJ' a (close_list tk f sr lr) C) by (apply (Ili a sr X C lr); assumption).
        assert (H2 : Hold2 (close_list tk f sr lr) X).
        { destruct (Hli sr X lr (or_intror Hr1)) as [Ob|Hx]; [congruence|exact Hx]. }
        eapply (Ief a _ X C); [| |exact Hc| |exact E|exact O].
        -- apply (hp_same (close_list tk f sr lr)); [reflexivity|reflexivity|now apply Pli].
        -- apply hold2_emit. exact H2.
        -- apply pj_emit; [discriminate|exact J2].
    + (* recur_pass *)
      intros a s X C sid s' r P Hh Hc R Np Ni J E O. rewrite recur_pass_S in E. cbv zeta in E.
      eapply (Irl a _ X C sid); [| |exact Hc| |exact Np|exact Ni| |exact E|exact O].
      * apply (hp_same s); [reflexivity|reflexivity|exact P].
      * apply (hold2_append s sid [DMark] X). exact Hh.
      * exact R.
      * eapply (pj_irrel_deeds a s C X); [exact Hh|eapply susp_of_incl; eassumption|exact R|exact Np|exact Ni|exact J].
    + (* recur_loop *)
      intros a s X C sid s' r P Hh Hc R Np Ni J E O. rewrite recur_loop_S in E.
      destruct (deeds (get_sched s sid)) as [|[|i re] rest] eqn:Q; [fin; exact J| |].
      * fin. eapply (pj_irrel_deeds a s C X); [exact Hh|eapply susp_of_incl; eassumption|exact R|exact Np|exact Ni|exact J].
      * cbv zeta in E.
        set (s1 := set_deeds s sid rest) in *.
        assert (H1 : Hold2 s1 (i :: X)) by exact (hold2_pop s sid (DDeed i re) rest X Q Hh).
        assert (P1 : HP s1) by (apply (hp_same s); [reflexivity|reflexivity|exact P]).
        assert (R1 : running s1 sid) by exact R.
        assert (J1 : PJ' a s1 C).
        { eapply (pj_irrel_deeds a s C X); [exact Hh|eapply susp_of_incl; eassumption|exact R|exact Np|exact Ni|exact J]. }
        assert (Sc : forall k, In k C -> is_susp s1 k) by (eapply susp_of_incl; [exact H1|now apply incl_cons_r]).
        destruct (tleb re (tyme s1)).
        -- destruct (gen_send tk f s1 i) as [s2 g] eqn:Eg.
           assert (O2 : oof s2 = false) by (destruct g; fin; try exact O; exact (Brl _ _ _ _ E O)).
           assert (J2 : PJ' a s2 C) by (eapply (Isd a s1 X C i); eassumption).
           assert (H2 : Hold2 s2 (eout g i X)) by (destruct (Hsd s1 X i s2 g (or_intror H1) Eg) as [Ob|Hx]; [congruence|exact Hx]).
           assert (P2 : HP s2) by (eapply Psd; eassumption).
           assert (R2 : running s2 sid) by (destruct (keep_all tk f sid) as (_ & K & _); eapply K; [|exact Eg]; exact R1).
           destruct g; fin; try exact J2.
           ++ cbn [eout] in H2.
              match type of E with recur_loop tk f (set_deeds s2 sid (_ ++ [?dd])) sid = _ =>
                eapply (Irl a (set_deeds s2 sid (dq s2 sid ++ [dd])) X C sid); [| |exact Hc| |exact Np|exact Ni| |exact E|exact O];
                [apply (hp_same s2); [reflexivity|reflexivity|exact P2]
                |apply (hold2_append s2 sid [dd] X); exact H2
                |exact R2
                |eapply (pj_irrel_deeds a s2 C (i :: X)); [exact H2| |exact R2|exact Np|exact Ni|exact J2];
                 eapply susp_of_incl; [exact H2|now apply incl_cons_r]]
              end.
           ++ eapply (Irl a s2 X C sid); eassumption.
        -- eapply (Irl a _ X C sid); [| |exact Hc| |exact Np|exact Ni| |exact E|exact O].
           ++ apply (hp_same s1); [reflexivity|reflexivity|exact P1].
           ++ unfold set_deeds at 1. revert H1. apply hold2_sched. intro x. cbn [deeds].
              unfold qids. unfold s1. rewrite dq_deeds_same. rewrite dids_app, cnt_app, cnt_cons. cbn. destruct (N.eq_dec i x); lia.
           ++ exact R1.
           ++ eapply (pj_irrel_deeds a s1 C (i :: X)); [exact H1|exact Sc|exact R1|exact Np|exact Ni|exact J1].
Qed.

End ShelterAll.
