"""C03 — virtual-time scheduling follows the documented cycle model."""
from harness.drivers import sched_common as sc
from harness.drivers.sched_common import (COQ_REQUIRES, COQ_CHECK, COQ_CASE_TYPE, COQ_BRANCHES, COQ_HEADER, SHARD, CASE_TIMEOUT, MODELLED,
                                          run_impl, to_coq, shrink, distribution)

PROP = "C03"
RULE = ("static doer sets, flat and nested in tock-0 DoDoers, with per-step yielded tocks drawn from {None, 0.0, -0.0, values "
        "below/above the scheduler tock, 0.1, 1/3, 0.3, 1e-9, 2.5, per-step varying}, scheduler tocks incl. non-dyadic, start "
        "tymes incl. 0.1 and 10.5; non-trivial = some doer yields a positive tock different from the scheduler tock")


def directed():
    Y = lambda t: {"es": [], "out": ["y", t]}
    R = {"es": [], "out": ["r", "true"]}
    mk = lambda tock, tyme, scripts, kinds=None: {
        "tock": tock, "limit": None, "tyme": tyme, "doers": list(range(1, len(scripts) + 1)), "mode": "do",
        "defs": {str(i + 1): {"kind": (kinds or ["func"] * len(scripts))[i], "script": s} for i, s in enumerate(scripts)}}
    return [
        mk(0.25, 0.0, [[Y(None), Y(1.0), Y(1.0), Y(1.0), R], [Y(None), Y(None), Y(0.0), Y(None), R]]),
        mk(0.1, 0.0, [[Y(None), Y(0.3), Y(0.3), Y(0.3), R], [Y(None), Y(0.1), Y(0.1), Y(0.1), Y(0.1), R]], ["doer", "doergen"]),
        mk(1.0, 10.5, [[Y(None), Y(0.25), Y(0.25), Y(2.5), R]]),               # tock smaller than the scheduler tock
        mk(1 / 3, 0.1, [[Y(None), Y(1 / 3), Y(0.0), Y(1.0), Y(1e-9), R], [Y(None), Y(-0.0), Y(0.7), R]]),
        mk(0.3, 0.0, [[Y(None), Y(0.0), Y(1.0), Y(None), Y(1.0), R]]),          # asap then positive (D35 shape, flat)
    ]


def generate(rng, tier):
    n = 1 if tier == "quick" else 14
    out = []
    for _ in range(500 * n):
        out.append(sc.gen_static(rng, n_leaves=rng.randint(1, 5), nest_depth=0, faults=False, tocks="any", limit_p=0.2))
    for _ in range(200 * n):
        out.append(sc.gen_static(rng, n_leaves=rng.randint(2, 5), nest_depth=2, faults=False, tocks="zero", limit_p=0.2))
    # the broad stream (dynamic programs, faults, ado, several runs): decided by the correspondence with the
    # model plus the once-per-cycle rule
    for p in sc.gen_broad(rng, 200 * n):
        p["broad"] = True
        out.append(p)
    # the scheduler driven by hand (enter, recur*, exit), with .deeds or with a deque the caller keeps
    for p in sc.gen_manual(rng, 60 * n, thens=("exit",)):
        p["broad"] = True
        out.append(p)
    # extend()/remove() from a doer's enter context while its scheduler enters its doers (oracle only)
    for p in sc.gen_enter_effects(rng, 60 * n):
        p["broad"] = True
        out.append(p)
    return out


def oracle(case, obs):
    if case.get("broad"):
        return sc.jump_oracle(case, obs) or sc.broad_oracle(case, obs)
    if obs["raised"] != "none":
        return f"do() raised: {obs['raised']}"
    why = sc.clock_oracle(obs)
    if why:
        return why
    tr = obs["trace"]
    tock = case["tock"]
    # 1. each cycle advances tyme by exactly one tock: the recur tymes are on the iterated grid
    grid, t = [], case["tyme"]
    final = sc.fl(obs["tyme"])
    for _ in range(500):
        grid.append(t)
        if t >= final:
            break
        t = t + tock
    if final not in grid:
        return f"final tyme {final} is not start + k*tock (iterated)"
    gs = set(grid)
    per_cycle = {}
    for k, i, h in tr:
        if k == "Recur":
            ty = sc.fl(h)
            if ty not in gs:
                return f"doer {i} recurred at tyme {ty}, not a cycle tyme"
            per_cycle.setdefault(ty, []).append(i)
    # 2. at most once per cycle, 3. in enter order (siblings)
    par = sc.parents(case)
    enter_pos = {}
    for pos, (k, i, _) in enumerate(tr):
        if k == "Enter":
            enter_pos[i] = pos
    for ty, lst in per_cycle.items():
        if len(set(lst)) != len(lst):
            return f"a doer ran twice in the cycle at tyme {ty}: {lst}"
        for a in range(len(lst)):
            for b in range(a + 1, len(lst)):
                if par.get(lst[a]) == par.get(lst[b]) and enter_pos[lst[a]] > enter_pos[lst[b]]:
                    return f"cycle at {ty}: {lst[a]} ran before {lst[b]} against enter order"
    # 4. due-time recurrence of the documented model (flat programs: exact re-computation)
    if not sc.nest_ids(case):
        exp, ftyme, done = sc.reference_flat(case)
        got = [(i, sc.fl(h)) for k, i, h in tr if k == "Recur"]
        if done is not None and (got != exp or ftyme != final):
            for n, (g, e) in enumerate(zip(got, exp)):
                if g != e:
                    return f"recur step {n}: got (doer,tyme)={g}, documented model gives {e}"
            return f"recur sequence/final tyme differ from the documented model: {len(got)} vs {len(exp)} steps, {final} vs {ftyme}"
    else:
        # nested in tock-0 DoDoers: the flattened program must give the same leaf recur steps
        flat = flatten(case)
        if flat is not None:
            exp, ftyme, done = sc.reference_flat(flat)
            leaves = set(sc.leaf_ids(case))
            got = [(i, sc.fl(h)) for k, i, h in tr if k == "Recur" and i in leaves]
            if done is not None and sorted(got, key=lambda x: (x[1], 0)) != sorted(exp, key=lambda x: (x[1], 0)) and got != exp:
                for n, (g, e) in enumerate(zip(got, exp)):
                    if g != e:
                        return f"nested: leaf recur step {n}: got {g}, documented (flat) model gives {e}"
                return "nested: leaf recur steps differ from the documented (flat) model"
    return None


def flatten(case):
    """Replace every tock-0, non-always nest by its kids (depth first)."""
    import copy
    c = copy.deepcopy(case)
    def expand(ids):
        out = []
        for i in ids:
            d = c["defs"][str(i)]
            if d["kind"] == "nest":
                if d["tock"] != 0.0 or sc.eff_always(d):
                    return None
                sub = expand(d["kids"])
                if sub is None:
                    return None
                out += sub
            else:
                out.append(i)
        return out
    doers = expand(c["doers"])
    if doers is None:
        return None
    c["doers"] = doers
    c["defs"] = {k: v for k, v in c["defs"].items() if v["kind"] != "nest"}
    return c


def asap_then_positive(case, only_nested=True):
    par = sc.parents(case)
    for i, d in case["defs"].items():
        if d["kind"] == "nest":
            continue
        if only_nested and par.get(int(i), 0) == 0:
            continue
        seen_asap = False
        for st in d["script"][1:]:
            o = st["out"]
            if o[0] != "y":
                break
            if not o[1]:
                seen_asap = True
            elif seen_asap:
                return True
    return False


def classify(case, obs, why):
    # D35: inside a DoDoer the asap branch uses the DoDoer's own tock (0) as base, so a nested doer that
    # yields 0/None and later t > 0 is due one root tock earlier than when listed directly in the Doist.
    # Accepted as that finding only if the run is EXACTLY what D35 predicts: the documented model with
    # asap base `tyme + 0` for doers nested in tock-0 DoDoers.
    if why.startswith("nested:") and asap_then_positive(case):
        flat = flatten(case)
        if flat is None:
            return None
        par = sc.parents(case)
        asap = {i: 0.0 for i in sc.leaf_ids(case) if par.get(i, 0) != 0}
        exp, ftyme, done = sc.reference_flat(flat, asap_tock=asap)
        leaves = set(sc.leaf_ids(case))
        got = [(i, sc.fl(h)) for k, i, h in obs["trace"] if k == "Recur" and i in leaves]
        if done is not None and got == exp and ftyme == sc.fl(obs["tyme"]):
            return "D35"
    return None


def nontrivial(case, obs):
    for d in case["defs"].values():
        if d["kind"] == "nest":
            continue
        for st in d["script"][1:]:
            if st["out"][0] == "y" and st["out"][1] and st["out"][1] != case["tock"]:
                return True
    return False
