import argparse, os, sys
from harness import core

def main():
    ap = argparse.ArgumentParser()
    ap.add_argument("prop")
    ap.add_argument("--tier", default=os.environ.get("VERIF_TIER", "quick"), choices=["quick", "thorough"])
    ap.add_argument("--replay")
    a = ap.parse_args()
    seed = int(os.environ.get("VERIF_SEED", "0") or 0)
    if a.replay:
        sys.exit(core.replay(a.prop, a.replay))
    sys.exit(core.check(a.prop, a.tier, seed))

if __name__ == "__main__":
    main()
