"""C13 — HTTP message parsing does not depend on how the bytes are fragmented.

Drives the real serving.Requestant and clienting.Respondent the way Server/Client do: extend .msg with each read,
call .parse(); when .ended take a snapshot of the parser attributes and makeParser() for the next pipelined
message; optionally close() at the end and parse once more."""
from harness.core import coq_N, coq_list, coq_bool, coq_bytes, coq_option, exn_kind
from harness.drivers import c17 as K

PROP = "C13"
COQ_REQUIRES = ["Hio.Model.HttpLine", "Hio.Model.Chunk", "Hio.Model.HttpMsg"]
COQ_CHECK = "HttpMsg.check_c13"
COQ_CASE_TYPE = "HttpMsg.c13case"
COQ_BRANCHES = ("HttpMsg.c13_branches", "HttpMsg.n_branches")
SHARD = 120
RULE = ("requests and responses, 1-3 pipelined: start line (9 methods, HTTP/1.0, 1.1, 1.x; status 200/204/304/404/1xx, "
        "reason phrases), 0-5 headers with random-case names (Connection close/keep-alive, Keep-Alive, "
        "Proxy-Connection, Content-Length, Transfer-Encoding, duplicates), body: none / content-length / chunked "
        "with extensions and trailers / close-delimited (responses, with close event) / HEAD; head lines end in CRLF "
        "or bare LF (per message); bodies contain CR/LF/CRLF; reads: random cuts, every byte, inside every CRLF "
        "and every size line, or whole.  Malformed stream: bad method/version/status, header without ': ', 101 "
        "headers, signed/underscored/negative/non-numeric lengths, bad chunk sizes, missing chunk end, short "
        "bodies followed by close, requests without length on 1.0, 100 Continue.  Server stream: 2-5 keep-alive "
        "requests (GET / content-length / chunked bodies) fed to the REAL WSGI http.Server over a scripted socket, "
        "one fragment per service() pass, the 2nd..kth request cut at arbitrary points (line boundaries, head "
        "complete / body pending, inside chunks) with idle passes in between; what the application was handed "
        "(method, target, body) and the response byte stream must equal those of request-by-request delivery.  "
        "Idle prefix: the armed parser is polled 0-4 times with nothing buffered and close() is called at any point "
        "of that idle time (as Client.service does while cut off), then 1-3 messages (chunked, content-length, "
        "body-less, close-delimited) arrive cut at line ends, chunk boundaries, random points or every byte; the "
        "result must equal the one-shot parse after the same prefix.  Re-pointed parser: one parser object reused "
        "across messages and across receive buffers through makeParser(msg=buffer) / reinit(msg=buffer), the new "
        "buffer empty, partly or fully filled at the call and the rest arriving afterwards whole, in pieces or byte "
        "by byte; the result must equal that of the buffer already holding the whole message at the call.  "
        "Non-trivial: >= 3 reads with at "
        "least one cut inside a line terminator, a chunk-size line or a body")
MODELLED = ["Python generators of parseMessage/parseHead/parseBody (as one explicit stage machine)",
            "bytearray, str.split(), str.lower() on iso-8859-1 text, int(str) (as list functions; int() up to the 4300-digit limit)",
            "multidict.CIMultiDict / Hict (ordered association list keyed by lower-cased name)",
            "urlsplit/unquote of the request target, content-type handling (jsoned, encoding, evented) and redirectant are "
            "outside the model; generated targets never make urlsplit/.port raise and responses are not event streams"]

h, unh = K.h, K.unh


# ----------------------------------------------------------------------------- implementation

class _Remoter:
    tymeout = 5.0


def _hdr_items(hd):
    return [[h(k.lower().encode("iso-8859-1")), h(v.encode("iso-8859-1"))] for k, v in hd.items()]


def _snapshot(kind, p):
    s = {"method": "", "url": "", "status": 0, "reason": "",
         "v11": p.version == (1, 1),
         "headers": _hdr_items(p.headers), "chunked": bool(p.chunked), "persisted": bool(p.persisted),
         "parms": None if p.parms is None else [[h(k), None if v is None else h(v)] for k, v in p.parms.items()],
         "trails": None if p.trails is None else _hdr_items(p.trails),
         "body": h(p.body)}
    extra = {"length": p.length, "jsoned": p.jsoned, "encoding": p.encoding, "version": list(p.version) if p.version else None,
             "headed": p.headed, "bodied": p.bodied, "chunked_raw": p.chunked, "persisted_raw": p.persisted}
    if kind == "req":
        s["method"] = h(p.method.encode("iso-8859-1"))
        s["url"] = h(p.url.encode("iso-8859-1"))
        extra.update({"path": p.path, "query": p.query, "scheme": p.scheme, "hostname": p.hostname,
                      "port": p.port, "fragment": p.fragment})
    else:
        s["status"] = p.status
        s["reason"] = h(p.reason.encode("iso-8859-1"))
        extra.update({"code": p.code, "evented": p.evented, "redirectant": p.redirectant})
    s["extra"] = extra
    return s


def run_reads(kind, reads, close):
    from hio.core.http import serving, clienting
    if kind == "req":
        p = serving.Requestant(msg=bytearray(), remoter=_Remoter())
    else:
        p = clienting.Respondent(msg=bytearray(), method="HEAD" if kind == "resp_head" else "GET")
    msgs, err, errtext = [], None, None

    def pump():
        nonlocal err, errtext
        while err is None:
            try:
                p.parse()
            except Exception as ex:  # noqa  escaped the parser
                err, errtext = exn_kind(ex), f"{type(ex).__name__}: {ex}"
                return
            if p.parser is not None:      # yielded None: needs more bytes
                return
            if p.errored:                  # HTTPException swallowed by parseMessage
                err, errtext = "HTTPExc", p.error
                return
            msgs.append(_snapshot(kind, p))
            p.makeParser()

    for frag in reads:
        p.msg.extend(frag)
        pump()
    if close:
        p.close()
        pump(); pump()        # a closure test that sits behind a yield is reached by the second step
    return {"msgs": msgs, "err": err, "errtext": errtext, "left": h(p.msg)}


# ----------------------------------------------------------------------------- the real WSGI server

def render_srv_request(i, r):
    kind = r["body"][0]
    lines = [f"{r['method']} /r{i}{r.get('query', '')} HTTP/1.1", "Host: verif"]
    if r.get("conn"):
        lines.append(f"Connection: {r['conn']}")
    body = b""
    if kind == "len":
        body = unh(r["body"][1])
        lines.append(f"Content-Length: {len(body)}")
    elif kind == "chunked":
        lines.append("Transfer-Encoding: chunked")
        for c in r["body"][1]:
            c = unh(c)
            body += b"%x\r\n" % len(c) + c + b"\r\n"
        body += b"0\r\n\r\n"
    return ("\r\n".join(lines) + "\r\n\r\n").encode("latin-1") + body


def srv_body(r):
    if r["body"][0] == "len":
        return unh(r["body"][1])
    if r["body"][0] == "chunked":
        return b"".join(unh(c) for c in r["body"][1])
    return b""


def run_server(frags):
    """hio.core.http.Server over c18's scripted socket: one fragment (possibly empty) per service() pass"""
    import io, sys
    from hio.core import http
    from hio.core.http import serving
    from hio.base import tyming
    from harness.drivers import c18
    calls = []

    def app(environ, start_response):
        body = environ["wsgi.input"].read()
        q = environ.get("QUERY_STRING", "")
        calls.append([environ["REQUEST_METHOD"], environ["PATH_INFO"] + ("?" + q if q else ""), h(body)])
        out = (environ["REQUEST_METHOD"] + " " + environ["PATH_INFO"] + " ").encode("latin-1") + body
        start_response("200 OK", [("Content-Type", "text/plain"), ("Content-Length", str(len(out)))])
        return [out]

    sock = c18.FakeSock(list(frags), [])
    saved, saved_err = serving.datetime, sys.stderr
    serving.datetime = c18._FakeDatetimeModule
    sys.stderr = io.StringIO()
    try:
        tymist = tyming.Tymist(tyme=0.0)
        server = http.Server(app=app, ha=c18.HA)
        server.wind(tymist.tymen())
        server.servant.ss = c18.FakeListen(sock)
        server.servant.opened = True
        idle = passes = 0
        while passes < 5000 and idle < 4:
            before = (len(sock.out), len(sock.frags), len(sock.ready), len(calls))
            sock.feed()
            server.service()
            passes += 1
            ix = server.servant.ixes.get(c18.CA)
            busy = bool(ix and ix.txbs) or any(not r.ended for r in server.reps.values())
            after = (len(sock.out), len(sock.frags), len(sock.ready), len(calls))
            idle = 0 if (before != after or busy) and not sock.closed else idle + 1
        obs = {"out": h(sock.out), "closed": sock.closed, "calls": calls,
               "unread": len(sock.ready) + sum(len(f) for f in sock.frags)}
        server.servant.ss = None
        server.close()
        return obs
    finally:
        serving.datetime = saved
        sys.stderr = saved_err


def srv_frags(case):
    return [unh(x) for x in case["frags"]]


def srv_reference_frags(case):
    out = []
    for i, r in enumerate(case["reqs"]):
        out += [render_srv_request(i, r), b"", b""]
    return out


def idle_ops(case, reads):
    ops = [list(o) for o in case["prefix"]]
    for r in reads:
        ops += [["data", r], ["parse"]]
    if case.get("final_close"):
        ops += [["close"], ["parse"]]
    return ops


def run_impl(case):
    if case["kind"] == "rebind":
        return K.run_hist(case["who"], case["ops"])
    if case["kind"] == "idle":
        return K.run_hist(case["who"], idle_ops(case, case["reads"]))
    if case["kind"] == "server":
        return run_server(srv_frags(case))
    return run_reads(case["kind"], [unh(x) for x in case["reads"]], case.get("close", False))


# ----------------------------------------------------------------------------- oracle

def _strip_left_on_error(o):
    o = dict(o)
    if o["err"] is not None:
        o["left"] = None          # after an error the connection is dropped; how much was buffered is not a result
        if o["err"] != "HTTPExc":
            o["errtext"] = None
    return o


def oracle_server(case, obs):
    exp_calls = [[r["method"], f"/r{i}{r.get('query', '')}", h(srv_body(r))] for i, r in enumerate(case["reqs"])]
    if obs["calls"] != exp_calls:
        k = next((j for j, (a, b) in enumerate(zip(obs["calls"], exp_calls)) if a != b), min(len(obs["calls"]), len(exp_calls)))
        return (f"the application was handed {len(obs['calls'])} request(s), {len(exp_calls)} were sent; first difference at "
                f"request {k}: got {obs['calls'][k] if k < len(obs['calls']) else None}, sent {exp_calls[k] if k < len(exp_calls) else None}")
    ref = run_server(srv_reference_frags(case))
    if obs["out"] != ref["out"]:
        return (f"responses depend on how the requests were fragmented: {len(obs['out']) // 2} response bytes, "
                f"request-by-request delivery gives {len(ref['out']) // 2}")
    if obs["closed"] != ref["closed"]:
        return f"connection closed={obs['closed']}, request-by-request delivery gives closed={ref['closed']}"
    return None


def oracle_idle(case, obs):
    whole = K.run_hist(case["who"], idle_ops(case, ["".join(case["reads"])]))
    a, b = _strip_left_on_error(obs), _strip_left_on_error(whole)
    if a != b:
        if a["err"] != b["err"] or a["errtext"] != b["errtext"]:
            return (f"after an idle prefix with close(), the fragmented message ends with {a['err']} ({a['errtext']}), "
                    f"the same bytes in one read with {b['err']} ({b['errtext']})")
        if len(a["msgs"]) != len(b["msgs"]):
            return f"split parsed {len(a['msgs'])} messages, one read {len(b['msgs'])}"
        for i, (x, y) in enumerate(zip(a["msgs"], b["msgs"])):
            for key in x:
                if x[key] != y[key]:
                    return f"message {i} attribute {key}: split {x[key]!r} vs one read {y[key]!r}"
        return f"split vs one read differ in leftover: {a['left']!r} vs {b['left']!r}"
    exp = case.get("expect")
    if exp is not None:
        if obs["err"] is not None:
            return f"healthy message after an idle prefix rejected: {obs['errtext']}"
        if [m["body"] for m in obs["msgs"]] != [e["body"] for e in exp]:
            return f"bodies {[m['body'][:40] for m in obs['msgs']]} decoded, {[e['body'][:40] for e in exp]} sent"
    return None


def oracle_rebind(case, obs):
    # the same messages with every new buffer already holding its whole message at the call
    whole = K.run_hist(case["who"], case["ops_whole"])
    a, b = _strip_left_on_error(obs), _strip_left_on_error(whole)
    if a["err"] != b["err"] or len(a["msgs"]) != len(b["msgs"]):
        return (f"bytes delivered after makeParser(msg=)/reinit(msg=) give {len(a['msgs'])} message(s), err {a['err']}; the same "
                f"bytes already in the buffer at the call give {len(b['msgs'])}, err {b['err']}")
    for i, (x, y) in enumerate(zip(a["msgs"], b["msgs"])):
        for key in x:
            if x[key] != y[key]:
                return f"message {i} attribute {key}: delivered after the call {x[key]!r} vs in the buffer at the call {y[key]!r}"
    exp = case.get("expect")
    if exp is not None:
        if obs["err"] is not None:
            return f"healthy message on a re-pointed parser rejected: {obs['errtext']}"
        if [m["body"] for m in obs["msgs"]] != [e["body"] for e in exp]:
            return (f"{len(obs['msgs'])} message(s) with bodies {[m['body'][:30] for m in obs['msgs']]} parsed, "
                    f"{len(exp)} sent: {[e['body'][:30] for e in exp]}")
    return None


def oracle(case, obs):
    if case["kind"] == "rebind":
        return oracle_rebind(case, obs)
    if case["kind"] == "idle":
        return oracle_idle(case, obs)
    if case["kind"] == "server":
        return oracle_server(case, obs)
    reads = [unh(x) for x in case["reads"]]
    whole = run_reads(case["kind"], [b"".join(reads)], case.get("close", False))
    a, b = _strip_left_on_error(obs), _strip_left_on_error(whole)
    if a != b:
        for key in ("err", "errtext", "left"):
            if a[key] != b[key]:
                return f"split vs whole differ in {key}: {a[key]!r} vs {b[key]!r}"
        if len(a["msgs"]) != len(b["msgs"]):
            return f"split parsed {len(a['msgs'])} messages, whole {len(b['msgs'])}"
        for i, (x, y) in enumerate(zip(a["msgs"], b["msgs"])):
            for key in x:
                if x[key] != y[key]:
                    return f"message {i} attribute {key}: split {x[key]!r} vs whole {y[key]!r}"
        return "split vs whole differ"
    exp = case.get("expect")
    if exp is not None:
        # well-formed cases: the generator knows what it sent
        if obs["err"] is not None:
            return f"well-formed input rejected: {obs['errtext']}"
        if len(obs["msgs"]) != len(exp):
            return f"{len(exp)} messages sent, {len(obs['msgs'])} parsed"
        for i, (m, e) in enumerate(zip(obs["msgs"], exp)):
            for key, val in e.items():
                if m[key] != val:
                    return f"message {i}: {key} parsed as {m[key]!r}, sent {val!r}"
    return None


# ----------------------------------------------------------------------------- generation

METHODS = [b"GET", b"HEAD", b"PUT", b"PATCH", b"POST", b"DELETE", b"OPTIONS", b"TRACE", b"CONNECT"]
URLS = [b"/", b"/a/b?x=1&y=2", b"*", b"/p%20q", b"http://h:80/p?q#f", b"/\xe9t\xe9"]


def _case_name(rng, name):
    r = rng.random()
    if r < 0.4:
        return name
    if r < 0.6:
        return name.upper()
    if r < 0.8:
        return name.lower()
    return bytes(c ^ 0x20 if (65 <= c <= 90 or 97 <= c <= 122) and rng.random() < 0.5 else c for c in name)


def _chunked_body(rng):
    spec = K._rand_spec(rng)
    spec["tail"] = ""
    return spec


def _gen_message(rng, kind):
    """returns (wire bytes, expected dict, needs_close)"""
    eol = b"\r\n" if rng.random() < 0.7 else b"\n"
    v11 = rng.random() < 0.7
    headers, exp = [], {}
    body_kind = rng.choice(["none", "length", "length", "chunked", "chunked"] + (["close"] if kind != "req" else []))
    needs_close = False
    status = 200
    if kind == "req":
        method = rng.choice(METHODS)
        url = rng.choice(URLS)
        version = b"HTTP/1.1" if v11 else b"HTTP/1.0"
        if v11 and rng.random() < 0.1:
            version = b"HTTP/1.2"
        start = method + b" " + url + b" " + version
        exp.update({"method": h(method), "url": h(url)})
    else:
        status = rng.choice([200, 200, 200, 404, 201, 204, 304, 500, 101])
        reason = rng.choice([b"OK", b"Not Found", b"", b"Tr\xe8s  bien"])
        version = b"HTTP/1.1" if v11 else rng.choice([b"HTTP/1.0", b"HTTP/0.9"])
        start = version + b" " + str(status).encode() + (b" " + reason if reason else b"")
        exp.update({"status": status, "reason": h(b" ".join(reason.split()))})
    exp["v11"] = v11
    for _ in range(rng.choice([0, 1, 2, 3])):
        headers.append((rng.choice([b"Host", b"Accept", b"X-Thing", b"User-Agent", b"Ser\xc9veR"]),
                        rng.choice([b"example.com", b"*/*", b"a: b", b"", b"v\xe4lue", b" padded "])))
    conn = rng.choice([None, None, b"close", b"keep-alive", b"Keep-Alive", b"Upgrade, Close"])
    if conn is not None:
        headers.append((rng.choice([b"Connection", b"Connection"]), conn))
    if kind != "req" and rng.random() < 0.15:
        headers.append((rng.choice([b"Keep-Alive", b"Proxy-Connection"]), rng.choice([b"timeout=5", b"keep-alive", b""])))
    forced_zero = kind != "req" and (status in (204, 304) or 100 <= status < 200 or kind == "resp_head")
    if forced_zero and body_kind in ("chunked", "close"):
        body_kind = "none"
    body = b""
    wire_body = b""
    if body_kind == "length":
        body = K._rand_data(rng) * rng.choice([1, 1, 3])
        headers.append((b"Content-Length", rng.choice([b"%d", b"%d", b" %d ", b"+%d", b"0%d"]) % len(body)))
        if forced_zero:
            exp["body"] = h(b"")
            wire_body = b""
        else:
            wire_body = body
            exp["body"] = h(body)
    elif body_kind == "chunked":
        spec = _chunked_body(rng)
        headers.append((b"Transfer-Encoding", rng.choice([b"", b"", b" ", b"\t"]) + rng.choice([b"chunked", b"Chunked", b"CHUNKED", b"chunKED"])
                        + rng.choice([b"", b"", b" ", b"\t "])))
        if rng.random() < 0.2:
            headers.append((b"Content-Length", b"999"))
        wire_body = K.build_wire(spec)
        exp["body"] = h(b"".join(unh(c["data"]) for c in spec["chunks"]))
        exp["chunked"] = True
    elif body_kind == "close":
        if forced_zero:
            exp["body"] = h(b"")
        else:
            body = K._rand_data(rng) * rng.choice([1, 2])
            wire_body = body
            exp["body"] = h(body)
            needs_close = True
    else:
        exp["body"] = h(b"")
        if kind != "req" and not forced_zero:
            headers.append((b"Content-Length", b"0"))
    rng.shuffle(headers)
    head = start + eol + b"".join(_case_name(rng, k) + b": " + v + eol for k, v in headers) + eol
    return head + wire_body, exp, needs_close


def _gen_wf(rng):
    kind = rng.choice(["req", "req", "resp", "resp", "resp_head"])
    wire, expect, close = b"", [], False
    for _ in range(rng.choice([1, 1, 2, 3])):
        w, e, needs_close = _gen_message(rng, kind)
        wire += w
        expect.append(e)
        if needs_close:
            close = True
            break
    if not close and rng.random() < 0.15:
        close = rng.random() < 0.5
        # a partial next message stays in the buffer
        tails = [b"", b"GE", b"GET / HTTP/1.1\r\nHost"] if kind == "req" else [b"", b"HT", b"HTTP/1.1 2", b"HTTP/1.1 200 OK\r\nSer"]
        wire += rng.choice(tails) if not close else b""
    return {"kind": kind, "reads": [h(x) for x in K.cut(wire, K._rand_cuts(rng, wire))], "close": close, "expect": expect}


MAL = [
    ("req", b"FETCH / HTTP/1.1\r\n\r\n"), ("req", b"GET / HTTQ/1.1\r\n\r\n"), ("req", b"GET / HTTP/2.0\r\n\r\n"),
    ("req", b"GET /\r\n\r\n"), ("req", b"\r\nGET / HTTP/1.1\r\n\r\n"), ("req", b"GET  /  HTTP/1.1  extra words\r\n\r\n"),
    ("req", b"GET\t/\x0bHTTP/1.1\r\n\r\n"), ("req", b"GET\xa0/\x85HTTP/1.1\r\n\r\n"),
    ("req", b"GET / HTTP/1.1\r\nNoColonHere\r\n\r\n"), ("req", b"GET / HTTP/1.1\r\nA:b\r\n\r\n"),
    ("req", b"POST / HTTP/1.1\r\nContent-Length: -5\r\n\r\nhello"), ("req", b"POST / HTTP/1.1\r\nContent-Length: 1_0\r\n\r\n0123456789"),
    ("req", b"POST / HTTP/1.1\r\nContent-Length: five\r\n\r\nhello"), ("req", b"POST / HTTP/1.1\r\nContent-Length: 5 5\r\n\r\nhello"),
    ("req", b"POST / HTTP/1.1\r\nContent-Length: \xb2\r\n\r\nhello"), ("req", b"POST / HTTP/1.1\r\nContent-Length: _5\r\n\r\nhello"),
    ("req", b"POST / HTTP/1.1\r\nContent-Length: 5_\r\n\r\nhello"), ("req", b"POST / HTTP/1.1\r\nContent-Length: 1__0\r\n\r\nhello"),
    ("req", b"POST / HTTP/1.1\r\nContent-Length: \x1f5\xa0\r\n\r\nhello"), ("req", b"POST / HTTP/1.1\r\nContent-Length: -0\r\n\r\n"),
    ("req", b"POST / HTTP/1.1\r\nTransfer-Encoding: chunked\r\n\r\n+5\r\nhello\r\n0\r\n\r\n"),
    ("req", b"POST / HTTP/1.1\r\nTransfer-Encoding: chunked\r\n\r\n5\r\nhelloX\r\n0\r\n\r\n"),
    ("req", b"POST / HTTP/1.1\r\nTransfer-Encoding: gzip, chunked\r\n\r\n5\r\nhello\r\n0\r\n\r\n"),
    ("req", b"POST / HTTP/1.1\r\nTransfer-Encoding: chunked\r\n\r\n0\r\nbad trailer\r\n\r\n"),
    ("req", b"POST / HTTP/1.0\r\nContent-Length: 3\r\nConnection: keep-alive\r\n\r\nabcGET / HTTP/1.0\r\n\r\n"),
    ("req", b"GET / HTTP/1.1\nContent-Length: 4\n\na\r\nbGET / HTTP/1.1\n\n"),
    ("req", b"GET / HTTP/1.1\r\n" + b"".join(b"h%d: v\r\n" % i for i in range(101)) + b"\r\n"),
    ("req", b"GET / HTTP/1.1\r\n" + b"".join(b"h%d: v\r\n" % i for i in range(100)) + b"\r\n"),
    ("resp", b"HTTP/1.1 100 Continue\r\n\r\nHTTP/1.1 200 OK\r\nContent-Length: 0\r\n\r\n"),
    ("resp", b"HTTP/1.1 100 Continue\r\nX: y\r\n"), ("resp", b"HTTP/1.1 99 Low\r\n\r\n"), ("resp", b"HTTP/1.1 1000 High\r\n\r\n"),
    ("resp", b"HTTP/1.1 2_0_0 OK\r\nContent-Length: 0\r\n\r\n"), ("resp", b"HTTP/1.1 +200 OK\r\nContent-Length: 0\r\n\r\n"),
    ("resp", b"HTTP/1.1 abc OK\r\n\r\n"), ("resp", b"HTTP/1.1\r\n\r\n"), ("resp", b"ICY 200 OK\r\n\r\n"), ("resp", b"HTTP/2 200 OK\r\n\r\n"),
    ("resp", b"HTTP/1.1 200 OK\r\nContent-Length: 10\r\n\r\nshort"), ("resp", b"HTTP/1.1 200 OK\r\nContent-Len"),
    ("resp", b"HTTP/1.1 200 OK\r\nTransfer-Encoding: chunked\r\n\r\n5\r\nhel"), ("resp", b"HTTP/1.1 200 OK\r\n\r\nuntil close\r\nbody"),
    ("resp", b"HTTP/1.0 200 OK\r\nKeep-Alive: 1\r\nContent-Length: 2\r\n\r\nabHTTP/1.0 200 OK\r\nProxy-Connection: Keep-Alive\r\nContent-Length: 1\r\n\r\nc"),
    ("resp_head", b"HTTP/1.1 200 OK\r\nContent-Length: 10\r\n\r\nHTTP/1.1 204 No\r\n\r\n"),
    ("resp_head", b"HTTP/1.1 200 OK\r\nTransfer-Encoding: chunked\r\n\r\n0\r\n\r\n"),
    ("resp", b"HTTP/1.1 304 NM\r\nContent-Length: 10\r\n\r\nHTTP/1.1 200 OK\r\nContent-Length: 1\r\n\r\nx"),
]


def _gen_mal(rng):
    kind, wire = rng.choice(MAL)
    if rng.random() < 0.3:      # mutate one byte of a well-formed wire instead
        c = _gen_wf(rng)
        w = bytearray(b"".join(unh(x) for x in c["reads"]))
        if w:
            i = rng.randrange(len(w))
            w[i] = rng.choice(b"\r\n :;0aZ\x00\xff")
        kind, wire = c["kind"], bytes(w)
        if b"://" in wire and kind == "req":     # keep urlsplit/.port out of it
            kind, wire = rng.choice(MAL)
    return {"kind": kind, "reads": [h(x) for x in K.cut(wire, K._rand_cuts(rng, wire))], "close": rng.random() < 0.4}


def directed():
    out = []
    for kind, wire in MAL:
        out.append({"kind": kind, "reads": [h(wire)], "close": False})
        out.append({"kind": kind, "reads": [h(bytes([x])) for x in wire] if len(wire) < 400 else [h(wire[:700]), h(wire[700:])], "close": True})
    req = (b"POST /a?b=1 HTTP/1.1\r\nHost: x\r\nTransfer-Encoding: chunked\r\n\r\n5;a=b\r\nhe\r\nl\r\n3\r\nlo!\r\n0\r\nX-T: v\r\n\r\n"
           b"GET / HTTP/1.0\nConnection: Keep-Alive\n\nPUT /z HTTP/1.1\r\nContent-Length: 3\r\nConnection: close\r\n\r\nabc")
    for cuts in ([], list(range(1, len(req))), K.interesting_cuts(req)):
        out.append({"kind": "req", "reads": [h(x) for x in K.cut(req, cuts)], "close": False})
    resp = (b"HTTP/1.1 200 OK\r\nContent-Length: 2\r\n\r\nhiHTTP/1.1 200 OK\r\nTransfer-Encoding: chunked\r\n\r\n2\r\nab\r\n0\r\nT: 1\r\n\r\n"
            b"HTTP/1.0 200 OK\n\nuntil\r\nclose")
    for cuts in ([], list(range(1, len(resp))), K.interesting_cuts(resp)):
        out.append({"kind": "resp", "reads": [h(x) for x in K.cut(resp, cuts)], "close": True})
    # line-length limit (MAX_LINE_SIZE = 65536): a line of exactly the limit is accepted however it is read (the
    # unfixed code rejected it when a read ended between its CR and LF), one byte more is rejected
    long_ok = b"GET /" + b"a" * 65522 + b" HTTP/1.1\r\n\r\nGET / HTTP/1.1\r\n\r\n"
    long_bad = b"GET /" + b"a" * 65523 + b" HTTP/1.1\r\n\r\nGET / HTTP/1.1\r\n\r\n"
    for w, cuts in ((long_ok, []), (long_ok, [65537]), (long_ok, [65536, 65538]), (long_bad, []), (long_bad, [65538]),
                    (long_bad, [65537, 65539])):
        out.append({"kind": "req", "reads": [h(x) for x in K.cut(w, cuts)], "close": False})
    # the same limit for header lines (parseLeader), chunk-size lines and trailer lines inside messages: MAX-1, MAX, MAX+1
    # bytes, whole and cut before the CR, between CR and LF, after the LF
    MAXL = 65536
    for L in (MAXL - 1, MAXL, MAXL + 1):
        hline = b"X-Long: " + b"v" * (L - 8)
        w = b"GET / HTTP/1.1\r\n" + hline + b"\r\n\r\nGET /2 HTTP/1.1\r\n\r\n"
        for cuts in ([], [16 + L], [16 + L + 1], [16 + L + 2]):
            out.append({"kind": "req", "reads": [h(x) for x in K.cut(w, cuts)], "close": False})
        pre = b"HTTP/1.1 200 OK\r\nTransfer-Encoding: chunked\r\n\r\n"
        w = pre + b"5;" + b"x" * (L - 2) + b"\r\nhello\r\n0\r\nT: " + b"t" * (L - 3) + b"\r\n\r\n"
        k1 = len(pre) + L + 1
        k2 = k1 + 1 + 7 + 3 + L + 1
        for cuts in ([], [k1], [k2], [k1, k2]):
            out.append({"kind": "resp", "reads": [h(x) for x in K.cut(w, cuts)], "close": False})
    out.append({"kind": "req", "reads": [], "close": True})
    out.append({"kind": "resp", "reads": [h(b"")], "close": True})
    # a parser re-pointed at a new receive buffer through the public API, buffer empty / partly / fully filled at the
    # call, bytes whole, in pieces, byte by byte (seeded C13-14: an empty buffer was not adopted by makeParser)
    m1 = {"req": b"POST /a HTTP/1.1\r\nContent-Length: 5\r\n\r\nfirst", "resp": b"HTTP/1.1 200 OK\r\nContent-Length: 5\r\n\r\nfirst"}
    m2 = {"req": b"POST /b HTTP/1.1\r\nTransfer-Encoding: chunked\r\n\r\n6\r\nsecond\r\n0\r\nT: 2\r\n\r\n",
          "resp": b"HTTP/1.1 404 Not Found\r\nTransfer-Encoding: chunked\r\n\r\n6\r\nsecond\r\n0\r\nT: 2\r\n\r\n"}
    for who in ("req", "resp"):
        a, b = m1[who], m2[who]
        exp2 = [{"body": h(b"first")}, {"body": h(b"second")}]
        for via in ("make", "reinit"):
            whole = [["data", h(a)], ["parse"], ["rebind", via, h(b)], ["parse"]]
            for k, cuts in ((0, []), (0, [20]), (0, list(range(1, len(b)))), (10, [30]), (len(b), [])):
                ops = [["data", h(a)], ["parse"], ["rebind", via, h(b[:k])]]
                rest = b[k:]
                for frag in (K.cut(rest, [c - k for c in cuts if c > k]) if rest else []):
                    ops += [["data", h(frag)], ["parse"]]
                if not rest:
                    ops.append(["parse"])
                out.append({"kind": "rebind", "who": who, "ops": ops, "ops_whole": whole, "expect": exp2})
        out.append({"kind": "rebind", "who": who, "ops": [["rebind", "make", ""], ["data", h(a)], ["parse"]],
                    "ops_whole": [["rebind", "make", h(a)], ["parse"]], "expect": exp2[:1]})
    # armed parser polled idle, close() during the idle time, then a message in fragments (seeded C13-8 = revert of 0a30e14)
    for who, w in (("resp", b"HTTP/1.1 200 OK\r\nContent-Length: 2\r\n\r\nok"),
                   ("resp", b"HTTP/1.1 200 OK\r\nTransfer-Encoding: chunked\r\n\r\n2\r\nab\r\n3\r\ncde\r\n0\r\n\r\n"),
                   ("resp", b"HTTP/1.0 200 OK\r\n\r\nuntil close"),
                   ("req", b"POST / HTTP/1.1\r\nContent-Length: 2\r\n\r\nok"),
                   ("req", b"POST / HTTP/1.1\r\nTransfer-Encoding: chunked\r\n\r\n2\r\nab\r\n3\r\ncde\r\n0\r\n\r\n"),
                   ("req", b"GET / HTTP/1.1\r\nHost: h\r\n\r\n")):
        fc = w.startswith(b"HTTP/1.0")
        lines = [i + 2 for i in range(len(w) - 2) if w[i:i + 2] == b"\r\n"]
        for prefix in ([["parse"], ["close"], ["parse"], ["close"]], [["close"]], [["parse"], ["parse"], ["close"], ["parse"]]):
            for cuts in ([], lines[:1], lines, list(range(1, len(w)))):
                out.append({"kind": "idle", "who": who, "prefix": prefix, "reads": [h(x) for x in K.cut(w, cuts)],
                            "final_close": fc, "expect": None})
    # the real server: second request of a keep-alive connection spanning several service() passes (seeded C13-5)
    two = [{"method": "GET", "body": ["none"]}, {"method": "POST", "body": ["len", h(b"hello")]},
           {"method": "POST", "body": ["chunked", [h(b"ab"), h(b"cde")]]}]
    s0 = len(render_srv_request(0, two[0]))
    s1 = s0 + len(render_srv_request(1, two[1]))
    out.append(_srv_case(two, [], ()))
    out.append(_srv_case(two, [s0, s1], (0, 1)))
    out.append(_srv_case(two, [s0, s0 + 18], (0,)))                 # request line | rest
    out.append(_srv_case(two, [s0, s1 - 5], (0, 1)))                # head complete, body pending
    out.append(_srv_case(two, [s0, s1, s1 + 60], (0, 1, 2)))        # cut inside the chunked request
    out.append(_srv_case(two, list(range(1, s1 + 40)), ()))
    return out


def _srv_case(reqs, cuts, idles=()):
    """cuts: absolute offsets into the concatenated request stream; idles: indices of fragments followed by an idle pass"""
    stream = b"".join(render_srv_request(i, r) for i, r in enumerate(reqs))
    frags = []
    for j, f in enumerate(K.cut(stream, cuts)):
        frags.append(h(f))
        if j in idles:
            frags.append("")
    return {"kind": "server", "reqs": reqs, "frags": frags}


def _gen_server(rng):
    reqs = []
    n = rng.choice([2, 2, 3, 3, 4, 5])
    for i in range(n):
        bk = rng.choice(["none", "len", "len", "chunked", "chunked"])
        if bk == "none":
            r = {"method": rng.choice(["GET", "DELETE", "OPTIONS"]), "body": ["none"]}
        elif bk == "len":
            r = {"method": rng.choice(["POST", "PUT"]), "body": ["len", h(K._rand_data(rng))]}
        else:
            r = {"method": rng.choice(["POST", "PATCH"]), "body": ["chunked", [h(K._rand_data(rng)) for _ in range(rng.choice([1, 2, 3]))]]}
        if rng.random() < 0.2:
            r["query"] = "?x=%d" % i
        if i == n - 1 and rng.random() < 0.3:
            r["conn"] = "close"
        reqs.append(r)
    stream = b"".join(render_srv_request(i, r) for i, r in enumerate(reqs))
    first = len(render_srv_request(0, reqs[0]))
    lines = [i + 2 for i in range(first, len(stream) - 2) if stream[i:i + 2] == b"\r\n"]
    style = rng.random()
    if style < 0.35:       # the later requests cut at line boundaries (head complete / body pending, between headers)
        cuts = [first] + rng.sample(lines, k=min(len(lines), rng.choice([1, 2, 3, 5])))
    elif style < 0.7:      # arbitrary points
        cuts = [first] + [rng.randrange(first + 1, len(stream)) for _ in range(rng.choice([1, 2, 4, 8]))]
    elif style < 0.8:      # every byte of the later requests
        cuts = [first] + list(range(first + 1, min(len(stream), first + 200)))
    else:                  # also the first request fragmented
        cuts = [rng.randrange(1, len(stream)) for _ in range(rng.choice([2, 4, 6]))]
    ncut = len(set(c for c in cuts if 0 < c < len(stream))) + 1
    idles = set(j for j in range(ncut) if rng.random() < 0.5)
    if rng.random() < 0.5:
        idles.add(0)         # let the first request be answered before the next one starts to arrive
    return _srv_case(reqs, cuts, idles)


def _idle_prefix(rng):
    """0-4 polls of the armed parser with nothing buffered, close() at any point(s) of that time"""
    ops = []
    for _ in range(rng.choice([0, 1, 2, 3, 4])):
        ops.append(["parse"])
        if rng.random() < 0.5:
            ops.append(["close"])
    if rng.random() < 0.3:
        ops.insert(0, ["close"])
    if ["close"] not in ops and rng.random() < 0.8:
        ops.insert(rng.randrange(len(ops) + 1), ["close"])
    return ops


def _idle_cuts(rng, wire):
    r = rng.random()
    lines = [i + 2 for i in range(len(wire) - 2) if wire[i:i + 2] == b"\r\n"]
    if r < 0.35 and lines:
        return rng.sample(lines, k=min(len(lines), rng.choice([1, 2, 3, 6])))
    if r < 0.55:
        return list(range(1, len(wire))) if len(wire) < 300 else lines
    if r < 0.65:
        return lines
    return [rng.randrange(1, len(wire)) for _ in range(rng.choice([1, 2, 4]))]


def _gen_idle(rng):
    who = rng.choice(["req", "resp", "resp"])
    nmsg = rng.choice([1, 1, 2, 3])
    wire, expects, until = b"", [], False
    for n in range(nmsg):
        last = n == nmsg - 1
        w, e = K._gen_one_message(rng, who, n, allow_until=(who == "resp" and last and rng.random() < 0.4))
        until = until or w.startswith(b"HTTP/1.0 200 OK\r\n\r\n")
        wire += w
        expects.append(e)
    return {"kind": "idle", "who": who, "prefix": _idle_prefix(rng), "reads": [h(x) for x in K.cut(wire, _idle_cuts(rng, wire))],
            "final_close": until or rng.random() < 0.3, "expect": expects}


def _gen_rebind(rng):
    """one parser object reused across messages AND across receive buffers: before each later message (sometimes the
    first) the parser is pointed at a fresh buffer with makeParser(msg=buffer) or reinit(msg=buffer); the buffer is
    empty, partly filled or fully filled at the call, the rest arrives afterwards in any cuts"""
    who = rng.choice(["req", "resp", "resp"])
    nmsg = rng.choice([1, 2, 2, 3])
    ops, ops_whole, expects = [], [], []
    for n in range(nmsg):
        w, e = K._gen_one_message(rng, who, n, allow_until=False)
        expects.append(e)
        if n > 0 or rng.random() < 0.5:
            via = rng.choice(["make", "make", "reinit"])
            k = rng.choice([0, 0, 0, rng.randrange(1, len(w)), len(w)])
            ops.append(["rebind", via, h(w[:k])])
            ops_whole.append(["rebind", via, h(w)])
            rest = w[k:]
        else:
            rest = w
            ops_whole.append(["data", h(w)])
        if rest:
            for frag in K.cut(rest, _idle_cuts(rng, rest) if len(rest) > 1 else []):
                ops += [["data", h(frag)], ["parse"]]
        else:
            ops.append(["parse"])
        ops_whole.append(["parse"])
    return {"kind": "rebind", "who": who, "ops": ops, "ops_whole": ops_whole, "expect": expects}


def generate(rng, tier):
    n_wf, n_mal, n_srv, n_idle, n_reb = (450, 250, 200, 250, 200) if tier == "quick" else (4500, 2500, 2000, 2500, 2000)
    return ([_gen_wf(rng) for _ in range(n_wf)] + [_gen_mal(rng) for _ in range(n_mal)] +
            [_gen_server(rng) for _ in range(n_srv)] + [_gen_idle(rng) for _ in range(n_idle)] +
            [_gen_rebind(rng) for _ in range(n_reb)])


# ----------------------------------------------------------------------------- Gallina

def _kind(k):
    return {"req": "HttpMsg.Req", "resp": "(HttpMsg.Resp false)", "resp_head": "(HttpMsg.Resp true)"}[k]


def coq_omsg(m):
    hb = K.coq_hexbytes
    return ("{| HttpMsg.o_method := %s; HttpMsg.o_url := %s; HttpMsg.o_status := %s; HttpMsg.o_reason := %s; HttpMsg.o_v11 := %s; "
            "HttpMsg.o_headers := %s; HttpMsg.o_chunked := %s; HttpMsg.o_persisted := %s; HttpMsg.o_parms := %s; "
            "HttpMsg.o_trails := %s; HttpMsg.o_body := %s |}" % (
                hb(m["method"]), hb(m["url"]), coq_N(m["status"]), hb(m["reason"]), coq_bool(m["v11"]),
                K.coq_headers(m["headers"]), coq_bool(m["chunked"]), coq_bool(m["persisted"]),
                coq_option(m["parms"], K.coq_parms, "Chunk.parms"), coq_option(m["trails"], K.coq_headers, "Chunk.headers"),
                hb(m["body"])))


def to_coq(case, obs):
    if case["kind"] == "rebind":
        t = K.to_coq({"kind": "hist", "who": case["who"], "ops": case["ops"]}, obs)
        return t.replace("(HttpMsg.KHist ", "(HttpMsg.KIdle ", 1)
    if case["kind"] == "idle":
        t = K.to_coq({"kind": "hist", "who": case["who"], "ops": idle_ops(case, case["reads"])}, obs)
        return t.replace("(HttpMsg.KHist ", "(HttpMsg.KIdle ", 1)
    if case["kind"] == "server":
        hb = K.coq_hexbytes
        seen = coq_list([f"({coq_bytes(c[0].encode('latin-1'))}, {coq_bytes(c[1].encode('latin-1'))}, {hb(c[2])})" for c in obs["calls"]],
                        "bytes * bytes * bytes")
        return "(HttpMsg.KServer {| HttpMsg.s_reads := %s; HttpMsg.s_seen := %s |})" % (
            coq_list([hb(x) for x in case["frags"] if x], "bytes"), seen)
    return "(HttpMsg.KMsg %s)" % _to_coq_msg(case, obs)


def _to_coq_msg(case, obs):
    return ("{| HttpMsg.c_kind := %s; HttpMsg.c_reads := %s; HttpMsg.c_close := %s; HttpMsg.c_msgs := %s; "
            "HttpMsg.c_err := %s; HttpMsg.c_left := %s |}" % (
                _kind(case["kind"]), coq_list([K.coq_hexbytes(x) for x in case["reads"]], "bytes"),
                coq_bool(case.get("close", False)), coq_list([coq_omsg(m) for m in obs["msgs"]], "HttpMsg.omsg"),
                coq_option(obs["err"], lambda s: s, "exn"), K.coq_hexbytes(obs["left"] if obs["err"] is None else "")))


def nontrivial(case, obs):
    if case["kind"] == "rebind":
        return any(o[0] == "rebind" and o[2] == "" for o in case["ops"]) and len(obs.get("msgs", [])) >= 2
    if case["kind"] == "idle":
        return ["close"] in case["prefix"] and len(case["reads"]) >= 2 and len(obs.get("msgs", [])) >= 1
    if case["kind"] == "server":
        return len([f for f in case["frags"] if f]) >= 3 and len(obs.get("calls", [])) >= 2
    reads = [unh(x) for x in case["reads"]]
    if len(reads) < 3:
        return False
    wire = b"".join(reads)
    pos, inside = 0, False
    for r in reads[:-1]:
        pos += len(r)
        if wire[pos - 1:pos + 1] == b"\r\n":
            inside = True
    return inside or len(obs["msgs"]) > 0


def classify(case, obs, why):
    return None


def shrink(case):
    if case["kind"] == "rebind":
        return
    if case["kind"] == "idle":
        r = case["reads"]
        for i in range(len(r) - 1):
            yield dict(case, reads=r[:i] + [r[i] + r[i + 1]] + r[i + 2:], expect=None)
        return
    if case["kind"] == "server":
        fr = case["frags"]
        for i in range(len(fr) - 1):
            yield dict(case, frags=fr[:i] + [fr[i] + fr[i + 1]] + fr[i + 2:])
        return
    reads = case["reads"]
    if len(reads) > 1:
        for i in range(len(reads) - 1):
            yield dict(case, reads=reads[:i] + [reads[i] + reads[i + 1]] + reads[i + 2:], expect=None)


def distribution(cases, obs):
    kinds, msgs, errs, closes = {}, 0, 0, 0
    for c, o in zip(cases, obs):
        kinds[c["kind"]] = kinds.get(c["kind"], 0) + 1
        if isinstance(o, dict) and "msgs" in o:
            msgs += len(o["msgs"]); errs += 1 if o["err"] else 0
        if isinstance(o, dict) and "calls" in o:
            msgs += len(o["calls"])
        closes += 1 if c.get("close") else 0
    nreads = sorted(len(c["reads"]) if "reads" in c else len(c.get("frags", c.get("ops", []))) for c in cases)
    kinds["idle_prefix_with_close"] = sum(1 for c in cases if c["kind"] == "idle" and ["close"] in c["prefix"])
    return {"kinds": kinds, "messages_parsed": msgs, "errored": errs, "closed": closes,
            "reads_median": nreads[len(nreads) // 2], "reads_max": nreads[-1]}


def extra(tier, ctx):
    """All 2^(n-1) partitions of short messages against the real parsers (split = whole), and int()/split()/lower()
    of the model's text helpers against Python on small exhaustive domains is covered by the MAL stream."""
    import itertools
    msgs = [("req", b"GET / HTTP/1.0\n\n", False), ("resp", b"HTTP/1.0 200\n\nab", True)]
    if tier != "quick":
        msgs += [("req", b"PUT / HTTP/1.1\r\n\r\n", False), ("resp", b"HTTP/1.1 204\r\n\r\nHT", False),
                 ("req", b"GET * HTTP/1.1\n\r\n\r", False)]
    n = 0
    for kind, wire, close in msgs:
        whole = _strip_left_on_error(run_reads(kind, [wire], close))
        L = len(wire)
        for mask in range(1 << (L - 1)):
            cuts = [i + 1 for i in range(L - 1) if mask >> i & 1]
            o = _strip_left_on_error(run_reads(kind, K.cut(wire, cuts), close))
            n += 1
            if o != whole:
                ctx.violations.append({"kind": "oracle", "why": f"partition {cuts} of {wire!r} gives {o}, whole gives {whole}",
                                       "case": {"kind": kind, "reads": [h(x) for x in K.cut(wire, cuts)], "close": close}})
                return {"partitions_swept": n}
    return {"partitions_swept": n, "partition_sweep": "every partition of " + ", ".join(repr(m[1]) for m in msgs)}
