(* Python text helpers and urllib.parse functions used by the HTTP request
   path (src/hio/core/http/{httping,serving,clienting}.py), as total Gallina
   functions.  A Python str is a list of code points [ustr]; a latin-1 decoded
   byte string is the same list of numbers.  No proofs here.

   Modelled stdlib (CPython 3.12): str.split()/strip()/lower()/isspace,
   int(str), urllib.parse.urlsplit (+ .port), quote / quote_plus / unquote /
   unquote_plus / unquote_to_bytes, UTF-8 encode and decode(errors='replace').
   Two stdlib checks stay external and are inputs ([url_oracle]): the
   ipaddress validity of a bracketed host and the NFKC check of a non-ASCII
   netloc. *)
From Hio Require Import Base.Prelude.
From Coq Require Import String Ascii.
Local Open Scope N_scope.

Definition ustr := list N.

Definition str (s : string) : ustr :=
  map N_of_ascii (list_ascii_of_string s).

Definition ustr_eqb : ustr -> ustr -> bool := list_eqb N.eqb.

(* ---------- generic list helpers ---------- *)
(* linear-time reverse (List.rev is quadratic) *)
Definition frev {A} (l : list A) : list A := rev_append l [].

Fixpoint starts_with (p s : ustr) : bool :=
  match p, s with
  | [], _ => true
  | a :: p', b :: s' => N.eqb a b && starts_with p' s'
  | _ :: _, [] => false
  end.

Fixpoint contains (p s : ustr) : bool :=
  starts_with p s || match s with [] => false | _ :: s' => contains p s' end.

Definition mem_n (c : N) (l : list N) : bool := existsb (N.eqb c) l.

(* s.partition(c) for a single character: (before, found, after) *)
Fixpoint partition1 (c : N) (s : ustr) : ustr * bool * ustr :=
  match s with
  | [] => ([], false, [])
  | x :: r => if N.eqb x c then ([], true, r)
              else let '(a, f, b) := partition1 c r in (x :: a, f, b)
  end.

(* s.rpartition(c): Python returns ('', '', s) when c is absent *)
Definition rpartition1 (c : N) (s : ustr) : ustr * bool * ustr :=
  let '(a, f, b) := partition1 c (frev s) in
  if f then (frev b, true, frev a) else ([], false, s).

(* s.partition(p) for a two character separator *)
Fixpoint partition2 (c d : N) (s : ustr) : ustr * bool * ustr :=
  match s with
  | [] => ([], false, [])
  | x :: r =>
    match r with
    | y :: r' => if N.eqb x c && N.eqb y d then ([], true, r')
                 else let '(a, f, b) := partition2 c d r in (x :: a, f, b)
    | [] => ([x], false, [])
    end
  end.

(* split at the first element satisfying p: (before, rest starting at it) *)
Fixpoint break_at (p : N -> bool) (s : ustr) : ustr * ustr :=
  match s with
  | [] => ([], [])
  | x :: r => if p x then ([], s) else let (a, b) := break_at p r in (x :: a, b)
  end.

Fixpoint drop_while (p : N -> bool) (s : ustr) : ustr :=
  match s with
  | [] => []
  | x :: r => if p x then drop_while p r else s
  end.

Definition strip_with (p : N -> bool) (s : ustr) : ustr :=
  frev (drop_while p (frev (drop_while p s))).

(* ---------- str predicates on code points < 256 (and beyond: false) ---------- *)
(* str.isspace for U+0000..U+00FF *)
Definition is_uspace (c : N) : bool :=
  ((9 <=? c) && (c <=? 13)) || ((28 <=? c) && (c <=? 32)) || N.eqb c 133 || N.eqb c 160.
(* bytes.isspace / C isspace *)
Definition is_aspace (c : N) : bool := ((9 <=? c) && (c <=? 13)) || N.eqb c 32.

Definition is_digit (c : N) : bool := (48 <=? c) && (c <=? 57).
Definition is_upper (c : N) : bool := (65 <=? c) && (c <=? 90).
Definition is_lower (c : N) : bool := (97 <=? c) && (c <=? 122).
Definition is_alpha (c : N) : bool := is_upper c || is_lower c.
Definition is_hex (c : N) : bool :=
  is_digit c || ((65 <=? c) && (c <=? 70)) || ((97 <=? c) && (c <=? 102)).
Definition is_ascii_str (s : ustr) : bool := forallb (fun c => c <? 128) s.

(* str.lower() restricted to latin-1 (other code points are left alone; the
   generators never produce them where case matters) *)
Definition lower1 (c : N) : N :=
  if is_upper c then c + 32
  else if (192 <=? c) && (c <=? 222) && negb (N.eqb c 215) then c + 32
  else c.
Definition lower (s : ustr) : ustr := map lower1 s.
Definition upper1a (c : N) : N := if is_lower c then c - 32 else c.

(* str.split(): maximal runs of non-whitespace *)
Fixpoint split_ws_aux (s : ustr) (cur : ustr) : list ustr :=
  match s with
  | [] => match cur with [] => [] | _ => [frev cur] end
  | x :: r => if is_uspace x
              then match cur with [] => split_ws_aux r [] | _ => frev cur :: split_ws_aux r [] end
              else split_ws_aux r (x :: cur)
  end.
Definition split_ws (s : ustr) : list ustr := split_ws_aux s [].

(* ---------- int(str) in base 10 ----------
   None = ValueError.  CPython maps non-ASCII whitespace (U+0085, U+00A0 in
   latin-1) to ' ' and then strips C isspace (so U+001C..U+001F are NOT
   stripped although str.isspace holds); digits may be separated by single
   underscores; more than 4300 digits is a ValueError. *)
Fixpoint digits_val (s : ustr) (acc : N) (n : nat) (prev_us : bool) : option (N * nat) :=
  match s with
  | [] => if prev_us then None else Some (acc, n)
  | c :: r =>
    if is_digit c then digits_val r (acc * 10 + (c - 48)) (S n) false
    else if N.eqb c 95 then (if prev_us then None else digits_val r acc n true)
    else None
  end.

Definition py_int (s : ustr) : option Z :=
  let sp := fun c => is_aspace c || N.eqb c 133 || N.eqb c 160 in
  let t := strip_with sp s in
  let '(neg, t') := match t with
                    | 45 :: r => (true, r)
                    | 43 :: r => (false, r)
                    | _ => (false, t)
                    end in
  match t' with
  | [] => None
  | c :: _ =>
    if negb (is_digit c) then None else
    match digits_val t' 0 0%nat false with
    | Some (v, n) => if Nat.ltb 4300 n then None
                     else Some (if neg then (- Z.of_N v)%Z else Z.of_N v)
    | None => None
    end
  end.

(* ---------- UTF-8 ---------- *)
Definition is_cont (c : N) : bool := (128 <=? c) && (c <=? 191).

(* bytes.decode('utf-8', errors='replace'): every maximal invalid subpart
   becomes U+FFFD.  Structural on the list with a small pending state. *)
Definition FFFD : N := 65533.

Fixpoint utf8_dec (b : bytes) : ustr :=
  match b with
  | [] => []
  | b0 :: r =>
    if b0 <? 128 then b0 :: utf8_dec r
    else if (194 <=? b0) && (b0 <=? 223) then
      match r with
      | b1 :: r1 => if is_cont b1 then ((b0 - 192) * 64 + (b1 - 128)) :: utf8_dec r1
                    else FFFD :: utf8_dec r
      | [] => [FFFD]
      end
    else if (224 <=? b0) && (b0 <=? 239) then
      let lo := if N.eqb b0 224 then 160 else 128 in
      let hi := if N.eqb b0 237 then 159 else 191 in
      match r with
      | b1 :: r1 =>
        if (lo <=? b1) && (b1 <=? hi) then
          match r1 with
          | b2 :: r2 => if is_cont b2
                        then ((b0 - 224) * 4096 + (b1 - 128) * 64 + (b2 - 128)) :: utf8_dec r2
                        else FFFD :: utf8_dec r1
          | [] => [FFFD]
          end
        else FFFD :: utf8_dec r
      | [] => [FFFD]
      end
    else if (240 <=? b0) && (b0 <=? 244) then
      let lo := if N.eqb b0 240 then 144 else 128 in
      let hi := if N.eqb b0 244 then 143 else 191 in
      match r with
      | b1 :: r1 =>
        if (lo <=? b1) && (b1 <=? hi) then
          match r1 with
          | b2 :: r2 =>
            if is_cont b2 then
              match r2 with
              | b3 :: r3 => if is_cont b3
                            then ((b0 - 240) * 262144 + (b1 - 128) * 4096 + (b2 - 128) * 64 + (b3 - 128)) :: utf8_dec r3
                            else FFFD :: utf8_dec r2
              | [] => [FFFD]
              end
            else FFFD :: utf8_dec r1
          | [] => [FFFD]
          end
        else FFFD :: utf8_dec r
      | [] => [FFFD]
      end
    else FFFD :: utf8_dec r
  end.

(* str.encode('utf-8') of one code point; surrogates (which raise in Python)
   are outside the domain of the callers and encoded as '?' here. *)
Definition utf8_enc1 (c : N) : bytes :=
  if c <? 128 then [c]
  else if c <? 2048 then [192 + c / 64; 128 + c mod 64]
  else if (55296 <=? c) && (c <=? 57343) then [63]
  else if c <? 65536 then [224 + c / 4096; 128 + (c / 64) mod 64; 128 + c mod 64]
  else [240 + c / 262144; 128 + (c / 4096) mod 64; 128 + (c / 64) mod 64; 128 + c mod 64].
Definition utf8_enc (s : ustr) : bytes := flat_map utf8_enc1 s.

(* ---------- percent coding ---------- *)
Definition hexval (c : N) : N :=
  if is_digit c then c - 48 else if c <? 97 then c - 55 else c - 87.
Definition hexdig (v : N) : N := if v <? 10 then 48 + v else 55 + v.   (* upper case *)

(* urllib.parse.unquote_to_bytes on an ASCII str (code points = bytes) *)
Fixpoint unquote_bytes (s : ustr) : bytes :=
  match s with
  | [] => []
  | c :: r =>
    if N.eqb c 37 then
      match r with
      | h1 :: h2 :: r' =>
        if is_hex h1 && is_hex h2 then (hexval h1 * 16 + hexval h2) :: unquote_bytes r'
        else c :: unquote_bytes r
      | _ => c :: unquote_bytes r
      end
    else c :: unquote_bytes r
  end.

(* urllib.parse.unquote(str): ASCII runs are percent-decoded and UTF-8 decoded
   (errors='replace'); non-ASCII runs are copied. *)
Fixpoint unquote_runs (s : ustr) (run : ustr) : ustr :=
  match s with
  | [] => utf8_dec (unquote_bytes (frev run))
  | c :: r => if c <? 128 then unquote_runs r (c :: run)
              else utf8_dec (unquote_bytes (frev run)) ++ c :: unquote_runs r []
  end.
Definition unquote (s : ustr) : ustr :=
  if mem_n 37 s then unquote_runs s [] else s.
Definition unquote_plus (s : ustr) : ustr :=
  unquote (map (fun c => if N.eqb c 43 then 32 else c) s).

(* always-safe characters of quote(): letters digits _ . - ~ *)
Definition always_safe (c : N) : bool :=
  is_alpha c || is_digit c || mem_n c [95; 46; 45; 126].

Definition quote_byte (safe : list N) (b : N) : ustr :=
  if always_safe b || mem_n b safe then [b] else [37; hexdig (b / 16); hexdig (b mod 16)].

(* quote(str, safe): encode UTF-8 then quote every byte not safe.
   (Python returns the string unchanged when it is empty.) *)
Definition quote (safe : list N) (s : ustr) : ustr :=
  flat_map (quote_byte safe) (utf8_enc s).
Definition quote_path (s : ustr) : ustr := quote [47] s.        (* quote(s), safe='/' *)

(* quote_plus(str, safe): spaces become '+', the rest as quote with safe *)
Definition quote_plus (safe : list N) (s : ustr) : ustr :=
  if mem_n 32 s
  then map (fun c => if N.eqb c 32 then 43 else c) (quote (32 :: safe) s)
  else quote safe s.

(* ---------- urlsplit ---------- *)
Record url_oracle := { ip6_ok : ustr -> bool;      (* _check_bracketed_host does not raise *)
                       nfkc_bad : ustr -> bool }.  (* _checknetloc raises *)

Record split := { u_scheme : ustr; u_netloc : ustr; u_path : ustr;
                  u_query : ustr; u_fragment : ustr }.

Definition scheme_char (c : N) : bool :=
  is_alpha c || is_digit c || mem_n c [43; 45; 46].

Definition is_c0_space (c : N) : bool := c <=? 32.

Definition urlsplit (o : url_oracle) (url0 : ustr) : res split :=
  let url1 := drop_while is_c0_space url0 in
  let url2 := filter (fun c => negb (mem_n c [9; 13; 10])) url1 in
  let '(pre, found, post) := partition1 58 url2 in
  let '(scheme, url3) :=
    match pre with
    | c0 :: _ => if found && (c0 <? 128) && is_alpha c0 && forallb scheme_char pre
                 then (lower pre, post) else ([], url2)
    | [] => ([], url2)
    end in
  let has_netloc := starts_with [47; 47] url3 in
  let '(netloc, url4) :=
    if has_netloc then break_at (fun c => mem_n c [47; 63; 35]) (skipn 2 url3)
    else ([], url3) in
  let lb := mem_n 91 netloc in
  let rb := mem_n 93 netloc in
  if has_netloc && xorb lb rb then Exc ValueErr else
  if has_netloc && lb && rb &&
     negb (ip6_ok o (fst (fst (partition1 93 (snd (partition1 91 netloc))))))
  then Exc ValueErr else
  let '(url5, hasf, fragment) := partition1 35 url4 in
  let '(path, hasq, query) := partition1 63 url5 in
  if negb (is_ascii_str netloc) && nfkc_bad o netloc then Exc ValueErr else
  Ok {| u_scheme := scheme; u_netloc := netloc; u_path := path;
        u_query := query; u_fragment := fragment |}.

(* SplitResult._hostinfo : (hostname, port-string or empty) *)
Definition hostinfo (netloc : ustr) : ustr * ustr :=
  let '(_, _, hi) := rpartition1 64 netloc in
  let '(_, br, bracketed) := partition1 91 hi in
  if br then
    let '(host, _, p) := partition1 93 bracketed in
    let '(_, _, port) := partition1 58 p in (host, port)
  else
    let '(host, _, port) := partition1 58 hi in (host, port).

(* SplitResult.port : None, a port number, or ValueError *)
Definition url_port (netloc : ustr) : res (option N) :=
  let port := snd (hostinfo netloc) in
  match port with
  | [] => Ok None
  | _ => if forallb is_digit port then
           match digits_val port 0 0%nat false with
           | Some (v, n) => if Nat.ltb 4300 n then Exc ValueErr
                            else if v <=? 65535 then Ok (Some v) else Exc ValueErr
           | None => Exc ValueErr
           end
         else Exc ValueErr
  end.

(* SplitResult.hostname (None as empty) *)
Definition url_hostname (netloc : ustr) : ustr :=
  let h := fst (hostinfo netloc) in
  let '(a, f, z) := partition1 37 h in
  if f then lower a ++ 37 :: z else lower a.

(* urlsplit(x).geturl() is only used by Requester.build on "path?query#":
   see HttpReq.v. *)
