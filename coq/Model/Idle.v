(* Model of the idle timeout of one connection of hio.core.http.serving.Server:
   the Remoter's tymer (hio.core.tcp.serving.Remoter.__init__/refresh over
   hio.base.tyming.Tymer), the check in http Server.serviceConnects
   (`ix.tymeout > 0.0 and ix.tymer.expired`), Requestant.checkPersisted
   zeroing the Remoter's tymeout, the response queued in .txbs and
   Remoter.serviceSends/send (one send attempt per pass, refresh only when the
   kernel took bytes), and serviceReps closing a non-persistent connection once
   its response is out.  As the code is after the fix commits: the server's
   tymeout reaches the Remoter (D13), refresh restarts the tymer from the
   current tyme, RemoterTls refreshes like Remoter (so plain and TLS are the
   same model).  Virtual tyme is Z.  No proofs here. *)
From Hio Require Import Base.Prelude.
Local Open Scope Z_scope.

(* what the client does before one Server.service() pass *)
Inductive action :=
| Quiet                (* nothing *)
| Rx (chunks : N)      (* that many recv()s return bytes of an unfinished request head *)
| Req (chunks : N)     (* likewise, and the last one completes a persistent request *)
| ReqClose (chunks : N)  (* likewise, completing a non-persistent request (Connection: close) *)
| ReqDefer (chunks : N) (d : N)  (* likewise, but the WSGI app yields d empty results (one per pass, "not ready
                          yet") before it produces the response; a huge d is an app that never finishes *)
| Rewind.              (* not a service pass: http Server.wind to a tymist whose tyme is the step's tyme;
                          from here on pass tymes are on that time base *)

Definition has_traffic (a : action) : bool :=
  match a with Quiet | Rewind => false | Rx k | Req k | ReqClose k | ReqDefer k _ => (0 <? k)%N end.
Definition is_wind (a : action) : bool := match a with Rewind => true | _ => false end.

(* one pass: tyme, client action, and how many bytes the kernel accepts from one
   send() in this pass (0 = would block: the peer is not reading) *)
Definition step := (Z * action * N)%type.

Record conn := { st : Z;            (* tymer._start *)
                 sp : Z;            (* tymer._stop *)
                 tmo : Z;           (* remoter.tymeout *)
                 closed : bool;     (* closeConnection was called *)
                 timedout : bool;   (* ... by the idle check *)
                 persisted : bool;  (* some request was persistent: tymeout zeroed for good *)
                 responding : bool; (* a non-persistent request is complete: no parser any more *)
                 inprog : bool;     (* its Responder exists and has not ended: response in progress *)
                 wait : N;          (* empty results the app still yields before the response *)
                 pend : N;          (* len(remoter.txbs) *)
                 last : Z }.        (* ghost: tyme of the latest pass in which bytes moved, or of the latest
                                       wind if later (accept tyme at first), on the time base in force *)

(* Remoter(tymeout=T) created at tyme t0: Tymer(duration=T) started at t0 *)
Definition accept (T t0 : Z) : conn :=
  {| st := t0; sp := t0 + T; tmo := T; closed := false; timedout := false; persisted := false;
     responding := false; inprog := false; wait := 0%N; pend := 0; last := t0 |}.

(* Remoter.refresh = tymer.start(): same duration, from now *)
Definition refresh (now : Z) (c : conn) : conn :=
  {| st := now; sp := now + (sp c - st c); tmo := tmo c; closed := closed c; timedout := timedout c;
     persisted := persisted c; responding := responding c; inprog := inprog c; wait := wait c; pend := pend c; last := now |}.

Definition expired (now : Z) (c : conn) : bool := sp c <=? now.   (* tyme >= _stop *)

Definition close (idle : bool) (c : conn) : conn :=
  {| st := st c; sp := sp c; tmo := tmo c; closed := true; timedout := idle; persisted := persisted c;
     responding := responding c; inprog := inprog c; wait := wait c; pend := pend c; last := last c |}.

(* checkPersisted of a persistent request: remoter.tymeout = 0.0 *)
Definition persist (c : conn) : conn :=
  {| st := st c; sp := sp c; tmo := 0; closed := closed c; timedout := timedout c; persisted := true;
     responding := responding c; inprog := inprog c; wait := wait c; pend := pend c; last := last c |}.
Definition respond (c : conn) : conn :=
  {| st := st c; sp := sp c; tmo := tmo c; closed := closed c; timedout := timedout c; persisted := persisted c;
     responding := true; inprog := inprog c; wait := wait c; pend := pend c; last := last c |}.
Definition set_pend (n : N) (c : conn) : conn :=
  {| st := st c; sp := sp c; tmo := tmo c; closed := closed c; timedout := timedout c; persisted := persisted c;
     responding := responding c; inprog := inprog c; wait := wait c; pend := n; last := last c |}.

Definition set_resp (b : bool) (w : N) (c : conn) : conn :=
  {| st := st c; sp := sp c; tmo := tmo c; closed := closed c; timedout := timedout c; persisted := persisted c;
     responding := responding c; inprog := b; wait := w; pend := pend c; last := last c |}.

(* serviceReqs: a completed request gets a Responder (a persistent one answers at once here) *)
Definition dispatch (R : N) (a : action) (c : conn) : conn :=
  if responding c then c
  else match a with
       | Req _ => persist (set_pend (pend c + R)%N c)
       | ReqClose _ => set_resp true 0 (respond c)
       | ReqDefer _ d => set_resp true d (respond c)
       | _ => c
       end.
(* serviceReps: one Responder.service() step of a response in progress: an empty result, or the
   R response bytes are queued and the Responder has ended *)
Definition reps (R : N) (c : conn) : conn :=
  if inprog c then
    (if (wait c =? 0)%N then set_resp false 0 (set_pend (pend c + R)%N c)
     else set_resp true (wait c - 1)%N c)
  else c.
(* serviceReqs + serviceReps (without the final close) *)
Definition requests (R : N) (a : action) (c : conn) : conn := reps R (dispatch R a c).

(* Remoter.serviceSends: one send of all of .txbs; refresh only if the kernel took bytes *)
Definition sends (now : Z) (cap : N) (c : conn) : conn :=
  let n := N.min cap (pend c) in
  if (0 <? n)%N then refresh now (set_pend (pend c - n)%N c) else c.

(* one Server.service() at tyme [now]: serviceConnects (timeout check), serviceReceivesAllIx
   (refresh), serviceReqs (checkPersisted, response queued), serviceReps (non-persistent
   response completely out: close), serviceSendsAllIx; or, for Rewind, Server.wind *)
Definition pass (R : N) (p : step) (c : conn) : conn :=
  match p with
  | (now, a, cap) =>
    if closed c then c
    else if is_wind a then refresh now c     (* Remoter.wind -> Tymer.wind -> start(): restart at the new tyme *)
    else if (0 <? tmo c) && expired now c then close true c
    else
      let c1 := if has_traffic a then refresh now c else c in
      let c2 := requests R a c1 in
      if responding c2 && negb (inprog c2) && (pend c2 =? 0)%N then close false c2
      else sends now cap c2
  end.

Fixpoint run (R : N) (c : conn) (sched : list step) : conn :=
  match sched with
  | [] => c
  | p :: r => run R (pass R p c) r
  end.

(* ---------- the property's vocabulary ---------- *)
(* bytes actually move in pass p from state c: something is received, or there is
   output pending (after this pass's request handling) and the kernel accepts some of it *)
Definition moved (R : N) (p : step) (c : conn) : bool :=
  match p with
  | (now, a, cap) =>
    negb (is_wind a) &&
    (has_traffic a ||
     (let c2 := requests R a c in
      (0 <? pend c2)%N && (0 <? cap)%N && negb (responding c2 && negb (inprog c2) && (pend c2 =? 0)%N)))
  end.
(* a pass in which the client sends nothing and the kernel accepts nothing *)
Definition blocked (p : step) : bool :=
  match p with (_, a, cap) => match a with Quiet => (cap =? 0)%N | _ => false end end.
Definition is_req (a : action) : bool := match a with Req _ => true | _ => false end.
Definition no_req (sched : list step) : bool := forallb (fun p => negb (is_req (snd (fst p)))) sched.
(* every pass of the still open connection comes less than T after the latest pass in which bytes moved *)
Fixpoint busy (R : N) (T : Z) (c : conn) (sched : list step) : Prop :=
  match sched with
  | [] => True
  | p :: r => (closed c = false -> is_wind (snd (fst p)) = false -> fst (fst p) < last c + T) /\
              busy R T (pass R p c) r
  end.

(* ---------- correspondence ---------- *)
Record case := { k_T : Z; k_t0 : Z; k_R : N; k_sched : list step;
                 (* per pass: closed, remoter.tymeout, and while open: tymer start/stop, len(txbs), response in progress (else 0 0 0 false) *)
                 k_obs : list (bool * Z * Z * Z * N * bool) }.

Definition view (c : conn) : bool * Z * Z * Z * N * bool :=
  if closed c then (true, tmo c, 0, 0, 0%N, false) else (false, tmo c, st c, sp c, pend c, inprog c).

Fixpoint trace (R : N) (c : conn) (sched : list step) : list (bool * Z * Z * Z * N * bool) :=
  match sched with
  | [] => []
  | p :: r => let c1 := pass R p c in view c1 :: trace R c1 r
  end.

Definition obs_eqb (x y : bool * Z * Z * Z * N * bool) : bool :=
  match x, y with
  | (c1, t1, a1, b1, n1, i1), (c2, t2, a2, b2, n2, i2) =>
    Bool.eqb c1 c2 && Z.eqb t1 t2 && Z.eqb a1 a2 && Z.eqb b1 b2 && N.eqb n1 n2 && Bool.eqb i1 i2
  end.

Definition check_case (k : case) : bool :=
  list_eqb obs_eqb (trace (k_R k) (accept (k_T k) (k_t0 k)) (k_sched k)) (k_obs k).

(* branch classifier: per pass one id for the timeout/receive/request part and one for the send part *)
Definition branch (R : N) (p : step) (c : conn) : list nat :=
  match p with
  | (now, a, cap) =>
    let armed := 0 <? tmo c in
    let edge := now =? sp c - 1 in
    let back := now <? st c in
    let c2 := requests R a (if has_traffic a then refresh now c else c) in
    let stuck := (0 <? pend c)%N in
    let out := (0 <? pend c2)%N in
    let some := (0 <? cap)%N in
    let part := (cap <? pend c2)%N in
    let done := responding c2 && negb (inprog c2) && (pend c2 =? 0)%N in
    (if closed c then [0]
     else if is_wind a then [if back then 19 else 20]
     else if armed && expired now c then [if inprog c then 21 else if stuck then 11 else 1]
     else (match a with
           | Quiet => if persisted c then 2 else if armed then 3 else 4
           | Rx _ => if persisted c then 5 else if armed then (if edge then 6 else 7) else 8
           | Req _ => if responding c then 17 else if persisted c then 9 else 10
           | ReqClose _ => if responding c then 17 else 16
          | ReqDefer _ _ => if responding c then 17 else 22
          | Rewind => 0
           end)
          :: [if done then 12 else if out then (if some then (if part then 13 else 14) else 15)
              else if inprog c2 then 23 else 18])%nat
  end.
Fixpoint branches (R : N) (c : conn) (sched : list step) : list nat :=
  match sched with
  | [] => []
  | p :: r => branch R p c ++ branches R (pass R p c) r
  end.
Definition n_branches : nat := 24.
Definition case_branches (k : case) : list nat := branches (k_R k) (accept (k_T k) (k_t0 k)) (k_sched k).
