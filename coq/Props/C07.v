(* C07 — Real-time pacing never runs early and does not drift.
   Statements only; proofs are in Proofs/RealTimeProofs.v; model Model/RealTime.v.

   Time is exact (Z, any unit).  [mono] is true elapsed time: the sum of all
   forward progress (work, time between clock reads, sleeps).  The clock the
   code reads is [now] = true time plus an offset that every backward jump
   lowers.  The environment is arbitrary: [reads w] gives for each clock read the
   progress p >= 0 and backward jump j >= 0 that precede it, [overs w] gives for
   each sleep call an overshoot o >= 0 or an early return after e >= 0, [works]
   gives what each cycle's recur does to the clock.  Forward clock jumps are
   not distinguishable from time passing and are excluded, as in the property. *)
From Hio Require Import Base.Prelude Base.Time Model.RealTime Proofs.RealTimeProofs.
Local Open Scope Z_scope.

(* One do() run of the current code, from ANY timer state (whatever happened
   to the clock since the Doist was built or last run) in ANY well-formed
   environment, with the tock it has when the run starts (any sign): cycle k
   starts no earlier than k tocks of true elapsed time after the run started,
   and do() returns no earlier than (number of cycles) tocks after. *)
Theorem C07_not_early : forall fuel tock tm w works out tmf wf,
  world_ok w -> Forall step_ok works ->
  do_real VSync fuel tock tm w works = Some (out, tmf, wf) ->
  (forall k c, nth_error (r_cycles out) k = Some c -> r_mono out + Z.of_nat k * tock <= c_mono c) /\
  r_mono out + Z.of_nat (length works) * tock <= r_end_mono out /\
  length (r_cycles out) = length works.
Proof.
  intros fuel tock tm w works out tmf wf Hw Hs E.
  destruct (do_real_not_early fuel tock tm w works out tmf wf Hw Hs E) as [_ H]. exact H.
Qed.
Print Assumptions C07_not_early.

(* Lossless: the deadline in force when cycle k starts (the timer's stop, in
   clock coordinates) is the run's start reading plus k+1 tocks plus the
   retrograde shifts visible in the clock readings taken so far ([shifts] is a
   function of the reading log alone).  Work time, lateness, sleep overshoot and
   early wakeups do not occur in it; no hypothesis on the environment at all. *)
Theorem C07_lossless : forall fuel tock tm w works out tmf wf,
  do_real VSync fuel tock tm w works = Some (out, tmf, wf) ->
  forall k c, nth_error (r_cycles out) k = Some c ->
    c_stop c = r_now out + (Z.of_nat k + 1) * tock + shifts (c_log c).
Proof. exact do_real_lossless. Qed.
Print Assumptions C07_lossless.

(* Non-vacuity (unit 1/8 s, tock 1 s): work of 1/8 s per cycle, the second sleep
   overshoots by 1/4 s, the clock steps back 5 s during the fourth cycle's work
   (Appendix A.7 of DESIGN.md).  Cycle starts on the clock: 1000, 1001, 1002.25,
   1003, 999.125 s; in true time 0, 1, 2.25, 3, 4.125 s: the late third cycle did
   not move the fourth deadline; the step back moved the deadlines by the part of
   it the readings show (4.875 s: the 1/8 s of work before it is waited again). *)
Example C07_example :
  let w := {| now := 8000; mono := 0; reads := []; overs := [Over 0; Over 2]; log := [] |} in
  let tm := {| t_start := 7000; t_stop := 7004; t_last := 6990 |} in
  match do_real VSync 4 8 tm w [(1, 0); (1, 0); (1, 0); (1, 40); (1, 0)] with
  | Some (out, _, _) =>
      map c_now (r_cycles out) = [8000; 8008; 8018; 8024; 7993] /\
      map c_mono (r_cycles out) = [0; 8; 18; 24; 33] /\
      map c_stop (r_cycles out) = [8008; 8016; 8024; 8032; 8001] /\
      map (fun c => shifts (c_log c)) (r_cycles out) = [0; 0; 0; 0; -39]
  | None => False
  end.
Proof. vm_compute. repeat split. Qed.

(* Steady, stalled or merely late clock (no backward jump anywhere): no shifts,
   every deadline is exactly the start reading plus k+1 tocks -- no drift,
   whatever the work times, overshoots and early wakeups were. *)
Theorem C07_no_drift : forall fuel tock tm w works out tmf wf,
  world_ok w -> Forall step_ok works -> no_retro (reads w) -> no_retro works ->
  do_real VSync fuel tock tm w works = Some (out, tmf, wf) ->
  forall k c, nth_error (r_cycles out) k = Some c ->
    c_stop c = r_now out + (Z.of_nat k + 1) * tock.
Proof. exact do_real_no_drift. Qed.
Print Assumptions C07_no_drift.

Example C07_no_drift_example :   (* work of 1.5 tocks in cycle 1, overshoot of 2 tocks on the last sleep: cycles 1, 2, 4 start late, the deadlines do not move *)
  let w := {| now := 0; mono := 0; reads := [(0, 0); (1, 0); (0, 0); (3, 0)]; overs := [Over 0; Over 16]; log := [] |} in
  let tm := {| t_start := 0; t_stop := 0; t_last := 0 |} in
  world_ok w /\ no_retro (reads w) /\
  match do_real VSync 3 8 tm w [(2, 0); (12, 0); (2, 0); (2, 0); (2, 0)] with
  | Some (out, _, _) => map c_stop (r_cycles out) = [8; 16; 24; 32; 40] /\
                        map c_now (r_cycles out) = [0; 11; 23; 25; 48] /\ r_end_now out = 50
  | None => False
  end.
Proof.
  split; [split; cbn; repeat constructor; cbn; lia|]. split; [repeat constructor|].
  vm_compute. repeat split.
Qed.

(* On time: lateness is never carried over.  When nothing but the doers' work
   and exact sleeps move the clock ([quiet]: no progress between reads, no
   overshoot, no early wakeup; works never step back), the cycle starts and
   deadlines are the recurrence [ideal]: deadline_k = start + (k+1) tocks and
   cycle k+1 starts at max(its deadline, end of the work of cycle k) -- exactly on
   the deadline whenever the work fits in the tock, however late earlier cycles
   were.  (Together with C07_not_early this pins the quiet schedule completely.) *)
Theorem C07_on_time : forall fuel tock tm w works out tmf wf,
  quiet w -> Forall step_ok works -> no_retro works ->
  do_real VSync (S (S fuel)) tock tm w works = Some (out, tmf, wf) ->
  map (fun c => (c_now c, c_stop c)) (r_cycles out) = ideal (r_now out) (r_now out + tock) tock works.
Proof. exact do_real_on_time. Qed.
Print Assumptions C07_on_time.

Example C07_on_time_example :   (* tock 8, pairs (start, deadline of the next start): work 3, 20 (2.5 tocks), 3, 3, 3 -> starts 0, 8, 28, 31, 34,
     then 40: cycles run back to back until the grid k*8 is caught up, no lateness is kept *)
  ideal 0 8 8 [(3, 0); (20, 0); (3, 0); (3, 0); (3, 0)] = [(0, 8); (8, 16); (28, 24); (31, 32); (34, 40)]
  /\ ideal 0 8 8 [(3, 0); (3, 0); (3, 0)] = [(0, 8); (8, 16); (16, 24)].
Proof. vm_compute. split; reflexivity. Qed.

(* The model's wait loop has fuel; it cannot run out: a wait goes round again
   only after a backward jump was read or a sleep returned early, so a fuel
   above twice their number in the script (plus one) always suffices. *)
Theorem C07_terminates : forall fuel tock tm w works,
  world_ok w -> Forall step_ok works -> (2 * bad w + 1 < fuel)%nat ->
  exists out tmf wf, do_real VSync fuel tock tm w works = Some (out, tmf, wf).
Proof. exact do_real_ends. Qed.
Print Assumptions C07_terminates.

(* Whole sessions: a Doist built with tock0 under any clock, then any number of
   do() runs, each after an arbitrary clock step (time passing, a step back)
   and an optional `doist.tock = x`: every run is not early and lossless with
   respect to the tock in force when it starts ([eff_tocks]).  Assignments to
   doist.tock made by doers while a run is under way ([i_sets]) are not an input
   of [do_real] at all: the pace of the running loop is the tock of its start. *)
Theorem C07_sessions : forall fuel t0 tock0 rs os runs outs,
  Forall step_ok rs -> Forall slp_ok os -> Forall run_ok runs ->
  play VSync fuel t0 tock0 rs os runs = Some outs ->
  Forall2 (fun t o => not_early_run t o /\ lossless_run t o) (eff_tocks tock0 runs) outs.
Proof. exact play_runs. Qed.
Print Assumptions C07_sessions.

Example C07_sessions_example :   (* the two fixed defects' inputs in one session: step back before run 1, tock reassigned for run 2;
     a doer sets doist.tock to 1/8 s in cycle 1 of run 1: that run keeps its pace of 4 units *)
  let runs := [{| i_pre := (40, 840); i_tock := None; i_works := [(0, 0); (0, 0); (0, 0)]; i_sets := [None; Some 1; None] |};
               {| i_pre := (3, 0); i_tock := Some 16; i_works := [(1, 0); (1, 0)]; i_sets := [] |}] in
  Forall run_ok runs /\ eff_tocks 4 runs = [4; 16] /\
  match play VSync 3 8000 4 [] [] runs with
  | Some [o1; o2] => map c_mono (r_cycles o1) = [40; 44; 48] /\ r_end_mono o1 = 52 /\
                     map c_mono (r_cycles o2) = [55; 71] /\ r_end_mono o2 = 87
  | _ => False
  end.
Proof.
  split; [repeat constructor; cbn; lia|]. vm_compute. repeat split.
Qed.

(* The two defects the code had (fixed in /repo by 3c12e10 and a09d879) as
   theorems about the older forms of the run start. *)

(* D4: with `self.timer.start()` the timer keeps the tock of construction time
   (1/2 s = 4 units); `doist.tock = 2.0` (16 units) before do() is ignored and
   cycle 1 starts after 4 units instead of 16. *)
Theorem C07_D4_refuted : exists outs o c,
  play VOrig 4 8000 4 [] [] [{| i_pre := (0, 0); i_tock := Some 16; i_works := [(0, 0); (0, 0); (0, 0)]; i_sets := [] |}] = Some outs /\
  nth_error outs 0 = Some o /\ nth_error (r_cycles o) 1 = Some c /\
  c_mono c < r_mono o + 1 * 16.
Proof. do 3 eexists. vm_compute. repeat split. Qed.
Print Assumptions C07_D4_refuted.

(* stale ._last: with `self.timer.start(duration=self.tock)` a clock stepped
   back by 100 s (800 units) between construction and do() makes the first
   `expired` shift the fresh deadline back by the whole step: cycles 1, 2, 3
   start with no time elapsed at all. *)
Theorem C07_stale_last_refuted : exists outs o c,
  play VTock 4 8000 4 [] [] [{| i_pre := (40, 840); i_tock := None; i_works := [(0, 0); (0, 0); (0, 0); (0, 0)]; i_sets := [] |}] = Some outs /\
  nth_error outs 0 = Some o /\ nth_error (r_cycles o) 3 = Some c /\
  c_mono c = r_mono o /\ c_mono c < r_mono o + 3 * 4.
Proof. do 3 eexists. vm_compute. repeat split. Qed.
Print Assumptions C07_stale_last_refuted.

(* ------------------------------------------------------------------------
   The asyncio path: asyncio.run(doist.ado()) with real=True.  Separately
   written code, modelled next to do() ([ado_real], [await], [acycles]).  What
   differs from do():
   * the timer is an AsyncTimer = plain Timer over asyncio.get_event_loop().time(),
     created INSIDE ado() with duration=self.tock: the tock is read when ado is
     called (D4 never existed here) and no timer state survives from one run to
     the next, so the theorems quantify over the clock only, not over a timer;
   * the run starts at the second loop-clock reading (AsyncTimer(...) takes one,
     .start() the next);
   * there is no retrograde handling and none is needed: the deadlines are
     start + (k+1) tocks on the loop clock, exactly, for EVERY environment -- no
     [shifts] term.  The loop clock is monotonic, but not-early does not even
     depend on that: a clock that stepped back would only make the wait longer.
   [world] is now the loop clock; [sleep] is one awaited asyncio.sleep. *)

Theorem C07_ado_not_early : forall fuel tock w works out wf,
  world_ok w -> Forall step_ok works ->
  ado_real fuel tock w works = Some (out, wf) ->
  (forall k c, nth_error (r_cycles out) k = Some c -> r_mono out + Z.of_nat k * tock <= c_mono c) /\
  r_mono out + Z.of_nat (length works) * tock <= r_end_mono out /\
  length (r_cycles out) = length works.
Proof.
  intros fuel tock w works out wf Hw Hs E.
  destruct (ado_real_not_early fuel tock w works out wf Hw Hs E) as [_ H]. exact H.
Qed.
Print Assumptions C07_ado_not_early.

(* lossless = no drift here: the deadline of cycle k is the start reading plus
   k+1 tocks, with no hypothesis on the environment at all *)
Theorem C07_ado_lossless : forall fuel tock w works out wf,
  ado_real fuel tock w works = Some (out, wf) ->
  forall k c, nth_error (r_cycles out) k = Some c ->
    c_stop c = r_now out + (Z.of_nat k + 1) * tock.
Proof. exact ado_real_lossless. Qed.
Print Assumptions C07_ado_lossless.

(* ... so consecutive deadlines are exactly one tock apart whatever the work
   time, lateness, overshoot or early wakeups of the cycle in between *)
Theorem C07_ado_no_drift : forall fuel tock w works out wf,
  ado_real fuel tock w works = Some (out, wf) ->
  forall k c c', nth_error (r_cycles out) k = Some c -> nth_error (r_cycles out) (S k) = Some c' ->
    c_stop c' = c_stop c + tock.
Proof.
  intros fuel tock w works out wf E k c c' H1 H2.
  rewrite (ado_real_lossless _ _ _ _ _ _ E _ _ H1), (ado_real_lossless _ _ _ _ _ _ E _ _ H2). lia.
Qed.
Print Assumptions C07_ado_no_drift.

Theorem C07_ado_on_time : forall fuel tock w works out wf,
  quiet w -> Forall step_ok works -> no_retro works ->
  ado_real (S (S fuel)) tock w works = Some (out, wf) ->
  map (fun c => (c_now c, c_stop c)) (r_cycles out) = ideal (r_now out) (r_now out + tock) tock works.
Proof. exact ado_real_on_time. Qed.
Print Assumptions C07_ado_on_time.

Theorem C07_ado_terminates : forall fuel tock w works,
  world_ok w -> Forall step_ok works -> (2 * bad w + 1 < fuel)%nat ->
  exists out wf, ado_real fuel tock w works = Some (out, wf).
Proof. exact ado_real_ends. Qed.
Print Assumptions C07_ado_terminates.

(* every ado() run of a session, with the tock in force when ado is called *)
Theorem C07_ado_sessions : forall fuel t0 tock0 rs os runs outs,
  Forall step_ok rs -> Forall slp_ok os -> Forall run_ok runs ->
  aplay fuel t0 tock0 rs os runs = Some outs ->
  Forall2 (fun t o => not_early_run t o /\ ado_exact_run t o) (eff_tocks tock0 runs) outs.
Proof. exact aplay_runs. Qed.
Print Assumptions C07_ado_sessions.

Example C07_ado_example :   (* unit 1/8 s; tock 1/2 s at construction, 2 s assigned before ado(); late cycle 1, one early wakeup, one overshoot *)
  let runs := [{| i_pre := (5, 0); i_tock := Some 16; i_works := [(2, 0); (40, 0); (2, 0); (2, 0)]; i_sets := [] |}] in
  Forall run_ok runs /\
  match aplay 3 100 4 [(0, 0); (1, 0)] [Early 6; Over 0; Over 3] runs with
  | Some [o] => r_now o = 106 /\ map c_stop (r_cycles o) = [122; 138; 154; 170] /\
                map c_now (r_cycles o) = [106; 122; 162; 164] /\ map c_sleeps (r_cycles o) = [[14; 8]; []; []; [4]] /\
                r_end_now o = 173
  | _ => False
  end.
Proof. split; [repeat constructor; cbn; lia|]. vm_compute. repeat split. Qed.

(* The named residue.  The theorems above are about exact time; binary64 is
   not exact: at an epoch-sized clock reading `_start + tock` is rounded to a
   multiple of 2^-22 s and restart() reuses the rounded duration, so with tock
   1/3 s twelve cycles take 4 - 2^-20 s of true time, 0.95 us less than 12 tocks.
   (Same model, float instance -- the one the correspondence runs against the
   real code bit for bit.) *)
From Coq Require Import PrimFloat.
Example C07_binary64_residue : exists outs o,
  let tock := 0x1.5555555555555p-2%float in
  play VSync 4 0x1.954fc4007e6b4p+30%float tock [] []
       [{| i_pre := (0%float, 0%float); i_tock := None; i_works := repeat (0%float, 0%float) 12; i_sets := [] |}] = Some outs /\
  nth_error outs 0 = Some o /\
  PrimFloat.ltb (r_end_mono o) (PrimFloat.mul 12 tock) = true /\
  PrimFloat.ltb (PrimFloat.sub (PrimFloat.mul 12 tock) 0x1p-19) (r_end_mono o) = true.
Proof. do 2 eexists. vm_compute. repeat split. Qed.
