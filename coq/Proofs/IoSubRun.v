(* Whole histories: the Io stores against the dictionary keyed by the joined key,
   renaming of dictionary keys along an injective map (tuple keys), injectivity of
   the tuple join on separator-free parts, and the plain store. *)
From Hio Require Import Base.Prelude Base.ListFacts Model.Lmdb Model.IoSub
  Proofs.LmdbProofs Proofs.IoSubHex Proofs.IoSubBlock Proofs.IoSubOps Proofs.IoSubProofs.
Local Open Scope N_scope.


Section Run.
  Variable U : bytes -> Prop.
  Hypothesis U_indep : forall k k', U k -> U k' -> k <> k' -> indep2 k k'.

  Lemma rel_init : Rel U 0 [] (fun _ => []).
  Proof.
    split; [|reflexivity]. split; [vm_compute; discriminate|]. split; [exact I|constructor].
  Qed.

  Lemma step_kind set d o : step (kind_of set) d o = step_io set d o.
  Proof. now destruct set. Qed.

  Theorem run_io_refines set : forall ops B d s,
    Rel U B d s -> Forall (fun o => U (tokey (op_key o))) ops -> B + weights ops <= maxsuffix ->
    snd (run (kind_of set) d ops) =
      spec_run_io bytes_eqb set (fun o => tokey (op_key o)) s ops /\
    exists s', Rel U (B + weights ops) (fst (run (kind_of set) d ops)) s'.
  Proof.
    induction ops as [|o ops IH]; intros B d s Hr Hk Hw.
    - simpl. split; auto. exists s. now rewrite N.add_0_r.
    - inversion Hk as [|? ? Ko Kops]; subst. cbn [weights fold_right] in Hw. fold (weights ops) in Hw.
      cbn [run spec_run_io]. rewrite step_kind.
      destruct (step_io_refines U U_indep set B d s o Hr Ko) as [E1 E2]; [lia|].
      destruct (step_io set d o) as [d' r]. destruct (spec_io bytes_eqb set s o (tokey (op_key o))) as [s' r'].
      cbn [fst snd] in *. subst r'.
      destruct (IH (B + weight o) d' s' E2 Kops) as [E3 [s'' E4]]; [lia|].
      destruct (run (kind_of set) d' ops) as [d'' rs]. cbn [fst snd] in *.
      split; [now f_equal|]. exists s''. cbn [weights fold_right]. fold (weights ops).
      now rewrite N.add_assoc.
  Qed.
End Run.

(* ---- dictionary keys may be renamed along a map that is injective on the keys used ---- *)
Section Rename.
  Context {K1 K2 : Type} (e1 : K1 -> K1 -> bool) (e2 : K2 -> K2 -> bool) (f : K1 -> K2).
  Variable T : K1 -> Prop.
  Hypothesis f_inj : forall a b, T a -> T b -> e2 (f a) (f b) = e1 a b.

  Lemma spec_io_rename set s1 s2 o k : T k ->
    (forall t, T t -> s1 t = s2 (f t)) ->
    snd (spec_io e1 set s1 o k) = snd (spec_io e2 set s2 o (f k)) /\
    forall t, T t -> fst (spec_io e1 set s1 o k) t = fst (spec_io e2 set s2 o (f k)) (f t).
  Proof.
    intros Tk H. pose proof (H k Tk) as Hk.
    assert (Upd : forall X t, T t -> upd e1 s1 k X t = upd e2 s2 (f k) X (f t)).
    { intros X t Tt. unfold upd. rewrite f_inj by assumption. destruct (e1 t k); auto. }
    destruct o; cbn [spec_io]; rewrite <- ?Hk.
    - destruct set; split; cbn [fst snd]; auto.
    - destruct set; split; cbn [fst snd]; auto.
    - destruct (set && existsb (bytes_eqb v) (s1 k)); split; cbn [fst snd]; auto.
    - split; auto.
    - split; auto.
    - split; auto.
    - split; cbn [fst snd]; auto.
    - split; cbn [fst snd]; auto.
    - destruct set; [destruct v|]; split; cbn [fst snd]; auto.
    - split; auto.
    - split; auto.
  Qed.

  Lemma spec_run_rename set (key : op -> K1) : forall ops s1 s2,
    (forall t, T t -> s1 t = s2 (f t)) -> Forall (fun o => T (key o)) ops ->
    spec_run_io e1 set key s1 ops = spec_run_io e2 set (fun o => f (key o)) s2 ops.
  Proof.
    induction ops as [|o ops IH]; intros s1 s2 H Hk; [reflexivity|].
    inversion Hk; subst. cbn [spec_run_io].
    destruct (spec_io_rename set s1 s2 o (key o) H2 H) as [E1 E2].
    destruct (spec_io e1 set s1 o (key o)) as [s1' r1]. destruct (spec_io e2 set s2 o (f (key o))) as [s2' r2].
    cbn [fst snd] in *. subst. f_equal. now apply IH.
  Qed.
End Rename.

(* ---- the tuple join is injective on separator-free parts ---- *)
Lemma split_at_sep (s : N) p p' x y : ~ In s p -> ~ In s p' ->
  p ++ s :: x = p' ++ s :: y -> p = p' /\ x = y.
Proof.
  revert p'. induction p as [|a p IH]; intros [|a' p'] H1 H2 E; simpl in *.
  - injection E as <-. auto.
  - injection E as <- _. tauto.
  - injection E as -> _. tauto.
  - injection E as <- E. destruct (IH p') as [-> ->]; auto.
Qed.

Lemma join_inj (s : N) : forall a b, a <> [] -> b <> [] ->
  Forall (fun p => ~ In s p) a -> Forall (fun p => ~ In s p) b -> join s a = join s b -> a = b.
Proof.
  induction a as [|p a IH]; intros b Ha Hb Fa Fb E; [congruence|].
  destruct b as [|p' b]; [congruence|]. inversion Fa; subst. inversion Fb; subst.
  destruct a as [|q a], b as [|q' b]; cbn [join] in E.
  - now subst.
  - exfalso. subst p. apply H1. rewrite in_app_iff. right. now left.
  - exfalso. subst p'. apply H3. rewrite in_app_iff. right. now left.
  - destruct (split_at_sep s p p' _ _ H1 H3 E) as [-> E']. f_equal.
    apply IH; auto; discriminate.
Qed.

Lemma join_nosep (s c : N) : forall a, Forall (fun p => ~ In c p) a -> c <> s -> ~ In c (join s a).
Proof.
  induction a as [|p a IH]; intros F Hc; simpl; [tauto|].
  inversion F; subst. destruct a as [|q a]; [assumption|].
  rewrite in_app_iff. intros [H|[H|H]]; [contradiction|congruence|]. now apply (IH H2 Hc).
Qed.

Lemma prefixb_in (s : N) k k' : prefixb (k ++ [s]) k' = true -> In s k'.
Proof.
  revert k'. induction k as [|c k IH]; intros [|c' k']; simpl; try discriminate.
  - rewrite andb_true_iff. intros [H _]. apply N.eqb_eq in H. now left.
  - rewrite andb_true_iff. intros [_ H]. right. now apply IH.
Qed.

Lemma nosep_indep k k' : ~ In ionsep k -> ~ In ionsep k' -> indep2 k k'.
Proof.
  intros H1 H2. split.
  - destruct (prefixb (k ++ [ionsep]) k') eqn:E; auto. apply prefixb_in in E. contradiction.
  - destruct (prefixb (k' ++ [ionsep]) k) eqn:E; auto. apply prefixb_in in E. contradiction.
Qed.

Lemma list_eqb_bytes (a b : list bytes) : list_eqb bytes_eqb a b = true <-> a = b.
Proof. apply list_eqb_eq. apply bytes_eqb_eq. Qed.
