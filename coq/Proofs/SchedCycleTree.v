(* C03/C05 for NESTED static programs: forests of effect-free leaves and
   non-`always` DoDoers with any tock.
   The reference cycle model of Proofs/SchedCycleDue.v extended to trees:
   a DoDoer item is due like a leaf (it yields its own |tock| every pass), when
   due it runs one reference pass over its kids with asap base |its tock| (the
   D35 semantics, stated positively), and it returns when its deque is empty.
   Refinement: do_run (oof = false) computes exactly this reference. *)
From Coq Require Import Permutation.
From Hio Require Import Base.Prelude Base.AMap Base.Time Model.Sched Proofs.SchedEqs Proofs.SchedFrame
  Proofs.SchedCycleTick Proofs.SchedCycleDue Proofs.SchedCycleRef.

Section Tree.
Context {T : Type} `{Time T}.
Implicit Types s : st T.
Variable tk : T.
Variable D : amap (fdef T).

(* ---------- reference state: a forest of items ---------- *)

Inductive rtree :=
| RLeaf (i : id) (due : T) (pc : nat)
| RNest (i : id) (due : T) (kids : list rtree).

Section rtree_ind2.
  Variable P : rtree -> Prop.
  Hypothesis Hleaf : forall i due pc, P (RLeaf i due pc).
  Hypothesis Hnest : forall i due kids, Forall P kids -> P (RNest i due kids).
  Fixpoint rtree_ind2 (x : rtree) : P x :=
    match x with
    | RLeaf i due pc => Hleaf i due pc
    | RNest i due kids =>
      Hnest i due kids ((fix go (l : list rtree) : Forall P l :=
                           match l with [] => Forall_nil P | k :: r => Forall_cons k (rtree_ind2 k) (go r) end) kids)
    end.
End rtree_ind2.

Definition tid (x : rtree) : id := match x with RLeaf i _ _ => i | RNest i _ _ => i end.
Definition tdue (x : rtree) : T := match x with RLeaf _ d _ => d | RNest _ d _ => d end.
Definition set_due (x : rtree) (d : T) : rtree :=
  match x with RLeaf i _ pc => RLeaf i d pc | RNest i _ kids => RNest i d kids end.
Definition tdeed (x : rtree) : deed T := DDeed (tid x) (tdue x).

Fixpoint tids (x : rtree) : list id :=
  match x with RLeaf i _ _ => [i] | RNest i _ kids => i :: flat_map tids kids end.
Definition lids (l : list rtree) : list id := flat_map tids l.

(* one resumption of a due item at tyme [now]: what it yields together with the
   item's new inner state (due unchanged: the parent computes it), or None when
   it returns; and the recur steps (item first, then its descendants in order) *)
Fixpoint trun (now : T) (x : rtree) {struct x} : option (option T * rtree) * list (id * T) :=
  match x with
  | RLeaf i due pc =>
    match out_at D i pc with
    | OYield t => (Some (t, RLeaf i due (S pc)), [(i, now)])
    | _ => (None, [(i, now)])
    end
  | RNest i due kids =>
    let '(kids', o) :=
      (fix tp (l : list rtree) : list rtree * list (id * T) :=
         match l with
         | [] => ([], [])
         | k :: r =>
           let '(a, o1) :=
             if tleb (tdue k) now then
               match trun now k with
               | (Some (t, k'), o) => ([set_due k' (next_due now (stock tk D i) (tdue k) t)], o)
               | (None, o) => ([], o)
               end
             else ([k], []) in
           let '(b, o2) := tp r in (a ++ b, o1 ++ o2)
         end) kids in
    match kids' with
    | [] => (None, (i, now) :: o)
    | _ => (Some (Some (stock tk D i), RNest i due kids'), (i, now) :: o)
    end
  end.

(* one item in one pass of a scheduler whose asap tock is [st_] *)
Definition tvisit (now st_ : T) (x : rtree) : list rtree * list (id * T) :=
  if tleb (tdue x) now then
    match trun now x with
    | (Some (t, x'), o) => ([set_due x' (next_due now st_ (tdue x) t)], o)
    | (None, o) => ([], o)
    end
  else ([x], []).

Definition tpass (now st_ : T) : list rtree -> list rtree * list (id * T) :=
  fix tp (l : list rtree) : list rtree * list (id * T) :=
  match l with
  | [] => ([], [])
  | k :: r => let '(a, o1) := tvisit now st_ k in let '(b, o2) := tp r in (a ++ b, o1 ++ o2)
  end.

Lemma tpass_nil now st_ : tpass now st_ [] = ([], []). Proof. reflexivity. Qed.
Lemma tpass_cons now st_ k r :
  tpass now st_ (k :: r) = let '(a, o1) := tvisit now st_ k in let '(b, o2) := tpass now st_ r in (a ++ b, o1 ++ o2).
Proof. reflexivity. Qed.

Lemma trun_nest now i due kids :
  trun now (RNest i due kids) =
  let '(kids', o) := tpass now (stock tk D i) kids in
  match kids' with
  | [] => (None, (i, now) :: o)
  | _ => (Some (Some (stock tk D i), RNest i due kids'), (i, now) :: o)
  end.
Proof. reflexivity. Qed.

(* ---------- ids: everything stays inside the item, in order ---------- *)

Lemma tids_set_due x d : tids (set_due x d) = tids x.
Proof. destruct x; reflexivity. Qed.
Lemma tid_set_due x d : tid (set_due x d) = tid x.
Proof. destruct x; reflexivity. Qed.
Lemma tdeed_set_due x d : tdeed (set_due x d) = DDeed (tid x) d.
Proof. destruct x; reflexivity. Qed.
Lemma tid_in_tids x : In (tid x) (tids x).
Proof. destruct x; left; reflexivity. Qed.

Definition ids_ok (x : rtree) : Prop :=
  forall now,
    subseq (map fst (snd (trun now x))) (tids x) /\
    match fst (trun now x) with
    | Some (t, x') => tid x' = tid x /\ subseq (tids x') (tids x)
    | None => True
    end.

Lemma tvisit_ids now st_ x : ids_ok x ->
  subseq (lids (fst (tvisit now st_ x))) (tids x) /\ subseq (map fst (snd (tvisit now st_ x))) (tids x).
Proof.
  intro I. destruct (I now) as (O & X). unfold tvisit. destruct (tleb (tdue x) now).
  - destruct (trun now x) as [[[t x']|] o]; cbn [fst snd] in *.
    + split; [|exact O]. unfold lids. cbn [flat_map]. rewrite app_nil_r, tids_set_due. apply X.
    + split; [apply subseq_nil|exact O].
  - cbn [fst snd]. split; [unfold lids; cbn [flat_map]; rewrite app_nil_r; apply subseq_refl|apply subseq_nil].
Qed.

Lemma tpass_ids now st_ l : Forall ids_ok l ->
  subseq (lids (fst (tpass now st_ l))) (lids l) /\ subseq (map fst (snd (tpass now st_ l))) (lids l).
Proof.
  induction 1 as [|k r Ik Ir IH]; [split; constructor|].
  rewrite tpass_cons. destruct (tvisit_ids now st_ k Ik) as (A1 & A2).
  destruct (tvisit now st_ k) as [a o1]. destruct (tpass now st_ r) as [b o2]. cbn [fst snd] in *.
  destruct IH as (B1 & B2). unfold lids in *. cbn [flat_map]. rewrite flat_map_app, map_app.
  split; apply subseq_app; assumption.
Qed.

Lemma ids_ok_all x : ids_ok x.
Proof.
  induction x as [i due pc|i due kids IH] using rtree_ind2; intro now.
  - cbn [trun]. destruct (out_at D i pc); cbn [fst snd map tids]; repeat split; try apply subseq_refl.
  - rewrite trun_nest. destruct (tpass_ids now (stock tk D i) kids IH) as (A1 & A2).
    destruct (tpass now (stock tk D i) kids) as [kids' o]. cbn [fst snd] in *.
    destruct kids' as [|k kids']; cbn [fst snd map tids tid].
    + split; [now apply ss_take|exact I].
    + split; [now apply ss_take|]. split; [reflexivity|now apply ss_take].
Qed.

Lemma subseq_incl {A} (a b : list A) : subseq a b -> incl a b.
Proof. intros S x. now apply subseq_In. Qed.


(* ---------- list facts ---------- *)

Lemma nodup_app_iff {A} (a b : list A) :
  NoDup (a ++ b) <-> NoDup a /\ NoDup b /\ (forall x, In x a -> ~ In x b).
Proof.
  induction a as [|x a IH]; cbn [app].
  - split; [intro N; repeat split; [constructor|exact N|intros x []]|intros (_ & N & _); exact N].
  - split.
    + intro N. inversion N as [|? ? Nin N']; subst. apply IH in N'. destruct N' as (Na & Nb & Dj).
      split; [constructor; [intro I; apply Nin, in_or_app; now left|exact Na]|].
      split; [exact Nb|]. intros y [<-|Iy]; [intro I; apply Nin, in_or_app; now right|now apply Dj].
    + intros (Na & Nb & Dj). inversion Na as [|? ? Nin Na']; subst. constructor.
      * intro I. apply in_app_or in I. destruct I as [I|I]; [contradiction|]. exact (Dj x (or_introl eq_refl) I).
      * apply IH. split; [exact Na'|]. split; [exact Nb|]. intros y Iy. apply Dj. now right.
Qed.

(* move the front block to the back, possibly shrinking it *)
Lemma nodup_rot_sub {A} (a a' b : list A) : NoDup (a ++ b) -> subseq a' a -> NoDup (b ++ a').
Proof.
  intros N S. apply nodup_app_iff in N. destruct N as (Na & Nb & Dj). apply nodup_app_iff.
  split; [exact Nb|]. split; [eapply subseq_NoDup; eassumption|].
  intros x Ib Ia. eapply Dj; [eapply subseq_In; eassumption|exact Ib].
Qed.

Lemma lids_app l m : lids (l ++ m) = lids l ++ lids m.
Proof. unfold lids. apply flat_map_app. Qed.
Lemma lids_cons x l : lids (x :: l) = tids x ++ lids l.
Proof. reflexivity. Qed.
Lemma lids_one x : lids [x] = tids x.
Proof. unfold lids. cbn. apply app_nil_r. Qed.

(* ---------- the abstraction relation ---------- *)

Inductive rel s : rtree -> Prop :=
| rel_leaf i due pc : get_gen s i = GSusp pc -> quiet_def (get D i) = true -> rel s (RLeaf i due pc)
| rel_nest i due kids pc t0 kids0 :
    get_gen s i = GSusp pc -> get D i = Some (FNest t0 false kids0) ->
    deeds (get_sched s i) = map tdeed kids -> Forall (rel s) kids -> rel s (RNest i due kids).

Lemma rel_set_due s x d : rel s x -> rel s (set_due x d).
Proof. intro R. destruct R; cbn [set_due]; econstructor; eassumption. Qed.

Definition same_on (ids : list id) s s' : Prop :=
  forall j, In j ids -> get_gen s' j = get_gen s j /\ get_sched s' j = get_sched s j.

Lemma rel_frame x : forall s s', rel s x -> same_on (tids x) s s' -> rel s' x.
Proof.
  induction x as [i due pc|i due kids IH] using rtree_ind2; intros s s' R S.
  - inversion R; subst. destruct (S i (or_introl eq_refl)) as (G & _). constructor; [congruence|assumption].
  - inversion R as [|? ? ? pc t0 kids0 G Df Dq Fk]; subst.
    destruct (S i (or_introl eq_refl)) as (G' & Sc').
    econstructor; [rewrite G'; exact G|exact Df|rewrite Sc'; exact Dq|].
    assert (Sk : same_on (lids kids) s s') by (intros j Ij; apply S; right; exact Ij).
    clear -IH Fk Sk. induction kids as [|k r IHr]; [constructor|].
    inversion IH; subst. inversion Fk; subst. constructor.
    + eapply H1; [eassumption|]. intros j Ij. apply Sk. rewrite lids_cons. apply in_or_app. now left.
    + apply IHr; try assumption. intros j Ij. apply Sk. rewrite lids_cons. apply in_or_app. now right.
Qed.

Lemma rels_frame l s s' : Forall (rel s) l -> same_on (lids l) s s' -> Forall (rel s') l.
Proof.
  induction 1 as [|k r Rk Rr IH]; intro S; [constructor|]. constructor.
  - eapply rel_frame; [exact Rk|]. intros j Ij. apply S. rewrite lids_cons. apply in_or_app. now left.
  - apply IH. intros j Ij. apply S. rewrite lids_cons. apply in_or_app. now right.
Qed.

(* what an operation on the items [ids] leaves alone *)
Definition out_same (ids : list id) s s' : Prop :=
  forall j, ~ In j ids -> get_gen s' j = get_gen s j /\ get_done s' j = get_done s j /\ get_sched s' j = get_sched s j.

Lemma get_sched_set_deeds_other s i ds j : j <> i -> get_sched (set_deeds s i ds) j = get_sched s j.
Proof. intro Ne. unfold get_sched, set_deeds, set_sched; cbn [scheds]. now rewrite get_set_other. Qed.

Lemma same_on_set_deeds ids s sid ds : ~ In sid ids -> same_on ids s (set_deeds s sid ds).
Proof. intros Ni j Ij. split; [reflexivity|]. apply get_sched_set_deeds_other. intro; subst; contradiction. Qed.

Lemma same_on_out ids ids' s s' : out_same ids' s s' -> (forall j, In j ids -> ~ In j ids') -> same_on ids s s'.
Proof. intros O Dj j Ij. destruct (O j (Dj j Ij)) as (G & _ & Sc). split; assumption. Qed.

Lemma same_on_trans ids a b c : same_on ids a b -> same_on ids b c -> same_on ids a c.
Proof. intros X Y j Ij. destruct (X j Ij), (Y j Ij). split; congruence. Qed.

(* ---------- what gen_send does to a due item ---------- *)

Definition send_spec (x : rtree) : Prop :=
  forall f s s' g,
    gen_send tk f s (tid x) = (s', g) -> g <> GFuel -> defs s = D -> rel s x ->
    NoDup (tids x) -> ~ In 0%N (tids x) ->
    match fst (trun (tyme s) x) with
    | Some (t, x') => g = GYield t /\ rel s' x'
    | None => g = GReturn
    end /\
    recs s' = rev (snd (trun (tyme s) x)) ++ recs s /\ tyme s' = tyme s /\ defs s' = D /\
    out_same (tids x) s s'.

(* the pass of scheduler sid: [todo] still before the marker, [acc] already behind it *)
Lemma tloop (sid : id) : forall todo f s acc s' g,
  Forall send_spec todo ->
  recur_loop tk f s sid = (s', g) -> g <> GFuel -> defs s = D ->
  deeds (get_sched s sid) = map tdeed todo ++ DMark :: map tdeed acc ->
  Forall (rel s) (todo ++ acc) -> NoDup (lids (todo ++ acc)) ->
  ~ In sid (lids (todo ++ acc)) -> ~ In 0%N (lids (todo ++ acc)) ->
  g = GReturn /\
  deeds (get_sched s' sid) = map tdeed (acc ++ fst (tpass (tyme s) (stock tk D sid) todo)) /\
  Forall (rel s') (acc ++ fst (tpass (tyme s) (stock tk D sid) todo)) /\
  recs s' = rev (snd (tpass (tyme s) (stock tk D sid) todo)) ++ recs s /\
  tyme s' = tyme s /\ defs s' = D /\
  (forall j, ~ In j (lids (todo ++ acc)) ->
     get_gen s' j = get_gen s j /\ get_done s' j = get_done s j /\ (j <> sid -> get_sched s' j = get_sched s j)).
Proof.
  induction todo as [|d todo IH]; intros f s acc s' g Sp E NF Df Dq Rl ND Ns N0.
  - cbn [map app] in *. rewrite tpass_nil. cbn [fst snd rev app]. rewrite app_nil_r.
    destruct f as [|f]; [rewrite recur_loop_O in E; inversion E; subst; congruence|].
    rewrite (recur_loop_mark tk f s sid _ Dq) in E. inversion E; subst; clear E.
    split; [reflexivity|]. split; [apply deeds_set_deeds|].
    split; [eapply rels_frame; [exact Rl|now apply same_on_set_deeds]|].
    split; [reflexivity|]. split; [reflexivity|]. split; [exact Df|].
    intros j _. split; [reflexivity|]. split; [reflexivity|]. intro Ne. now apply get_sched_set_deeds_other.
  - inversion Sp as [|? ? Sd Sp']; subst.
    destruct f as [|f]; [rewrite recur_loop_O in E; inversion E; subst; congruence|].
    cbn [map app] in Dq. unfold tdeed at 1 in Dq.
    cbn [app] in Rl, ND, Ns, N0. rewrite lids_cons in ND, Ns, N0.
    inversion Rl as [|? ? Rd Rl']; subst.
    assert (NDd : NoDup (tids d)) by (apply nodup_app_iff in ND; apply ND).
    assert (NDr : NoDup (lids (todo ++ acc))) by (apply nodup_app_iff in ND; apply ND).
    assert (Dj : forall j, In j (tids d) -> ~ In j (lids (todo ++ acc))) by (apply nodup_app_iff in ND; apply ND).
    assert (Nsd : ~ In sid (tids d)) by (intro X; apply Ns, in_or_app; now left).
    assert (Nsr : ~ In sid (lids (todo ++ acc))) by (intro X; apply Ns, in_or_app; now right).
    assert (N0d : ~ In 0%N (tids d)) by (intro X; apply N0, in_or_app; now left).
    assert (N0r : ~ In 0%N (lids (todo ++ acc))) by (intro X; apply N0, in_or_app; now right).
    rewrite tpass_cons. unfold tvisit.
    destruct (tleb (tdue d) (tyme s)) eqn:Due.
    + (* due: one send *)
      rewrite (recur_loop_due tk f s sid _ _ _ Dq Due) in E.
      set (s1 := set_deeds s sid (map tdeed todo ++ DMark :: map tdeed acc)) in *.
      destruct (gen_send tk f s1 (tid d)) as [s2 g2] eqn:Es.
      assert (NF2 : g2 <> GFuel) by (intro; subst g2; inversion E; subst; congruence).
      assert (R1 : rel s1 d) by (eapply rel_frame; [exact Rd|unfold s1; apply same_on_set_deeds; exact Nsd]).
      destruct (Sd f s1 s2 g2 Es NF2 Df R1 NDd N0d) as (Res & Rc2 & Ty2 & Df2 & Out2).
      change (tyme s1) with (tyme s) in *.
      destruct (ids_ok_all d (tyme s)) as (Io & Ix).
      assert (Dq2 : deeds (get_sched s2 sid) = map tdeed todo ++ DMark :: map tdeed acc).
      { destruct (Out2 sid Nsd) as (_ & _ & Sc). rewrite Sc. apply deeds_set_deeds. }
      assert (Rl2 : Forall (rel s2) (todo ++ acc)).
      { eapply rels_frame; [eapply rels_frame; [exact Rl'|unfold s1; apply same_on_set_deeds; exact Nsr]|].
        eapply same_on_out; [exact Out2|]. intros j Ij Id. exact (Dj j Id Ij). }
      destruct (trun (tyme s) d) as [[[t x']|] o] eqn:Tr; cbn [fst snd] in *.
      * (* yield: re-appended behind the marker with the new due tyme *)
        destruct Res as (-> & Rx'). destruct Ix as (Ti & Sx).
        rewrite (sched_tock_D tk D s2 sid Df2), Ty2, Dq2 in E.
        set (d' := set_due x' (next_due (tyme s) (stock tk D sid) (tdue d) t)) in *.
        match type of E with recur_loop tk f ?x _ = _ => set (s3 := x) in E end.
        assert (Dq3 : deeds (get_sched s3 sid) = map tdeed todo ++ DMark :: map tdeed (acc ++ [d'])).
        { unfold s3. rewrite deeds_set_deeds, map_app, <- app_assoc. cbn [map app]. unfold d'.
          rewrite tdeed_set_due, Ti. reflexivity. }
        assert (Sub' : subseq (tids d') (tids d)) by (unfold d'; rewrite tids_set_due; exact Sx).
        assert (Rl3 : Forall (rel s3) (todo ++ acc ++ [d'])).
        { rewrite app_assoc. apply Forall_app. split.
          - eapply rels_frame; [exact Rl2|now apply same_on_set_deeds].
          - constructor; [|constructor]. eapply rel_frame; [apply rel_set_due; exact Rx'|].
            apply same_on_set_deeds. intro X. apply Nsd. eapply subseq_In; eassumption. }
        assert (ND3 : NoDup (lids (todo ++ acc ++ [d']))).
        { rewrite app_assoc, lids_app, lids_one. eapply nodup_rot_sub; [exact ND|exact Sub']. }
        assert (In3 : forall j, In j (lids (todo ++ acc ++ [d'])) -> In j (tids d ++ lids (todo ++ acc))).
        { intros j Ij. rewrite app_assoc, lids_app, lids_one in Ij. apply in_app_or in Ij. apply in_or_app.
          destruct Ij as [Ij|Ij]; [now right|left; eapply subseq_In; eassumption]. }
        destruct (IH f s3 (acc ++ [d']) s' g Sp' E NF Df2 Dq3 Rl3 ND3
                    (fun X => Ns (In3 _ X)) (fun X => N0 (In3 _ X))) as (I1 & I2 & I3 & I4 & I5 & I6 & I7).
        change (tyme s3) with (tyme s2) in *. rewrite Ty2 in *.
        destruct (tpass (tyme s) (stock tk D sid) todo) as [b o2]. cbn [fst snd] in *.
        rewrite <- app_assoc in I2, I3. cbn [app] in I2, I3.
        split; [exact I1|]. split; [exact I2|]. split; [exact I3|]. split.
        { rewrite I4. change (recs s3) with (recs s2). rewrite Rc2. change (recs s1) with (recs s).
          rewrite rev_app_distr, app_assoc. reflexivity. }
        split; [exact I5|]. split; [exact I6|].
        intros j Nj. destruct (I7 j (fun X => Nj (In3 _ X))) as (A1 & A2 & A3).
        destruct (Out2 j (fun X => Nj (in_or_app _ _ _ (or_introl X)))) as (B1 & B2 & B3).
        split; [rewrite A1; exact B1|]. split; [rewrite A2; exact B2|].
        intro Ne. rewrite (A3 Ne). unfold s3. rewrite get_sched_set_deeds_other by exact Ne. rewrite B3.
        unfold s1. now apply get_sched_set_deeds_other.
      * (* return: the item leaves the deque *)
        subst g2.
        destruct (IH f s2 acc s' g Sp' E NF Df2 Dq2 Rl2 NDr Nsr N0r) as (I1 & I2 & I3 & I4 & I5 & I6 & I7).
        rewrite Ty2 in *.
        destruct (tpass (tyme s) (stock tk D sid) todo) as [b o2]. cbn [fst snd app] in *.
        split; [exact I1|]. split; [exact I2|]. split; [exact I3|]. split.
        { rewrite I4, Rc2. change (recs s1) with (recs s). rewrite rev_app_distr, app_assoc. reflexivity. }
        split; [exact I5|]. split; [exact I6|].
        intros j Nj. destruct (I7 j (fun X => Nj (in_or_app _ _ _ (or_intror X)))) as (A1 & A2 & A3).
        destruct (Out2 j (fun X => Nj (in_or_app _ _ _ (or_introl X)))) as (B1 & B2 & B3).
        split; [rewrite A1; exact B1|]. split; [rewrite A2; exact B2|].
        intro Ne. rewrite (A3 Ne), B3. unfold s1. now apply get_sched_set_deeds_other.
    + (* not due: re-appended unchanged *)
      rewrite (recur_loop_notdue tk f s sid _ _ _ Dq Due) in E.
      match type of E with recur_loop tk f ?x _ = _ => set (s3 := x) in E end.
      assert (Dq3 : deeds (get_sched s3 sid) = map tdeed todo ++ DMark :: map tdeed (acc ++ [d])).
      { unfold s3. rewrite deeds_set_deeds, map_app, <- app_assoc. reflexivity. }
      assert (Ss3 : forall ids, ~ In sid ids -> same_on ids s s3).
      { intros ids Ni. eapply same_on_trans; now apply same_on_set_deeds. }
      assert (Rl3 : Forall (rel s3) (todo ++ acc ++ [d])).
      { rewrite app_assoc. apply Forall_app. split.
        - eapply rels_frame; [exact Rl'|now apply Ss3].
        - constructor; [|constructor]. eapply rel_frame; [exact Rd|now apply Ss3]. }
      assert (ND3 : NoDup (lids (todo ++ acc ++ [d]))).
      { rewrite app_assoc, lids_app, lids_one. eapply nodup_rot_sub; [exact ND|apply subseq_refl]. }
      assert (In3 : forall j, In j (lids (todo ++ acc ++ [d])) -> In j (tids d ++ lids (todo ++ acc))).
      { intros j Ij. rewrite app_assoc, lids_app, lids_one in Ij. apply in_app_or in Ij. apply in_or_app. tauto. }
      destruct (IH f s3 (acc ++ [d]) s' g Sp' E NF Df Dq3 Rl3 ND3
                  (fun X => Ns (In3 _ X)) (fun X => N0 (In3 _ X))) as (I1 & I2 & I3 & I4 & I5 & I6 & I7).
      change (tyme s3) with (tyme s) in *.
      destruct (tpass (tyme s) (stock tk D sid) todo) as [b o2]. cbn [fst snd app] in *.
      rewrite <- app_assoc in I2, I3. cbn [app] in I2, I3.
      split; [exact I1|]. split; [exact I2|]. split; [exact I3|]. split; [exact I4|].
      split; [exact I5|]. split; [exact I6|].
      intros j Nj. destruct (I7 j (fun X => Nj (In3 _ X))) as (A1 & A2 & A3).
      split; [exact A1|]. split; [exact A2|]. intro Ne. rewrite (A3 Ne). unfold s3.
      rewrite get_sched_set_deeds_other by exact Ne. now apply get_sched_set_deeds_other.
Qed.


Lemma close_own_empty f s sid : deeds (get_sched s sid) = [] -> close_own tk (S (S f)) s sid = set_deeds s sid [].
Proof. intro E. rewrite close_own_S, E. cbv zeta. cbn [unrotate split_mark rev]. rewrite close_list_S. reflexivity. Qed.

Lemma stock_nest i t0 al kids0 : i <> 0%N -> get D i = Some (FNest t0 al kids0) -> stock tk D i = tabs t0.
Proof.
  intros Ne E. unfold stock. destruct (N.eqb i 0) eqn:Z; [apply N.eqb_eq in Z; contradiction|]. now rewrite E.
Qed.

Lemma recs_emit s k i : k <> Recur -> recs (emit s k i) = recs s.
Proof. intro Ne. unfold recs. cbn [trace emit flat_map]. unfold rec_of at 1. cbn [e_kind]. destruct k; try reflexivity. congruence. Qed.

(* one whole pass of scheduler sid *)
Lemma tpass_spec (sid : id) f s q s' g :
  Forall send_spec q ->
  recur_pass tk f s sid = (s', g) -> g <> GFuel -> defs s = D ->
  deeds (get_sched s sid) = map tdeed q -> Forall (rel s) q -> NoDup (lids q) ->
  ~ In sid (lids q) -> ~ In 0%N (lids q) ->
  (exists f2, f = S (S f2)) /\ g = GReturn /\
  deeds (get_sched s' sid) = map tdeed (fst (tpass (tyme s) (stock tk D sid) q)) /\
  Forall (rel s') (fst (tpass (tyme s) (stock tk D sid) q)) /\
  recs s' = rev (snd (tpass (tyme s) (stock tk D sid) q)) ++ recs s /\
  tyme s' = tyme s /\ defs s' = D /\
  (forall j, ~ In j (lids q) ->
     get_gen s' j = get_gen s j /\ get_done s' j = get_done s j /\ (j <> sid -> get_sched s' j = get_sched s j)).
Proof.
  intros Sp E NF Df Dq Rl ND Ns N0.
  destruct f as [|f]; [rewrite recur_pass_O in E; inversion E; subst; congruence|].
  rewrite recur_pass_S in E. cbv zeta in E.
  destruct f as [|f]; [rewrite recur_loop_O in E; inversion E; subst; congruence|].
  split; [now exists f|].
  set (s1 := set_deeds s sid (deeds (get_sched s sid) ++ [DMark])) in *.
  assert (Dq1 : deeds (get_sched s1 sid) = map tdeed q ++ DMark :: map tdeed []).
  { unfold s1. rewrite deeds_set_deeds, Dq. reflexivity. }
  assert (Rl1 : Forall (rel s1) (q ++ [])).
  { rewrite app_nil_r. eapply rels_frame; [exact Rl|unfold s1; now apply same_on_set_deeds]. }
  rewrite <- (app_nil_r q) in ND, Ns, N0.
  destruct (tloop sid q (S f) s1 [] s' g Sp E NF Df Dq1 Rl1 ND Ns N0) as (I1 & I2 & I3 & I4 & I5 & I6 & I7).
  change (tyme s1) with (tyme s) in *. cbn [app] in I2, I3.
  split; [exact I1|]. split; [exact I2|]. split; [exact I3|]. split; [exact I4|]. split; [exact I5|]. split; [exact I6|].
  intros j Nj. rewrite <- (app_nil_r q) in Nj. destruct (I7 j Nj) as (A1 & A2 & A3).
  split; [exact A1|]. split; [exact A2|]. intro Ne. rewrite (A3 Ne). unfold s1. now apply get_sched_set_deeds_other.
Qed.

Lemma send_spec_all x : send_spec x.
Proof.
  induction x as [i due pc|i due kids IH] using rtree_ind2; intros f s s' g E NF Df R ND N0; cbn [tid] in E.
  - (* leaf *)
    inversion R as [? ? ? G Q|]; subst.
    destruct (quiet_def_inv _ _ Q) as (k & sc & Dfi & Qsc & Sc).
    assert (Dfs : get (defs s) i = Some (FLeaf k sc)) by (rewrite Df; exact Dfi).
    pose proof (quiet_send tk f s i pc k sc s' g G Dfs Qsc E NF) as QS. cbv zeta in QS.
    cbn [trun]. unfold out_at. rewrite Sc.
    destruct (f_out (nth pc sc default_step)) as [t|r| |] eqn:Eo; try contradiction; destruct QS as [-> ->]; cbn [fst snd].
    + split; [split; [reflexivity|constructor; [apply get_gen_same|exact Q]]|].
      split; [reflexivity|]. split; [reflexivity|]. split; [exact Df|].
      intros j Nj. assert (Ne : j <> i) by (intro; subst; apply Nj; now left).
      split; [rewrite get_gen_other by exact Ne; change (get_gen (emit ?a _ _) ?j) with (get_gen a j); now apply get_gen_other|].
      split; reflexivity.
    + split; [reflexivity|]. split; [reflexivity|]. split; [reflexivity|]. split; [exact Df|].
      intros j Nj. assert (Ne : j <> i) by (intro; subst; apply Nj; now left).
      split; [change (get_gen (set_done ?a _ _) ?j) with (get_gen a j); rewrite get_gen_other by exact Ne;
              change (get_gen (emit (emit (emit ?a _ _) _ _) _ _) ?j) with (get_gen a j); now apply get_gen_other|].
      split; [rewrite get_done_other by exact Ne; reflexivity|reflexivity].
  - (* DoDoer *)
    inversion R as [|? ? ? pc t0 kids0 G Dfi Dq Fk]; subst.
    cbn [tids] in ND, N0. fold (lids kids) in ND, N0.
    assert (Ni0 : i <> 0%N) by (intro; subst; apply N0; now left).
    assert (Nik : ~ In i (lids kids)) by (now inversion ND).
    assert (NDk : NoDup (lids kids)) by (now inversion ND).
    assert (N0k : ~ In 0%N (lids kids)) by (intro X; apply N0; now right).
    assert (Dfs : get (defs s) i = Some (FNest t0 false kids0)) by (rewrite Df; exact Dfi).
    destruct f as [|f]; [rewrite gen_send_O in E; inversion E; subst; congruence|].
    rewrite gen_send_S, G, Dfs in E. cbv zeta in E.
    set (s1 := emit (set_gen s i (GRun pc)) Recur i) in *.
    destruct (recur_pass tk f s1 i) as [s2 r0] eqn:Ep.
    assert (NF0 : r0 <> GFuel) by (intro; subst r0; inversion E; subst; congruence).
    assert (S1 : same_on (lids kids) s s1).
    { intros j Ij. assert (Ne : j <> i) by (intro; subst; contradiction).
      split; [|reflexivity]. unfold s1. change (get_gen (emit ?a _ _) ?j) with (get_gen a j). now apply get_gen_other. }
    assert (Rl1 : Forall (rel s1) kids) by (eapply rels_frame; eassumption).
    destruct (tpass_spec i f s1 kids s2 r0 IH Ep NF0 Df Dq Rl1 NDk Nik N0k)
      as ((f2 & ->) & -> & Dq2 & Rl2 & Rc2 & Ty2 & Df2 & Out2).
    change (tyme s1) with (tyme s) in *.
    assert (Ids : Forall ids_ok kids) by (apply Forall_forall; intros; apply ids_ok_all).
    destruct (tpass_ids (tyme s) (stock tk D i) kids Ids) as (Sk & _).
    rewrite trun_nest. destruct (tpass (tyme s) (stock tk D i) kids) as [kids' o]. cbn [fst snd] in *.
    assert (Rc1 : recs s1 = (i, tyme s) :: recs s) by reflexivity.
    assert (Out : forall sx, (forall j, j <> i -> get_gen sx j = get_gen s2 j /\ get_done sx j = get_done s2 j /\ get_sched sx j = get_sched s2 j) ->
                  out_same (i :: lids kids) s sx).
    { intros sx Hx j Nj. assert (Ne : j <> i) by (intro; subst; apply Nj; now left).
      destruct (Hx j Ne) as (X1 & X2 & X3). destruct (Out2 j (fun X => Nj (or_intror X))) as (Y1 & Y2 & Y3).
      rewrite X1, X2, X3, Y1, Y2, (Y3 Ne). unfold s1. change (get_gen (emit ?a _ _) ?j) with (get_gen a j).
      rewrite get_gen_other by exact Ne. repeat split. }
    rewrite Dq2 in E. destruct kids' as [|k kids']; cbn [map andb negb] in E.
    + (* the deque is empty: the DoDoer returns *)
      rewrite close_own_empty in E by exact Dq2. inversion E; subst; clear E. cbn [fst snd].
      split; [reflexivity|]. split.
      { unfold recs at 1. cbn [trace set_gen emit set_deeds set_sched set_done flat_map rec_of e_kind app].
        fold (recs s2). rewrite Rc2, Rc1. cbn [rev]. now rewrite <- app_assoc. }
      split; [exact Ty2|]. split; [exact Df2|].
      apply Out. intros j Ne. split; [rewrite get_gen_other by exact Ne; reflexivity|].
      split; [unfold get_done; cbn [dones set_gen emit set_deeds set_sched set_done]; rewrite get_set_other by exact Ne; reflexivity|].
      change (get_sched (set_gen (emit ?a _ _) _ _) ?j) with (get_sched a j). rewrite get_sched_set_deeds_other by exact Ne. reflexivity.
    + (* still busy: yields its own tock *)
      inversion E; subst; clear E. cbn [fst snd].
      split.
      { split; [now rewrite (stock_nest i t0 false kids0 Ni0 Dfi)|].
        econstructor; [apply get_gen_same|exact Dfi|exact Dq2|].
        eapply rels_frame; [exact Rl2|]. intros j Ij.
        assert (Ne : j <> i) by (intro; subst; apply Nik; eapply subseq_In; eassumption).
        split; [rewrite get_gen_other by exact Ne; reflexivity|reflexivity]. }
      split.
      { change (recs (set_gen (set_done s2 i (Some false)) i (GSusp pc))) with (recs s2). rewrite Rc2, Rc1.
        cbn [rev]. now rewrite <- app_assoc. }
      split; [exact Ty2|]. split; [exact Df2|].
      apply Out. intros j Ne. split; [rewrite get_gen_other by exact Ne; reflexivity|].
      split; [unfold get_done; cbn [dones set_gen set_done]; rewrite get_set_other by exact Ne; reflexivity|reflexivity].
Qed.


(* ---------- programs as forests, and enter ---------- *)

Inductive ptree := PLeaf (i : id) | PNest (i : id) (kids : list ptree).

Section ptree_ind2.
  Variable P : ptree -> Prop.
  Hypothesis Hleaf : forall i, P (PLeaf i).
  Hypothesis Hnest : forall i kids, Forall P kids -> P (PNest i kids).
  Fixpoint ptree_ind2 (x : ptree) : P x :=
    match x with
    | PLeaf i => Hleaf i
    | PNest i kids =>
      Hnest i kids ((fix go (l : list ptree) : Forall P l :=
                       match l with [] => Forall_nil P | k :: r => Forall_cons k (ptree_ind2 k) (go r) end) kids)
    end.
End ptree_ind2.

Definition pid (x : ptree) : id := match x with PLeaf i => i | PNest i _ => i end.
Fixpoint pids (x : ptree) : list id :=
  match x with PLeaf i => [i] | PNest i kids => i :: flat_map pids kids end.
Definition plids (l : list ptree) : list id := flat_map pids l.

(* the forest agrees with the definitions: leaves are effect-free and fault-free,
   DoDoers are not `always` and list exactly their kids *)
Inductive pwf : ptree -> Prop :=
| pwf_leaf i : quiet_def (get D i) = true -> pwf (PLeaf i)
| pwf_nest i kids t0 : get D i = Some (FNest t0 false (map pid kids)) -> Forall pwf kids -> pwf (PNest i kids).

(* the items a doer contributes to its scheduler's deque when entered at tyme [now] *)
Fixpoint tenter (now : T) (x : ptree) : list rtree :=
  match x with
  | PLeaf i => match out_at D i 0 with OYield _ => [RLeaf i now 1] | _ => [] end
  | PNest i kids => [RNest i now (flat_map (tenter now) kids)]
  end.

Lemma tenter_ids now x : subseq (lids (tenter now x)) (pids x).
Proof.
  induction x as [i|i kids IH] using ptree_ind2; cbn [tenter pids].
  - destruct (out_at D i 0); unfold lids; cbn; first [apply subseq_refl|apply subseq_nil].
  - rewrite lids_one. cbn [tids]. apply ss_take.
    induction IH as [|k r Ik Ir IHr]; [constructor|]. cbn [flat_map]. fold (lids (tenter now k ++ flat_map (tenter now) r)).
    rewrite lids_app. apply subseq_app; [exact Ik|exact IHr].
Qed.

Lemma tenters_ids now l : subseq (lids (flat_map (tenter now) l)) (plids l).
Proof.
  induction l as [|k r IH]; [constructor|]. cbn [flat_map]. rewrite lids_app. unfold plids. cbn [flat_map].
  apply subseq_app; [apply tenter_ids|exact IH].
Qed.

Lemma tenter_item now x y : In y (tenter now x) -> tid y = pid x /\ tdue y = now.
Proof.
  destruct x as [i|i kids]; cbn [tenter].
  - destruct (out_at D i 0); intros []; subst; try contradiction; split; reflexivity.
  - intros [<-|[]]. split; reflexivity.
Qed.

(* never started (or finished), with a fresh deque *)
Inductive fresh s : ptree -> Prop :=
| fr_leaf i : startable s i = true -> fresh s (PLeaf i)
| fr_nest i kids : startable s i = true -> doers (get_sched s i) = map pid kids -> deeds (get_sched s i) = [] ->
    Forall (fresh s) kids -> fresh s (PNest i kids).

Lemma fresh_frame x : forall s s', fresh s x -> same_on (pids x) s s' -> fresh s' x.
Proof.
  induction x as [i|i kids IH] using ptree_ind2; intros s s' F S.
  - inversion F; subst. destruct (S i (or_introl eq_refl)) as (G & _). constructor. unfold startable in *. now rewrite G.
  - inversion F as [|? ? St Do De Fk]; subst. destruct (S i (or_introl eq_refl)) as (G & Sc).
    constructor; [unfold startable in *; now rewrite G|now rewrite Sc|now rewrite Sc|].
    assert (Sk : same_on (plids kids) s s') by (intros j Ij; apply S; right; exact Ij).
    clear -IH Fk Sk. induction kids as [|k r IHr]; [constructor|].
    inversion IH; subst. inversion Fk; subst. constructor.
    + eapply H1; [eassumption|]. intros j Ij. apply Sk. unfold plids. cbn [flat_map]. apply in_or_app. now left.
    + apply IHr; try assumption. intros j Ij. apply Sk. unfold plids. cbn [flat_map]. apply in_or_app. now right.
Qed.

Lemma freshs_frame l s s' : Forall (fresh s) l -> same_on (plids l) s s' -> Forall (fresh s') l.
Proof.
  induction 1 as [|k r Fk Fr IH]; intro S; [constructor|]. constructor.
  - eapply fresh_frame; [exact Fk|]. intros j Ij. apply S. unfold plids. cbn [flat_map]. apply in_or_app. now left.
  - apply IH. intros j Ij. apply S. unfold plids. cbn [flat_map]. apply in_or_app. now right.
Qed.

Definition start_spec (x : ptree) : Prop :=
  forall f s s' g,
    gen_start tk f s (pid x) = (s', g) -> g <> GFuel -> defs s = D -> pwf x -> fresh s x ->
    NoDup (pids x) -> ~ In 0%N (pids x) ->
    match tenter (tyme s) x with
    | [] => g = GReturn
    | y :: _ => (exists t, g = GYield t) /\ rel s' y
    end /\
    recs s' = recs s /\ tyme s' = tyme s /\ defs s' = D /\ out_same (pids x) s s'.

(* enter() of scheduler sid over the doers xs, appending to its deque q *)
Lemma tenter_loop (sid : id) : forall xs f s q s' g,
  Forall start_spec xs ->
  enter_own tk f s sid (map pid xs) = (s', g) -> g <> GFuel -> defs s = D ->
  Forall pwf xs -> Forall (fresh s) xs ->
  deeds (get_sched s sid) = map tdeed q -> Forall (rel s) q ->
  NoDup (lids q ++ plids xs) -> ~ In sid (lids q ++ plids xs) -> ~ In 0%N (plids xs) ->
  g = GReturn /\
  deeds (get_sched s' sid) = map tdeed (q ++ flat_map (tenter (tyme s)) xs) /\
  Forall (rel s') (q ++ flat_map (tenter (tyme s)) xs) /\
  recs s' = recs s /\ tyme s' = tyme s /\ defs s' = D /\
  (forall j, ~ In j (plids xs) ->
     get_gen s' j = get_gen s j /\ get_done s' j = get_done s j /\ (j <> sid -> get_sched s' j = get_sched s j)).
Proof.
  induction xs as [|x xs IH]; intros f s q s' g Sp E NF Df Wf Fr Dq Rl ND Ns N0.
  - destruct f as [|f]; [rewrite enter_own_O in E; inversion E; subst; congruence|].
    cbn [map] in E. rewrite enter_own_S in E. inversion E; subst. cbn [flat_map]. rewrite app_nil_r.
    split; [reflexivity|]. split; [exact Dq|]. split; [exact Rl|]. repeat split; auto.
  - destruct f as [|f]; [rewrite enter_own_O in E; inversion E; subst; congruence|].
    cbn [map] in E. rewrite enter_own_S in E. cbv zeta in E.
    inversion Sp as [|? ? Sx Sp']; subst. inversion Wf as [|? ? Wx Wf']; subst. inversion Fr as [|? ? Fx Fr']; subst.
    unfold plids in ND, Ns, N0. cbn [flat_map] in ND, Ns, N0. fold (plids xs) in ND, Ns, N0.
    assert (NDx : NoDup (pids x)).
    { apply nodup_app_iff in ND. destruct ND as (_ & ND & _). apply nodup_app_iff in ND. apply ND. }
    assert (NDr : NoDup (lids q ++ plids xs)).
    { apply nodup_app_iff in ND. destruct ND as (A & B & C). apply nodup_app_iff in B. destruct B as (B1 & B2 & B3).
      apply nodup_app_iff. split; [exact A|]. split; [exact B2|]. intros j Ij Ix. apply (C j Ij). apply in_or_app. now right. }
    assert (Dqx : forall j, In j (pids x) -> ~ In j (lids q)).
    { apply nodup_app_iff in ND. destruct ND as (_ & _ & C). intros j Ij Iq. apply (C j Iq). apply in_or_app. now left. }
    assert (Dxx : forall j, In j (pids x) -> ~ In j (plids xs)).
    { apply nodup_app_iff in ND. destruct ND as (_ & B & _). apply nodup_app_iff in B. apply B. }
    assert (Nsx : ~ In sid (pids x)) by (intro X; apply Ns, in_or_app; right; apply in_or_app; now left).
    assert (N0x : ~ In 0%N (pids x)) by (intro X; apply N0, in_or_app; now left).
    set (s0 := set_done s (pid x) (Some false)) in *.
    destruct (gen_start tk f s0 (pid x)) as [s1 g1] eqn:Es.
    assert (NF1 : g1 <> GFuel) by (intro; subst g1; inversion E; subst; congruence).
    assert (S0 : forall ids, same_on ids s s0) by (intros ids j _; split; reflexivity).
    assert (Fx0 : fresh s0 x) by (eapply fresh_frame; [exact Fx|apply S0]).
    destruct (Sx f s0 s1 g1 Es NF1 Df Wx Fx0 NDx N0x) as (Res & Rc1 & Ty1 & Df1 & Out1).
    change (tyme s0) with (tyme s) in *.
    assert (Dq1 : deeds (get_sched s1 sid) = map tdeed q).
    { destruct (Out1 sid Nsx) as (_ & _ & Sc). rewrite Sc. exact Dq. }
    assert (Rl1 : Forall (rel s1) q).
    { eapply rels_frame; [exact Rl|]. eapply same_on_trans; [apply S0|].
      eapply same_on_out; [exact Out1|]. intros j Ij Ix. exact (Dqx j Ix Ij). }
    assert (Fr1 : Forall (fresh s1) xs).
    { eapply freshs_frame; [exact Fr'|]. eapply same_on_trans; [apply S0|].
      eapply same_on_out; [exact Out1|]. intros j Ij Ix. exact (Dxx j Ix Ij). }
    pose proof (tenter_ids (tyme s) x) as Sub. pose proof (tenter_item (tyme s) x) as It.
    cbn [flat_map].
    assert (Frame : forall sx sy,
      (forall j, ~ In j (plids xs) -> get_gen sy j = get_gen sx j /\ get_done sy j = get_done sx j /\ (j <> sid -> get_sched sy j = get_sched sx j)) ->
      (forall j, get_gen sx j = get_gen s1 j /\ get_done sx j = get_done s1 j /\ (j <> sid -> get_sched sx j = get_sched s1 j)) ->
      forall j, ~ In j (pids x ++ plids xs) ->
        get_gen sy j = get_gen s j /\ get_done sy j = get_done s j /\ (j <> sid -> get_sched sy j = get_sched s j)).
    { intros sx sy Hy Hx j Nj.
      assert (Njx : ~ In j (pids x)) by (intro X; apply Nj, in_or_app; now left).
      assert (Njr : ~ In j (plids xs)) by (intro X; apply Nj, in_or_app; now right).
      destruct (Hy j Njr) as (A1 & A2 & A3). destruct (Hx j) as (B1 & B2 & B3). destruct (Out1 j Njx) as (C1 & C2 & C3).
      assert (Ne : j <> pid x) by (intro; subst; apply Njx; destruct x; left; reflexivity).
      split; [rewrite A1, B1, C1; reflexivity|]. split; [rewrite A2, B2, C2; unfold s0; now apply get_done_other|].
      intro Nes. rewrite (A3 Nes), (B3 Nes), C3. reflexivity. }
    destruct (tenter (tyme s) x) as [|y ys] eqn:Te.
    + (* it returned at once: nothing is appended *)
      subst g1. cbn [app].
      destruct (IH f s1 q s' g Sp' E NF Df1 Wf' Fr1 Dq1 Rl1 NDr
                  (fun X => Ns (match in_app_or _ _ _ X with or_introl A => in_or_app _ _ _ (or_introl A)
                                                        | or_intror B => in_or_app _ _ _ (or_intror (in_or_app _ _ _ (or_intror B))) end))
                  (fun X => N0 (in_or_app _ _ _ (or_intror X)))) as (I1 & I2 & I3 & I4 & I5 & I6 & I7).
      rewrite Ty1 in *.
      split; [exact I1|]. split; [exact I2|]. split; [exact I3|]. split; [rewrite I4; exact Rc1|]. split; [exact I5|]. split; [exact I6|].
      unfold plids. cbn [flat_map]. fold (plids xs). apply (Frame s1 s' I7). intro j. repeat split.
    + (* it yielded: one item is appended *)
      destruct Res as ((t & ->) & Ry).
      assert (ys = []) by (destruct x as [i|i kids]; cbn [tenter] in Te; [destruct (out_at D i 0)|]; inversion Te; reflexivity).
      subst ys. destruct (It y (or_introl eq_refl)) as (Iy & Dy).
      rewrite Ty1 in E.
      match type of E with enter_own tk f ?x _ _ = _ => set (s3 := x) in E end.
      assert (Dq3 : deeds (get_sched s3 sid) = map tdeed (q ++ [y])).
      { unfold s3. rewrite deeds_set_deeds, Dq1, map_app. cbn [map]. unfold tdeed at 3. now rewrite Iy, Dy. }
      assert (Sy : subseq (tids y) (pids x)) by (rewrite lids_one in Sub; exact Sub).
      assert (Rl3 : Forall (rel s3) (q ++ [y])).
      { apply Forall_app. split.
        - eapply rels_frame; [exact Rl1|]. unfold s3. apply same_on_set_deeds. intro X. apply Ns, in_or_app. now left.
        - constructor; [|constructor]. eapply rel_frame; [exact Ry|]. unfold s3. apply same_on_set_deeds.
          intro X. apply Nsx. eapply subseq_In; eassumption. }
      assert (Fr3 : Forall (fresh s3) xs).
      { eapply freshs_frame; [exact Fr1|]. unfold s3. apply same_on_set_deeds. intro X. apply Ns, in_or_app. right. apply in_or_app. now right. }
      assert (ND3 : NoDup (lids (q ++ [y]) ++ plids xs)).
      { rewrite lids_app, lids_one, <- app_assoc. apply nodup_app_iff in ND. destruct ND as (A & B & C).
        apply nodup_app_iff. split; [exact A|]. split.
        - apply nodup_app_iff in B. destruct B as (B1 & B2 & B3). apply nodup_app_iff.
          split; [eapply subseq_NoDup; eassumption|]. split; [exact B2|]. intros j Ij. apply B3. eapply subseq_In; eassumption.
        - intros j Ij Ix. apply (C j Ij). apply in_app_or in Ix. apply in_or_app.
          destruct Ix as [Ix|Ix]; [left; eapply subseq_In; eassumption|now right]. }
      assert (In3 : forall j, In j (lids (q ++ [y]) ++ plids xs) -> In j (lids q ++ pids x ++ plids xs)).
      { intros j Ij. rewrite lids_app, lids_one, <- app_assoc in Ij. apply in_app_or in Ij. apply in_or_app.
        destruct Ij as [Ij|Ij]; [now left|right]. apply in_app_or in Ij. apply in_or_app.
        destruct Ij as [Ij|Ij]; [left; eapply subseq_In; eassumption|now right]. }
      destruct (IH f s3 (q ++ [y]) s' g Sp' E NF Df1 Wf' Fr3 Dq3 Rl3 ND3 (fun X => Ns (In3 _ X))
                  (fun X => N0 (in_or_app _ _ _ (or_intror X)))) as (I1 & I2 & I3 & I4 & I5 & I6 & I7).
      change (tyme s3) with (tyme s1) in *. rewrite Ty1 in *.
      rewrite <- app_assoc in I2, I3. cbn [app] in I2, I3 |- *.
      split; [exact I1|]. split; [exact I2|]. split; [exact I3|]. split; [rewrite I4; exact Rc1|]. split; [exact I5|]. split; [exact I6|].
      unfold plids. cbn [flat_map]. fold (plids xs). apply (Frame s3 s' I7). intro j.
      split; [reflexivity|]. split; [reflexivity|]. intro Nes. unfold s3. now apply get_sched_set_deeds_other.
Qed.


Lemma start_spec_all x : start_spec x.
Proof.
  induction x as [i|i kids IH] using ptree_ind2; intros f s s' g E NF Df Wf Fr ND N0; cbn [pid] in E.
  - (* leaf *)
    inversion Wf as [? Q|]; subst. inversion Fr as [? St|]; subst.
    destruct (quiet_def_inv _ _ Q) as (k & sc & Dfi & Qsc & Sc).
    assert (Dfs : get (defs s) i = Some (FLeaf k sc)) by (rewrite Df; exact Dfi).
    pose proof (quiet_start tk f s i k sc s' g St Dfs Qsc E NF) as QS. cbv zeta in QS.
    cbn [tenter]. unfold out_at. rewrite Sc.
    destruct (f_out (nth 0 sc default_step)) as [t|r| |] eqn:Eo; try contradiction; destruct QS as [-> ->].
    + split; [split; [now exists t|constructor; [apply get_gen_same|exact Q]]|].
      split; [reflexivity|]. split; [reflexivity|]. split; [exact Df|].
      intros j Nj. assert (Ne : j <> i) by (intro; subst; apply Nj; now left).
      split; [rewrite get_gen_other by exact Ne; change (get_gen (emit ?a _ _) ?j) with (get_gen a j); now apply get_gen_other|].
      split; reflexivity.
    + split; [reflexivity|]. split; [reflexivity|]. split; [reflexivity|]. split; [exact Df|].
      intros j Nj. assert (Ne : j <> i) by (intro; subst; apply Nj; now left).
      split; [change (get_gen (set_done ?a _ _) ?j) with (get_gen a j); rewrite get_gen_other by exact Ne;
              change (get_gen (emit (emit (emit ?a _ _) _ _) _ _) ?j) with (get_gen a j); now apply get_gen_other|].
      split; [rewrite get_done_other by exact Ne; reflexivity|reflexivity].
  - (* DoDoer *)
    inversion Wf as [|? ? t0 Dfi Wk]; subst. inversion Fr as [|? ? St Do De Fk]; subst.
    cbn [pids] in ND, N0. fold (plids kids) in ND, N0.
    assert (Nik : ~ In i (plids kids)) by (now inversion ND).
    assert (NDk : NoDup (plids kids)) by (now inversion ND).
    assert (N0k : ~ In 0%N (plids kids)) by (intro X; apply N0; now right).
    assert (Dfs : get (defs s) i = Some (FNest t0 false (map pid kids))) by (rewrite Df; exact Dfi).
    destruct f as [|f]; [rewrite gen_start_O in E; inversion E; subst; congruence|].
    rewrite gen_start_S, St, Dfs in E. cbn [negb] in E. cbv zeta in E.
    set (s1 := emit (set_gen s i (GRun 0)) Enter i) in *.
    change (doers (get_sched s1 i)) with (doers (get_sched s i)) in E. rewrite Do in E.
    destruct (enter_own tk f s1 i (map pid kids)) as [s2 r0] eqn:Ee.
    assert (NF0 : r0 <> GFuel) by (intro; subst r0; inversion E; subst; congruence).
    assert (S1 : same_on (plids kids) s s1).
    { intros j Ij. assert (Ne : j <> i) by (intro; subst; contradiction).
      split; [|reflexivity]. unfold s1. change (get_gen (emit ?a _ _) ?j) with (get_gen a j). now apply get_gen_other. }
    assert (Fk1 : Forall (fresh s1) kids) by (eapply freshs_frame; eassumption).
    assert (Dq1 : deeds (get_sched s1 i) = map tdeed []) by exact De.
    destruct (tenter_loop i kids f s1 [] s2 r0 IH Ee NF0 Df Wk Fk1 Dq1 (Forall_nil _) NDk Nik N0k)
      as (-> & Dq2 & Rl2 & Rc2 & Ty2 & Df2 & Out2).
    change (tyme s1) with (tyme s) in *. cbn [app] in Dq2, Rl2.
    inversion E; subst; clear E. cbn [tenter].
    pose proof (tenters_ids (tyme s) kids) as Sk.
    split.
    { split; [eexists; reflexivity|].
      econstructor; [apply get_gen_same|exact Dfi|exact Dq2|].
      eapply rels_frame; [exact Rl2|]. intros j Ij.
      assert (Ne : j <> i) by (intro; subst; apply Nik; eapply subseq_In; eassumption).
      split; [rewrite get_gen_other by exact Ne; reflexivity|reflexivity]. }
    split; [exact Rc2|]. split; [exact Ty2|]. split; [exact Df2|].
    intros j Nj. assert (Ne : j <> i) by (intro; subst; apply Nj; now left).
    destruct (Out2 j (fun X => Nj (or_intror X))) as (Y1 & Y2 & Y3).
    split; [rewrite get_gen_other by exact Ne; rewrite Y1; unfold s1; change (get_gen (emit ?a _ _) ?j) with (get_gen a j); now apply get_gen_other|].
    split; [exact Y2|]. change (get_sched (set_gen s2 i (GSusp 1)) j) with (get_sched s2 j). now rewrite (Y3 Ne).
Qed.


(* ---------- the reference run, and the cycle loop against it ---------- *)

Fixpoint tref_cycles (limit : option T) (stop : T) (cycles : nat) (now : T) (q : list rtree)
  (outs : list (list (id * T))) : option (list (list (id * T)) * T * bool) :=
  match cycles with
  | O => None
  | S c =>
    let q' := fst (tpass now tk q) in
    let o := snd (tpass now tk q) in
    let now' := tadd now tk in
    match q' with
    | [] => Some (outs ++ [o], now', true)
    | _ => if limited limit && tleb stop now' then Some (outs ++ [o], now', false)
           else tref_cycles limit stop c now' q' (outs ++ [o])
    end
  end.

Lemma sends_all l : Forall send_spec l.
Proof. apply Forall_forall. intros; apply send_spec_all. Qed.
Lemma starts_all l : Forall start_spec l.
Proof. apply Forall_forall. intros; apply start_spec_all. Qed.
Lemma idsok_all l : Forall ids_ok l.
Proof. apply Forall_forall. intros; apply ids_ok_all. Qed.

Lemma tcycles cycles : forall f s q outs limit stop,
  defs s = D -> deeds (get_sched s 0%N) = map tdeed q -> Forall (rel s) q ->
  NoDup (lids q) -> ~ In 0%N (lids q) ->
  recs s = rev (concat outs) -> get_done s 0%N = Some false ->
  oof (cycle_loop tk cycles f s limit stop) = false ->
  exists res (dn : bool),
    tref_cycles limit stop cycles (tyme s) q outs = Some (res, tyme (cycle_loop tk cycles f s limit stop), dn) /\
    recur_steps (cycle_loop tk cycles f s limit stop) = concat res /\
    get_done (cycle_loop tk cycles f s limit stop) 0%N = Some dn.
Proof.
  induction cycles as [|c IH]; intros f s q outs limit stop Df Dq Rl ND N0 Rc Dn O; cbn [cycle_loop tref_cycles] in *; [discriminate|].
  destruct (recur_pass tk f s 0%N) as [s1 r] eqn:E.
  assert (NF : r <> GFuel).
  { intro; subst r. rewrite (recur_pass_fuel tk f s 0%N s1 E) in O. discriminate. }
  destruct (tpass_spec 0%N f s q s1 r (sends_all q) E NF Df Dq Rl ND N0 N0)
    as (_ & -> & Dq1 & Rl1 & Rc1 & Ty1 & Df1 & Out1).
  change (stock tk D 0%N) with tk in *.
  destruct (tpass_ids (tyme s) tk q (idsok_all q)) as (Sq & _).
  destruct (tpass (tyme s) tk q) as [q' o]. cbn [fst snd] in *. cbv zeta in *.
  assert (Dn1 : get_done s1 0%N = Some false) by (destruct (Out1 0%N N0) as (_ & X & _); congruence).
  set (s2 := set_tyme s1 (tadd (tyme s1) tk)) in *.
  assert (Dq2 : deeds (get_sched s2 0%N) = map tdeed q') by exact Dq1.
  assert (R2 : recs s2 = rev (concat (outs ++ [o]))).
  { change (recs s2) with (recs s1). rewrite Rc1, Rc, concat_app, rev_app_distr. cbn [concat]. now rewrite app_nil_r. }
  rewrite <- Ty1. change (tadd (tyme s1) tk) with (tyme s2).
  rewrite Dq2 in O |- *. unfold limited.
  destruct q' as [|d q']; cbn [map] in *.
  - destruct (end_facts tk f (set_done s2 0%N (Some true)) DoReturn) as (F1 & F2 & F3).
    exists (outs ++ [o]), true. split; [now rewrite F2|]. split.
    + unfold recur_steps. rewrite F1. cbn [app]. change (recs (set_done s2 0%N (Some true))) with (recs s2).
      rewrite R2. apply rev_involutive.
    + rewrite F3. apply get_done_same.
  - destruct (_ && _) eqn:Lim.
    + destruct (end_facts tk f s2 DoReturn) as (F1 & F2 & F3).
      exists (outs ++ [o]), false. split; [now rewrite F2|]. split.
      * unfold recur_steps. rewrite F1. cbn [app]. rewrite R2. apply rev_involutive.
      * rewrite F3. exact Dn1.
    + assert (Rl2 : Forall (rel s2) (d :: q')) by (eapply rels_frame; [exact Rl1|intros j _; split; reflexivity]).
      assert (ND2 : NoDup (lids (d :: q'))) by (eapply subseq_NoDup; eassumption).
      assert (N02 : ~ In 0%N (lids (d :: q'))) by (intro X; apply N0; eapply subseq_In; eassumption).
      exact (IH f s2 (d :: q') (outs ++ [o]) limit stop Df1 Dq2 Rl2 ND2 N02 R2 Dn1 O).
Qed.

(* ---------- what the tree reference says: one block per cycle, depth-first order ---------- *)

Definition tyme_ok (x : rtree) : Prop := forall now, Forall (fun e => snd e = now) (snd (trun now x)).

Lemma tvisit_tyme now st_ x : tyme_ok x -> Forall (fun e => snd e = now) (snd (tvisit now st_ x)).
Proof.
  intro I. specialize (I now). unfold tvisit. destruct (tleb (tdue x) now); [|constructor].
  destruct (trun now x) as [[[t x']|] o]; exact I.
Qed.

Lemma tpass_tyme now st_ l : Forall tyme_ok l -> Forall (fun e => snd e = now) (snd (tpass now st_ l)).
Proof.
  induction 1 as [|k r Ik Ir IH]; [constructor|]. rewrite tpass_cons.
  pose proof (tvisit_tyme now st_ k Ik) as A. destruct (tvisit now st_ k) as [a o1].
  destruct (tpass now st_ r) as [b o2]. cbn [snd] in *. apply Forall_app. split; assumption.
Qed.

Lemma tyme_ok_all x : tyme_ok x.
Proof.
  induction x as [i due pc|i due kids IH] using rtree_ind2; intro now.
  - cbn [trun]. destruct (out_at D i pc); cbn [snd]; repeat constructor.
  - rewrite trun_nest. pose proof (tpass_tyme now (stock tk D i) kids IH) as A.
    destruct (tpass now (stock tk D i) kids) as [kids' o]. cbn [snd] in A.
    destruct kids'; cbn [snd]; constructor; try reflexivity; exact A.
Qed.

Lemma tref_cycles_blocks limit stop cycles : forall now q outs res fin dn,
  tref_cycles limit stop cycles now q outs = Some (res, fin, dn) ->
  exists news, res = outs ++ news /\ news <> [] /\ fin = grid now tk (length news) /\
               blocks_ok tk now (lids q) news.
Proof.
  induction cycles as [|c IH]; intros now q outs res fin dn E; cbn [tref_cycles] in E; [discriminate|].
  destruct (tpass_ids now tk q (idsok_all q)) as (Keep & Ids).
  assert (Ty : Forall (fun e => snd e = now) (snd (tpass now tk q))).
  { apply tpass_tyme. apply Forall_forall. intros; apply tyme_ok_all. }
  destruct (tpass now tk q) as [q' o]. cbn [fst snd] in *.
  assert (One : forall dn', Some (outs ++ [o], tadd now tk, dn') = Some (res, fin, dn) ->
     exists news, res = outs ++ news /\ news <> [] /\ fin = grid now tk (length news) /\
                  blocks_ok tk now (lids q) news).
  { intros dn' X. inversion X; subst. exists [o]. split; [reflexivity|]. split; [discriminate|].
    split; [reflexivity|]. cbn [blocks_ok]. auto. }
  destruct q' as [|d q']; [now apply (One true)|].
  destruct (limited limit && tleb stop (tadd now tk)); [now apply (One false)|].
  destruct (IH _ _ _ _ _ _ E) as (news & -> & _ & -> & B).
  exists (o :: news). split; [now rewrite <- app_assoc|]. split; [discriminate|].
  split; [cbn [length]; rewrite grid_shift; reflexivity|].
  cbn [blocks_ok]. split; [exact Ty|]. split; [exact Ids|].
  eapply blocks_ok_sub; [exact Keep|exact B].
Qed.

End Tree.

Section TreeRun.
Context {T : Type} `{Time T}.

Lemma init_sched_nest (p : prog T) i t0 al kids :
  i <> 0%N -> get (p_defs p) i = Some (FNest t0 al kids) ->
  get_sched (init_st p) i = {| doers := kids; deeds := [] |}.
Proof.
  intros Ne E. unfold get_sched, init_st; cbn [scheds]. unfold init_scheds. cbn [get].
  destruct (N.eqb i 0) eqn:Z; [apply N.eqb_eq in Z; contradiction|].
  revert E. induction (p_defs p) as [|[j d] l IH]; cbn [get flat_map]; [discriminate|].
  destruct (N.eqb i j) eqn:Ej.
  - intro X. inversion X; subst. cbn [app get]. now rewrite Ej.
  - intro X. destruct d; cbn [app get]; [|rewrite Ej]; now apply IH.
Qed.

Lemma fresh_init (p : prog T) x : pwf (p_defs p) x -> ~ In 0%N (pids x) -> fresh (init_st p) x.
Proof.
  induction x as [i|i kids IH] using ptree_ind2; intros Wf N0.
  - constructor. reflexivity.
  - inversion Wf as [|? ? t0 Dfi Wk]; subst.
    assert (Ne : i <> 0%N) by (intro; subst; apply N0; now left).
    constructor; [reflexivity|now rewrite (init_sched_nest p i t0 false _ Ne Dfi)|now rewrite (init_sched_nest p i t0 false _ Ne Dfi)|].
    cbn [pids] in N0. clear -IH Wk N0. induction kids as [|k r IHr]; [constructor|].
    inversion IH as [|? ? Hk Hr]; subst. inversion Wk as [|? ? Wk1 Wr]; subst. constructor.
    + apply Hk; [assumption|]. intro X. apply N0. right. cbn [flat_map]. apply in_or_app. now left.
    + apply IHr; try assumption. intro X. apply N0. destruct X as [X|X]; [now left|right]. cbn [flat_map]. apply in_or_app. now right.
Qed.

Definition tref_run (cycles : nat) (p : prog T) (forest : list ptree) : option (list (list (id * T)) * T * bool) :=
  let q := flat_map (tenter (p_defs p) (p_tyme p)) forest in
  let limit := option_map tabs (p_limit p) in
  let stop := tadd (p_tyme p) (match limit with Some l => l | None => tzero end) in
  tref_cycles (p_tock p) (p_defs p) limit stop cycles (p_tyme p) q [].

(* a static nested program: the root doers are the roots of a forest that agrees with the
   definitions, all ids pairwise distinct, none is 0 *)
Definition tree_static (p : prog T) (forest : list ptree) : Prop :=
  map pid forest = p_doers p /\ Forall (pwf (p_defs p)) forest /\ NoDup (plids forest) /\ ~ In 0%N (plids forest).

Theorem do_run_tree cycles fuel (p : prog T) forest :
  tree_static p forest -> oof (do_run cycles fuel p) = false ->
  exists res (dn : bool),
    tref_run cycles p forest = Some (res, tyme (do_run cycles fuel p), dn) /\
    recur_steps (do_run cycles fuel p) = concat res /\
    get_done (do_run cycles fuel p) 0%N = Some dn.
Proof.
  intros (Ed & Wf & ND & N0) O. unfold do_run in *. rewrite <- Ed in *.
  destruct (enter_own (p_tock p) fuel (init_st p) 0%N (map pid forest)) as [s1 r] eqn:E.
  assert (NF : r <> GFuel).
  { intro; subst r. rewrite (enter_own_fuel _ _ _ _ _ _ E) in O. discriminate. }
  assert (Fr : Forall (fresh (init_st p)) forest).
  { apply Forall_forall. intros x Ix. apply fresh_init; [rewrite Forall_forall in Wf; now apply Wf|].
    intro X. apply N0. unfold plids. apply in_flat_map. now exists x. }
  destruct (tenter_loop (p_tock p) (p_defs p) 0%N forest fuel (init_st p) [] s1 r (starts_all _ _ _) E NF eq_refl Wf Fr
              eq_refl (Forall_nil _) ND N0 N0) as (-> & Dq1 & Rl1 & Rc1 & Ty1 & Df1 & Out1).
  cbn [app] in *. change (tyme (init_st p)) with (p_tyme p) in *.
  pose proof (tenters_ids (p_defs p) (p_tyme p) forest) as Sub.
  assert (ND1 : NoDup (lids (flat_map (tenter (p_defs p) (p_tyme p)) forest))) by (eapply subseq_NoDup; eassumption).
  assert (N01 : ~ In 0%N (lids (flat_map (tenter (p_defs p) (p_tyme p)) forest))) by (intro X; apply N0; eapply subseq_In; eassumption).
  assert (Dn1 : get_done s1 0%N = Some false) by (destruct (Out1 0%N N0) as (_ & X & _); rewrite X; reflexivity).
  assert (Rl2 : Forall (rel (p_defs p) (set_rlive s1 true)) (flat_map (tenter (p_defs p) (p_tyme p)) forest)).
  { eapply rels_frame; [exact Rl1|intros j _; split; reflexivity]. }
  pose proof (tcycles (p_tock p) (p_defs p) cycles fuel (set_rlive s1 true) _ [] _ _ Df1 Dq1 Rl2 ND1 N01 Rc1 Dn1 O) as C.
  unfold tref_run. change (tyme (set_rlive s1 true)) with (tyme s1) in C. rewrite Ty1 in C |- *. exact C.
Qed.

End TreeRun.
