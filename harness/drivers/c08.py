"""C08 — timers measure elapsed tyme exactly and restart losslessly.

hio.base.tyming.Tymer (virtual tyme), hio.help.timing.Timer, AsyncTimer and MonoTimer (wall clock).

Case shapes (every float is a float.hex() string, None is null):
  {"cls": "tymer", "dyadic": b, "init": {"now": h?, "dur": h?, "start": h?},
   "ops": [["start", now?, dur?, start?] | ["restart", now?, dur?] | ["wind", now?] | ["read", now?, kind]]}
  {"cls": "timer" | "atimer" | "mono", "dyadic": b, "clock": [h, ...], ("wall": h for atimer), "init": {"dur": h, "start": h?, "retro": b},
   "ops": [["start", dur?, start?] | ["restart", dur?] | ["read", kind] | ["latest"]]}
`now` is the tyme of the Tymist the Tymer is wound to when the op happens (null = not wound).
`clock` is the script of values time.time() returns inside hio.help.timing (0.0 once used up); for AsyncTimer it is
the script of asyncio.get_event_loop().time() and `wall` is what time.time() returns (epoch sized).
"""
from fractions import Fraction
from harness.core import coq_list, coq_bool, coq_float, coq_option, coq_res, exn_kind

PROP = "C08"
COQ_REQUIRES = ["Hio.Base.Time", "Hio.Model.Timers"]
COQ_HEADER = ["From Coq Require Import PrimFloat."]
COQ_CHECK = "Timers.check_case"
COQ_CASE_TYPE = "Timers.case"
COQ_BRANCHES = ("Timers.case_branches", "Timers.n_branches")
RULE = ("op sequences on the real Tymer (construct with/without duration/start, wound or not; start, restart, wind, "
        "reads of duration/elapsed/remaining/expired, each at its own tyme incl. rewinds and unwound), Timer, AsyncTimer "
        "(Timer's model over a scripted event-loop clock, constructor also reading an epoch-sized wall clock) and MonoTimer (retro True/False; start, restart, reads, latest) under a scripted time.time() with forward, "
        "stalled and backward steps; values are dyadic grids (exact arithmetic: the oracle then also checks lossless "
        "restart, no drift and MonoTimer monotonicity in exact rationals) or arbitrary binary64 (0.1 multiples, 1/3, "
        "1e-9, 1e9, epoch-sized, random, occasionally inf/nan/-0.0/subnormal); every result and _start/_stop/_last "
        "after every op is compared bit for bit with the model; non-trivial = (Tymer/Timer) at least one restart and "
        "one read past stop, (MonoTimer) at least one backward clock step seen by `latest`")
MODELLED = [
    "binary64 arithmetic and comparisons via Coq primitive floats (bit exact in the correspondence; closed forms and "
    "MonoTimer monotonicity are proved over Z / under TimeLaws: float rounding is the residue of those corollaries)",
    "time.time() as a scripted list of readings, one consumed per call (fake object bound to hio.help.timing.time)",
    "Tymist/tymth closure as the tyme value passed with each op (None = not wound)",
    "float(x) of a float argument as the identity; Timer/MonoTimer(duration=None) (TypeError, no object) not modelled",
    "AsyncTimer: asyncio.get_event_loop().time() as the scripted list of readings and time.time() (read once by its "
    "constructor) as a separate epoch-sized wall value of another magnitude",
]
SHARD = 250

KINDS = ["duration", "elapsed", "remaining", "expired"]


def H(x):
    return float(x).hex()


def F(h):
    return None if h is None else float.fromhex(h)


def _oh(x):
    return None if x is None else H(x)


# --------------------------------------------------------------------------- directed

def _ty(init, ops, dyadic=True):
    now, dur, start = init
    cops = []
    for o in ops:
        if o[0] == "start":
            cops.append(["start", _oh(o[1]), _oh(o[2]), _oh(o[3])])
        elif o[0] == "restart":
            cops.append(["restart", _oh(o[1]), _oh(o[2])])
        elif o[0] == "wind":
            cops.append(["wind", _oh(o[1])])
        else:
            cops.append(["read", _oh(o[1]), o[2]])
    return {"cls": "tymer", "dyadic": dyadic, "init": {"now": _oh(now), "dur": _oh(dur), "start": _oh(start)}, "ops": cops}


def _ck(cls, clock, init, ops, dyadic=True, wall=None):
    dur, start, retro = init
    cops = []
    for o in ops:
        if o[0] == "start":
            cops.append(["start", _oh(o[1]), _oh(o[2])])
        elif o[0] == "restart":
            cops.append(["restart", _oh(o[1])])
        else:
            cops.append(list(o))
    c = {"cls": cls, "dyadic": dyadic, "clock": [H(x) for x in clock],
         "init": {"dur": H(dur), "start": _oh(start), "retro": bool(retro)}, "ops": cops}
    if cls == "atimer":
        c["wall"] = H(1.8e9 + 0.123456 if wall is None else wall)
    return c


def _allreads(now):
    return [("read", now, k) for k in KINDS]


def directed():
    out = []
    # Tymer: constructor variants
    out.append(_ty((5.0, 2.0, None), _allreads(5.0) + _allreads(6.5) + _allreads(7.0) + _allreads(9.0)))
    out.append(_ty((5.0, None, None), _allreads(5.0) + [("start", 6.0, 1.5, None)] + _allreads(7.5)))
    out.append(_ty((5.0, 2.0, 1.0), _allreads(2.0) + _allreads(3.0) + [("start", 4.0, None, None)] + _allreads(5.0)))
    out.append(_ty((None, 2.0, None), _allreads(None) + [("wind", 8.0)] + _allreads(9.0) + _allreads(10.0)))
    out.append(_ty((None, None, 3.0), [("read", None, "duration"), ("restart", None, 1.0), ("restart", None, None),
                                       ("read", None, "duration"), ("wind", 1.0), ("read", 1.0, "elapsed")]))
    # restarts: lossless, independent of the tyme at which restart() is called
    out.append(_ty((0.0, 0.25, None), [("read", 0.25, "expired"), ("restart", 0.375, None), ("read", 0.375, "elapsed"),
                                       ("read", 0.5, "expired"), ("restart", 0.75, None), ("restart", 0.75, None),
                                       ("read", 0.875, "remaining"), ("read", 1.0, "expired"), ("read", 1.0, "duration")]))
    out.append(_ty((1.0, 1.0, None), [("restart", 5.0, 0.5), ("read", 2.25, "elapsed"), ("restart", 0.0, None),
                                      ("read", 2.5, "expired"), ("read", 3.0, "expired"), ("read", 2.0, "expired")]))
    # unwound failures: start() without tyme corrupts _start, then duration and default-duration ops raise
    out.append(_ty((None, 1.0, None), [("start", None, None, None), ("read", None, "duration"), ("start", None, None, None),
                                       ("restart", None, None), ("read", 2.0, "elapsed"), ("wind", None),
                                       ("restart", 3.0, 0.5), ("read", 3.0, "elapsed"), ("wind", None), ("wind", 2.0),
                                       ("start", None, 1.0, None), ("start", None, 1.0, 4.0), ("read", 4.5, "expired")]))
    # non-dyadic: 0.1 steps; the default duration is (_stop - _start), not the original 0.1
    t = 0.0
    ops = []
    for i in range(12):
        t += 0.1
        ops += [("read", t, "elapsed"), ("read", t, "expired")]
        if i % 3 == 2:
            ops += [("restart", t, None), ("read", t, "duration")]
    out.append(_ty((0.0, 0.1, None), ops, dyadic=False))
    out.append(_ty((1e9, 1 / 3, None), [("restart", 1e9, None), ("read", 1e9 + 0.5, "duration"), ("restart", 1e9, None),
                                        ("read", 1e9 + 1, "remaining"), ("read", 1e9 + 1, "expired"),
                                        ("start", 1e9 + 1e-9, None, None), ("read", 1e9 + 2e-9, "elapsed")], dyadic=False))
    out.append(_ty((float("inf"), 1.0, None), [("read", float("inf"), "elapsed"), ("read", 1.0, "expired"),
                                               ("restart", 0.0, None), ("read", float("nan"), "expired"),
                                               ("start", -0.0, 5e-324, None), ("read", 0.0, "elapsed"),
                                               ("read", 5e-324, "expired"), ("read", -0.0, "remaining")], dyadic=False))
    # Timer
    out.append(_ck("timer", [10.0, 10.5, 11.0, 12.0, 12.5, 13.0, 14.0, 15.0],
                   (2.0, None, False), [("read", "elapsed"), ("read", "remaining"), ("read", "expired"), ("read", "expired"),
                                        ("read", "duration"), ("restart", None), ("read", "elapsed"), ("read", "expired"),
                                        ("read", "expired")]))
    out.append(_ck("timer", [10.0, 9.0, 8.0, 20.0], (1.0, 4.0, False),
                   [("read", "elapsed"), ("start", None, None), ("read", "remaining"), ("start", 0.5, 2.0), ("restart", 0.25),
                    ("read", "expired"), ("read", "duration"), ("read", "elapsed")]))
    out.append(_ck("timer", [0.1, 0.2, 0.30000000000000004, 0.4], (0.1, None, False),
                   [("read", "expired"), ("restart", None), ("read", "duration"), ("read", "elapsed")], dyadic=False))
    # AsyncTimer is a textual copy of Timer over the event-loop clock: same model, same script
    out.append(_ck("atimer", [10.0, 10.5, 11.0, 12.0, 12.5, 13.0, 14.0, 15.0],
                   (2.0, None, False), [("read", "elapsed"), ("read", "remaining"), ("read", "expired"), ("start", None, None),
                                        ("read", "duration"), ("restart", None), ("read", "elapsed"), ("read", "expired"),
                                        ("read", "expired")]))
    # the clock steps (1.7e9 -> 5.0) between the two readings the constructor takes: the duration given must survive exactly
    out.append(_ck("timer", [1.7e9 + 0.3, 5.0, 5.05, 5.1, 5.1], (0.1, None, False),
                   [("read", "duration"), ("read", "expired"), ("read", "expired"), ("restart", None), ("read", "duration")],
                   dyadic=False))
    out.append(_ck("mono", [1.7e9 + 0.3, 5.0, 5.05, 5.1, 5.1], (0.1, None, True),
                   [("read", "duration"), ("restart", None), ("read", "duration")], dyadic=False))
    # AsyncTimer: wall clock ~1.8e9 (float spacing 2**-22 s) vs a small event-loop clock; the duration given to the
    # constructor must survive exactly (0.1, 0.3, 0.05, 0.01 are not multiples of 2**-22)
    for d in (0.1, 0.3, 0.05, 0.01, 0.03125):
        out.append(_ck("atimer", [0.0, d / 2, d - 5e-8, d, d, d + 5e-8, 2 * d - 5e-8, 2 * d, 3 * d],
                       (d, None, False), [("read", "duration"), ("read", "elapsed"), ("read", "expired"), ("read", "expired"),
                                          ("read", "remaining"), ("restart", None), ("read", "duration"), ("read", "elapsed"),
                                          ("read", "expired"), ("read", "expired"), ("restart", None), ("read", "duration")],
                       dyadic=False))
    out.append(_ck("atimer", [1000.5, 1000.55, 1000.6], (0.1, 1000.25, False),
                   [("read", "duration"), ("read", "expired"), ("start", None, None), ("read", "duration")], dyadic=False))
    out.append(_ck("atimer", [4.0, 4.5, 5.0, 6.0], (1.5, None, False),
                   [("read", "duration"), ("read", "remaining"), ("restart", None), ("read", "expired")], wall=2.0 ** 31))
    # MonoTimer: forward, stalled, backward; retro True
    out.append(_ck("mono", [100.0, 100.0, 101.0, 101.0, 99.0, 99.0, 99.5, 90.0, 92.0, 95.0, 95.0],
                   (3.0, None, True), [("read", "elapsed"), ("latest",), ("read", "elapsed"), ("read", "expired"),
                                       ("read", "elapsed"), ("read", "remaining"), ("read", "elapsed"), ("read", "expired"),
                                       ("read", "expired"), ("read", "duration")]))
    # retro False: raises and leaves the state alone, recovers when the clock catches up
    out.append(_ck("mono", [100.0, 100.0, 101.0, 99.0, 100.5, 101.0, 102.0, 50.0, 104.0],
                   (3.0, None, False), [("read", "elapsed"), ("read", "elapsed"), ("read", "expired"), ("read", "elapsed"),
                                        ("latest",), ("read", "remaining"), ("read", "expired")]))
    # constructor reads the clock twice (second reading earlier than the first), start given, restart, start()
    out.append(_ck("mono", [100.0, 98.0, 98.0, 99.0, 97.0, 101.0, 102.0], (1.0, None, True),
                   [("read", "elapsed"), ("read", "expired"), ("read", "elapsed"), ("restart", None), ("read", "elapsed"),
                    ("read", "expired")]))
    out.append(_ck("mono", [50.0, 40.0, 40.0, 45.0, 60.0], (2.0, 48.0, True),
                   [("read", "elapsed"), ("start", None, None), ("read", "elapsed"), ("read", "expired"), ("start", 1.0, 44.0),
                    ("read", "remaining"), ("latest",)]))
    out.append(_ck("mono", [1.7e9 + 0.1, 1.7e9 + 0.1, 1.7e9 + 0.3, 1.7e9 + 0.2, 1.7e9 + 0.2, 1.7e9 + 0.7, 1.7e9 - 3600.0,
                            1.7e9 - 3599.9], (0.5, None, True),
                   [("read", "elapsed"), ("read", "elapsed"), ("read", "elapsed"), ("read", "expired"), ("read", "remaining"),
                    ("read", "elapsed")], dyadic=False))
    # binary64 residue: elapsed goes back by one ulp on the second backward step (the model reproduces it bit for bit)
    out.append(_ck("mono", [0.1, 0.1, 0.7999999999999999, 0.8999999999999999, 0.5666666666666667, 0.26666666666666666],
                   (1.0, None, True), [("read", "elapsed")] * 4, dyadic=False))
    out.append(_ck("mono", [0.1, 0.1, 0.7999999999999999, 1.2, 0.5666666666666667, 0.26666666666666666, 0.1, 0.05],
                   (0.8999999999999999, None, True), [("read", "expired")] * 6, dyadic=False))
    # script used up: the clock then reads 0.0
    out.append(_ck("mono", [5.0], (1.0, None, True), [("read", "elapsed"), ("read", "expired")]))
    return out


# --------------------------------------------------------------------------- generators

NONDY = [0.1, 0.2, 0.3, 1 / 3, 2 / 3, 1e-9, 1e9, 0.7, 1.1, 1e-3, 0.015625 + 1e-12, 3.14159, 1e15, 123456.789]


def _val(rng, dyadic, lo=0.0, hi=16.0):
    if dyadic:
        return rng.randint(int(lo * 8), int(hi * 8)) / 8.0
    r = rng.random()
    if r < 0.4:
        return rng.choice(NONDY) * rng.choice([1, 1, 2, 3, 7, 10])
    if r < 0.8:
        return rng.uniform(lo, hi)
    if r < 0.9:
        return rng.randint(0, 40) * 0.1
    if r < 0.97:
        return 1.7e9 + rng.uniform(0, 100)
    return rng.choice([float("inf"), float("-inf"), float("nan"), -0.0, 5e-324, 1e308, -1.5])


def _gen_tymer(rng, dyadic):
    wound = rng.random() < 0.93
    base = _val(rng, dyadic, 0, 8)
    step = rng.choice([0.125, 0.25, 0.03125, 1.0]) if dyadic else rng.choice([0.1, 1 / 3, 1e-9, 0.03125, 0.7, 1e9])
    now = base if wound else None
    dur = None if rng.random() < 0.2 else (_val(rng, dyadic, 0, 4) if rng.random() < 0.7 else step * rng.randint(0, 6))
    start = None if rng.random() < 0.7 else _val(rng, dyadic, 0, 8)
    ops = []
    t = base
    for _ in range(rng.choice([3, 6, 10, 16, 24])):
        r = rng.random()
        if r < 0.55:
            t = t + step * rng.choice([0, 1, 1, 1, 2, 5])
        elif r < 0.62:
            t = _val(rng, dyadic, 0, 16)          # rewind / jump
        cur = t if wound else None
        if rng.random() < 0.03:
            cur = None if cur is not None else t   # momentarily (un)wound
        k = rng.random()
        if k < 0.5:
            ops.append(["read", _oh(cur), rng.choice(KINDS + ["elapsed", "expired", "expired"])])
        elif k < 0.75:
            ops.append(["restart", _oh(cur), None if rng.random() < 0.7 else H(_val(rng, dyadic, 0, 4))])
        elif k < 0.93:
            ops.append(["start", _oh(cur), None if rng.random() < 0.5 else H(_val(rng, dyadic, 0, 4)),
                        None if rng.random() < 0.6 else H(_val(rng, dyadic, 0, 16))])
        else:
            wound = True if rng.random() < 0.9 else False
            ops.append(["wind", _oh(t if wound else None)])
    return {"cls": "tymer", "dyadic": dyadic, "init": {"now": _oh(now), "dur": _oh(dur), "start": _oh(start)}, "ops": ops}


def _gen_clock(rng, cls, dyadic):
    retro = rng.random() < 0.8
    nops = rng.choice([3, 6, 10, 16, 24])
    if cls == "atimer":    # event-loop clock: monotonic-clock sized, far from the wall clock's magnitude
        base = (rng.randint(0, 1600) / 8.0) if dyadic else rng.choice([0.0, 0.5, 100.0, 4321.0, 86400.0]) + rng.random()
    else:
        base = (rng.randint(800, 1600) / 8.0) if dyadic else rng.choice([0.0, 100.0, 1.7e9, 1e9, 12345.678]) + rng.random()
    step = rng.choice([0.125, 0.5, 1.0]) if dyadic else rng.choice([0.1, 1 / 3, 1e-9, 1e-3, 0.7, 1.0])
    clock, t = [], base
    for _ in range(nops + 2 if rng.random() < 0.97 else rng.randint(0, nops)):
        r = rng.random()
        if r < 0.6:
            t = t + step * rng.choice([1, 1, 2, 3, 8])
        elif r < 0.75:
            pass                                  # stalled
        elif r < 0.95:
            t = t - step * rng.choice([1, 1, 2, 5, 20, 400])   # backward
        else:
            t = _val(rng, dyadic, 0, 200)
        clock.append(t)
    if cls != "atimer" and not dyadic and clock and rng.random() < 0.15:
        clock[0] = clock[0] + rng.choice([1.7e9, -1.7e9, 1e6])      # the clock steps between the constructor's two readings
    dur = _val(rng, dyadic, 0, 6) if rng.random() < 0.7 else step * rng.randint(0, 6)
    if cls == "atimer" and not dyadic and rng.random() < 0.6:
        dur = rng.choice([0.1, 0.3, 0.05, 0.01, 0.2, 1 / 3, 0.7, 1e-3, 2.5e-7, 1e-9])
    start = None if rng.random() < 0.75 else (base + step * rng.randint(-4, 4) if rng.random() < 0.8 else _val(rng, dyadic, 0, 200))
    ops = []
    for _ in range(nops):
        k = rng.random()
        if k < 0.72:
            if cls == "mono" and rng.random() < 0.15:
                ops.append(["latest"])
            else:
                ops.append(["read", rng.choice(KINDS + ["elapsed", "elapsed", "expired", "expired"])])
        elif k < 0.88:
            ops.append(["restart", None if rng.random() < 0.7 else H(_val(rng, dyadic, 0, 4))])
        else:
            ops.append(["start", None if rng.random() < 0.5 else H(_val(rng, dyadic, 0, 4)),
                        None if rng.random() < 0.6 else H(base + step * rng.randint(-4, 8))])
    c = {"cls": cls, "dyadic": dyadic, "clock": [H(x) for x in clock],
         "init": {"dur": H(dur), "start": _oh(start), "retro": retro}, "ops": ops}
    if cls == "atimer":    # time.time() of the constructor: epoch sized (dyadic cases: a multiple of 2**10)
        c["wall"] = H(float(2 ** 20 * rng.randint(1600, 1800)) if dyadic else 1.7e9 + rng.uniform(0, 2e8))
    return c


def generate(rng, tier):
    n = 900 if tier == "quick" else 18000
    out = []
    for _ in range(n):
        dyadic = rng.random() < 0.5
        r = rng.random()
        if r < 0.4:
            out.append(_gen_tymer(rng, dyadic))
        elif r < 0.6:
            out.append(_gen_clock(rng, "timer" if rng.random() < 0.5 else "atimer", dyadic))
        else:
            out.append(_gen_clock(rng, "mono", dyadic))
    return out


# --------------------------------------------------------------------------- implementation

class _Clock:
    """Stand-in for the `time` module inside hio.help.timing."""
    def __init__(self, readings):
        self.rs, self.i, self.log = readings, 0, []

    def time(self):
        i = self.i
        self.i += 1
        v = self.rs[i] if i < len(self.rs) else 0.0
        self.log.append(v)
        return v


def _res(thunk):
    try:
        r = thunk()
    except Exception as ex:
        return ["exc", exn_kind(ex), type(ex).__name__]
    if isinstance(r, bool):
        return ["ok", ["b", r]]
    if isinstance(r, float):
        return ["ok", ["t", r.hex()]]
    raise AssertionError(f"unexpected result {r!r}")


def _run_tymer(case):
    from hio.base import tyming
    init = case["init"]
    tymist = tyming.Tymist(tyme=0.0)

    def tymth_at(now):
        if now is None:
            return None
        tymist.tyme = F(now)
        return tymist.tymen()

    kw = {}
    if init["dur"] is not None:
        kw["duration"] = F(init["dur"])
    if init["start"] is not None:
        kw["start"] = F(init["start"])
    t = tyming.Tymer(tymth=tymth_at(init["now"]), **kw)
    snap = lambda: [None if t._start is None else float(t._start).hex(), float(t._stop).hex()]
    obs = {"snap0": snap(), "steps": []}
    for o in case["ops"]:
        kind, now = o[0], o[1]
        if kind == "wind":
            if now is None:
                r = _res(lambda: t.wind(None) or 0.0)
            else:
                tymist = tyming.Tymist(tyme=F(now))     # a different tyme base
                r = _res(lambda: t.wind(tymist.tymen()) or 0.0)
            if r[0] == "ok":                            # wind returns None; the model reports the new _start
                r = ["ok", ["t", float(t._start).hex()]]
        else:
            t.tymth = tymth_at(now)                     # property setter: no restart
            if kind == "start":
                a = {}
                if o[2] is not None:
                    a["duration"] = F(o[2])
                if o[3] is not None:
                    a["start"] = F(o[3])
                r = _res(lambda: t.start(**a))
            elif kind == "restart":
                r = _res(lambda: t.restart(**({} if o[2] is None else {"duration": F(o[2])})))
            else:
                r = _res(lambda: getattr(t, o[2]))
        obs["steps"].append([r, snap()])
    return obs


def _run_clock(case):
    import hio.help.timing as timing
    init = case["init"]
    clk = _Clock([F(h) for h in case["clock"]])
    real, real_asyncio = timing.time, timing.asyncio
    timing.time = clk
    if case["cls"] == "atimer":
        wall = F(case["wall"])

        class _Wall:                     # time.time(): the wall clock, another magnitude than the loop clock
            @staticmethod
            def time():
                return wall

        class _Aio:                      # asyncio.get_event_loop().time() reads the script
            @staticmethod
            def get_event_loop():
                return clk
        timing.time, timing.asyncio = _Wall, _Aio
    try:
        kw = {"duration": F(init["dur"])}
        if init["start"] is not None:
            kw["start"] = F(init["start"])
        if case["cls"] == "mono":
            t = timing.MonoTimer(retro=init["retro"], **kw)
            snap = lambda: [t._start.hex(), t._stop.hex(), t._last.hex()]
        else:
            t = (timing.AsyncTimer if case["cls"] == "atimer" else timing.Timer)(**kw)
            snap = lambda: [t._start.hex(), t._stop.hex()]
        obs = {"snap0": snap(), "ticks0": [x.hex() for x in clk.log], "steps": []}
        for o in case["ops"]:
            clk.log = []
            if o[0] == "start":
                a = {}
                if o[1] is not None:
                    a["duration"] = F(o[1])
                if o[2] is not None:
                    a["start"] = F(o[2])
                r = _res(lambda: t.start(**a))
            elif o[0] == "restart":
                r = _res(lambda: t.restart(**({} if o[1] is None else {"duration": F(o[1])})))
            elif o[0] == "latest":
                r = _res(lambda: t.latest)
            else:
                r = _res(lambda: getattr(t, o[1]))
            obs["steps"].append([r, snap(), [x.hex() for x in clk.log]])
        obs["unread"] = max(0, len(clk.rs) - clk.i)
        return obs
    finally:
        timing.time, timing.asyncio = real, real_asyncio


def run_impl(case):
    return _run_tymer(case) if case["cls"] == "tymer" else _run_clock(case)


# --------------------------------------------------------------------------- oracle (the property, on the implementation)

def _same(a, b):
    """bit-level equality of two floats (nan == nan, 0.0 != -0.0)."""
    return float(a).hex() == float(b).hex()


def _q(x):
    return Fraction(x)


def _finite(*xs):
    return all(x == x and abs(x) != float("inf") for x in xs)


def _oracle_tymer(case, obs):
    start, stop = obs["snap0"]
    start, stop = F(start), F(stop)
    exact = case["dyadic"]
    init = case["init"]
    st0 = F(init["start"]) if init["start"] is not None else (F(init["now"]) if init["now"] is not None else 0.0)
    d0 = F(init["dur"]) if init["dur"] is not None else 0.0
    if start is None or not _same(start, st0) or not _same(stop, st0 + d0):
        return f"constructed with ({start!r}, {stop!r}), expected ({st0!r}, {st0 + d0!r})"
    origin = None          # (start0, d, k): last explicit start and number of default restarts since
    if start is not None:
        origin = (start, stop - start, 0)
    for n, (o, (r, snap)) in enumerate(zip(case["ops"], obs["steps"])):
        kind, now = o[0], F(o[1])
        nstart, nstop = F(snap[0]), F(snap[1])
        where = f"op {n} {o}"
        if kind == "read":
            if (nstart is None) != (start is None) or (start is not None and not _same(nstart, start)) or not _same(nstop, stop):
                return f"{where}: a read changed _start/_stop"
            if now is None or start is None:
                if o[2] == "duration" and start is not None:
                    if r[0] != "ok" or not _same(F(r[1][1]), stop - start):
                        return f"{where}: duration != _stop - _start"
                start, stop = nstart, nstop
                continue                                   # no tyme fed: outside the property
            if r[0] != "ok":
                return f"{where}: raised {r} on a wound tymer"
            v = r[1][1]
            if o[2] == "elapsed" and not _same(F(v), now - start):
                return f"{where}: elapsed {F(v)!r} != now - start = {now - start!r}"
            if o[2] == "remaining" and not _same(F(v), stop - now):
                return f"{where}: remaining {F(v)!r} != stop - now = {stop - now!r}"
            if o[2] == "duration" and not _same(F(v), stop - start):
                return f"{where}: duration {F(v)!r} != stop - start"
            if o[2] == "expired" and v is not (now >= stop):
                return f"{where}: expired {v} but now={now!r} stop={stop!r}"
            if exact and _finite(now, start, stop):
                if o[2] == "elapsed" and _q(F(v)) != _q(now) - _q(start):
                    return f"{where}: elapsed inexact"
                if o[2] == "remaining" and _q(F(v)) != _q(stop) - _q(now):
                    return f"{where}: remaining inexact"
        elif kind == "restart":
            dur = F(o[2])
            if dur is None and start is None:
                start, stop = nstart, nstop
                origin = None
                continue                                   # corrupted by an unwound start(): outside the property
            d = dur if dur is not None else stop - start
            if r[0] != "ok" or not _same(F(r[1][1]), stop):
                return f"{where}: restart returned {r}, expected previous stop {stop!r}"
            if nstart is None or not _same(nstart, stop):
                return f"{where}: restart began at {nstart!r}, not at the previous stop {stop!r}"
            if not _same(nstop, stop + d):
                return f"{where}: restart stop {nstop!r} != previous stop + duration {stop + d!r}"
            if exact and _finite(start if start is not None else 0.0, stop, d):
                if _q(nstop) - _q(nstart) != _q(d):
                    return f"{where}: restart changed the duration: {nstop - nstart!r} vs {d!r}"
                if dur is None and origin is not None:
                    s0, d0, k = origin
                    origin = (s0, d0, k + 1)
                    if _q(nstart) != _q(s0) + (k + 1) * _q(d0) or _q(nstop) != _q(s0) + (k + 2) * _q(d0):
                        return f"{where}: drift after {k + 1} restarts: start {nstart!r} != {s0!r} + {k + 1}*{d0!r}"
                else:
                    origin = (nstart, nstop - nstart, 0)
            else:
                origin = None
        else:   # start / wind
            dur = F(o[2]) if kind == "start" else None
            st = F(o[3]) if kind == "start" else None
            at = st if st is not None else now
            if at is None or (dur is None and start is None):
                start, stop = nstart, nstop
                origin = None
                continue                                   # no tyme / corrupted: outside the property
            d = dur if dur is not None else stop - start
            if r[0] != "ok" or not _same(F(r[1][1]), at):
                return f"{where}: returned {r}, expected start {at!r}"
            if nstart is None or not _same(nstart, at) or not _same(nstop, at + d):
                return f"{where}: state ({nstart!r}, {nstop!r}) != ({at!r}, {at + d!r})"
            origin = (nstart, nstop - nstart, 0) if _finite(nstart, nstop) else None
        start, stop = nstart, nstop
    return None


def _oracle_clock(case, obs):
    mono = case["cls"] == "mono"
    exact = case["dyadic"]
    retro = case["init"]["retro"]
    clock = [F(h) for h in case["clock"]]
    snap = [F(h) for h in obs["snap0"]]
    used = len(obs["ticks0"])      # how often the constructor reads the clock is the model's business, not the property's
    # construction: the period is [start, start + duration] on the timer's own clock
    d0, st0 = F(case["init"]["dur"]), F(case["init"]["start"])
    if st0 is None:
        if not obs["ticks0"]:
            return "constructor without start did not read the timer's clock"
        st0 = F(obs["ticks0"][-1])
    if not _same(snap[0], st0):
        return f"constructed with _start {snap[0]!r}, expected {st0!r}"
    if not _same(snap[1], st0 + d0):
        return (f"constructed with _stop {snap[1]!r} != _start + duration = {st0 + d0!r} "
                f"(duration {snap[1] - snap[0]!r}, requested {d0!r})")
    if exact and _finite(st0, d0) and _q(snap[1]) - _q(snap[0]) != _q(d0):
        return f"constructed duration {snap[1] - snap[0]!r} != requested {d0!r}"
    # period state for MonoTimer monotonicity (exact cases only)
    last_el, latched = None, False
    for n, (o, (r, nsnap, ticks)) in enumerate(zip(case["ops"], obs["steps"])):
        where = f"op {n} {o}"
        nsnap = [F(h) for h in nsnap]
        ticks = [F(h) for h in ticks]
        for tk in ticks:
            want = clock[used] if used < len(clock) else 0.0
            if not _same(tk, want):
                return f"{where}: clock reading out of order"
            used += 1
        start, stop = snap[0], snap[1]
        if o[0] in ("start", "restart"):
            dur = F(o[1])
            st = stop if o[0] == "restart" else F(o[2])
            if st is None:
                if not ticks:
                    return f"{where}: start() without start did not read the clock"
                st = ticks[-1]
            d = dur if dur is not None else stop - start
            if r[0] != "ok" or not _same(F(r[1][1]), st):
                return f"{where}: returned {r}, expected {st!r}"
            if not _same(nsnap[0], st) or not _same(nsnap[1], st + d):
                return f"{where}: state ({nsnap[0]!r}, {nsnap[1]!r}) != ({st!r}, {st + d!r})"
            if exact and _finite(st, d) and _q(nsnap[1]) - _q(nsnap[0]) != _q(d):
                return f"{where}: duration not kept exactly"
            if mono and not _same(nsnap[2], snap[2]):
                return f"{where}: start/restart moved _last"
            last_el, latched = None, False
        elif o[0] == "read" and o[1] == "duration":
            if ticks or r[0] != "ok" or not _same(F(r[1][1]), stop - start) or not all(_same(a, b) for a, b in zip(snap, nsnap)):
                return f"{where}: duration != _stop - _start or state changed"
        elif not mono:
            if len(ticks) != 1:
                return f"{where}: read the clock {len(ticks)} times"
            now = ticks[0]
            if not all(_same(a, b) for a, b in zip(snap, nsnap)):
                return f"{where}: a read changed _start/_stop"
            if r[0] != "ok":
                return f"{where}: raised {r}"
            v = r[1][1]
            if o[1] == "elapsed" and not _same(F(v), now - start):
                return f"{where}: elapsed {F(v)!r} != now - start = {now - start!r}"
            if o[1] == "remaining" and not _same(F(v), stop - now):
                return f"{where}: remaining {F(v)!r} != stop - now = {stop - now!r}"
            if o[1] == "expired" and v is not (now >= stop):
                return f"{where}: expired {v} but now={now!r} stop={stop!r}"
        else:
            # MonoTimer read through `latest`
            if len(ticks) != 1:
                return f"{where}: read the clock {len(ticks)} times"
            now, last = ticks[0], snap[2]
            back = now < last
            if r[0] == "exc":
                if r[2] != "RetroTimerError" or retro or not back:
                    return f"{where}: raised {r} (retro={retro}, now={now!r}, last={last!r})"
                if not all(_same(a, b) for a, b in zip(snap, nsnap)):
                    return f"{where}: RetroTimerError changed the state"
                snap = nsnap
                continue
            if back and not retro:
                return f"{where}: clock went back ({now!r} < {last!r}) with retro=False but no RetroTimerError"
            if exact and _finite(*snap, *nsnap, now):
                el0 = _q(snap[2]) - _q(snap[0])
                el1 = _q(nsnap[2]) - _q(nsnap[0])
                if _q(nsnap[1]) - _q(nsnap[0]) != _q(stop) - _q(start):
                    return f"{where}: `latest` changed the duration"
                if el1 != el0 + max(Fraction(0), _q(now) - _q(last)):
                    return f"{where}: elapsed moved by {el1 - el0}, clock by {_q(now) - _q(last)}"
                if last_el is not None and el1 < last_el:
                    return f"{where}: elapsed decreased from {float(last_el)!r} to {float(el1)!r}"
                last_el = el1
                if o[0] == "read" and o[1] == "elapsed" and _q(F(r[1][1])) != el1:
                    return f"{where}: elapsed reported {F(r[1][1])!r}, state says {float(el1)!r}"
                if o[0] == "read" and o[1] == "expired":
                    v = r[1][1]
                    if v is not (el1 >= _q(nsnap[1]) - _q(nsnap[0])):
                        return f"{where}: expired {v} but elapsed {float(el1)!r} duration {nsnap[1] - nsnap[0]!r}"
                if o[0] == "latest" and not _same(F(r[1][1]), nsnap[2]):
                    return f"{where}: latest returned {r}, _last is {nsnap[2]!r}"
            # expired is latched in binary64 too (rounding is monotone): checked on every finite case
            if _finite(*snap, *nsnap, now):
                if o[0] == "read" and o[1] == "expired":
                    v = r[1][1]
                    if latched and not v:
                        return f"{where}: expired reverted to False"
                    latched = latched or v
            else:
                latched = False
        snap = nsnap
    if obs["unread"] != max(0, len(clock) - used):
        return "clock readings consumed outside the ops"
    return None


def oracle(case, obs):
    return _oracle_tymer(case, obs) if case["cls"] == "tymer" else _oracle_clock(case, obs)


# --------------------------------------------------------------------------- Gallina emitter

def _fl(h):
    return coq_float(F(h))


def _ofl(h):
    return coq_option(h, _fl, "fl")


_RD = {"duration": "RDuration", "elapsed": "RElapsed", "remaining": "RRemaining", "expired": "RExpired"}


def _r(r):
    def val(v):
        return f"(VT {_fl(v[1])})" if v[0] == "t" else f"(VB {coq_bool(v[1])})"
    return coq_res(r, val)


def to_coq(case, obs):
    init = case["init"]
    if case["cls"] == "tymer":
        ops = []
        for o in case["ops"]:
            if o[0] == "start":
                t = f"(YStart {_ofl(o[2])} {_ofl(o[3])})"
            elif o[0] == "restart":
                t = f"(YRestart {_ofl(o[2])})"
            elif o[0] == "wind":
                t = "YWind"
            else:
                t = f"(YRead {_RD[o[2]]})"
            ops.append(f"({_ofl(o[1])}, {t})")
        snap = lambda s: f"({_ofl(s[0])}, {_fl(s[1])})"
        steps = [f"({_r(r)}, {snap(s)})" for r, s in obs["steps"]]
        return (f"(CY {_ofl(init['now'])} {_ofl(init['dur'])} {_ofl(init['start'])} "
                f"{coq_list(ops, 'option fl * yop fl')} {snap(obs['snap0'])} {coq_list(steps, 'res (val fl) * ysnap')})")
    mono = case["cls"] == "mono"
    C = "M" if mono else "W"
    ops = []
    for o in case["ops"]:
        if o[0] == "start":
            ops.append(f"({C}Start {_ofl(o[1])} {_ofl(o[2])})")
        elif o[0] == "restart":
            ops.append(f"({C}Restart {_ofl(o[1])})")
        elif o[0] == "latest":
            ops.append("MLatest")
        else:
            ops.append(f"({C}Read {_RD[o[1]]})")
    snap = lambda s: "(" + ", ".join(_fl(x) for x in s) + ")"
    steps = [f"({_r(r)}, {snap(s)})" for r, s, _ in obs["steps"]]
    clock = coq_list([_fl(h) for h in case["clock"]], "fl")
    if mono:
        return (f"(CM {clock} {_fl(init['dur'])} {_ofl(init['start'])} {coq_bool(init['retro'])} "
                f"{coq_list(ops, 'mop fl')} {snap(obs['snap0'])} {coq_list(steps, 'res (val fl) * msnap')} {obs['unread']}%N)")
    if case["cls"] == "atimer":
        return (f"(CA {_fl(case['wall'])} {clock} {_fl(init['dur'])} {_ofl(init['start'])} "
                f"{coq_list(ops, 'wop fl')} {snap(obs['snap0'])} {coq_list(steps, 'res (val fl) * wsnap')} {obs['unread']}%N)")
    return (f"(CW {clock} {_fl(init['dur'])} {_ofl(init['start'])} "
            f"{coq_list(ops, 'wop fl')} {snap(obs['snap0'])} {coq_list(steps, 'res (val fl) * wsnap')} {obs['unread']}%N)")


# --------------------------------------------------------------------------- bookkeeping

def _retro_reads(case, obs):
    """number of `latest` evaluations that saw the clock behind _last"""
    n, snap = 0, obs["snap0"]
    for o, (r, nsnap, ticks) in zip(case["ops"], obs["steps"]):
        if o[0] in ("latest", "read") and o[-1] != "duration" and ticks and F(ticks[0]) < F(snap[2]):
            n += 1
        snap = nsnap
    return n


def nontrivial(case, obs):
    if case["cls"] == "mono":
        return _retro_reads(case, obs) > 0
    restarted = any(o[0] == "restart" for o in case["ops"])
    past = any(r[0] == "ok" and r[1] == ["b", True] for r, *_ in obs["steps"])
    return restarted and past


def classify(case, obs, why):
    return None


def shrink(case):
    ops = case["ops"]
    for i in range(len(ops)):
        c = dict(case)
        c["ops"] = ops[:i] + ops[i + 1:]
        yield c
    if case["cls"] != "tymer" and len(case["clock"]) > 1:
        for i in range(len(case["clock"])):
            c = dict(case)
            c["clock"] = case["clock"][:i] + case["clock"][i + 1:]
            yield c


def distribution(cases, obs):
    d = {"tymer": 0, "timer": 0, "atimer": 0, "mono": 0, "dyadic": 0, "arbitrary_binary64": 0, "mono_retro_reads": 0,
         "mono_retro_raises": 0, "tymer_unwound_typeerrors": 0, "restarts": 0, "mono_remaining_read_on_retrograde": 0}
    for c, o in zip(cases, obs):
        if not isinstance(o, dict) or "steps" not in o:
            continue
        d[c["cls"]] += 1
        d["dyadic" if c["dyadic"] else "arbitrary_binary64"] += 1
        d["restarts"] += sum(1 for op in c["ops"] if op[0] == "restart")
        if c["cls"] == "mono":
            d["mono_retro_reads"] += _retro_reads(c, o)
            d["mono_retro_raises"] += sum(1 for s in o["steps"] if s[0][0] == "exc")
            snap = o["snap0"]
            for op, (r, nsnap, ticks) in zip(c["ops"], o["steps"]):
                if op == ["read", "remaining"] and ticks and F(ticks[0]) < F(snap[2]) and r[0] == "ok":
                    d["mono_remaining_read_on_retrograde"] += 1
                snap = nsnap
        if c["cls"] == "tymer":
            d["tymer_unwound_typeerrors"] += sum(1 for s in o["steps"] if s[0][0] == "exc")
    return d


def extra(tier, ctx):
    """Exhaustive small-grid sweep of the direct oracle on the real classes (no model involved):
    MonoTimer under every clock script over {0,1,2,3} (thorough: {0..4}) of length 7 for both retro
    settings and two op patterns; Tymer under every (start, duration, restart tyme, read tyme) on a 0..4 grid."""
    import itertools
    vals = [0.0, 1.0, 2.0, 3.0] + ([4.0] if tier == "thorough" else [])
    n = 7
    pats = [[["read", "elapsed"], ["read", "expired"]], [["read", "expired"], ["latest"], ["read", "remaining"], ["read", "elapsed"]]]
    count = 0
    for clock in itertools.product(vals, repeat=n):
        for retro in (True, False):
            for dur in (1.0, 2.0):
                pat = pats[count % 2]
                ops = [pat[i % len(pat)] for i in range(n - 2)]
                case = {"cls": "mono", "dyadic": True, "clock": [H(x) for x in clock],
                        "init": {"dur": H(dur), "start": None, "retro": retro}, "ops": ops}
                count += 1
                why = oracle(case, run_impl(case))
                if why is not None:
                    ctx.violations.append({"kind": "oracle-sweep", "why": why, "case": case})
                    return {"sweep_cases": count}
    grid = [0.0, 1.0, 2.0, 3.0, 4.0]
    for st, d, t1, t2, t3 in itertools.product(grid, repeat=5):
        case = _ty((st, d, None), [("read", t1, "expired"), ("read", t1, "elapsed"), ("restart", t2, None),
                                   ("read", t3, "expired"), ("read", t3, "remaining"), ("restart", t1, None),
                                   ("read", t3, "expired")])
        count += 1
        why = oracle(case, run_impl(case))
        if why is not None:
            ctx.violations.append({"kind": "oracle-sweep", "why": why, "case": case})
            return {"sweep_cases": count}
    return {"sweep_cases": count,
            "sweep": f"direct oracle on the real MonoTimer for all {len(vals)}^{n} clock scripts x retro x 2 durations, "
                     f"and on the real Tymer for a 5^5 grid of (start, duration, tymes)"}
