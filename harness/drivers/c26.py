"""C26 — Base64 integer and code conversions are exact inverses (hio.help.helping)."""
from harness.core import coq_N, coq_nat, coq_list, coq_res, coq_bytes, exn_kind

PROP = "C26"
COQ_REQUIRES = ["Hio.Model.B64"]
COQ_CHECK = "B64.check_case"
COQ_CASE_TYPE = "B64.case"
COQ_BRANCHES = ("B64.case_branches", "B64.n_branches")
RULE = ("five kinds of call (intToB64, b64ToInt, codeB64ToB2, codeB2ToB64, nabSextets) on integers up to 2^300, "
        "lengths 0..12, Base64 strings up to 16 chars incl. invalid characters and empty, byte strings up to 12 bytes; "
        "non-trivial when the integer is >= 64 or the length differs from the minimal length, or the string has >= 2 chars")
MODELLED = ["Python int arithmetic (unbounded N; << >> | as N.shiftl N.shiftr N.lor)",
            "sceil(l*3/4) computed exactly (the float division is exact for l < 2^50)",
            "str/bytes as lists of code points; non-ASCII text not generated"]

B64 = "ABCDEFGHIJKLMNOPQRSTUVWXYZabcdefghijklmnopqrstuvwxyz0123456789-_"


def directed():
    return [
        {"k": "intTo", "i": 5, "l": 0}, {"k": "intTo", "i": 0, "l": 0}, {"k": "intTo", "i": 0, "l": 1},
        {"k": "intTo", "i": 64, "l": 1}, {"k": "intTo", "i": 63, "l": 4}, {"k": "intTo", "i": 64 ** 5, "l": 3},
        {"k": "toInt", "s": ""}, {"k": "toInt", "s": "A"}, {"k": "toInt", "s": "_-9z"}, {"k": "toInt", "s": "A+"},
        {"k": "toB2", "s": "A"}, {"k": "toB2", "s": "__"}, {"k": "toB2", "s": "abc"}, {"k": "toB2", "s": "abcd"}, {"k": "toB2", "s": ""},
        {"k": "toB2", "s": "a=b"},
        {"k": "toB64", "b": "fc", "l": 1}, {"k": "toB64", "b": "fffc", "l": 2}, {"k": "toB64", "b": "ffffc0", "l": 3},
        {"k": "toB64", "b": "ffffff", "l": 4}, {"k": "toB64", "b": "ff", "l": 2}, {"k": "toB64", "b": "", "l": 0},
        {"k": "nab", "b": "ffffffff", "l": 1}, {"k": "nab", "b": "ffffffff", "l": 2}, {"k": "nab", "b": "ffffffff", "l": 3},
        {"k": "nab", "b": "ffffffff", "l": 4}, {"k": "nab", "b": "ffffffff", "l": 5}, {"k": "nab", "b": "ff", "l": 3},
        {"k": "nab", "b": "ab", "l": 0},
    ]


def _rand_int(rng):
    bits = rng.choice([0, 1, 5, 6, 7, 11, 12, 13, 18, 24, 30, 48, 64, 65, 120, 300])
    return rng.getrandbits(bits) if bits else 0


def generate(rng, tier):
    n = 1200 if tier == "quick" else 30000
    out = []
    for _ in range(n):
        k = rng.choice(["intTo", "toInt", "toB2", "toB64", "nab", "rt"])
        if k == "intTo":
            out.append({"k": k, "i": _rand_int(rng), "l": rng.randint(0, 12)})
        elif k == "rt":   # boundary values 64^k - 1, 64^k
            e = rng.randint(0, 8)
            out.append({"k": "intTo", "i": max(0, 64 ** e + rng.choice([-1, 0, 1])), "l": rng.randint(0, 10)})
        elif k in ("toInt", "toB2"):
            ln = rng.choice([0, 1, 1, 2, 3, 4, 5, 6, 7, 8, 12, 16])
            s = "".join(rng.choice(B64) for _ in range(ln))
            if s and rng.random() < 0.1:
                j = rng.randrange(len(s))
                s = s[:j] + rng.choice("+/= .~@[`{") + s[j + 1:]
            out.append({"k": k, "s": s})
        else:
            ln = rng.randint(0, 12)
            b = bytes(rng.getrandbits(8) for _ in range(ln))
            out.append({"k": k, "b": b.hex(), "l": rng.randint(0, 14)})
    # codeB2ToB64 given text (str) instead of bytes, with multi-byte characters
    for _ in range(n // 12):
        txt = "".join(rng.choice(["é", "€", "x", "ß", "漢", "a", "\U0001f600", "-"]) for _ in range(rng.randint(1, 5)))
        out.append({"k": "toB64", "b": txt.encode("utf-8").hex(), "l": rng.randint(0, 10), "str": True})
    return out


def run_impl(case):
    from hio.help import helping
    k = case["k"]
    try:
        if k == "intTo":
            r = helping.intToB64(case["i"], case["l"])
            # byte variant must agree with the str variant
            rb = helping.intToB64b(case["i"], case["l"])
            if rb != r.encode():
                return {"r": ["exc", "OtherErr"]}
            return {"r": ["ok", r]}
        if k == "toInt":
            s = case["s"]
            r = helping.b64ToInt(s)
            if s and helping.b64ToInt(s.encode()) != r:
                return {"r": ["exc", "OtherErr"]}
            return {"r": ["ok", r]}
        if k == "toB2":
            return {"r": ["ok", helping.codeB64ToB2(case["s"]).hex()]}
        if k == "toB64":
            b = bytes.fromhex(case["b"])
            if case.get("str"):
                # the documented str form of the argument stands for its utf-8 bytes: same answer, same refusal
                def call(x):
                    try:
                        return ["ok", helping.codeB2ToB64(x, case["l"])]
                    except Exception as ex:
                        return ["exc", exn_kind(ex)]
                rs, rb = call(b.decode("utf-8")), call(b)
                if rs != rb:
                    return {"r": ["exc", "OtherErr"], "strdiff": [rs, rb]}
                return {"r": rb}
            return {"r": ["ok", helping.codeB2ToB64(b, case["l"])]}
        if k == "nab":
            return {"r": ["ok", helping.nabSextets(bytes.fromhex(case["b"]), case["l"]).hex()]}
    except Exception as ex:
        return {"r": ["exc", exn_kind(ex)]}
    raise AssertionError(k)


def oracle(case, obs):
    """The property itself, on the implementation: inverse laws."""
    from hio.help import helping
    k, r = case["k"], obs["r"]
    if obs.get("strdiff"):
        return (f"codeB2ToB64 of the text {bytes.fromhex(case['b']).decode('utf-8')!r} gives {obs['strdiff'][0]}, of its utf-8 bytes "
                f"{obs['strdiff'][1]} (l = {case['l']})")
    if k == "intTo":
        if r[0] != "ok":
            return f"intToB64 raised {r[1]}"
        s = r[1]
        try:
            back = helping.b64ToInt(s)
        except Exception as ex:
            return f"b64ToInt(intToB64({case['i']}, {case['l']})={s!r}) raised {type(ex).__name__}"
        if back != case["i"]:
            return f"b64ToInt(intToB64(i,l)) = {back} != {case['i']}"
        nd = 1
        while 64 ** nd <= case["i"]:
            nd += 1
        if len(s) != max(case["l"], nd):
            return f"length {len(s)} != max(l, digits) = {max(case['l'], nd)}"
    if k == "toB2" and r[0] == "ok":
        s = case["s"]
        try:
            back = helping.codeB2ToB64(bytes.fromhex(r[1]), len(s))
        except Exception as ex:
            return f"codeB2ToB64(codeB64ToB2({s!r})) raised {type(ex).__name__}"
        if back != s:
            return f"codeB2ToB64(codeB64ToB2({s!r}), {len(s)}) = {back!r}"
        # extracting the first l sextets from binary keeps exactly the leading characters
        for l in range(1, len(s)):
            try:
                pre = helping.codeB2ToB64(bytes.fromhex(r[1]), l)
            except Exception as ex:
                return f"codeB2ToB64(codeB64ToB2({s!r}), {l}) raised {type(ex).__name__}: {ex}"
            if pre != s[:l]:
                return f"codeB2ToB64(codeB64ToB2({s!r}), {l}) = {pre!r}, expected {s[:l]!r}"
    if k == "nab" and r[0] == "ok":
        b, l = bytes.fromhex(case["b"]), case["l"]
        out = bytes.fromhex(r[1])
        n = (3 * l + 3) // 4
        if len(out) != n:
            return f"nabSextets length {len(out)} != {n}"
        bits_in = bin(int.from_bytes(b[:n], "big"))[2:].zfill(8 * n) if n else ""
        bits_out = bin(int.from_bytes(out, "big"))[2:].zfill(8 * n) if n else ""
        if bits_out[:6 * l] != bits_in[:6 * l] or set(bits_out[6 * l:]) - {"0"}:
            return "nabSextets does not keep exactly the leading 6*l bits"
    return None


def _txt(s):
    return coq_list([coq_N(ord(c)) for c in s], "N")


def to_coq(case, obs):
    k, r = case["k"], obs["r"]
    if k == "intTo":
        out = _txt(r[1]) if r[0] == "ok" else "[999%N]"
        return f"(B64.CIntTo {coq_N(case['i'])} {coq_nat(case['l'])} {out})"
    if k == "toInt":
        return f"(B64.CToInt {_txt(case['s'])} {coq_res(r, coq_N)})"
    if k == "toB2":
        return f"(B64.CToB2 {_txt(case['s'])} {coq_res(r, lambda h: coq_bytes(bytes.fromhex(h)))})"
    if k == "toB64":
        return f"(B64.CToB64 {coq_bytes(bytes.fromhex(case['b']))} {coq_nat(case['l'])} {coq_res(r, _txt)})"
    return f"(B64.CNab {coq_bytes(bytes.fromhex(case['b']))} {coq_nat(case['l'])} {coq_res(r, lambda h: coq_bytes(bytes.fromhex(h)))})"


def nontrivial(case, obs):
    k = case["k"]
    if k == "intTo":
        nd = 1
        while 64 ** nd <= case["i"]:
            nd += 1
        return case["i"] >= 64 or case["l"] != nd
    if k in ("toInt", "toB2"):
        return len(case["s"]) >= 2
    return len(case["b"]) >= 4 and case["l"] >= 2


def classify(case, obs, why):
    # D29: intToB64(i, 0) == '' for every i, so the round trip fails exactly when the minimum length is 0
    if case["k"] == "intTo" and case["l"] == 0 and obs["r"] == ["ok", ""]:
        return "D29"
    return None


def distribution(cases, obs):
    d = {}
    for c, o in zip(cases, obs):
        key = c["k"] + ":" + o["r"][0] + ("" if o["r"][0] == "ok" else ":" + o["r"][1])
        d[key] = d.get(key, 0) + 1
    return d
