"""C14 — requests built by the HTTP client (Requester.build) are recovered exactly by the server's
request parser (Requestant) and WSGI environ (Server.buildEnviron)."""
import json, random as _random
from urllib.parse import parse_qsl, unquote
from harness.core import coq_N, coq_list, coq_bool, coq_option
from harness.drivers.c16 import coq_bytes, _ustr, _s, _tbl, Recorder

PROP = "C14"
COQ_REQUIRES = ["Hio.Model.HttpReqUrl", "Hio.Model.HttpTotal", "Hio.Model.HttpReq"]
COQ_CHECK = "HttpReq.check_case"
COQ_CASE_TYPE = "HttpReq.case"
COQ_BRANCHES = ("HttpReq.case_branches", "HttpReq.n_branches")
SHARD = 150
RULE = ("request specs: 9 methods x unicode paths (a quarter given as urls with ?query and / or #fragment - empty, simple, with blanks, reserved and non-ASCII characters - whose arguments must be merged and whose fragment must never reach the wire) over an alphabet with reserved, percent, space and non-BMP characters x "
        "query dicts and form dicts whose keys/values contain & = + % # ? ; space and non-ASCII x header sets (token names in "
        "mixed case, latin-1 values with ': ', blanks, empty) x raw / JSON / form bodies, with and without explicit "
        "Content-Length; built by the real Requester, parsed by the real Requestant + Server.buildEnviron; a second stream "
        "40% of the histories go through the application entry points instead of the Requester: a real Client on a fake connected socket, first request by Client(..., body|data|fargs) + bare transmit() or by Client.request, later ones by a bare transmit() (resend), client.transmit(**subset), Client.request(**subset) or as the follow-up of a 3xx answer whose Location carries a random path and query args in one of three equivalent encodings; a few through clienting.backendRequest on a fake connection; where each of method / path / qargs / headers / body|data|fargs is independently given or omitted (incl. empty dict / list / body meant to clear) and sent by Client.service(); all requests of a history are also fed to ONE Requestant and to a real WSGI Server connection (whole, one request per receive, or - half of the cases - cut into 2-4 receives at arbitrary byte positions incl. right after a header line, between CR and LF and inside header names/values, with a parse()/service() between receives; in a quarter of the cases after a hand-written chunked / Content-Length / cookie-bearing first request) and every parse is compared with the parse of the same request alone; each request is followed by 0-3 rebuild() calls on the same Requester (no arguments, or only some of method / path / qargs / headers / body, the rest carried over), every build parsed and compared; a further stream leaves the well-formed domain (path with ? or #, // prefix, control characters, CR/LF in header values) where only "
        "model/implementation agreement is compared. Non-trivial: a reserved or non-ASCII character in path, key, value or header value")
MODELLED = ["urllib.parse.quote/quote_plus/unquote/unquote_plus/urlsplit/parse_qsl and UTF-8 coding (Gallina functions; swept against CPython in C16's and this driver's extra())",
            "json.dumps of the data argument (external: the encoded bytes are part of the request spec)",
            "multidict Hict/CIMultiDict (association list, identity = key.lower())",
            "multipart/form-data bodies (random boundary) are not modelled and not generated",
            "Requester host header for a plain IPv4 host and explicit port"]

HOST, PORT = "127.0.0.1", 8080
METHODS = ["GET", "HEAD", "PUT", "PATCH", "POST", "DELETE", "OPTIONS", "TRACE", "CONNECT"]


# --------------------------------------------------------------------------- implementation

def _requester(case):
    from hio.core.http import clienting
    from hio import help
    kw = {}
    b = case["body"]
    if b[0] == "raw":
        kw["body"] = bytes.fromhex(b[1])
    elif b[0] == "json":
        kw["data"] = b[1]
    else:
        kw["fargs"] = dict((k, v) for k, v in b[1])
    return clienting.Requester(hostname=HOST, port=PORT, method=case["method"], path=case["path"],
                               qargs=dict((k, v) for k, v in case["qargs"]),
                               headers=help.Hict([(k, v) for k, v in case["headers"]]), **kw)


class _Remoter:
    ca = ("127.0.0.1", 50001)
    tymeout = 0.0


def _observe(wire, is_form):
    """parse one built request with the real Requestant + Server.buildEnviron"""
    from hio.core.http import serving
    obs = {"built": bytes(wire).hex(), "parsed": None}
    rq = serving.Requestant(msg=bytearray(wire), remoter=_Remoter())
    try:
        for _ in range(4):
            if rq.parser:
                rq.parse()
    except Exception as ex:
        obs["parse_exc"] = type(ex).__name__ + ": " + str(ex)[:100]
    if rq.ended and not rq.errored and "parse_exc" not in obs:
        srv = serving.Server(port=PORT)
        env = srv.buildEnviron(rq)
        obs["parsed"] = {"method": rq.method, "path": rq.path, "query": rq.query,
                         "headers": [[k, v] for k, v in rq.headers.items()], "body": bytes(rq.body).hex(),
                         "leftover": len(rq.msg)}
        obs["env"] = {"PATH_INFO": env["PATH_INFO"], "QUERY_STRING": env["QUERY_STRING"],
                      "CONTENT_LENGTH": env.get("CONTENT_LENGTH"), "REQUEST_METHOD": env["REQUEST_METHOD"],
                      "http": sorted([k, v] for k, v in env.items() if k.startswith("HTTP_")),
                      "input": env["wsgi.input"].read().hex()}
        obs["qsl"] = [list(x) for x in parse_qsl(env["QUERY_STRING"], keep_blank_values=True)]
        obs["form_qsl"] = ([list(x) for x in parse_qsl(bytes(rq.body).decode("latin-1"), keep_blank_values=True)]
                           if is_form else [])
    else:
        obs["error"] = rq.error
    return obs


def _rebuild_args(op):
    from hio import help
    kw = {}
    for f in ("method", "path"):
        if f in op:
            kw[f] = op[f]
    if "qargs" in op:
        kw["qargs"] = dict((k, v) for k, v in op["qargs"])
    if "headers" in op:
        kw["headers"] = help.Hict([(k, v) for k, v in op["headers"]])
    if "body" in op:
        b = op["body"]
        if b[0] == "raw":
            kw["body"] = bytes.fromhex(b[1])
        elif b[0] == "json":
            kw["data"] = b[1]
        else:
            kw["fargs"] = dict((k, v) for k, v in b[1])
    return kw


def _location(op):
    """the Location a server would send to redirect to path [op.path] with query args [op.qargs], percent-encoded in
    one of several equivalent ways (quote_plus, quote with %20, sub-delimiters left raw)"""
    from urllib.parse import quote, quote_plus
    enc = op.get("enc", "plus")
    if enc == "plus":
        f = lambda t: quote_plus(t)
    elif enc == "pct":
        f = lambda t: quote(t, safe="")
    else:                    # characters that need no escaping in a query component left raw
        f = lambda t: quote_plus(t, safe="!$'()*,/:@")
    loc = quote(op["path"], safe="/" if enc != "raw" else "/!$'()*,:@")
    if op["qargs"]:
        loc += "?" + "&".join(f(k) + "=" + f(v) for k, v in op["qargs"])
    return loc.encode("ascii")


def _client_wires(case):
    """The same history through the public entry points of the application: a Client (fake connected socket);
    first request either Client(..., body/data/fargs) + bare client.transmit() or Client.request(body...);
    later ones Client.request(**subset), client.transmit(**subset) or a bare client.transmit(); all sent by
    Client.service(); after every request a minimal response is fed so that the next one goes out.
    -> list of wire bytes or exception text per build"""
    from hio.core.http import clienting
    from hio.base import tyming
    from hio import help
    from harness.drivers.c16 import FakeSock
    b = case["body"]
    tymist = tyming.Tymist()
    nops = 1 + len(case.get("ops", []))
    first_bare = case.get("first", "request") == "transmit"
    ckw = _rebuild_args({"body": b}) if first_bare else {}
    try:
        cl = clienting.Client(hostname=HOST, port=PORT, method=case["method"], path=case["path"],
                              qargs=dict((k, v) for k, v in case["qargs"]),
                              headers=help.Hict([(k, v) for k, v in case["headers"]]), tymth=tymist.tymen(), **ckw)
    except Exception as ex:     # a path naming another host / scheme is rejected (or resolved) by the constructor
        return ["constructor: " + type(ex).__name__ + ": " + str(ex)[:80]] * nops
    if cl.connector.ha != (HOST, PORT):
        return ["constructor: other endpoint %r" % (cl.connector.ha,)] * nops
    sock = FakeSock((HOST, PORT), 50000)
    cl.connector.cs = sock
    cl.connector.accepted = True
    out, pending = [], b""
    ops = [{"bare": True} if first_bare else {"body": b}] + list(case.get("ops", []))
    for i, op in enumerate(ops):
        kw = _rebuild_args(op)
        if i == 0 and not first_bare and b[0] == "raw" and not b[1]:
            kw = {}
        before = len(sock.sent)
        try:
            if op.get("redirect"):
                pass          # already sent: Client.service followed the 3xx answer to the previous request
            elif op.get("bare"):
                cl.transmit()
            elif op.get("api") == "transmit" and kw:
                cl.transmit(**kw)
            else:
                cl.request(**kw)
            cl.service()
        except Exception as ex:
            out += [type(ex).__name__ + ": " + str(ex)[:100]] * (len(ops) - i)
            break
        out.append(pending if op.get("redirect") else bytes(sock.sent[before:]))
        nxt = ops[i + 1] if i + 1 < len(ops) else None
        before = len(sock.sent)
        if nxt is not None and nxt.get("redirect"):      # the server redirects: the follow-up is the next request
            sock.inq.append(b"HTTP/1.1 %d Moved\r\nLocation: " % nxt.get("status", 302) + _location(nxt) + b"\r\nContent-Length: 0\r\n\r\n")
        else:
            sock.inq.append(b"HTTP/1.1 200 OK\r\nContent-Length: 0\r\n\r\n")
        try:
            cl.service()
            cl.service()
            cl.responses.clear()
        except Exception as ex:
            out += ["response: " + type(ex).__name__ + ": " + str(ex)[:80]] * (len(ops) - i - 1)
            break
        pending = bytes(sock.sent[before:])
    return out


def _backend_wires(case):
    """clienting.backendRequest driven on a fake connection: its Client is built by the function itself, so the
    tcp connector class it instantiates is given a fake connected socket."""
    from hio.core.http import clienting
    from hio.core import tcp
    from hio.base import tyming
    from harness.drivers.c16 import FakeSock
    tymist = tyming.Tymist()
    socks = []
    orig = tcp.Client.__init__

    def init(self, *pa, **kwa):
        orig(self, *pa, **kwa)
        sk = FakeSock((HOST, PORT), 50001)
        socks.append(sk)
        self.cs = sk
        self.accepted = True
    tcp.Client.__init__ = init
    try:
        b = case["body"]
        gen = clienting.backendRequest(tymist.tymen(), method=case["method"], host=HOST, port=PORT, path=case["path"],
                                       qargs=dict((k, v) for k, v in case["qargs"]), data=(b[1] if b[0] == "json" else None))
        try:
            next(gen)
            wire = bytes(socks[0].sent) if socks else b""
            socks[0].inq.append(b"HTTP/1.1 200 OK\r\nContent-Length: 0\r\n\r\n")
            for _ in range(4):
                next(gen)
        except StopIteration:
            pass
        except Exception as ex:
            return [type(ex).__name__ + ": " + str(ex)[:100]]
        return [wire]
    finally:
        tcp.Client.__init__ = orig


def _effective(spec):
    """what build() sends for a url given as path=: bare path, the url's query arguments merged into qargs
    (httping.updateQargsQuery: ';' else '&' separated, names and values unquote_plus'ed, a name without '='
    means 'true', later names replace), the fragment dropped.  Independent mirror written from the documentation."""
    from urllib.parse import unquote_plus
    path = spec["path"]
    path, _, _frag = path.partition("#")
    path, _, query = path.partition("?")
    q = [list(kv) for kv in spec["qargs"]]
    if query:
        parts = query.split(";") if ";" in query else query.split("&") if "&" in query else [query]
        for part in parts:
            if not part:
                continue
            if "=" in part:
                k, v = part.split("=", 1)
                k, v = unquote_plus(k), unquote_plus(v)
            else:
                k, v = unquote_plus(part), "true"
            for kv in q:
                if kv[0] == k:
                    kv[1] = v
                    break
            else:
                q.append([k, v])
    return dict(spec, path=path, qargs=q)


def specs(case):
    """The request every build of the history is asked to send (independent mirror of the Requester's
    documented differential semantics: method/path/qargs/headers carry over, body/data/fargs do not;
    the content-type a JSON / form build stores in .headers stays)."""
    cur = _effective({k: case[k] for k in ("method", "path", "qargs", "headers", "body")})
    out = [dict(cur)]
    for op in case.get("ops", []):
        cur = dict(cur, headers=_final_headers(cur))
        if op.get("bare"):          # transmit() with no argument: the held request again
            if "headers" in op:
                cur["headers"] = op["headers"]
            cur = _effective(cur)
            out.append(dict(cur))
            continue
        for f in ("method", "path", "qargs", "headers"):
            if f in op:
                cur[f] = op[f]
        cur["body"] = op.get("body", ["raw", ""])
        cur = _effective(cur)
        out.append(dict(cur))
    return out


def _offsets(case, msgs):
    """byte offsets at which the connection's byte stream is cut into separate receives"""
    stream = b"".join(msgs)
    offs = set()
    if not case.get("pipelined", True):          # one request per receive
        n = 0
        for m in msgs[:-1]:
            n += len(m)
            offs.add(n)
    crlf = [i for i in range(len(stream) - 1) if stream[i:i + 2] == b"\r\n"]
    for kind, x in case.get("cuts", []):
        if kind == "frac":
            offs.add(int(len(stream) * x / 10000))
        elif crlf:
            i = crlf[x % len(crlf)]
            offs.add({"hdr": i + 2, "crlf": i + 1, "mid": i + 5, "pre": max(i - 2, 1)}[kind])
    return stream, sorted(o for o in offs if 0 < o < len(stream))


def _pieces(stream, offs):
    out, prev = [], 0
    for o in offs + [len(stream)]:
        out.append(stream[prev:o]); prev = o
    return out


def _stream(case, wires):
    """All built requests of the history through ONE Requestant (one server connection), optionally after a
    hand-written first request; the byte stream arrives in the receives given by the case (whole, one request per
    receive, or cut at arbitrary offsets) with a parse() after each.  -> (stream bytes, parsed tuples or None)"""
    from hio.core.http import serving
    pre = bytes.fromhex(case.get("first_raw", ""))
    msgs = ([pre] if pre else []) + wires
    stream, offs = _offsets(case, msgs)
    buf = bytearray()
    rq = serving.Requestant(msg=buf, remoter=_Remoter())
    out, dead = [], False
    for piece in _pieces(stream, offs) + [b"", b""]:
        buf.extend(piece)
        for _ in range(len(msgs) + 2):
            if dead or len(out) >= len(msgs):
                break
            try:
                rq.parse()
            except Exception:
                out.append(None); dead = True
                break
            if rq.parser is None and rq.ended:
                if rq.errored:
                    out.append(None); dead = True
                    break
                out.append({"method": rq.method, "path": rq.path, "query": rq.query,
                            "headers": [[k, v] for k, v in rq.headers.items()], "body": bytes(rq.body).hex()})
                rq.makeParser()
                continue
            break
    if not dead and len(out) < len(msgs):
        out.append(None)          # the next request never completed
    return stream, out


def _wsgi(case, wires):
    """The same requests through the real WSGI Server on ONE keep-alive connection (fake accepted socket); the
    application snapshots the environ it is given for every request."""
    import contextlib, io
    from hio.core.http import serving
    from hio.base import tyming
    from harness.drivers.c16 import FakeSock, FakeListen
    snaps = []

    def app(environ, start_response):
        body = environ["wsgi.input"].read()
        snaps.append({"REQUEST_METHOD": environ["REQUEST_METHOD"], "PATH_INFO": environ["PATH_INFO"],
                      "QUERY_STRING": environ["QUERY_STRING"], "CONTENT_TYPE": environ.get("CONTENT_TYPE"),
                      "CONTENT_LENGTH": environ.get("CONTENT_LENGTH"),
                      "http": [[k, v] for k, v in environ.items() if k.startswith("HTTP_")], "input": body.hex()})
        start_response("200 OK", [("Content-Length", "2")])
        return [b"ok"]

    pre = bytes.fromhex(case.get("first_raw", ""))
    msgs = ([pre] if pre else []) + wires
    tymist = tyming.Tymist()
    srv = serving.Server(port=PORT, app=app, tymth=tymist.tymen())
    ls = FakeListen()
    srv.servant.ss, srv.servant.opened = ls, True
    a = FakeSock(("127.0.0.1", 40001), PORT)
    ls.pending.append(a)
    stream, offs = _offsets(case, msgs)
    pieces = _pieces(stream, offs)
    err = None
    with contextlib.redirect_stderr(io.StringIO()):
        try:
            for i in range(len(pieces) + len(msgs) + 3):
                if i < len(pieces) and pieces[i]:
                    a.inq.append(pieces[i])
                srv.service()
        except Exception as ex:
            err = type(ex).__name__ + ": " + str(ex)[:100]
        finally:
            srv.servant.ss = None
    return snaps, err


def run_impl(case):
    steps = []
    sp = specs(case)
    with Recorder() as rec:
        rq = None
        cwires = (_client_wires(case) if case.get("via") == "client" else
                  _backend_wires(case) if case.get("via") == "backend" else None)
        for i, spec in enumerate(sp):
            if cwires is not None:
                w = cwires[i] if i < len(cwires) else "not sent"
                if isinstance(w, str) or not w:
                    steps.append({"built": None, "parsed": None, "build_exc": w or "nothing sent"})
                    continue
                steps.append(_observe(w, spec["body"][0] == "form" and spec["method"] != "GET"))
                continue
            try:
                if i == 0:
                    rq = _requester(case)
                    wire = rq.build()
                else:
                    wire = rq.rebuild(**_rebuild_args(case["ops"][i - 1]))
            except Exception as ex:
                steps.append({"built": None, "parsed": None, "build_exc": type(ex).__name__ + ": " + str(ex)[:100]})
                if rq is None:
                    break
                continue
            steps.append(_observe(wire, spec["body"][0] == "form" and spec["method"] != "GET"))
        wires = [bytes.fromhex(so["built"]) for so in steps if so.get("built")]
        stream_in, stream = _stream(case, wires)
        wsgi, wsgi_err = _wsgi(case, wires)
    obs = {"steps": steps, "wsgi": wsgi, "wsgi_err": wsgi_err, "stream_in": stream_in.hex(), "stream": stream, "stream_n": (1 if case.get("first_raw") else 0) + len(wires)}
    obs.update(rec.tables())
    return obs


def _json_bytes(data):
    return json.dumps(data, separators=(",", ":")).encode("utf-8")


def _expected_body(case):
    if case["method"] == "GET":
        return b""
    b = case["body"]
    if b[0] == "raw":
        return bytes.fromhex(b[1])
    if b[0] == "json":
        return _json_bytes(b[1])
    return None    # form: compared through parse_qsl


def _final_headers(case):
    hs = [list(h) for h in case["headers"]]
    if case["method"] != "GET" and case["body"][0] in ("json", "form"):
        ct = ("application/json; charset=utf-8" if case["body"][0] == "json"
              else "application/x-www-form-urlencoded; charset=utf-8")
        for h in hs:
            if h[0].lower() == "content-type":
                h[1] = ct
                break
        else:
            hs.append(["content-type", ct])
    return hs


def wf(case):
    """Python twin of HttpReq.wf_request (the domain in which the property demands exact recovery)."""
    scalar = lambda s: all(not (0xD800 <= ord(c) <= 0xDFFF) for c in s)
    p = case["path"]
    if not (p.startswith("/") and not p.startswith("//") and scalar(p) and not any(c in p for c in "?#\t\n\r")):
        return False
    if case["method"] not in METHODS:
        return False
    for k, v in case["qargs"]:
        if not (scalar(k) and scalar(v)) or (k == "" and v == ""):
            return False
    if len(set(k for k, v in case["qargs"])) != len(case["qargs"]):
        return False
    tok = set("!#$%&'*+-.^_`|~") | set("abcdefghijklmnopqrstuvwxyzABCDEFGHIJKLMNOPQRSTUVWXYZ0123456789")
    names = [k.lower() for k, v in case["headers"]]
    if len(set(names)) != len(names) or "transfer-encoding" in names:
        return False
    for k, v in case["headers"]:
        if not k or any(c not in tok for c in k) or any(ord(c) > 255 or c in "\r\n" for c in v):
            return False
    if case["body"][0] == "form":
        for k, v in case["body"][1]:
            if not (scalar(k) and scalar(v)) or (k == "" and v == ""):
                return False
    for k, v in case["headers"]:
        if k.lower() == "content-length" and v != str(_body_len(case)):
            return False
    return True


def oracle(case, obs):
    why = _oracle_stream(case, obs) or _oracle_wsgi(case, obs)
    if why:
        return why
    for i, (spec, so) in enumerate(zip(specs(case), obs["steps"])):
        if not wf(spec):
            return None          # outside the domain from here on (stored attributes no longer specified)
        why = _oracle_step(spec, so)
        if why:
            return f"build #{i + 1} of the history: {why}"
    return None


def _oracle_stream(case, obs):
    """every request on one connection must parse exactly as it parses alone (fresh Requestant)"""
    sp = specs(case)
    if not all(wf(x) for x in sp):
        return None
    alone = [so["parsed"] for so in obs["steps"] if so.get("built")]
    got = obs["stream"][1:] if case.get("first_raw") else obs["stream"]
    if case.get("first_raw") and (not obs["stream"] or obs["stream"][0] is None):
        return None      # the hand-written first request did not parse: nothing to compare
    for i, a in enumerate(alone):
        if a is None:
            return None
        if i >= len(got) or got[i] is None:
            return f"request #{i + 1} on a shared connection did not parse (alone it does)"
        g = got[i]
        for f in ("method", "path", "query", "headers", "body"):
            if g[f] != a[f]:
                return (f"request #{i + 1} on a shared connection: {f} {g[f]!r} differs from the same request parsed "
                        f"alone {a[f]!r} (state of the previous request leaked)")
    return None


def _oracle_wsgi(case, obs):
    """the environ the WSGI application gets for every request of a keep-alive connection is exactly that of
    the request built: same CGI variables, same body, same HTTP_* set (no key of an earlier request)"""
    sp = specs(case)
    if not all(wf(x) for x in sp):
        return None
    if obs.get("wsgi_err"):
        return f"Server.service raised {obs['wsgi_err']}"
    alone = [so.get("env") for so in obs["steps"] if so.get("built")]
    if any(a is None for a in alone) or any(h[0].lower() == "connection" for x in sp for h in x["headers"]):
        return None
    got = obs["wsgi"][1:] if case.get("first_raw") else obs["wsgi"]
    if len(got) != len(alone):
        return f"the application was called for {len(got)} of the {len(alone)} requests of the connection"
    for i, (g, a) in enumerate(zip(got, alone)):
        for f in ("REQUEST_METHOD", "PATH_INFO", "QUERY_STRING", "CONTENT_LENGTH", "input"):
            if g[f] != a[f]:
                return f"WSGI environ of request #{i + 1}: {f} {g[f]!r} != {a[f]!r}"
        want = sorted(a["http"])
        if sorted(g["http"]) != want:
            extra = [k for k, v in g["http"] if [k, v] not in want]
            return f"WSGI environ of request #{i + 1}: HTTP_* keys differ from the request built; extra/stale: {extra[:4]}"
        ct = dict(a["http"]).get("HTTP_CONTENT_TYPE", "")
        if (g["CONTENT_TYPE"] or "") != ct:
            return f"WSGI environ of request #{i + 1}: CONTENT_TYPE {g['CONTENT_TYPE']!r} != {ct!r}"
    return None


def _oracle_step(case, obs):
    # explicit Content-Length must be right for the request to be well formed: the generator guarantees it
    if obs["built"] is None:
        return f"Requester.build raised {obs.get('build_exc')}"
    if obs["parsed"] is None:
        return f"server could not parse the built request: {obs.get('parse_exc') or obs.get('error')}"
    p, env = obs["parsed"], obs["env"]
    if p["method"] != case["method"] or env["REQUEST_METHOD"] != case["method"]:
        return f"method {p['method']!r} != {case['method']!r}"
    if p["path"] != case["path"]:
        return f"path {p['path']!r} != {case['path']!r}"
    if unquote(env["PATH_INFO"]) != case["path"]:
        return f"PATH_INFO {env['PATH_INFO']!r} does not decode to {case['path']!r}"
    if obs["qsl"] != [list(x) for x in case["qargs"]]:
        return f"query args {obs['qsl']!r} != {case['qargs']!r} (QUERY_STRING {env['QUERY_STRING']!r})"
    got = {k.lower(): v for k, v in p["headers"]}
    envh = dict((k, v) for k, v in env["http"])
    for k, v in _final_headers(case):
        if got.get(k.lower()) != v:
            return f"header {k!r}: {got.get(k.lower())!r} != {v!r}"
        if envh.get("HTTP_" + k.replace("-", "_").upper()) != v:
            return f"environ header {k!r}: {envh.get('HTTP_' + k.replace('-', '_').upper())!r} != {v!r}"
    eb = _expected_body(case)
    body = bytes.fromhex(p["body"])
    if eb is not None and body != eb:
        return f"body {body[:60]!r} != {eb[:60]!r}"
    if eb is None and case["method"] != "GET" and obs["form_qsl"] != [list(x) for x in case["body"][1]]:
        return f"form fields {obs['form_qsl']!r} != {case['body'][1]!r} (body {body[:80]!r})"
    if env["input"] != p["body"] or p["leftover"] != 0:
        return "wsgi.input differs from the parsed body or bytes were left over"
    if env["CONTENT_LENGTH"] != str(len(body)):
        return f"CONTENT_LENGTH {env['CONTENT_LENGTH']!r} != {len(body)}"
    return None


def classify(case, obs, why):
    return None


RESERVED = set(" %&=+#?;:@/'\"<>[]{}|\\^`,$!*()~")


def nontrivial(case, obs):
    return any(_nontrivial_spec(sp) for sp in specs(case))


def _nontrivial_spec(case):
    texts = [case["path"][1:]] + [x for kv in case["qargs"] for x in kv] + [v for k, v in case["headers"]]
    if case["body"][0] == "form":
        texts += [x for kv in case["body"][1] for x in kv]
    return any((c in RESERVED or ord(c) > 127) for t in texts for c in t)


# --------------------------------------------------------------------------- Gallina

def _pairs(l):
    return coq_list([f"({_s(k)}, {_s(v)})" for k, v in l], "HttpReqUrl.ustr * HttpReqUrl.ustr")


def _body_term(b):
    if b[0] == "raw":
        return f"(HttpReq.Raw {coq_bytes(bytes.fromhex(b[1]))})"
    if b[0] == "json":
        return f"(HttpReq.Json {coq_bytes(_json_bytes(b[1]))})"
    return f"(HttpReq.Form {_pairs(b[1])})"


def _op_term(op):
    PT = "list (HttpReqUrl.ustr * HttpReqUrl.ustr)"
    o = lambda f, g, ty: coq_option(op.get(f), g, ty)
    b = op.get("body")
    body = f"(Some {coq_bytes(bytes.fromhex(b[1]))})" if b and b[0] == "raw" else "(@None bytes)"
    data = f"(Some {coq_bytes(_json_bytes(b[1]))})" if b and b[0] == "json" else "(@None bytes)"
    fargs = f"(Some {_pairs(b[1])})" if b and b[0] == "form" else f"(@None ({PT}))"
    return ("{| HttpReq.a_method := %s; HttpReq.a_path := %s; HttpReq.a_qargs := %s; HttpReq.a_headers := %s; "
            "HttpReq.a_body := %s; HttpReq.a_data := %s; HttpReq.a_fargs := %s; HttpReq.a_bare := %s |}"
            % (o("method", _s, "HttpReqUrl.ustr"), o("path", _s, "HttpReqUrl.ustr"), o("qargs", _pairs, PT),
               o("headers", _pairs, PT), body, data, fargs, coq_bool(bool(op.get("bare")))))


def _step_term(so):
    p = so["parsed"]
    if p is None:
        parsed = "None"
        pi, qs, cl, qsl, fq = _s(""), _s(""), "None", _pairs([]), _pairs([])
    else:
        parsed = f"(Some ({_s(p['method'])}, {_s(p['path'])}, {_s(p['query'])}, {_pairs(p['headers'])}, {coq_bytes(bytes.fromhex(p['body']))}))"
        env = so["env"]
        pi, qs = _s(env["PATH_INFO"]), _s(env["QUERY_STRING"])
        cl = "None" if env["CONTENT_LENGTH"] is None else f"(Some {_s(env['CONTENT_LENGTH'])})"
        qsl, fq = _pairs(so["qsl"]), _pairs(so["form_qsl"])
    built = "None" if so["built"] is None else f"(Some {coq_bytes(bytes.fromhex(so['built']))})"
    return ("{| HttpReq.y_built := %s; HttpReq.y_parsed := %s; HttpReq.y_path_info := %s; HttpReq.y_query_string := %s; "
            "HttpReq.y_content_length := %s; HttpReq.y_qsl := %s; HttpReq.y_form_qsl := %s |}" % (built, parsed, pi, qs, cl, qsl, fq))


def to_coq(case, obs):
    req = ("{| HttpReq.q_method := %s; HttpReq.q_path := %s; HttpReq.q_qargs := %s; HttpReq.q_headers := %s; HttpReq.q_body := %s |}"
           % (_s(case["method"]), _s(case["path"]), _pairs(case["qargs"]), _pairs(case["headers"]), _body_term(case["body"])))
    return ("{| HttpReq.y_req := %s; HttpReq.y_ops := %s; HttpReq.y_host := %s; HttpReq.y_port := %s; HttpReq.y_ip6 := %s; "
            "HttpReq.y_nfkc := %s; HttpReq.y_steps := %s; HttpReq.y_stream_in := %s; HttpReq.y_stream_n := %s; HttpReq.y_stream := %s; HttpReq.y_wsgi := %s |}"
            % (req, coq_list([_op_term(o) for o in case.get("ops", [])], "HttpReq.rargs"), _s(HOST), coq_N(PORT),
               _tbl(obs["ip6"]), _tbl(obs["nfkc"]), coq_list([_step_term(x) for x in obs["steps"]], "HttpReq.stepobs"),
               coq_bytes(bytes.fromhex(obs["stream_in"])), "%d%%nat" % obs["stream_n"],
               coq_list(["None" if x is None else
                         f"(Some ({_s(x['method'])}, {_s(x['path'])}, {_s(x['query'])}, {_pairs(x['headers'])}, {coq_bytes(bytes.fromhex(x['body']))}))"
                         for x in obs["stream"]],
                        "option (HttpReqUrl.ustr * HttpReqUrl.ustr * HttpReqUrl.ustr * list (HttpReqUrl.ustr * HttpReqUrl.ustr) * bytes)"),
               coq_list(["(%s, %s, %s, %s, %s, %s, %s)" % (_s(w["REQUEST_METHOD"]), _s(w["PATH_INFO"]), _s(w["QUERY_STRING"]), _s(w["CONTENT_TYPE"] or ""),
                                                          "None" if w["CONTENT_LENGTH"] is None else f"(Some {_s(w['CONTENT_LENGTH'])})",
                                                          _pairs(w["http"]), coq_bytes(bytes.fromhex(w["input"])))
                         for w in obs["wsgi"]],
                        "HttpReqUrl.ustr * HttpReqUrl.ustr * HttpReqUrl.ustr * HttpReqUrl.ustr * option HttpReqUrl.ustr * list (HttpReqUrl.ustr * HttpReqUrl.ustr) * bytes")))


# --------------------------------------------------------------------------- generators

ALPHA = list("abcXYZ019 %&=+#?;:@/'\"<>[]~._-!*$,") + ["é", "ß", "€", "😀", "Ā", "%41", "%2F", "%", "+", " ", "ÿ"]
PATH_ALPHA = [c for c in ALPHA if c not in ("?", "#")]
VAL_ALPHA = list("abcXYZ019 :;,=/\"'()<>@[]{}\t") + ["é", "ÿ", " ", ": ", "  "]
NAMES = ["Accept", "x-UPPER", "X-Thing", "cookie", "User-Agent", "a1b-c2", "X_Under", "if-none-match", "x.y", "content-type", "Referer", "TE"]


def _text(rng, alpha, lo=0, hi=8):
    return "".join(rng.choice(alpha) for _ in range(rng.randint(lo, hi)))


def _dict(rng, lo=0, hi=3):
    d = {}
    for _ in range(rng.randint(lo, hi)):
        k, v = _text(rng, ALPHA, 0, 5), _text(rng, ALPHA, 0, 6)
        if k or v:
            d[k] = v
    return [[k, v] for k, v in d.items()]


def _spec(rng):
    method = rng.choice(METHODS)
    path = "/" + _text(rng, PATH_ALPHA, 0, 10)
    if path.startswith("//"):
        path = "/x" + path[1:]
    heads, seen = [], set()
    for _ in range(rng.choice([0, 1, 2, 4])):
        n = rng.choice(NAMES)
        if n.lower() in seen:
            continue
        seen.add(n.lower())
        heads.append([n, _text(rng, VAL_ALPHA, 0, 10)])
    k = rng.random()
    if k < 0.4:
        body = ["raw", bytes(rng.randrange(256) for _ in range(rng.choice([0, 0, 1, 5, 40]))).hex()]
    elif k < 0.65:
        body = ["json", rng.choice([{}, {"a": 1}, {"k&=": "é€", "n": [1, 2.5, None, True], "d": {"x": "y z"}}, {"q": "\"\\\n"}])]
    else:
        body = ["form", _dict(rng, 0, 3)]
    case = {"method": method, "path": path, "qargs": _dict(rng), "headers": heads, "body": body}
    if rng.random() < 0.3 and "content-length" not in seen:
        n = _body_len(case)
        if n is not None:
            case["headers"].insert(rng.randrange(len(heads) + 1), [rng.choice(["Content-Length", "content-length"]), str(n)])
    return case


def _body_len(case):
    """length of the body the Requester will send (needs the real encoder for forms)."""
    if case["method"] == "GET":
        return 0
    b = case["body"]
    if b[0] == "raw":
        return len(bytes.fromhex(b[1]))
    if b[0] == "json":
        return len(_json_bytes(b[1]))
    from urllib.parse import quote_plus
    return len("&".join(quote_plus(k) + "=" + quote_plus(v) for k, v in b[1]))


FRAGS = ["", "top", "section two", "übersicht", "a?b&c=d", "x#y", "%23", " ", "é €", "q=1&r"]
QUERIES = ["x=1", "a=b&c", "k=%20v&k2=a+b", "flag", "a+b=c%20d;e=f", "n%C3%A9=v", "=v", "k=", "k=1&k=2", "e%3D=%26"]


def _url_path(rng, path):
    """a url for path=: the path, optionally ?query, optionally #fragment"""
    if rng.random() < 0.6:
        path += "?" + rng.choice(QUERIES)
    if rng.random() < 0.7:
        path += "#" + rng.choice(FRAGS)
    return path


def _spoil(rng, case):
    k = rng.randrange(6)
    if k == 0:
        case["path"] = case["path"] + rng.choice(["?x=1", "#frag", "?a=b&c", "?k=%20v", "?flag"])
    elif k == 1:
        case["path"] = rng.choice(["//h/x", "x/y", "", "http://127.0.0.1:8080/z?q=1", "/a\tb", "/a\nb"])
    elif k == 2:
        case["headers"].append(["X-Bad", rng.choice(["a\r\nb", "a\nb: c", "€"])])
    elif k == 3:
        case["headers"].append([rng.choice(["Host", "accept-encoding", "Transfer-Encoding", "Content-Length"]), rng.choice(["h.example", "chunked", "3", "gzip"])])
    elif k == 4:
        case["qargs"].append(["", ""])
    else:
        case["path"] = "/" + rng.choice(["\ud800", " ", "\x01x", "a b", "\x85"])
    return case


# hand-written first requests on the shared connection (what another client / an earlier exchange left behind)
FIRST_RAW = [
    b"POST /first HTTP/1.1\r\nHost: h\r\nTransfer-Encoding: chunked\r\nX-First: 1\r\n\r\n3\r\nabc\r\n0\r\n\r\n",
    b"POST /first HTTP/1.1\r\nHost: h\r\nContent-Length: 5\r\nContent-Type: application/json\r\nX-Stale: yes\r\n\r\n12345",
    b"PUT /first?a=1 HTTP/1.1\r\nConnection: keep-alive\r\nCookie: a=1\r\nAuthorization: Basic Zm9v\r\nContent-Length: 0\r\n\r\n",
    b"POST /first HTTP/1.1\r\ntransfer-encoding: Chunked\r\n\r\n1;x=y\r\nz\r\n0\r\nTrailer: t\r\n\r\n",
]


def _op(rng, independent=False):
    """arguments of one rebuild() / Client.request(): nothing, or only some fields (the rest is carried over)"""
    k = rng.random()
    op = {}
    if independent:
        # every argument independently given or omitted (all 2^k subsets occur), with clearing values
        new = _spec(rng)
        for f in ("method", "path", "qargs", "headers"):
            if rng.random() < 0.5:
                op[f] = new[f]
        if "path" in op and rng.random() < 0.3:
            op["path"] = _url_path(rng, op["path"])
        if "qargs" in op and rng.random() < 0.3:
            op["qargs"] = []
        if "headers" in op:
            op["headers"] = [] if rng.random() < 0.3 else [h for h in op["headers"] if h[0].lower() != "content-length"]
        if rng.random() < 0.5:
            op["body"] = new["body"] if rng.random() < 0.8 else ["raw", ""]
        return op
    if k < 0.3:
        return op                                    # rebuild() with no arguments: resend
    new = _spec(rng)
    for f in ("method", "path", "qargs", "headers"):
        if rng.random() < 0.35:
            op[f] = new[f]
    if "headers" in op:
        op["headers"] = [h for h in op["headers"] if h[0].lower() != "content-length"]
    if rng.random() < 0.5:
        op["body"] = new["body"]
    return op


def generate(rng, tier):
    n = 300 if tier == "quick" else 3500
    out = []
    for i in range(n):
        c = _spec(rng)
        if rng.random() < 0.25:      # the url given as path= carries a query and / or a fragment
            c["path"] = _url_path(rng, c["path"])
        if rng.random() < 0.12:
            c = _spoil(rng, c)
        nops = rng.choice([0, 1, 1, 2, 3])
        if nops:
            # an explicit Content-Length would be carried over to bodies of another length
            c["headers"] = [h for h in c["headers"] if h[0].lower() != "content-length"]
            c["ops"] = [_op(rng) for _ in range(nops)]
        if rng.random() < 0.4:      # the application-level entry points
            c["via"] = "client"
            c["headers"] = [h for h in c["headers"] if h[0].lower() != "content-length"]
            c["first"] = rng.choice(["request", "transmit"])          # Client(..., body) + bare transmit()
            ops = []
            for _ in range(rng.choice([1, 2, 3, 4])):
                k = rng.random()
                if k < 0.2:                                              # the server answers 3xx: follow-up request
                    t = _spec(rng)
                    ops.append({"redirect": True, "path": t["path"], "qargs": [kv for kv in t["qargs"] if kv[0]],
                                "enc": rng.choice(["plus", "pct", "raw"]), "status": rng.choice([301, 302, 303, 307])})
                elif k < 0.4:
                    ops.append({"bare": True})                           # bare transmit(): resend what is held
                else:
                    op = _op(rng, independent=True)
                    if k < 0.5 and op:
                        op["api"] = "transmit"                           # client.transmit(**subset)
                    ops.append(op)
            c["ops"] = ops
        elif rng.random() < 0.08:   # clienting.backendRequest(...)
            c["via"] = "backend"
            c["ops"] = []
            c["headers"] = [["Accept", "application/json"], ["Connection", "close"]]
            if c["body"][0] != "json":
                c["body"] = ["raw", ""]
            c.pop("first_raw", None)
        c["pipelined"] = rng.random() < 0.5
        if rng.random() < 0.5:      # the stream arrives in 2-4 fragments at arbitrary byte positions
            c["cuts"] = [[rng.choice(["frac", "hdr", "hdr", "crlf", "mid", "pre"]), rng.randrange(10000)]
                         for _ in range(rng.randint(1, 3))]
        if rng.random() < 0.25:
            c["first_raw"] = rng.choice(FIRST_RAW).hex()
        out.append(c)
    return out


def directed():
    R = lambda **kw: dict({"method": "GET", "path": "/", "qargs": [], "headers": [], "body": ["raw", ""]}, **kw)
    return [
        R(),
        R(method="POST", path="/a b/é/€/😀", body=["raw", b"\x00\xff body".hex()]),
        R(path="/x", qargs=[["k&1", "v=2&x"], ["sp ace", "é"], ["ké", "v"], ["a+b", "c+d"], ["%41", "%2F%"]]),        # D20 keys
        R(method="POST", path="/f", body=["form", [["a&b", "c=d&e"], ["k", "v w"], ["é", "€+"], ["e", ""]]]),            # D20 form
        R(method="PUT", path="/j", body=["json", {"k&=": "é€", "n": [1, 2.5, None, True]}], headers=[["Accept", "application/json"]]),
        R(method="POST", path="/h", headers=[["x-UPPER", "A: b"], ["X-Thing", " lead"], ["cookie", ""], ["a1b-c2", "\xe9\xff"]], body=["raw", b"12345".hex()]),
        R(method="POST", path="/cl", headers=[["Content-Length", "5"]], body=["raw", b"12345".hex()]),
        R(method="POST", path="/cl0", headers=[["content-length", "0"]], body=["raw", ""]),
        R(method="GET", path="/get-ignores-body", body=["raw", b"ignored".hex()], qargs=[["q", ""]]),
        R(method="DELETE", path="/%41%2F~._-", qargs=[["", "v"], ["k", ""]]),
        R(method="POST", path="/ct", headers=[["Content-Type", "text/x"]], body=["json", {"a": 1}]),
        R(method="OPTIONS", path="/;a=b:c@d,e$f!g*h(i)'"),
        R(path="/x?y=1#z"), R(path="//h/x"), R(path="/a\nb"), R(path="x"),
        R(method="POST", path="/bad", headers=[["X-Bad", "a\r\nInjected: 1"]]),
        # histories on one Requester: attributes carried over must mean what they meant before
        R(path="/docs/annual report.txt", ops=[{}, {}, {}]),
        R(path="/é/100%/%41", qargs=[["k v", "a&b"]], ops=[{}, {"method": "POST", "body": ["raw", b"x y".hex()]}, {}]),
        R(method="POST", path="/a b", headers=[["X-A", "1"]], body=["json", {"a": 1}], ops=[{"body": ["raw", b"raw".hex()]}, {"path": "/c d"}, {}]),
        R(method="PUT", path="/f g", body=["form", [["a&b", "c=d"]]], ops=[{"qargs": [["q ", "%"]]}, {"headers": [["x-UPPER", "v"]], "body": ["form", [["k", "é"]]]}]),
        R(path="/x y", ops=[{"method": "DELETE"}, {"path": "/€ %25"}, {"qargs": []}]),
        # several requests on one server connection: nothing of request k may reach request k+1
        R(method="POST", path="/with-body", headers=[["X-One", "1"]], body=["raw", b"12345".hex()],
          ops=[{"method": "GET", "headers": [["X-Two", "2"]]}, {"method": "POST", "body": ["raw", b"xy".hex()]}], pipelined=True),
        R(method="POST", path="/with-body", headers=[["X-One", "1"]], body=["json", {"a": 1}],
          ops=[{"method": "GET", "headers": []}, {"method": "PUT", "headers": [["Accept", "*/*"]], "body": ["form", [["k", "v"]]]}], pipelined=False),
        R(path="/after-chunked", first_raw=FIRST_RAW[0].hex(), ops=[{"method": "POST", "body": ["raw", b"abc".hex()]}], pipelined=True),
        R(path="/after-length", first_raw=FIRST_RAW[1].hex(), ops=[{}], pipelined=False),
        R(method="POST", path="/after-cookies", first_raw=FIRST_RAW[2].hex(), body=["raw", b"q".hex()], ops=[{"method": "GET"}], pipelined=True),
        # the application-level differential API: Client.request(**only some arguments)
        R(path="/c", qargs=[["old", "1"]], via="client", ops=[{"qargs": [["new", "2"]]}, {"qargs": []}, {}, {"path": "/d e"}]),
        R(method="POST", path="/c", qargs=[["a", "b"]], headers=[["X-A", "1"]], body=["json", {"k": 1}], via="client",
          ops=[{"method": "PUT"}, {"headers": []}, {"body": ["form", [["f", "g h"]]]}, {"qargs": [["x y", "&"]], "headers": [["X-B", "2"]]}]),
        R(path="/c", via="client", ops=[{"method": "DELETE", "path": "/é", "qargs": [["k", "v"]], "headers": [["Accept", "*/*"]], "body": ["raw", b"zz".hex()]}, {}]),
        # a url with query and fragment given as path=: bare path sent, query merged, fragment never on the wire
        R(method="PUT", path="/doc/7?rev=2#section two", qargs=[["rev", "1"], ["k", "v"]], body=["raw", b"x".hex()], ops=[{}]),
        R(path="/wiki/page#übersicht", ops=[{"method": "POST", "body": ["raw", b"y".hex()]}]),
        R(path="/s?a+b=c%20d;e=f&g#", qargs=[["e", "0"]], via="client", ops=[{"path": "/t?flag#x#y"}, {}]),
        R(method="POST", path="/f#a?b&c=d", body=["form", [["k", "v"]]], ops=[{"path": "/g?k=1&k=2#%23"}]),
        # followed redirects: the follow-up request is built from the Location
        R(path="/old", qargs=[["a", "1"]], via="client", ops=[{"redirect": True, "path": "/new", "qargs": [["q", "a b"], ["full name", "x+y"], ["né", "v&w=%"]], "enc": "plus"}, {}]),
        R(method="POST", path="/old", headers=[["X-A", "1"]], body=["json", {"k": 1}], via="client", first="transmit",
          ops=[{"redirect": True, "path": "/n e w/é", "qargs": [["k", "%41+ "]], "enc": "pct", "status": 307}, {"redirect": True, "path": "/third", "qargs": [], "enc": "raw", "status": 301}]),
        # constructor request + bare transmit(), transmit(**subset), backendRequest
        R(method="POST", path="/t", qargs=[["a", "b"]], body=["json", {"k": [1, 2]}], via="client", first="transmit", ops=[{"bare": True}, {"qargs": []}, {"bare": True}]),
        R(method="PUT", path="/t", body=["form", [["f", "g h"]]], via="client", first="transmit", ops=[{"method": "POST", "body": ["raw", b"xyz".hex()], "api": "transmit"}, {"bare": True}]),
        R(method="POST", path="/t", body=["raw", b"held body".hex()], headers=[["X-A", "1"]], via="client", first="transmit", ops=[{"bare": True}, {"path": "/u", "api": "transmit"}]),
        R(method="POST", path="/backend", qargs=[["q", "a b"]], headers=[["Accept", "application/json"], ["Connection", "close"]], body=["json", {"x": "é"}], via="backend"),
        R(method="GET", path="/backend", headers=[["Accept", "application/json"], ["Connection", "close"]], via="backend"),
        # the head arrives in several receives: after a header line, between CR and LF, inside a name / value
        R(method="POST", path="/frag", headers=[["X-One", "1"], ["X-Two", "22"]], body=["raw", b"payload".hex()], cuts=[["hdr", 1]]),
        R(method="POST", path="/frag", headers=[["X-One", "1"], ["X-Two", "22"]], body=["raw", b"payload".hex()], cuts=[["hdr", 2], ["hdr", 3]], ops=[{}]),
        R(method="PUT", path="/frag2", headers=[["Accept", "a/b"]], body=["json", {"a": [1, 2]}], cuts=[["crlf", 1], ["mid", 2], ["pre", 3]], ops=[{"method": "GET"}]),
        R(path="/frag3", qargs=[["k", "v"]], cuts=[["frac", 100], ["frac", 5000], ["frac", 9900]], ops=[{}, {}]),
    ]


def shrink(case):
    ops = case.get("ops", [])
    for i in range(len(ops)):
        yield dict(case, ops=ops[:i] + ops[i + 1:])
    for f in ("qargs", "headers"):
        for i in range(len(case[f])):
            yield dict(case, **{f: case[f][:i] + case[f][i + 1:]})
    if case["body"][0] == "form":
        for i in range(len(case["body"][1])):
            yield dict(case, body=["form", case["body"][1][:i] + case["body"][1][i + 1:]])
    if len(case["path"]) > 1:
        yield dict(case, path=case["path"][:-1])


def distribution(cases, obs):
    d = {}
    for c in cases:
        k = c["body"][0] + ("" if all(wf(sp) for sp in specs(c)) else ":outside-domain") + ":builds=%d" % (1 + len(c.get("ops", [])))
        d[k] = d.get(k, 0) + 1
        if any("path" not in op for op in c.get("ops", [])):
            d["history-with-carried-over-path"] = d.get("history-with-carried-over-path", 0) + 1
    return d


def extra(tier, ctx):
    """Sweep the Gallina quote / quote_plus / parse_qsl / UTF-8 functions against urllib (separate case file)."""
    from harness import core
    import urllib.parse as up
    rng = _random.Random(1401 + ctx.seed)
    n = 400 if tier == "quick" else 6000
    terms = []
    for i in range(n):
        s = _text(rng, ALPHA, 0, 8)
        terms.append(f"(HttpReqUrl.ustr_eqb (HttpReqUrl.quote_path {_s(s)}) {_s(up.quote(s))})")
        terms.append(f"(HttpReqUrl.ustr_eqb (HttpReqUrl.quote_plus [] {_s(s)}) {_s(up.quote_plus(s))})")
        terms.append(f"(HttpReqUrl.ustr_eqb (HttpReqUrl.unquote (HttpReqUrl.quote_path {_s(s)})) {_s(s)})")
        q = "&".join(_text(rng, ALPHA + ["&", "=", "=", "&"], 0, 6) for _ in range(rng.randint(0, 3)))
        q = q.replace("#", "").replace(";", "")
        exp = up.parse_qsl(q, keep_blank_values=True)
        terms.append(f"(HttpReq.pairs_eqb (HttpReq.parse_qsl {_s(q)}) {_pairs(exp)})")
        b = bytes(rng.choice([0x41, 0x7f, 0x80, 0xbf, 0xc0, 0xc2, 0xe0, 0xa0, 0xed, 0x9f, 0xf0, 0x90, 0xf4, 0x8f, 0xf5, 0xff, 0xe2, 0x82, 0xac]) for _ in range(rng.randint(0, 6)))
        terms.append(f"(HttpReqUrl.ustr_eqb (HttpReqUrl.utf8_dec {coq_bytes(b)}) {_s(b.decode('utf-8', 'replace'))})")

    class D:
        PROP = "C14"
        COQ_REQUIRES = COQ_REQUIRES
        COQ_CHECK = "(fun b : bool => b)"
        COQ_CASE_TYPE = "bool"
        COQ_BRANCHES = None
    failing, _, errors, _ = core.eval_cases(D, terms, "sweep_" + tier, shard=700)
    for i in failing[:3]:
        ctx.violations.append({"kind": "stdlib-model", "why": "Gallina model of a urllib function disagrees with CPython", "case": terms[i], "no_input": True})
    if errors:
        ctx.violations.append({"kind": "stdlib-model", "why": "sweep did not evaluate: " + errors[0][:500], "case": None, "no_input": True})
    return {"stdlib_sweeps": {"terms": len(terms), "disagreements": len(failing)}}
