(* Enter order (C02): the position of a doer's newest Enter event in the trace,
   lists sorted by it, the canonical (un-rotated) order of a deque, deletion of
   deeds, and: without extend() only the start family emits Enter events. *)
From Coq Require Import Sorting.Sorted.
From Hio Require Import Base.Prelude Base.AMap Base.Time Model.Sched Proofs.SchedEqs Proofs.SchedFrame Proofs.SchedLife
  Proofs.SchedDeque Proofs.SchedDequeHold Proofs.SchedDequeAll Proofs.SchedDequeEffects.

Section Epos.
Context {T : Type} `{Time T}.
Implicit Types s a b : st T.

(* ---------- enter position ---------- *)

Definition is_enter_of (j : id) (e : ev T) : bool :=
  match e_kind e with Enter => N.eqb (e_id e) j | _ => false end.

(* 1-based index, counted from the oldest event, of the newest Enter of j; 0 if none *)
Fixpoint epos_tr (tr : list (ev T)) (j : id) : nat :=
  match tr with
  | [] => 0
  | e :: older => if is_enter_of j e then S (length older) else epos_tr older j
  end.
Definition epos s (j : id) : nat := epos_tr (trace s) j.

Lemma epos_le tr j : (epos_tr tr j <= length tr)%nat.
Proof. induction tr as [|e tr IH]; cbn; [lia|]. destruct (is_enter_of j e); lia. Qed.

Lemma epos_app_noenter seg tr j :
  (forall e, In e seg -> is_enter_of j e = false) -> epos_tr (seg ++ tr) j = epos_tr tr j.
Proof.
  induction seg as [|e seg IH]; intro Hn; [reflexivity|]. cbn.
  rewrite (Hn e) by now left. apply IH. intros x Hx. apply Hn. now right.
Qed.

Lemma epos_app_enter seg tr j :
  (exists e, In e seg /\ is_enter_of j e = true) -> (epos_tr (seg ++ tr) j > length tr)%nat.
Proof.
  induction seg as [|e seg IH]; intros (x & Hin & Hx); [contradiction|]. cbn.
  destruct (is_enter_of j e) eqn:E; [rewrite app_length; lia|].
  apply IH. destruct Hin as [Heq|Hin]; [subst x; congruence|now exists x].
Qed.

(* ---------- sorted lists of ids ---------- *)

Definition srt (ord : id -> nat) (l : list id) : Prop := StronglySorted (fun x y => (ord x < ord y)%nat) l.

Lemma srt_app_iff ord l1 l2 :
  srt ord (l1 ++ l2) <-> srt ord l1 /\ srt ord l2 /\ (forall x y, In x l1 -> In y l2 -> (ord x < ord y)%nat).
Proof.
  unfold srt. induction l1 as [|z l1 IH]; cbn [app].
  - split; [intro S; split; [constructor|split; [exact S|intros x y []]]|intros (_ & S & _); exact S].
  - split.
    + intro S. inversion S as [|? ? S' F]; subst. apply IH in S'. destruct S' as (S1 & S2 & C).
      rewrite Forall_app in F. destruct F as [F1 F2]. split; [constructor; assumption|]. split; [exact S2|].
      intros x y [Hx|Hx] Hy; [subst x; rewrite Forall_forall in F2; now apply F2|now apply C].
    + intros (S1 & S2 & C). inversion S1 as [|? ? S1' F1]; subst. constructor.
      * apply IH. split; [exact S1'|]. split; [exact S2|]. intros x y Hx Hy. apply C; [now right|exact Hy].
      * rewrite Forall_app. split; [exact F1|]. apply Forall_forall. intros y Hy. apply C; [now left|exact Hy].
Qed.

Lemma srt_filter ord (q : id -> bool) l : srt ord l -> srt ord (filter q l).
Proof.
  unfold srt. induction 1 as [|x l S IH F]; cbn [filter]; [constructor|].
  destruct (q x); [|exact IH]. constructor; [exact IH|].
  rewrite Forall_forall in *. intros y Hy. apply filter_In in Hy. apply F. tauto.
Qed.

Lemma srt_ext ord ord' l : (forall x, In x l -> ord' x = ord x) -> srt ord l -> srt ord' l.
Proof.
  unfold srt. intros E S. induction S as [|x l S IH F]; [constructor|]. constructor.
  - apply IH. intros y Hy. apply E. now right.
  - rewrite Forall_forall in *. intros y Hy. rewrite (E x) by now left. rewrite (E y) by now right. now apply F.
Qed.

Lemma srt_snoc ord l x : srt ord l -> (forall y, In y l -> (ord y < ord x)%nat) -> srt ord (l ++ [x]).
Proof.
  intros S C. apply srt_app_iff. split; [exact S|]. split; [repeat constructor|].
  intros a b Ha [Hb|[]]. subst b. now apply C.
Qed.

(* ---------- marks, canonical order, deletion ---------- *)

Definition mf (ds : list (deed T)) : Prop := ~ In DMark ds.
Definition canon (ds : list (deed T)) : list id := dids (unrotate ds).

Lemma mf_app u r : mf (u ++ r) <-> mf u /\ mf r.
Proof. unfold mf. rewrite in_app_iff. tauto. Qed.

Lemma split_cases (ds : list (deed T)) : mf ds \/ exists u r, ds = u ++ DMark :: r /\ mf u.
Proof.
  induction ds as [|d ds IH]; [left; intros []|].
  destruct d as [|i re]; [right; exists [], ds; split; [reflexivity|intros []]|].
  destruct IH as [M|(u & r & -> & M)].
  - left. intros [E|Hin]; [discriminate|now apply M].
  - right. exists (DDeed i re :: u), r. split; [reflexivity|]. intros [E|Hin]; [discriminate|now apply M].
Qed.

Lemma split_mark_mf (ds acc : list (deed T)) : mf ds -> split_mark ds acc = None.
Proof.
  revert acc. induction ds as [|d ds IH]; intros acc M; [reflexivity|].
  destruct d as [|i re]; [exfalso; apply M; now left|]. cbn. apply IH. intro Hin. apply M. now right.
Qed.

Lemma unrotate_mf ds : mf ds -> unrotate ds = ds.
Proof. intro M. unfold unrotate. now rewrite split_mark_mf. Qed.

Lemma unrotate_mark u r : mf u -> unrotate (u ++ DMark :: r) = r ++ u.
Proof.
  intro M. unfold unrotate. pose proof (split_mark_app u r [] [] M) as E.
  rewrite !app_nil_r in E. cbn [rev app] in E. now rewrite E.
Qed.

Lemma canon_mf ds : mf ds -> canon ds = dids ds.
Proof. intro M. unfold canon. now rewrite unrotate_mf. Qed.
Lemma canon_mark u r : mf u -> canon (u ++ DMark :: r) = dids r ++ dids u.
Proof. intro M. unfold canon. now rewrite unrotate_mark, dids_app. Qed.

Definition keepf (q : id -> bool) (d : deed T) : bool := match d with DMark => true | DDeed i _ => q i end.
Definition delq (l' l : list (deed T)) : Prop := exists q, l' = filter (keepf q) l.

Lemma delq_refl l : delq l l.
Proof.
  exists (fun _ => true). induction l as [|d l IH]; [reflexivity|]. cbn [filter].
  destruct d; cbn [keepf]; now rewrite <- IH.
Qed.
Lemma delq_trans l1 l2 l3 : delq l2 l1 -> delq l3 l2 -> delq l3 l1.
Proof.
  intros [q1 E1] [q2 E2]. exists (fun i => q1 i && q2 i). subst.
  induction l1 as [|d l IH]; [reflexivity|]. cbn [filter].
  destruct d as [|i re]; cbn [keepf filter]; [now rewrite IH|].
  destruct (q1 i); cbn [andb filter keepf]; [destruct (q2 i); now rewrite IH|exact IH].
Qed.

Lemma dids_keepf q (l : list (deed T)) : dids (filter (keepf q) l) = filter q (dids l).
Proof.
  induction l as [|d l IH]; [reflexivity|]. cbn [filter]. destruct d as [|i re]; cbn [keepf].
  - change (DMark :: filter (keepf q) l) with ([DMark] ++ filter (keepf q) l).
    change (DMark :: l) with ([DMark] ++ l). rewrite !dids_app. cbn. exact IH.
  - change (DDeed i re :: l) with ([DDeed i re] ++ l). rewrite dids_app. cbn [dids flat_map app filter].
    destruct (q i); [|exact IH].
    change (DDeed i re :: filter (keepf q) l) with ([DDeed i re] ++ filter (keepf q) l). rewrite dids_app. cbn. now rewrite IH.
Qed.

Lemma mf_filter q (l : list (deed T)) : mf l -> mf (filter (keepf q) l).
Proof. unfold mf. intros M Hin. apply filter_In in Hin. tauto. Qed.

Lemma canon_keepf q ds : canon (filter (keepf q) ds) = filter q (canon ds).
Proof.
  destruct (split_cases ds) as [M|(u & r & -> & M)].
  - rewrite (canon_mf _ (mf_filter q ds M)), (canon_mf ds M). apply dids_keepf.
  - rewrite filter_app. cbn [filter keepf]. rewrite (canon_mark _ _ (mf_filter q u M)), (canon_mark u r M).
    now rewrite filter_app, !dids_keepf.
Qed.

(* ---------- without extend(), only the start family emits Enter ---------- *)

Definition noext (es : list effect) : Prop := Forall (fun e => match e with EExtend _ _ => False | _ => True end) es.
Definition XF (d : amap (fdef T)) : Prop :=
  get d 0%N = None /\ forall i k sc pc, get d i = Some (FLeaf k sc) -> noext (f_es (nth pc sc default_step)).

Variable tk : T.

Definition NEn a s : Prop := exists seg, trace s = seg ++ trace a /\ Forall (fun e : ev T => e_kind e <> Enter) seg.
Lemma nen_refl a : NEn a a. Proof. exists []. split; [reflexivity|constructor]. Qed.
Lemma nen_emit a s k i : k <> Enter -> NEn a s -> NEn a (emit s k i).
Proof.
  intros Hk (seg & Tr & F). exists ({| e_kind := k; e_id := i; e_tyme := tyme s |} :: seg). split.
  - cbn [trace emit]. now rewrite Tr.
  - constructor; [exact Hk|exact F].
Qed.
Lemma nen_same a s s' : trace s' = trace s -> NEn a s -> NEn a s'.
Proof. intros E (seg & Tr & F). exists seg. split; [congruence|exact F]. Qed.
Lemma nen_if a s1 s2 (c : bool) : NEn a s1 -> NEn a s2 -> NEn a (if c then s1 else s2). Proof. destruct c; auto. Qed.

Lemma nen_epos a s j : NEn a s -> epos s j = epos a j.
Proof.
  intros (seg & Tr & F). unfold epos. rewrite Tr. apply epos_app_noenter.
  intros e Hin. rewrite Forall_forall in F. specialize (F e Hin). unfold is_enter_of. destruct (e_kind e); congruence.
Qed.

Definition noenter_at (f : nat) : Prop :=
  (forall a s i k sc pc s' r, XF (defs s) -> get (defs s) i = Some (FLeaf k sc) -> NEn a s ->
                              run_step tk f s i k sc pc = (s', r) -> NEn a s') /\
  (forall a s i s' r, XF (defs s) -> NEn a s -> gen_send tk f s i = (s', r) -> NEn a s') /\
  (forall a s i, NEn a s -> NEn a (gen_close tk f s i)) /\
  (forall a s i, NEn a s -> NEn a (close_own tk f s i)) /\
  (forall a s ds, NEn a s -> NEn a (close_list tk f s ds)) /\
  (forall a s c es s' r, XF (defs s) -> noext es -> NEn a s -> run_effects tk f s c es = (s', r) -> NEn a s') /\
  (forall a s sid s' r, XF (defs s) -> NEn a s -> recur_pass tk f s sid = (s', r) -> NEn a s') /\
  (forall a s sid s' r, XF (defs s) -> NEn a s -> recur_loop tk f s sid = (s', r) -> NEn a s').

Lemma xf_step s s' : defs s' = defs s -> XF (defs s) -> XF (defs s').
Proof. intros E X. now rewrite E. Qed.

Lemma noenter_all : forall f, noenter_at f.
Proof.
  induction f as [|f IH].
  - unfold noenter_at. repeat match goal with |- _ /\ _ => split end; intros;
      try match goal with E : _ = (_, _) |- _ => cbn in E; inversion E; subst; clear E end; cbn;
      try (eapply nen_same; [|eassumption]; reflexivity).
  - destruct IH as (Irs & Isd & Icl & Ico & Ili & Ief & Irp & Irl).
    unfold noenter_at. repeat match goal with |- _ /\ _ => split end.
    + (* run_step *)
      intros a s i k sc pc s' r X D N E. rewrite run_step_S in E. cbv zeta in E.
      destruct (run_effects tk f s i _) as [s1 r0] eqn:Ee.
      assert (N1 : NEn a s1) by (eapply Ief; [exact X|exact (proj2 X i k sc pc D)|exact N|exact Ee]).
      destruct r0; [| |destruct kbd|]; cbv beta iota zeta in E; try (destruct (f_out _)); fin; try exact N1;
        repeat first [exact N1 | discriminate | apply nen_emit | (eapply nen_same; [reflexivity|])].
    + (* gen_send *)
      intros a s i s' r X N E. rewrite gen_send_S in E.
      destruct (get_gen s i) eqn:G; try (fin; exact N).
      destruct (get (defs s) i) as [[k sc|t0 al kids]|] eqn:D; [| |fin; exact N].
      * eapply Irs; [| | |exact E]; [exact X|exact D|]. apply nen_emit; [discriminate|]. eapply nen_same; [reflexivity|exact N].
      * cbv zeta in E. destruct (recur_pass tk f _ i) as [s2 r0] eqn:Ee.
        assert (N2 : NEn a s2).
        { eapply Irp; [| |exact Ee]; [exact X|]. apply nen_emit; [discriminate|]. eapply nen_same; [reflexivity|exact N]. }
        assert (Fin : forall s3, NEn a s3 -> NEn a (set_gen (emit (close_own tk f s3 i) Exit i) i GDone)).
        { intros s3 N3. eapply nen_same; [reflexivity|]. apply nen_emit; [discriminate|]. now apply Ico. }
        destruct r0; cbv beta iota zeta in E.
        -- match type of E with (if ?c then _ else _) = _ => destruct c end; fin.
           ++ apply Fin. apply nen_emit; [discriminate|]. eapply nen_same; [reflexivity|exact N2].
           ++ eapply nen_same; [reflexivity|exact N2].
        -- match type of E with (if ?c then _ else _) = _ => destruct c end; fin.
           ++ apply Fin. apply nen_emit; [discriminate|]. eapply nen_same; [reflexivity|exact N2].
           ++ eapply nen_same; [reflexivity|exact N2].
        -- fin. apply Fin. destruct kbd; [exact N2|apply nen_emit; [discriminate|exact N2]].
        -- fin. exact N2.
    + (* gen_close *)
      intros a s i N. rewrite gen_close_S. destruct (get_gen s i); try exact N.
      destruct (get (defs s) i) as [[k sc|t0 al kids]|]; [| |exact N].
      * eapply nen_same; [reflexivity|]. apply nen_emit; [discriminate|]. apply nen_emit; [discriminate|].
        eapply nen_same; [reflexivity|exact N].
      * cbv zeta. eapply nen_same; [reflexivity|]. apply nen_emit; [discriminate|]. apply Ico.
        apply nen_emit; [discriminate|]. eapply nen_same; [reflexivity|exact N].
    + intros a s i N. rewrite close_own_S. cbv zeta. apply Ili. eapply nen_same; [reflexivity|exact N].
    + intros a s ds N. rewrite close_list_S. destruct ds as [|[|i re] r]; [exact N|now apply Ili|]. apply Ili, Icl, N.
    + (* run_effects *)
      intros a s c es s' r X Ne N E. rewrite run_effects_S in E.
      destruct es as [|e rest]; [fin; exact N|].
      inversion Ne as [|e0 rest0 He Hrest]; subst.
      destruct (negb (live s match e with EExtend t _ => t | ERemove t _ => t end)); [eapply Ief; eassumption|].
      destruct e as [t news|t who]; [contradiction|]. cbv zeta in E.
      eapply Ief; [| | |exact E].
      * eapply xf_step; [|exact X].
        match goal with |- defs (emit ?x _ _) = _ => change (defs x = defs s) end.
        destruct (defs_all tk f) as (_ & _ & K & _). now rewrite K.
      * exact Hrest.
      * apply nen_emit; [discriminate|]. apply Ili. eapply nen_same; [reflexivity|exact N].
    + intros a s sid s' r X N E. rewrite recur_pass_S in E. cbv zeta in E.
      eapply Irl; [| |exact E]; [exact X|]. eapply nen_same; [reflexivity|exact N].
    + (* recur_loop *)
      intros a s sid s' r X N E. rewrite recur_loop_S in E.
      destruct (deeds (get_sched s sid)) as [|[|i re] rest]; [fin; exact N|fin; eapply nen_same; [reflexivity|exact N]|].
      cbv zeta in E. destruct (tleb re _).
      * destruct (gen_send tk f _ i) as [s2 g] eqn:Eg.
        assert (N2 : NEn a s2) by (eapply Isd; [| |exact Eg]; [exact X|eapply nen_same; [reflexivity|exact N]]).
        assert (X2 : XF (defs s2)).
        { eapply xf_step; [|exact X]. destruct (defs_all tk f) as (_ & K & _). now rewrite (K _ _ _ _ Eg). }
        destruct g; fin; try exact N2.
        -- eapply Irl; [| |exact E]; [exact X2|]. eapply nen_same; [reflexivity|exact N2].
        -- eapply Irl; [exact X2|exact N2|exact E].
      * eapply Irl; [| |exact E]; [exact X|]. eapply nen_same; [reflexivity|exact N].
Qed.

End Epos.
