#!/bin/bash
# tools/mutant.sh <patch.diff> <prop> [tier]  — run one check against a scratch copy of /repo with the
# patch applied; evidence and replays go to the scratch dir, which is removed afterwards.
# Prints the check's output; exit code is the check's.
set -u
PATCH="$(realpath "$1")"; PROP="$2"; TIER="${3:-quick}"
W="/var/tmp/hio-mut-$$"
mkdir -p "$W/repo" "$W/out"
cp -r /repo/src "$W/repo/src"
( cd "$W/repo" && patch -p1 -s < "$PATCH" ) || { echo "patch failed"; rm -rf "$W"; exit 3; }
VERIF_REPO="$W/repo" VERIF_OUT="$W/out" "$(dirname "$0")/../check" "$PROP" --tier "$TIER"
rc=$?
if [ -n "${KEEP_REPLAY:-}" ]; then cat "$W"/out/replays/*.json 2>/dev/null | head -${KEEP_REPLAY}; fi
rm -rf "$W"
exit $rc
